SPECIFICATION FairSpec
CONSTANTS
  NItems = 3
  NWorkers = 2
  FailAt = 0
  Bug_WorkerIgnoresDisconnect = FALSE
INVARIANTS
  AtMostOnce
  ExactlyOnceWhenOk
  ErrIsReducers
  OkUnlessFail
PROPERTY Terminates
CHECK_DEADLOCK FALSE
