SPECIFICATION FairSpec
CONSTANTS
  NItems = 4
  NWorkers = 3
  FailAt = 2
  Bug_NonAtomicClaim = FALSE
INVARIANTS
  AtMostOnce
  AllWhenNoError
  ErrorReported
PROPERTY Terminates
CHECK_DEADLOCK FALSE
