-------------------------------- MODULE Slice --------------------------------
(* C51, in_parallel_with_slice: NWorkers threads draw indices from one shared   *)
(* atomic counter (fetch_update: claim x if x < len), check the stop flag, and   *)
(* consume the item; a consume error (at item FailAt) sets the stop flag and is  *)
(* what the call returns.  Bug_NonAtomicClaim splits the claim into read and     *)
(* write (the mutant the self-test uses).                                        *)
EXTENDS Naturals, Sequences, FiniteSets, TLC
CONSTANTS NItems, NWorkers, FailAt, Bug_NonAtomicClaim
Workers == 1..NWorkers
(* --algorithm Slice {
variables index = 0, stop = FALSE, consumed = [i \in 1..NItems |-> 0], errs = {};
process (W \in Workers) variable mine = 0; {
 s1: while (TRUE) {
       if (Bug_NonAtomicClaim) {
         mine := index;
 s1b:    if (mine < NItems) { index := mine + 1; mine := mine + 1; } else { goto sdone; }
       } else {
         if (index < NItems) { index := index + 1; mine := index; } else { goto sdone; }
       };
 s2:   if (stop) { goto sdone; };
 s3:   consumed[mine] := consumed[mine] + 1;
       if (mine = FailAt) { stop := TRUE; errs := errs \cup {mine}; goto sdone; }
     };
 sdone: skip;
}
} *)
\* BEGIN TRANSLATION (chksum(pcal) = "a2506aef" /\ chksum(tla) = "93175db5")
VARIABLES pc, index, stop, consumed, errs, mine

vars == << pc, index, stop, consumed, errs, mine >>

ProcSet == (Workers)

Init == (* Global variables *)
        /\ index = 0
        /\ stop = FALSE
        /\ consumed = [i \in 1..NItems |-> 0]
        /\ errs = {}
        (* Process W *)
        /\ mine = [self \in Workers |-> 0]
        /\ pc = [self \in ProcSet |-> "s1"]

s1(self) == /\ pc[self] = "s1"
            /\ IF Bug_NonAtomicClaim
                  THEN /\ mine' = [mine EXCEPT ![self] = index]
                       /\ pc' = [pc EXCEPT ![self] = "s1b"]
                       /\ index' = index
                  ELSE /\ IF index < NItems
                             THEN /\ index' = index + 1
                                  /\ mine' = [mine EXCEPT ![self] = index']
                                  /\ pc' = [pc EXCEPT ![self] = "s2"]
                             ELSE /\ pc' = [pc EXCEPT ![self] = "sdone"]
                                  /\ UNCHANGED << index, mine >>
            /\ UNCHANGED << stop, consumed, errs >>

s2(self) == /\ pc[self] = "s2"
            /\ IF stop
                  THEN /\ pc' = [pc EXCEPT ![self] = "sdone"]
                  ELSE /\ pc' = [pc EXCEPT ![self] = "s3"]
            /\ UNCHANGED << index, stop, consumed, errs, mine >>

s3(self) == /\ pc[self] = "s3"
            /\ consumed' = [consumed EXCEPT ![mine[self]] = consumed[mine[self]] + 1]
            /\ IF mine[self] = FailAt
                  THEN /\ stop' = TRUE
                       /\ errs' = (errs \cup {mine[self]})
                       /\ pc' = [pc EXCEPT ![self] = "sdone"]
                  ELSE /\ pc' = [pc EXCEPT ![self] = "s1"]
                       /\ UNCHANGED << stop, errs >>
            /\ UNCHANGED << index, mine >>

s1b(self) == /\ pc[self] = "s1b"
             /\ IF mine[self] < NItems
                   THEN /\ index' = mine[self] + 1
                        /\ mine' = [mine EXCEPT ![self] = mine[self] + 1]
                        /\ pc' = [pc EXCEPT ![self] = "s2"]
                   ELSE /\ pc' = [pc EXCEPT ![self] = "sdone"]
                        /\ UNCHANGED << index, mine >>
             /\ UNCHANGED << stop, consumed, errs >>

sdone(self) == /\ pc[self] = "sdone"
               /\ TRUE
               /\ pc' = [pc EXCEPT ![self] = "Done"]
               /\ UNCHANGED << index, stop, consumed, errs, mine >>

W(self) == s1(self) \/ s2(self) \/ s3(self) \/ s1b(self) \/ sdone(self)

(* Allow infinite stuttering to prevent deadlock on termination. *)
Terminating == /\ \A self \in ProcSet: pc[self] = "Done"
               /\ UNCHANGED vars

Next == (\E self \in Workers: W(self))
           \/ Terminating

Spec == Init /\ [][Next]_vars

Termination == <>(\A self \in ProcSet: pc[self] = "Done")

\* END TRANSLATION 

AllDone == \A p \in Workers : pc[p] = "Done"
AtMostOnce == \A i \in 1..NItems : consumed[i] <= 1
AllWhenNoError == (AllDone /\ errs = {}) => \A i \in 1..NItems : consumed[i] = 1
ErrorReported == AllDone => (errs # {} <=> (FailAt \in 1..NItems /\ consumed[FailAt] = 1))
Terminates == <>AllDone
FairSpec == Spec /\ WF_vars(Next)
=============================================================================
