SPECIFICATION Spec
CONSTANTS
  N = 5
INVARIANTS
  InOrderLaw
  Emit
CHECK_DEADLOCK FALSE
