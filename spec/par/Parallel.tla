------------------------------ MODULE Parallel ------------------------------
(* C51.  gix_features::parallel::in_parallel as threads over two bounded       *)
(* channels: a feeder sends the input items, NWorkers consume them and send     *)
(* results, the calling thread reduces them.  Channel semantics are             *)
(* crossbeam's: send blocks while full and fails once every receiver is gone;   *)
(* receive blocks while empty and ends once every sender is gone.  The call     *)
(* returns only after all threads have ended (scoped threads).  FailAt = item   *)
(* at which the reducer fails (0 = never).                                      *)
EXTENDS Naturals, Sequences, FiniteSets, TLC
CONSTANTS NItems, NWorkers, FailAt, Bug_WorkerIgnoresDisconnect
Cap == NWorkers
Workers == 1..NWorkers

(* --algorithm Parallel {
variables next = 1, inq = <<>>, outq = <<>>, feederAlive = TRUE, workersAlive = Workers, reducerAlive = TRUE,
          consumed = [i \in 1..NItems |-> 0], reduced = {}, result = "running";

process (Feeder = 100) {
 f1: while (next <= NItems) {
       await Len(inq) < Cap \/ workersAlive = {};
       if (workersAlive = {}) { goto fdone; } else { inq := Append(inq, next); next := next + 1; }
     };
 fdone: feederAlive := FALSE;
}
process (W \in Workers) variable item = 0; {
 w1: while (TRUE) {
       await inq # <<>> \/ ~feederAlive;
       if (inq = <<>>) { goto wdone; } else { item := Head(inq); inq := Tail(inq); };
 w2:   consumed[item] := consumed[item] + 1;
 w3:   await Len(outq) < Cap \/ ~reducerAlive;
       if (~reducerAlive /\ ~Bug_WorkerIgnoresDisconnect) { goto wdone; }
       else if (Len(outq) < Cap) { outq := Append(outq, item); }
       else { goto w3; }
     };
 wdone: workersAlive := workersAlive \ {self};
}
process (Reducer = 200) variable r = 0; {
 r1: while (TRUE) {
       await outq # <<>> \/ workersAlive = {};
       if (outq = <<>>) { result := "ok"; goto rdone; } else { r := Head(outq); outq := Tail(outq); };
 r2:   if (r = FailAt) { result := "err"; goto rdone; } else { reduced := reduced \cup {r}; }
     };
 rdone: reducerAlive := FALSE;
}
} *)
\* BEGIN TRANSLATION (chksum(pcal) = "87c10dac" /\ chksum(tla) = "a4abac3d")
VARIABLES pc, next, inq, outq, feederAlive, workersAlive, reducerAlive, 
          consumed, reduced, result, item, r

vars == << pc, next, inq, outq, feederAlive, workersAlive, reducerAlive, 
           consumed, reduced, result, item, r >>

ProcSet == {100} \cup (Workers) \cup {200}

Init == (* Global variables *)
        /\ next = 1
        /\ inq = <<>>
        /\ outq = <<>>
        /\ feederAlive = TRUE
        /\ workersAlive = Workers
        /\ reducerAlive = TRUE
        /\ consumed = [i \in 1..NItems |-> 0]
        /\ reduced = {}
        /\ result = "running"
        (* Process W *)
        /\ item = [self \in Workers |-> 0]
        (* Process Reducer *)
        /\ r = 0
        /\ pc = [self \in ProcSet |-> CASE self = 100 -> "f1"
                                        [] self \in Workers -> "w1"
                                        [] self = 200 -> "r1"]

f1 == /\ pc[100] = "f1"
      /\ IF next <= NItems
            THEN /\ Len(inq) < Cap \/ workersAlive = {}
                 /\ IF workersAlive = {}
                       THEN /\ pc' = [pc EXCEPT ![100] = "fdone"]
                            /\ UNCHANGED << next, inq >>
                       ELSE /\ inq' = Append(inq, next)
                            /\ next' = next + 1
                            /\ pc' = [pc EXCEPT ![100] = "f1"]
            ELSE /\ pc' = [pc EXCEPT ![100] = "fdone"]
                 /\ UNCHANGED << next, inq >>
      /\ UNCHANGED << outq, feederAlive, workersAlive, reducerAlive, consumed, 
                      reduced, result, item, r >>

fdone == /\ pc[100] = "fdone"
         /\ feederAlive' = FALSE
         /\ pc' = [pc EXCEPT ![100] = "Done"]
         /\ UNCHANGED << next, inq, outq, workersAlive, reducerAlive, consumed, 
                         reduced, result, item, r >>

Feeder == f1 \/ fdone

w1(self) == /\ pc[self] = "w1"
            /\ inq # <<>> \/ ~feederAlive
            /\ IF inq = <<>>
                  THEN /\ pc' = [pc EXCEPT ![self] = "wdone"]
                       /\ UNCHANGED << inq, item >>
                  ELSE /\ item' = [item EXCEPT ![self] = Head(inq)]
                       /\ inq' = Tail(inq)
                       /\ pc' = [pc EXCEPT ![self] = "w2"]
            /\ UNCHANGED << next, outq, feederAlive, workersAlive, 
                            reducerAlive, consumed, reduced, result, r >>

w2(self) == /\ pc[self] = "w2"
            /\ consumed' = [consumed EXCEPT ![item[self]] = consumed[item[self]] + 1]
            /\ pc' = [pc EXCEPT ![self] = "w3"]
            /\ UNCHANGED << next, inq, outq, feederAlive, workersAlive, 
                            reducerAlive, reduced, result, item, r >>

w3(self) == /\ pc[self] = "w3"
            /\ Len(outq) < Cap \/ ~reducerAlive
            /\ IF ~reducerAlive /\ ~Bug_WorkerIgnoresDisconnect
                  THEN /\ pc' = [pc EXCEPT ![self] = "wdone"]
                       /\ outq' = outq
                  ELSE /\ IF Len(outq) < Cap
                             THEN /\ outq' = Append(outq, item[self])
                                  /\ pc' = [pc EXCEPT ![self] = "w1"]
                             ELSE /\ pc' = [pc EXCEPT ![self] = "w3"]
                                  /\ outq' = outq
            /\ UNCHANGED << next, inq, feederAlive, workersAlive, reducerAlive, 
                            consumed, reduced, result, item, r >>

wdone(self) == /\ pc[self] = "wdone"
               /\ workersAlive' = workersAlive \ {self}
               /\ pc' = [pc EXCEPT ![self] = "Done"]
               /\ UNCHANGED << next, inq, outq, feederAlive, reducerAlive, 
                               consumed, reduced, result, item, r >>

W(self) == w1(self) \/ w2(self) \/ w3(self) \/ wdone(self)

r1 == /\ pc[200] = "r1"
      /\ outq # <<>> \/ workersAlive = {}
      /\ IF outq = <<>>
            THEN /\ result' = "ok"
                 /\ pc' = [pc EXCEPT ![200] = "rdone"]
                 /\ UNCHANGED << outq, r >>
            ELSE /\ r' = Head(outq)
                 /\ outq' = Tail(outq)
                 /\ pc' = [pc EXCEPT ![200] = "r2"]
                 /\ UNCHANGED result
      /\ UNCHANGED << next, inq, feederAlive, workersAlive, reducerAlive, 
                      consumed, reduced, item >>

r2 == /\ pc[200] = "r2"
      /\ IF r = FailAt
            THEN /\ result' = "err"
                 /\ pc' = [pc EXCEPT ![200] = "rdone"]
                 /\ UNCHANGED reduced
            ELSE /\ reduced' = (reduced \cup {r})
                 /\ pc' = [pc EXCEPT ![200] = "r1"]
                 /\ UNCHANGED result
      /\ UNCHANGED << next, inq, outq, feederAlive, workersAlive, reducerAlive, 
                      consumed, item, r >>

rdone == /\ pc[200] = "rdone"
         /\ reducerAlive' = FALSE
         /\ pc' = [pc EXCEPT ![200] = "Done"]
         /\ UNCHANGED << next, inq, outq, feederAlive, workersAlive, consumed, 
                         reduced, result, item, r >>

Reducer == r1 \/ r2 \/ rdone

(* Allow infinite stuttering to prevent deadlock on termination. *)
Terminating == /\ \A self \in ProcSet: pc[self] = "Done"
               /\ UNCHANGED vars

Next == Feeder \/ Reducer
           \/ (\E self \in Workers: W(self))
           \/ Terminating

Spec == Init /\ [][Next]_vars

Termination == <>(\A self \in ProcSet: pc[self] = "Done")

\* END TRANSLATION 

AllDone == \A p \in {100, 200} \cup Workers : pc[p] = "Done"
\* no item is ever handed to two workers
AtMostOnce == \A i \in 1..NItems : consumed[i] <= 1
\* a successful call consumed and reduced every item exactly once
ExactlyOnceWhenOk == (AllDone /\ result = "ok") => (\A i \in 1..NItems : consumed[i] = 1) /\ reduced = 1..NItems
\* a reducer failure is what the call returns, and nothing is reduced after it
ErrIsReducers == (AllDone /\ result = "err") => FailAt \in 1..NItems /\ consumed[FailAt] = 1 /\ FailAt \notin reduced
OkUnlessFail == AllDone => (result = "ok" <=> FailAt \notin 1..NItems)
\* the call returns: every thread ends, on every schedule (no deadlock on any disconnect path)
Terminates == <>AllDone
FairSpec == Spec /\ WF_vars(Next)
=============================================================================
