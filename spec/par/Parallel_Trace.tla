---------------------------- MODULE Parallel_Trace ----------------------------
(* Binding B for C51: events of real runs of in_parallel / in_parallel_with_slice *)
(* / Stepwise, ordered by one shared atomic sequence number taken inside the      *)
(* closures.  Acceptor (what every behaviour of Parallel.tla / Slice.tla shows):  *)
(*   start(n, fail)   a run over items 1..n begins; fail = item at which the       *)
(*                    reducer/consumer fails (0 = none)                            *)
(*   consume(i)       item i is consumed: never twice                              *)
(*   reduce(i)        result i reaches the reducer: only after consume(i), once    *)
(*   ret(ok)          ok => every item consumed and (if reducing) reduced exactly  *)
(*                    once; err => fail was consumed (and reached the reducer)     *)
EXTENDS Naturals, Sequences, FiniteSets, TraceIO

VARIABLES l, n, fail, consumed, reduced, reducing
vars == <<l, n, fail, consumed, reduced, reducing>>
Init == l = 1 /\ n = 0 /\ fail = 0 /\ consumed = {} /\ reduced = {} /\ reducing = FALSE
Start == /\ Rec[l].ev = "start" /\ n' = Rec[l].n /\ fail' = Rec[l].fail /\ reducing' = Rec[l].reducing
         /\ consumed' = {} /\ reduced' = {}
Consume == /\ Rec[l].ev = "consume" /\ Rec[l].i \in 1..n /\ Rec[l].i \notin consumed
           /\ consumed' = consumed \cup {Rec[l].i} /\ UNCHANGED <<n, fail, reduced, reducing>>
Reduce == /\ Rec[l].ev = "reduce" /\ Rec[l].i \in consumed /\ Rec[l].i \notin reduced
          /\ reduced' = reduced \cup {Rec[l].i} /\ UNCHANGED <<n, fail, consumed, reducing>>
Ret == /\ Rec[l].ev = "ret"
       /\ IF Rec[l].ok
          THEN fail \notin 1..n /\ consumed = 1..n /\ (reducing => reduced = 1..n)
          ELSE fail \in consumed /\ (reducing => fail \in reduced)
       /\ UNCHANGED <<n, fail, consumed, reduced, reducing>>
Next == l <= NRec /\ l' = l + 1 /\ (Start \/ Consume \/ Reduce \/ Ret)
Spec == Init /\ [][Next]_vars
=============================================================================
