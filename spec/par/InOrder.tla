------------------------------- MODULE InOrder -------------------------------
(* C51, order-restoring iterator: results arrive tagged with their sequence    *)
(* number in any order; `next()` returns them in sequence order.  Run is the    *)
(* transcription of InOrderIter::next called until it returns None.             *)
EXTENDS Naturals, Sequences, FiniteSets, TLC, Json

\* one call of next(): state [rest (arrivals not yet read), store (set of ids), nextId], returns [out (id or -1...), state]
RECURSIVE NextCall(_, _, _)
NextCall(rest, store, nextId) ==
  IF rest = <<>>
  THEN IF nextId \in store THEN [out |-> nextId, some |-> TRUE, rest |-> rest, store |-> store \ {nextId}, nextId |-> nextId + 1]
       ELSE [out |-> 0, some |-> FALSE, rest |-> rest, store |-> store, nextId |-> nextId]
  ELSE LET c == Head(rest) IN
       IF c = nextId THEN [out |-> c, some |-> TRUE, rest |-> Tail(rest), store |-> store, nextId |-> nextId + 1]
       ELSE LET s2 == store \cup {c} IN
            IF nextId \in s2 THEN [out |-> nextId, some |-> TRUE, rest |-> Tail(rest), store |-> s2 \ {nextId}, nextId |-> nextId + 1]
            ELSE NextCall(Tail(rest), s2, nextId)

RECURSIVE Drain(_, _, _, _)
Drain(rest, store, nextId, acc) ==
  LET r == NextCall(rest, store, nextId) IN
  IF r.some THEN Drain(r.rest, r.store, r.nextId, Append(acc, r.out)) ELSE [out |-> acc, leftover |-> r.store]
Run(arrival) == Drain(arrival, {}, 0, <<>>)

CONSTANT N
Perms == { p \in [1..N -> 0..(N - 1)] : \A i, j \in 1..N : i # j => p[i] # p[j] }
VARIABLES perm, done
Init == perm \in Perms /\ done = FALSE
Next == ~done /\ done' = TRUE /\ UNCHANGED perm
Spec == Init /\ [][Next]_<<perm, done>>
\* for every arrival order the output is 0,1,2,.. and nothing stays in the reorder buffer
InOrderLaw == LET r == Run(perm) IN r.out = [i \in 1..N |-> i - 1] /\ r.leftover = {}
Emit == done => PrintT(<<"CASE", ToJson([op |-> "inorder", arrival |-> perm, out |-> Run(perm).out])>>)
=============================================================================
