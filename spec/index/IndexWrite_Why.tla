---------------------------- MODULE IndexWrite_Why ----------------------------
(* Names what is wrong with the events IndexWrite_Trace rejected (labels).    *)
EXTENDS IndexWrite_Trace, Json
EmitWhy2 == l <= NRec => PrintT(<<"WHY", ToJson([i |-> l, why |-> Why2(Rec[l])])>>)
=============================================================================
