-------------------------- MODULE IndexFormat_Trace --------------------------
(* Binding B for C24: TLC as reference reader.  One event per index file git  *)
(* wrote:  [bytes, states : the distinct states gix_index::State::from_bytes  *)
(* produced over all thread limits, failed : some thread limit gave an error] *)
(* Accepted iff the specification can read the file and every state is what   *)
(* it reads - hence also the same for every thread limit.                     *)
EXTENDS IndexFormat, TraceIO

VARIABLE l
Init == l = 1
Next == l <= NRec /\ l' = l + 1
Spec == Init /\ [][Next]_l

\* the implementation exposes a stat/oid pair only if the oid is not null
OidStatAbs(o) == IF o.id = NullId THEN [stat |-> NoStat, id |-> <<>>] ELSE o
UntrAbs(u) == IF ~u.present THEN u
              ELSE [present |-> TRUE,
                    cache |-> [u.cache EXCEPT !.info_exclude = OidStatAbs(@), !.excludes_file = OidStatAbs(@)]]

EntriesEq(got, want) ==
  /\ Len(got) = Len(want)
  /\ \A i \in 1..Len(want) : /\ [f \in DOMAIN want[i] |-> got[i][f]] = want[i]
                             /\ got[i].other_flags = 0

\* names of the parts of the decoded state that differ from the reference
Diff(s, d) ==
  (IF s.version # d.version THEN {"version"} ELSE {})
  \cup (IF ~EntriesEq(s.entries, d.entries) THEN {"entries"} ELSE {})
  \cup (IF s.sparse # d.sparse THEN {"sparse"} ELSE {})
  \cup (IF ~TreeExtEq(s.tree, d.tree) THEN {"tree"} ELSE {})
  \cup (IF s.reuc # d.reuc THEN {"reuc"} ELSE {})
  \cup (IF s.untr # UntrAbs(d.untr) THEN {"untr"} ELSE {})
  \cup (IF s.eoie # d.eoie THEN {"eoie"} ELSE {})
  \cup (IF s.ieot # (d.ieot # <<>>) THEN {"ieot"} ELSE {})
  \cup (IF s.link # d.link THEN {"link"} ELSE {})

\* the threaded reader of the design reads what the sequential one reads (checked on the real bytes)
StitchOk(b, d) == d.ieot # <<>> => \A n \in 1..16 : Stitch(b, d.version, d.ieot, n) = d.entries

Judge(r) ==
  LET d == Decode(r.bytes) IN
  /\ d.ok
  /\ StitchOk(r.bytes, d)
  /\ ~r.failed
  /\ \A i \in 1..Len(r.states) : Diff(r.states[i], d) = {}

EventOk == l <= NRec => (Judge(Rec[l]) \/ PrintT(<<"REJECT", l>>))
=============================================================================
