SPECIFICATION Spec
CONSTANTS
  Bug_ExtStatSwap = FALSE
INVARIANT EventOk2
CHECK_DEADLOCK FALSE
