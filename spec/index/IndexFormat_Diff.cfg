SPECIFICATION Spec
CONSTANTS
  Bug_ExtStatSwap = FALSE
INVARIANT EmitWhy
CHECK_DEADLOCK FALSE
