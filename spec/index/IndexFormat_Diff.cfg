SPECIFICATION Spec
CONSTANT Bug_ExtStatSwap = FALSE
INVARIANT EmitWhy
CHECK_DEADLOCK FALSE
