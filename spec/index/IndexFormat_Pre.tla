--------------------------- MODULE IndexFormat_Pre ---------------------------
(* Pass 1 for files with an EOIE extension: prints what its hash has to cover *)
(* (signature and size of the preceding extensions), so that the driver can   *)
(* obtain the SHA-1 from hashlib and hand it to the judging run as data.      *)
EXTENDS IndexFormat, TraceIO, Json

VARIABLE l
Init == l = 1
Next == l <= NRec /\ l' = l + 1
Spec == Init /\ [][Next]_l

EmitPre == l <= NRec => PrintT(<<"PRE", ToJson([i |-> l, pre |-> Decode(Rec[l].bytes).eoie_pre])>>)
=============================================================================
