--------------------------- MODULE IndexFormat_Diff ---------------------------
(* Names what differs for the events IndexFormat_Trace rejected (labels).     *)
EXTENDS IndexFormat_Trace, Json

Why(r) ==
  LET d == Decode(r.bytes) IN
  IF ~d.ok THEN {"spec-cannot-read"}
  ELSE IF ~StitchOk(r.bytes, d) THEN {"spec-stitch"}
  ELSE (IF r.failed THEN {"decode-error"} ELSE {})
       \cup UNION {Diff(r.states[i], d) : i \in 1..Len(r.states)}
       \cup (IF Len(r.states) > 1 THEN {"thread-dependent"} ELSE {})

EmitWhy == l <= NRec => PrintT(<<"WHY", ToJson([i |-> l, why |-> Why(Rec[l])])>>)
=============================================================================
