SPECIFICATION Spec
CONSTANTS
  Bug_ExtStatSwap = FALSE
INVARIANT EventOk
CHECK_DEADLOCK FALSE
