---------------------------- MODULE IndexFormat_MC ----------------------------
(* Design-level check of the threaded reader's chunking (decode/mod.rs deals  *)
(* the IEOT blocks out in chunks of ceil(blocks / threads)): for every number *)
(* of blocks and every thread count 1..16 the chunks are non-empty, at most   *)
(* as many as there are threads, and stitched in order they are the blocks.   *)
EXTENDS IndexFormat
CONSTANT MaxBlocks

VARIABLE len
Init == len \in 0..MaxBlocks
Next == UNCHANGED len
Spec == Init /\ [][Next]_len

Blocks == [i \in 1..len |-> i]
InvStitch == \A n \in 1..16 :
  LET c == Chunks(Blocks, n) IN
  /\ FlatSeq(c) = Blocks
  /\ Len(c) <= n
  /\ \A k \in 1..Len(c) : c[k] # <<>>
=============================================================================
