SPECIFICATION Spec
CONSTANTS
  MaxBlocks = 64
  Bug_ExtStatSwap = FALSE
INVARIANT InvStitch
CHECK_DEADLOCK FALSE
