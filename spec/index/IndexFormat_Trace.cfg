SPECIFICATION Spec
CONSTANT Bug_ExtStatSwap = FALSE
INVARIANT EventOk
CHECK_DEADLOCK FALSE
