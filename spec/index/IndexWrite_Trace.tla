--------------------------- MODULE IndexWrite_Trace ---------------------------
(* Binding B for C25: every file gix_index wrote is read by the reference     *)
(* reader.  One event:                                                        *)
(*   [out : bytes written, expect : [version, entries, tree, eoie (allowed)], *)
(*    reread : the state gix read back from `out`, reread_failed,             *)
(*    version_ret, checksum : what write_to returned,                         *)
(*    sha_body : SHA-1 of out without its last 20 bytes (hashlib),            *)
(*    check_eoie, eoie_pre, eoie_sha : what the EOIE hash covers for the      *)
(*                         expected state                                    *)
(*                         (rendered by the spec) and its SHA-1 (hashlib)]    *)
EXTENDS IndexFormat_Trace

\* the writer emits version 2 or 3, and 3 whenever an entry carries extended flags (git reads a version 3
\* file without such entries just as well, so the minimal version is not demanded)
VersionOk(r, d) == /\ d.version \in {2, 3}
                   /\ ((\E i \in 1..Len(r.expect.entries) : r.expect.entries[i].extended) => d.version = 3)
                   /\ r.version_ret = d.version

Why2(r) ==
  LET d == Decode(r.out) IN
  IF ~d.ok THEN {"layout"}
  ELSE (IF d.trailer # r.sha_body \/ r.checksum # r.sha_body THEN {"checksum"} ELSE {})
       \cup (IF ~VersionOk(r, d) THEN {"version"} ELSE {})
       \cup (IF d.entries # r.expect.entries THEN {"entries"} ELSE {})
       \cup (IF ~TreeExtEq(d.tree, r.expect.tree) THEN {"tree"} ELSE {})
       \cup (IF d.sparse # r.expect.sdir THEN {"sparse"} ELSE {})
       \cup (IF \E i \in 1..Len(d.exts) : d.exts[i] \notin {SigTREE, SigEOIE, SigSDIR} THEN {"unexpected-extension"} ELSE {})
       \cup (IF d.eoie /\ ~r.expect.eoie THEN {"eoie-unwanted"} ELSE {})
       \cup (IF d.eoie /\ r.check_eoie /\ (d.eoie_pre # r.eoie_pre \/ d.eoie_hash # r.eoie_sha) THEN {"eoie-hash"} ELSE {})
       \cup (IF r.reread_failed THEN {"reread-error"} ELSE {x \o "-reread" : x \in Diff(r.reread, d)})

Judge2(r) == Why2(r) = {}
EventOk2 == l <= NRec => (Judge2(Rec[l]) \/ PrintT(<<"REJECT", l>>))
=============================================================================
