---------------------------- MODULE IndexWrite_Gen ----------------------------
(* Binding A for C25: abstract index states, rendered by the specification as *)
(* the input file the executor loads, the mutations it applies through the    *)
(* State API, and the state any correct writer must leave in the file.        *)
(*  Family "flags": <= 3 short paths x entry kinds (plain, assume-valid,      *)
(*      skip-worktree, intent-to-add, three conflict stages) x tree cache     *)
(*      (absent / valid / invalidated) x input version (2|3, 4) x mutation.   *)
(*  Family "paths": one or two entries with path lengths around the padding   *)
(*      and 0xfff boundaries.                                                 *)
EXTENDS IndexFormat, Json
CONSTANTS Family, MaxPaths, PathVersions,
          AllOps,        \* FALSE: only the unmutated states (C24 uses the rendered files as decoder inputs)
          TreeShapes     \* 2 or 3 shapes of the tree cache per state

Q(n) == Enc32(n)
Id(k) == [i \in 1..20 |-> (k * 7 + i) % 256]
Plain(path, k, stage) ==
  [ctime |-> Q(1000 + k), ctime_ns |-> Q(5 + k), mtime |-> Q(2000 + k), mtime_ns |-> Q(7), dev |-> Q(64768), ino |-> Q(300 + k),
   mode |-> <<0, 0, 129, 164>>, uid |-> Q(1000), gid |-> Q(100), size |-> Q(10 * k), id |-> Id(k + stage),
   stage |-> stage, assume_valid |-> FALSE, extended |-> FALSE, intent_to_add |-> FALSE, skip_worktree |-> FALSE, path |-> path]

Kinds == {"plain", "av", "skipwt", "ita", "conflict"}
EntriesOf(path, k, kind) ==
  CASE kind = "plain"    -> <<Plain(path, k, 0)>>
    [] kind = "av"       -> <<[Plain(path, k, 0) EXCEPT !.assume_valid = TRUE]>>
    [] kind = "skipwt"   -> <<[Plain(path, k, 0) EXCEPT !.extended = TRUE, !.skip_worktree = TRUE]>>
    [] kind = "ita"      -> <<[Plain(path, k, 0) EXCEPT !.extended = TRUE, !.intent_to_add = TRUE, !.size = Q(0)]>>
    [] kind = "conflict" -> <<Plain(path, k, 1), Plain(path, k, 2), Plain(path, k, 3)>>

X(n) == [i \in 1..n |-> 120]
ShortPaths == << <<97>>, <<97, 98>>, <<97, 98, 99, 47, 100>> >>              \* a  ab  abc/d   (ascending)
LongPaths == << <<76>> \o X(4093), <<76>> \o X(4094), <<76>> \o X(4095), <<76>> \o X(4096) >>   \* 4094 .. 4097 bytes
PadPaths == << <<80>> \o X(0), <<80>> \o X(1), <<80>> \o X(6), <<80>> \o X(7), <<80>> \o X(8) >>   \* 1 2 7 8 9 bytes

Root(n, valid, kids) == [name |-> <<>>, num |-> IF valid THEN n ELSE 0 - 1, id |-> IF valid THEN Id(200) ELSE <<>>, children |-> kids]
Child == [name |-> <<97, 98, 99>>, num |-> 1, id |-> Id(201), children |-> <<>>]
Trees(n) == { Absent, [present |-> TRUE, root |-> Root(n, FALSE, <<Child>>)] }
            \cup (IF TreeShapes >= 3 THEN { [present |-> TRUE, root |-> Root(n, TRUE, <<>>)] } ELSE {})

VARIABLES st, op, done
vars == <<st, op, done>>

\* choices of kinds for the first m short paths
FlagStates ==
  UNION { { [version |-> v, tree |-> t, sdir |-> FALSE, eoie |-> e,
             entries |-> FlatSeq([i \in 1..m |-> EntriesOf(ShortPaths[i], i, ks[i])])] :
              ks \in [1..m -> Kinds], v \in {2, 4}, t \in Trees(m), e \in {FALSE} } : m \in 0..MaxPaths }
PathStates ==
  { [version |-> v, tree |-> Absent, sdir |-> FALSE, eoie |-> FALSE, entries |-> EntriesOf(p, 1, k)] :
      p \in {LongPaths[i] : i \in 1..4} \cup {PadPaths[i] : i \in 1..5}, v \in PathVersions, k \in {"plain", "skipwt"} }
  \cup { [version |-> v, tree |-> Absent, sdir |-> FALSE, eoie |-> FALSE,
          entries |-> EntriesOf(LongPaths[i], 1, "plain") \o EntriesOf(LongPaths[j], 2, "av")] :
      v \in PathVersions, i \in {1, 2}, j \in {3, 4} }
\* the version the file has to carry: 3 iff an entry has extended flags (4 is kept for rendering the input)
InVersion(s) == IF s.version = 4 THEN 4 ELSE IF \E i \in 1..Len(s.entries) : s.entries[i].extended THEN 3 ELSE 2
States == { [s EXCEPT !.version = InVersion(s)] : s \in (IF Family = "flags" THEN FlagStates ELSE PathStates) }

\* mutations through the State API before writing
\*   none | remove k (flag REMOVE on entry k) | ita k (flag INTENT_TO_ADD on entry k, *without* touching EXTENDED)
\*   skip k (flags EXTENDED|SKIP_WORKTREE on entry k)
Ops(s) == IF ~AllOps THEN {[kind |-> "none", k |-> 0]} ELSE
          {[kind |-> "none", k |-> 0]}
          \cup (IF Len(s.entries) > 0 THEN {[kind |-> "remove", k |-> 1], [kind |-> "remove", k |-> Len(s.entries)],
                                             [kind |-> "skip", k |-> 1]} ELSE {})
          \cup {[kind |-> "ita", k |-> i] : i \in {j \in 1..Len(s.entries) : j = 1 /\ ~s.entries[j].extended}}

Init == st \in States /\ op \in Ops(st) /\ done = FALSE
Finish == ~done /\ done' = TRUE /\ UNCHANGED <<st, op>>
Spec == Init /\ [][Finish]_vars

\* the state in memory after the mutation
Mutated(es, o) ==
  IF o.kind = "remove" THEN SubSeq(es, 1, o.k - 1) \o SubSeq(es, o.k + 1, Len(es))
  ELSE IF o.kind = "ita" THEN [es EXCEPT ![o.k].intent_to_add = TRUE, ![o.k].extended = TRUE]
  ELSE IF o.kind = "skip" THEN [es EXCEPT ![o.k].skip_worktree = TRUE, ![o.k].extended = TRUE]
  ELSE es

\* what has to be in the written file, per extension option
WriteOpts == {"all", "none", "tree", "eoie"}
Expect(o) ==
  LET es == Mutated(st.entries, op)
      tree == IF o \in {"all", "tree"} THEN st.tree ELSE Absent
  IN [version |-> IF \E i \in 1..Len(es) : es[i].extended THEN 3 ELSE 2,
      entries |-> es,
      tree |-> tree,
      sdir |-> FALSE,
      \* EOIE is optional: it may only appear if asked for, and then has to be valid (judged by the trace module)
      eoie |-> o \in {"all", "eoie"}]

\* spec-internal sanity: the reader reads what the renderer renders (placeholders are not interpreted)
InvRoundTrip ==
  LET d == Decode(Render(st)) IN
  /\ d.ok /\ d.version = st.version /\ d.entries = st.entries /\ TreeExtEq(d.tree, st.tree) /\ d.eoie = st.eoie
  /\ (st.eoie => d.eoie_pre = EoiePre(st))
InvPadding == st.version # 4 => \A i \in 1..Len(st.entries) : Len(RenderEntry(st.entries[i], st.version, <<>>)) % 8 = 0

Emit == done =>
  PrintT(<<"CASE", ToJson([input |-> Render(st), input_eoie_pre |-> EoiePre(st), op |-> op,
                           family |-> Family, state_entries |-> st.entries,
                           in_entries |-> Len(st.entries),
                           outs |-> [o \in WriteOpts |-> [expect |-> Expect(o), eoie_pre |-> EoiePre([Expect(o) EXCEPT !.sdir = FALSE])]]])>>)
=============================================================================
