----------------------------- MODULE IndexFormat -----------------------------
(* C24 / C25.  Byte-level reference reader and renderer of git's index file   *)
(* format (Documentation/gitformat-index.txt, read-cache.c of git 2.39):      *)
(*   header  "DIRC" version(2|3|4) count                                       *)
(*   entries 40 bytes stat data, 20 bytes id, 16 bit flags, [16 bit extended   *)
(*           flags], path; v2/v3: path + 1..8 NUL so that the entry length is  *)
(*           a multiple of 8; v4: varint strip count + NUL terminated suffix   *)
(*           relative to the previous path (reset at IEOT block boundaries)    *)
(*   extensions  signature(4) size(4) data: TREE, REUC, UNTR (with EWAH        *)
(*           bitmaps), EOIE, IEOT, sdir; anything else is skipped if its       *)
(*           signature starts with an upper-case letter                        *)
(*   trailer 20 bytes SHA-1 of everything before it                            *)
(* SHA-1 is uninterpreted: the values arrive as data (Python hashlib).         *)
(* 32-bit quantities that are only compared (times, dev, ino, ...) stay        *)
(* 4-byte sequences ("quads"); lengths and offsets are TLC integers.           *)
EXTENDS Bytes, TLC

CONSTANT Bug_ExtStatSwap    \* stat blocks of extensions read as mtime-then-ctime (the slip of decode::stat at the pinned commit)

Quad(b, p) == SubSeq(b, p, p + 3)
U16(b, p) == b[p] * 256 + b[p + 1]
\* offsets/sizes: the files judged here are far below 2^31 bytes
U32(b, p) == ((b[p] * 256 + b[p + 1]) * 256 + b[p + 2]) * 256 + b[p + 3]
Small32(b, p) == b[p] < 128

NextByte(b, x, p) == LET k == {j \in p..Len(b) : b[j] = x} IN
                     IF k = {} THEN 0 ELSE CHOOSE j \in k : \A j2 \in k : j <= j2

RECURSIVE DecValFrom(_, _, _)
DecValFrom(s, i, acc) == IF i > Len(s) THEN acc ELSE DecValFrom(s, i + 1, acc * 10 + (s[i] - 48))
\* "-1" or a decimal number
AsciiInt(s) == IF s # <<>> /\ s[1] = 45 THEN 0 - DecValFrom(s, 2, 0) ELSE DecValFrom(s, 1, 0)
RECURSIVE OctValFrom(_, _, _)
OctValFrom(s, i, acc) == IF i > Len(s) THEN acc ELSE OctValFrom(s, i + 1, acc * 8 + (s[i] - 48))
OctVal(s) == OctValFrom(s, 1, 0)

\* git's varint (varint.c): [val, next]
RECURSIVE VarCont(_, _, _, _)
VarCont(b, p, val, more) ==
  IF ~more THEN [val |-> val, next |-> p]
  ELSE VarCont(b, p + 1, (val + 1) * 128 + (b[p] % 128), b[p] >= 128)
Varint(b, p) == VarCont(b, p + 1, b[p] % 128, b[p] >= 128)

-----------------------------------------------------------------------------
(* entries *)
HeaderSize == 12
DIRC == <<68, 73, 82, 67>>

EXTENDED == 16384          \* 0x4000 in the 16 bit flags
ASSUME_VALID == 32768
INTENT_TO_ADD == 8192      \* 1 << 13 in the extended flags
SKIP_WORKTREE == 16384     \* 1 << 14 in the extended flags
DirMode == <<0, 0, 64, 0>> \* 040000: a sparse directory entry

HasBit(v, bit) == (v \div bit) % 2 = 1

\* One entry starting at index p.  prev = previous path (v4), ignorePrev = first entry of an IEOT block.
\* Result: [e : abstract entry, next : index after the entry, ok : well-formed]
EntryAt(b, p, version, prev, ignorePrev) ==
  LET flags == U16(b, p + 60)
      ext == HasBit(flags, EXTENDED)
      xflags == IF ext THEN U16(b, p + 62) ELSE 0
      ps == IF ext THEN p + 64 ELSE p + 62          \* start of the path field
      namelen == flags % 4096
      base == [ctime |-> Quad(b, p), ctime_ns |-> Quad(b, p + 4), mtime |-> Quad(b, p + 8), mtime_ns |-> Quad(b, p + 12),
               dev |-> Quad(b, p + 16), ino |-> Quad(b, p + 20), mode |-> Quad(b, p + 24), uid |-> Quad(b, p + 28),
               gid |-> Quad(b, p + 32), size |-> Quad(b, p + 36), id |-> SubSeq(b, p + 40, p + 59),
               stage |-> (flags \div 4096) % 4, assume_valid |-> HasBit(flags, ASSUME_VALID), extended |-> ext,
               intent_to_add |-> HasBit(xflags, INTENT_TO_ADD), skip_worktree |-> HasBit(xflags, SKIP_WORKTREE)]
  IN IF version = 4
     THEN LET v == Varint(b, ps)
              nul == NextByte(b, 0, v.next)
              keep == IF ignorePrev THEN 0 ELSE Len(prev) - v.val
              path == SubSeq(prev, 1, keep) \o SubSeq(b, v.next, nul - 1)
          IN [e |-> base @@ [path |-> path], next |-> nul + 1,
              ok |-> nul # 0 /\ keep >= 0 /\ (ext => version >= 3) /\ (namelen = Min2(Len(path), 4095))
                     /\ (xflags % 8192 = 0) /\ xflags < 32768]
     ELSE LET nul == IF namelen < 4095 THEN ps + namelen ELSE NextByte(b, 0, ps)
              path == SubSeq(b, ps, nul - 1)
              len == (((nul - p) + 8) \div 8) * 8          \* (offsetof(path) + len + 8) & ~7
          IN [e |-> base @@ [path |-> path], next |-> p + len,
              ok |-> nul # 0 /\ (\A k \in nul..(p + len - 1) : b[k] = 0) /\ (ext => version >= 3)
                     /\ (namelen = Min2(Len(path), 4095)) /\ (xflags % 8192 = 0) /\ xflags < 32768
                     /\ ~HasByte(path, 0)]

\* n entries from p on; starts = set of indices where an IEOT block begins (prefix state reset)
RECURSIVE EntriesFrom(_, _, _, _, _, _, _)
EntriesFrom(b, p, n, version, prev, starts, acc) ==
  IF n = 0 THEN [entries |-> acc.entries, next |-> p, ok |-> acc.ok]
  ELSE IF p + 62 > Len(b) THEN [entries |-> acc.entries, next |-> p, ok |-> FALSE]
  ELSE LET r == EntryAt(b, p, version, prev, p \in starts) IN
       EntriesFrom(b, r.next, n - 1, version, r.e.path, starts,
                   [entries |-> Append(acc.entries, r.e), ok |-> acc.ok /\ r.ok])

-----------------------------------------------------------------------------
(* extensions *)
SigTREE == <<84, 82, 69, 69>>   SigREUC == <<82, 69, 85, 67>>   SigUNTR == <<85, 78, 84, 82>>
SigEOIE == <<69, 79, 73, 69>>   SigIEOT == <<73, 69, 79, 84>>   SigSDIR == <<115, 100, 105, 114>>
SigLINK == <<108, 105, 110, 107>>   SigFSMN == <<70, 83, 77, 78>>

\* the extension blocks between index p and the trailer: sequence of [sig, from, to] (data = b[from..to])
RECURSIVE ExtBlocks(_, _, _, _)
ExtBlocks(b, p, end, acc) ==
  IF p + 7 > end THEN [blocks |-> acc, next |-> p, ok |-> p = end + 1]
  ELSE LET size == U32(b, p + 4) IN
       IF ~Small32(b, p + 4) \/ p + 8 + size - 1 > end THEN [blocks |-> acc, next |-> p, ok |-> FALSE]
       ELSE ExtBlocks(b, p + 8 + size, end, Append(acc, [sig |-> SubSeq(b, p, p + 3), from |-> p + 8, to |-> p + 8 + size - 1]))

\* TREE: name NUL count SP subtrees LF [id] children...   ->  [node, next]
RECURSIVE TreeAt(_, _)
RECURSIVE TreeChildren(_, _, _, _)
TreeChildren(b, p, n, acc) ==
  IF n = 0 THEN [children |-> acc, next |-> p]
  ELSE LET r == TreeAt(b, p) IN TreeChildren(b, r.next, n - 1, Append(acc, r.node))
TreeAt(b, p) ==
  LET nul == NextByte(b, 0, p)
      sp == NextByte(b, 32, nul + 1)
      lf == NextByte(b, 10, sp + 1)
      num == AsciiInt(SubSeq(b, nul + 1, sp - 1))
      nsub == AsciiInt(SubSeq(b, sp + 1, lf - 1))
      idend == IF num >= 0 THEN lf + 20 ELSE lf
      kids == TreeChildren(b, idend + 1, nsub, <<>>)
  IN [node |-> [name |-> SubSeq(b, p, nul - 1), num |-> IF num >= 0 THEN num ELSE 0 - 1,
                id |-> IF num >= 0 THEN SubSeq(b, lf + 1, lf + 20) ELSE <<>>, children |-> kids.children],
      next |-> kids.next]

\* REUC: path NUL mode1 NUL mode2 NUL mode3 NUL, ids of the stages with a non-zero mode
RECURSIVE ReucFrom(_, _, _, _)
ReucFrom(b, p, end, acc) ==
  IF p > end THEN acc
  ELSE LET n0 == NextByte(b, 0, p)
           n1 == NextByte(b, 0, n0 + 1)
           n2 == NextByte(b, 0, n1 + 1)
           n3 == NextByte(b, 0, n2 + 1)
           m == <<OctVal(SubSeq(b, n0 + 1, n1 - 1)), OctVal(SubSeq(b, n1 + 1, n2 - 1)), OctVal(SubSeq(b, n2 + 1, n3 - 1))>>
           i1 == n3 + 1
           i2 == IF m[1] # 0 THEN i1 + 20 ELSE i1
           i3 == IF m[2] # 0 THEN i2 + 20 ELSE i2
           i4 == IF m[3] # 0 THEN i3 + 20 ELSE i3
       IN ReucFrom(b, i4, end, Append(acc, [path |-> SubSeq(b, p, n0 - 1), modes |-> m,
                                             ids |-> <<IF m[1] # 0 THEN SubSeq(b, i1, i1 + 19) ELSE <<>>,
                                                       IF m[2] # 0 THEN SubSeq(b, i2, i2 + 19) ELSE <<>>,
                                                       IF m[3] # 0 THEN SubSeq(b, i3, i3 + 19) ELSE <<>> >>]))

\* EWAH bitmap at p: u32 bits, u32 words, words * u64, u32 rlw position  ->  [set : positions of set bits, bits, next]
\* bit k (0 = least significant) of the big-endian 64 bit word at index w
WordBit(b, w, k) == (b[w + 7 - (k \div 8)] \div (2 ^ (k % 8))) % 2
RECURSIVE BitsVal(_, _, _, _)
BitsVal(b, w, lo, hi) == IF lo > hi THEN 0 ELSE WordBit(b, w, lo) + 2 * BitsVal(b, w, lo + 1, hi)
RECURSIVE EwahWords(_, _, _, _, _)
\* w = index of the next run-length word, left = words left, pos = bit position reached
EwahWords(b, w, left, pos, acc) ==
  IF left <= 0 THEN acc
  ELSE LET runbit == WordBit(b, w, 0)
           runlen == BitsVal(b, w, 1, 24)                 \* 32 bit field; small in the judged files
           lits == BitsVal(b, w, 33, 56)                  \* 31 bit field
           run == IF runbit = 1 THEN pos..(pos + 64 * runlen - 1) ELSE {}
           p1 == pos + 64 * runlen
           lit == {p1 + 64 * j + k : j \in 0..(lits - 1), k \in 0..63}
           litset == {x \in lit : WordBit(b, w + 8 + 8 * ((x - p1) \div 64), (x - p1) % 64) = 1}
       IN EwahWords(b, w + 8 + 8 * lits, left - 1 - lits, p1 + 64 * lits, acc \cup run \cup litset)
EwahAt(b, p) == LET nw == U32(b, p + 4) IN
                [set |-> EwahWords(b, p + 8, nw, 0, {}), bits |-> U32(b, p), next |-> p + 12 + 8 * nw]

\* ascending sequence of a finite set of naturals
RECURSIVE SortedSeq(_)
SortedSeq(S) == IF S = {} THEN <<>> ELSE LET m == CHOOSE x \in S : \A y \in S : x <= y IN <<m>> \o SortedSeq(S \ {m})

\* stat block of the untracked cache: ctime, mtime (sec, nsec each), dev, ino, uid, gid, size
StatAt(b, p) == [ctime |-> Quad(b, IF Bug_ExtStatSwap THEN p + 8 ELSE p), ctime_ns |-> Quad(b, IF Bug_ExtStatSwap THEN p + 12 ELSE p + 4),
                 mtime |-> Quad(b, IF Bug_ExtStatSwap THEN p ELSE p + 8), mtime_ns |-> Quad(b, IF Bug_ExtStatSwap THEN p + 4 ELSE p + 12),
                 dev |-> Quad(b, p + 16), ino |-> Quad(b, p + 20), uid |-> Quad(b, p + 24), gid |-> Quad(b, p + 28),
                 size |-> Quad(b, p + 32)]
NoStat == [ctime |-> <<>>, ctime_ns |-> <<>>, mtime |-> <<>>, mtime_ns |-> <<>>, dev |-> <<>>, ino |-> <<>>, uid |-> <<>>,
           gid |-> <<>>, size |-> <<>>]
NullId == [i \in 1..20 |-> 0]

\* directory blocks in pre-order: [dirs : sequence of [name, untracked, subdirs (count)], next]
RECURSIVE DirNames(_, _, _, _)
DirNames(b, p, n, acc) == IF n = 0 THEN [names |-> acc, next |-> p]
                          ELSE LET nul == NextByte(b, 0, p) IN DirNames(b, nul + 1, n - 1, Append(acc, SubSeq(b, p, nul - 1)))
RECURSIVE DirBlocks(_, _, _, _)
DirBlocks(b, p, todo, acc) ==
  IF todo = 0 THEN [dirs |-> acc, next |-> p]
  ELSE LET nu == Varint(b, p)
           nd == Varint(b, nu.next)
           nul == NextByte(b, 0, nd.next)
           un == DirNames(b, nul + 1, nu.val, <<>>)
       IN DirBlocks(b, un.next, todo - 1 + nd.val,
                    Append(acc, [name |-> SubSeq(b, nd.next, nul - 1), untracked |-> un.names, subdirs |-> nd.val]))

UntrAt(b, from, to) ==
  LET il == Varint(b, from)
      ident == SubSeq(b, il.next, il.next + il.val - 1)
      p1 == il.next + il.val                       \* info/exclude: stat (36) + oid (20)
      p2 == p1 + 56                                \* core.excludesFile
      p3 == p2 + 56                                \* dir_flags
      nul == NextByte(b, 0, p3 + 4)
      nd == Varint(b, nul + 1)
      head == [ident |-> ident,
               info_exclude |-> [stat |-> StatAt(b, p1), id |-> SubSeq(b, p1 + 36, p1 + 55)],
               excludes_file |-> [stat |-> StatAt(b, p2), id |-> SubSeq(b, p2 + 36, p2 + 55)],
               dir_flags |-> Quad(b, p3), exclude_per_dir |-> SubSeq(b, p3 + 4, nul - 1)]
  IN IF nd.val = 0 THEN head @@ [dirs |-> <<>>, ok |-> nd.next = to + 1]
     ELSE LET blocks == DirBlocks(b, nd.next, 1, <<>>)
              valid == EwahAt(b, blocks.next)
              check == EwahAt(b, valid.next)
              hashv == EwahAt(b, check.next)
              vs == SortedSeq(valid.set)
              hs == SortedSeq(hashv.set)
              statsAt == hashv.next
              oidsAt == statsAt + 36 * Len(vs)
              rank(seq, x) == CHOOSE k \in 1..Len(seq) : seq[k] = x
              n == Len(blocks.dirs)
          IN head @@ [dirs |-> [i \in 1..n |->
                                 blocks.dirs[i] @@
                                 [check_only |-> (i - 1) \in check.set,
                                  stat |-> IF (i - 1) \in valid.set THEN StatAt(b, statsAt + 36 * (rank(vs, i - 1) - 1)) ELSE NoStat,
                                  oid |-> IF (i - 1) \in hashv.set
                                          THEN SubSeq(b, oidsAt + 20 * (rank(hs, i - 1) - 1), oidsAt + 20 * rank(hs, i - 1) - 1)
                                          ELSE <<>>]],
                      ok |-> /\ n = nd.val
                             /\ oidsAt + 20 * Len(hs) = to              \* one trailing NUL
                             /\ b[to] = 0
                             /\ \A x \in valid.set \cup check.set \cup hashv.set : x < n]

\* IEOT: version 1, then (offset, count) pairs
IeotAt(b, from, to) == [i \in 1..((to - from + 1 - 4) \div 8) |-> [offset |-> U32(b, from + 4 + 8 * (i - 1)), count |-> U32(b, from + 8 + 8 * (i - 1))]]

Absent == [present |-> FALSE]

FindExt(blocks, sig) == LET k == {i \in 1..Len(blocks) : blocks[i].sig = sig} IN
                        IF k = {} THEN 0 ELSE CHOOSE i \in k : \A j \in k : j <= i    \* a later block replaces an earlier one

-----------------------------------------------------------------------------
(* the whole file *)
Decode(b) ==
  LET n == Len(b)
      version == U32(b, 5)
      count == U32(b, 9)
      end == n - 20                                            \* last byte before the trailer
      \* IEOT can only be found through EOIE (that is what makes threaded loading possible)
      eoieAt == n - 20 - 32 + 1
      hasEoie == n >= HeaderSize + 20 + 32 /\ SubSeq(b, eoieAt, eoieAt + 3) = SigEOIE /\ U32(b, eoieAt + 4) = 24
      extOffset == IF hasEoie THEN U32(b, eoieAt + 8) ELSE 0   \* 0-based offset of the first extension
      pre == IF hasEoie /\ extOffset >= HeaderSize /\ extOffset + 1 <= eoieAt THEN ExtBlocks(b, extOffset + 1, end, <<>>)
             ELSE [blocks |-> <<>>, next |-> 0, ok |-> FALSE]
      ieotI == FindExt(pre.blocks, SigIEOT)
      ieot == IF ieotI = 0 THEN <<>> ELSE IeotAt(b, pre.blocks[ieotI].from, pre.blocks[ieotI].to)
      starts == {ieot[i].offset + 1 : i \in 1..Len(ieot)}
      es == EntriesFrom(b, HeaderSize + 1, count, version, <<>>, starts, [entries |-> <<>>, ok |-> TRUE])
      xs == ExtBlocks(b, es.next, end, <<>>)
      bl == xs.blocks
      ti == FindExt(bl, SigTREE)
      ri == FindExt(bl, SigREUC)
      ui == FindExt(bl, SigUNTR)
      untr == IF ui = 0 THEN Absent ELSE UntrAt(b, bl[ui].from, bl[ui].to)
  IN [ok |-> /\ n >= HeaderSize + 20 /\ SubSeq(b, 1, 4) = DIRC /\ version \in {2, 3, 4}
             /\ es.ok /\ xs.ok
             /\ (hasEoie => (extOffset + 1 = es.next /\ pre.ok))
             /\ (ieotI # 0 => (LET sum[i \in 0..Len(ieot)] == IF i = 0 THEN 0 ELSE sum[i - 1] + ieot[i].count IN sum[Len(ieot)] = count))
             /\ (ui # 0 => untr.ok)
             /\ \A i \in 1..Len(bl) : bl[i].sig[1] >= 97 => bl[i].sig \in {SigSDIR, SigLINK},
      version |-> version,
      entries |-> es.entries,
      sparse |-> (FindExt(bl, SigSDIR) # 0) \/ (\E i \in 1..Len(es.entries) : es.entries[i].mode = DirMode),
      tree |-> IF ti = 0 THEN Absent ELSE [present |-> TRUE, root |-> TreeAt(b, bl[ti].from).node],
      reuc |-> IF ri = 0 THEN Absent ELSE [present |-> TRUE, paths |-> ReucFrom(b, bl[ri].from, bl[ri].to, <<>>)],
      untr |-> IF ui = 0 THEN Absent ELSE [present |-> TRUE, cache |-> [f \in (DOMAIN untr) \ {"ok"} |-> untr[f]]],
      eoie |-> hasEoie,
      ieot |-> ieot,
      link |-> FindExt(bl, SigLINK) # 0,
      exts |-> [i \in 1..Len(bl) |-> bl[i].sig],
      \* what SHA-1 has to be fed with (the hashes themselves are data)
      eoie_pre |-> IF hasEoie THEN FlatSeq([i \in 1..(Len(pre.blocks) - 1) |-> pre.blocks[i].sig \o SubSeq(b, pre.blocks[i].from - 4, pre.blocks[i].from - 1)]) ELSE <<>>,
      eoie_hash |-> IF hasEoie THEN SubSeq(b, eoieAt + 12, eoieAt + 31) ELSE <<>>,
      trailer |-> SubSeq(b, n - 19, n)]

\* the cache-tree as a set of nodes (children order is not content: git re-sorts on read)
RECURSIVE TreeEq(_, _)
TreeEq(x, y) ==
  /\ x.name = y.name /\ x.num = y.num /\ x.id = y.id /\ Len(x.children) = Len(y.children)
  /\ \A i \in 1..Len(x.children) : \E j \in 1..Len(y.children) : TreeEq(x.children[i], y.children[j])
TreeExtEq(x, y) == x.present = y.present /\ (x.present => TreeEq(x.root, y.root))

-----------------------------------------------------------------------------
(* the threaded reader as a composition: the IEOT blocks are dealt out to n threads in chunks of        *)
(* ceil(blocks / n), every block is decoded on its own (prefix state reset), results stitched in order. *)
Chunks(seq, n) ==
  LET size == (Len(seq) + n - 1) \div n
      cnt == IF Len(seq) = 0 THEN 0 ELSE (Len(seq) + size - 1) \div size
  IN [c \in 1..cnt |-> SubSeq(seq, (c - 1) * size + 1, Min2(c * size, Len(seq)))]

BlockEntries(b, version, blk) ==
  EntriesFrom(b, blk.offset + 1, blk.count, version, <<>>, {blk.offset + 1}, [entries |-> <<>>, ok |-> TRUE]).entries

Stitch(b, version, ieot, n) ==
  FlatSeq([c \in 1..Len(Chunks(ieot, n)) |->
             FlatSeq([k \in 1..Len(Chunks(ieot, n)[c]) |-> BlockEntries(b, version, Chunks(ieot, n)[c][k])])])

-----------------------------------------------------------------------------
(* the renderer: abstract state -> bytes.  SHA-1 values (EOIE hash, trailer) are rendered as the  *)
(* placeholder 256 and filled in by the driver from hashlib.                                      *)
Enc32(v) == <<v \div 16777216, (v \div 65536) % 256, (v \div 256) % 256, v % 256>>
Enc16(v) == <<v \div 256, v % 256>>
RECURSIVE EncHigh(_)
EncHigh(x) == (IF x \div 128 = 0 THEN <<>> ELSE EncHigh((x \div 128) - 1)) \o <<128 + (x % 128)>>
EncVarint(v) == IF v \div 128 = 0 THEN <<v>> ELSE EncHigh((v \div 128) - 1) \o <<v % 128>>

RECURSIVE CommonPrefixLen(_, _, _)
CommonPrefixLen(a, c, i) == IF i < Len(a) /\ i < Len(c) /\ a[i + 1] = c[i + 1] THEN CommonPrefixLen(a, c, i + 1) ELSE i

Flags16(e) == e.stage * 4096 + (IF e.assume_valid THEN ASSUME_VALID ELSE 0) + (IF e.extended THEN EXTENDED ELSE 0) + Min2(Len(e.path), 4095)
XFlags16(e) == (IF e.intent_to_add THEN INTENT_TO_ADD ELSE 0) + (IF e.skip_worktree THEN SKIP_WORKTREE ELSE 0)
EntryHead(e) == e.ctime \o e.ctime_ns \o e.mtime \o e.mtime_ns \o e.dev \o e.ino \o e.mode \o e.uid \o e.gid \o e.size \o e.id
                \o Enc16(Flags16(e)) \o (IF e.extended THEN Enc16(XFlags16(e)) ELSE <<>>)
RenderEntry(e, version, prev) ==
  IF version = 4
  THEN LET c == CommonPrefixLen(prev, e.path, 0) IN
       EntryHead(e) \o EncVarint(Len(prev) - c) \o SubSeq(e.path, c + 1, Len(e.path)) \o <<0>>
  ELSE LET body == EntryHead(e) \o e.path
           pad == 8 - (Len(body) % 8) IN
       body \o [i \in 1..pad |-> 0]

RECURSIVE RenderEntries(_, _, _, _, _)
RenderEntries(es, i, version, prev, acc) ==
  IF i > Len(es) THEN acc
  ELSE RenderEntries(es, i + 1, version, es[i].path, acc \o RenderEntry(es[i], version, prev))

RECURSIVE RenderTree(_)
RenderTree(t) ==
  t.name \o <<0>> \o (IF t.num < 0 THEN <<45, 49>> ELSE DecNat(t.num)) \o <<32>> \o DecNat(Len(t.children)) \o <<10>>
  \o (IF t.num < 0 THEN <<>> ELSE t.id)
  \o FlatSeq([i \in 1..Len(t.children) |-> RenderTree(t.children[i])])

Ext(sig, data) == sig \o Enc32(Len(data)) \o data
Hash20 == [i \in 1..20 |-> 256]

\* st = [version, entries, tree (Absent or [present, root]), sdir : BOOLEAN, eoie : BOOLEAN]
Render(st) ==
  LET head == DIRC \o Enc32(st.version) \o Enc32(Len(st.entries))
      es == RenderEntries(st.entries, 1, st.version, <<>>, <<>>)
      tree == IF st.tree.present THEN Ext(SigTREE, RenderTree(st.tree.root)) ELSE <<>>
      sdir == IF st.sdir THEN Ext(SigSDIR, <<>>) ELSE <<>>
      eoie == IF st.eoie THEN Ext(SigEOIE, Enc32(Len(head) + Len(es)) \o Hash20) ELSE <<>>
  IN head \o es \o tree \o sdir \o eoie \o Hash20
\* what the EOIE hash is taken over: signature and size of every extension before it
EoiePre(st) == (IF st.tree.present THEN SigTREE \o Enc32(Len(RenderTree(st.tree.root))) ELSE <<>>)
               \o (IF st.sdir THEN SigSDIR \o Enc32(0) ELSE <<>>)
=============================================================================
