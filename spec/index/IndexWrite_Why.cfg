SPECIFICATION Spec
CONSTANT Bug_ExtStatSwap = FALSE
INVARIANT EmitWhy2
CHECK_DEADLOCK FALSE
