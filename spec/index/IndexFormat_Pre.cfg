SPECIFICATION Spec
CONSTANT Bug_ExtStatSwap = FALSE
INVARIANT EmitPre
CHECK_DEADLOCK FALSE
