SPECIFICATION Spec
CONSTANTS
  Bug_ExtStatSwap = FALSE
INVARIANT EmitPre
CHECK_DEADLOCK FALSE
