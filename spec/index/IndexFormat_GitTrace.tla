------------------------- MODULE IndexFormat_GitTrace -------------------------
(* Binding C for C24: the entries `git ls-files --stage --debug [--sparse]`   *)
(* lists for an index file must be the entries the reference reader decodes.  *)
(* A rejected event means the specification is wrong (tool error).            *)
EXTENDS IndexFormat, TraceIO

VARIABLE l
Init == l = 1
Next == l <= NRec /\ l' = l + 1
Spec == Init /\ [][Next]_l

Judge(r) == LET d == Decode(r.bytes) IN d.ok /\ d.entries = r.git_entries
EventOk == l <= NRec => (Judge(Rec[l]) \/ PrintT(<<"REJECT", l>>))
=============================================================================
