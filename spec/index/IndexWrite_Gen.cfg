SPECIFICATION Spec
CONSTANTS
  Family = "flags"
  MaxPaths = 2
  PathVersions = {2, 4}
  AllOps = TRUE
  TreeShapes = 3
  Bug_ExtStatSwap = FALSE
INVARIANTS
  InvRoundTrip
  InvPadding
  Emit
CHECK_DEADLOCK FALSE
