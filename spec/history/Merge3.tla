------------------------------- MODULE Merge3 -------------------------------
(* C45.  The merge identities every three-way text merge has to obey, as      *)
(* predicates over one observed merge                                         *)
(*   [base, ours, theirs : bytes, favor : "keep"|"ours"|"theirs"|"union",     *)
(*    style : "merge"|"diff3"|"zdiff3", size : marker size,                    *)
(*    result : bytes, conflict : BOOLEAN]                                      *)
(* There is deliberately no model of diff3 here: the identities are what must *)
(* hold whatever diff the implementation computes.                            *)
EXTENDS Bytes

LF == 10  CR == 13  SPACE == 32
MarkerChars == {60, 61, 62, 124}            \* < = > |

\* the lines of a text, each with its terminator (the last one may lack it)
LineEnds(t) == {i \in 1..Len(t) : t[i] = LF \/ i = Len(t)}
LineStart(t, e) == LET p == {j \in 1..(e - 1) : t[j] = LF} IN
                   IF p = {} THEN 1 ELSE (CHOOSE j \in p : \A k \in p : k <= j) + 1
Lines(t) == {SubSeq(t, LineStart(t, e), e) : e \in LineEnds(t)}

\* a line without its terminator (LF or CRLF)
Body(l) == LET a == IF l # <<>> /\ l[Len(l)] = LF THEN SubSeq(l, 1, Len(l) - 1) ELSE l
           IN IF a # <<>> /\ a[Len(a)] = CR THEN SubSeq(a, 1, Len(a) - 1) ELSE a
Bodies(t) == {Body(l) : l \in Lines(t)}

\* a conflict marker line of the given size: exactly `size` marker characters, then the end of
\* the line or a blank followed by a label
IsMarker(l, size) ==
  /\ size >= 1 /\ Len(l) >= size
  /\ l[1] \in MarkerChars
  /\ \A i \in 1..size : l[i] = l[1]
  /\ (Len(l) = size \/ l[size + 1] \in {SPACE, CR, LF})

InputBodies(e) == Bodies(e.base) \cup Bodies(e.ours) \cup Bodies(e.theirs)

\* 1. one side equals the base: the result is the other side, without conflict
OneSideUnchanged(e) ==
  /\ (e.ours = e.base => (e.result = e.theirs /\ ~e.conflict))
  /\ (e.theirs = e.base => (e.result = e.ours /\ ~e.conflict))

\* 2. both sides made the same change: the result is that change
SameChange(e) == e.ours = e.theirs => (e.result = e.ours /\ ~e.conflict)

\* 3. a result reported as conflict-free contains no inserted conflict markers
NoInsertedMarkers(e) ==
  ~e.conflict => LET markers == {l \in Lines(e.result) : IsMarker(l, e.size)} IN
                 markers = {} \/ LET ib == InputBodies(e) IN \A l \in markers : Body(l) \in ib

\* 4. automatic resolutions leave no conflict behind
ResolutionsAreComplete(e) == e.favor # "keep" => ~e.conflict

\* 5. ours/theirs resolutions: every line comes from an input (nothing fabricated, e.g. by joining
\*    two lines) ...
NoFabricatedLines(e) ==
  e.favor \in {"ours", "theirs"} => LET ib == InputBodies(e) IN \A l \in Lines(e.result) : Body(l) \in ib
\*    ... and where every change of the other side necessarily collides with one of the chosen side
\*    (both sides rewrote the base completely, so whatever the diff, it is one hunk each) only lines
\*    of the base or the chosen side remain.
BothRewriteAll(e) ==
  /\ e.ours # e.base /\ e.theirs # e.base
  /\ LET bb == Bodies(e.base) IN Bodies(e.ours) \cap bb = {} /\ Bodies(e.theirs) \cap bb = {}
ChosenSideOnly(e) ==
  (e.favor \in {"ours", "theirs"} /\ BothRewriteAll(e))
    => Lines(e.result) \subseteq (Lines(e.base) \cup Lines(IF e.favor = "ours" THEN e.ours ELSE e.theirs))

Obeys(e) == /\ OneSideUnchanged(e) /\ SameChange(e) /\ NoInsertedMarkers(e)
            /\ ResolutionsAreComplete(e) /\ NoFabricatedLines(e) /\ ChosenSideOnly(e)

\* the first identity an event breaks (for labelling), "" if none
Broken(e) == IF ~OneSideUnchanged(e) THEN "one-side-unchanged"
             ELSE IF ~SameChange(e) THEN "same-change"
             ELSE IF ~NoInsertedMarkers(e) THEN "inserted-markers"
             ELSE IF ~ResolutionsAreComplete(e) THEN "resolution-incomplete"
             ELSE IF ~NoFabricatedLines(e) THEN "fabricated-line"
             ELSE IF ~ChosenSideOnly(e) THEN "chosen-side-only"
             ELSE ""
=============================================================================
