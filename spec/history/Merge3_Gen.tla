----------------------------- MODULE Merge3_Gen -----------------------------
(* Binding A for C45: every triple (base, ours, theirs) where the base has    *)
(* <= MaxBase lines over the symbols and each side is the base after <=       *)
(* MaxEdits line edits (insert / delete / replace), in every line-terminator  *)
(* variant (LF, CRLF, alternating, final newline missing in all or one text).  Where an identity of Merge3 determines the outcome completely    *)
(* (one side unchanged, same change) the expected result is printed.          *)
EXTENDS Merge3, Json, TLC
CONSTANTS MaxBase, MaxEdits, NSyms, Variants

AllSyms == << <<97>>, <<98>>, <<61, 61, 61, 61, 61, 61, 61>>, <<99>>, <<60, 60, 60, 60, 60, 60, 60, 32, 111>> >>
\*             a        b        =======                           c        "<<<<<<< o"
Syms == {AllSyms[i] : i \in 1..NSyms}

Ins(s, p, x) == SubSeq(s, 1, p) \o <<x>> \o SubSeq(s, p + 1, Len(s))
Del(s, p) == SubSeq(s, 1, p - 1) \o SubSeq(s, p + 1, Len(s))
Rep(s, p, x) == [s EXCEPT ![p] = x]
Edits1(s) == {s} \cup {Ins(s, p, x) : p \in 0..Len(s), x \in Syms}
                 \cup {Del(s, p) : p \in 1..Len(s)}
                 \cup {Rep(s, p, x) : p \in 1..Len(s), x \in Syms}
Edits2(s) == UNION {Edits1(t) : t \in Edits1(s)}
Sides(s) == IF MaxEdits = 1 THEN Edits1(s) ELSE Edits2(s)

Bases == UNION {[1..n -> Syms] : n \in 0..MaxBase}

Term(v, i) == CASE v \in {"lf", "lf_noeol", "lf_ours_noeol", "lf_theirs_noeol"} -> <<LF>>
                [] v \in {"crlf", "crlf_noeol"} -> <<CR, LF>>
                [] OTHER -> IF i % 2 = 1 THEN <<CR, LF>> ELSE <<LF>>        \* "mixed"
\* which of the three texts lack the terminator of their last line
NoEol(v, who) == v \in {"lf_noeol", "crlf_noeol"} \/ (v = "lf_ours_noeol" /\ who = "ours") \/ (v = "lf_theirs_noeol" /\ who = "theirs")
Render(s, v, who) == FlatSeq([i \in 1..Len(s) |-> s[i] \o (IF NoEol(v, who) /\ i = Len(s) THEN <<>> ELSE Term(v, i))])

VARIABLES base, ours, theirs, variant, done
vars == <<base, ours, theirs, variant, done>>

Init == /\ base \in Bases
        /\ ours \in Sides(base)
        /\ theirs \in Sides(base)
        /\ variant \in Variants
        /\ done = FALSE
Finish == ~done /\ done' = TRUE /\ UNCHANGED <<base, ours, theirs, variant>>
Spec == Init /\ [][Finish]_vars

B == Render(base, variant, "base")
O == Render(ours, variant, "ours")
T == Render(theirs, variant, "theirs")

\* spec-internal sanity: rendering loses nothing (the bodies of the rendered text are the symbols)
InvRender == Bodies(O) = {ours[i] : i \in 1..Len(ours)}

Emit == done =>
  PrintT(<<"CASE", ToJson([base |-> B, ours |-> O, theirs |-> T, variant |-> variant,
                           determined |-> (O = B \/ T = B \/ O = T),
                           expect |-> IF O = B THEN T ELSE IF T = B THEN O ELSE IF O = T THEN O ELSE <<>>,
                           rewrite_all |-> BothRewriteAll([base |-> B, ours |-> O, theirs |-> T])])>>)
=============================================================================
