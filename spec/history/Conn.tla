-------------------------------- MODULE Conn --------------------------------
(* C54 - connectivity of commits: which objects does a check report missing? *)
(*                                                                           *)
(* A world w = [nblob, trees, commits]:                                      *)
(*   blobs   1..nblob                                                        *)
(*   trees   1..Len(trees); trees[i] is the sequence of entries of tree i,   *)
(*           an entry is [k |-> kind, r |-> n]:                              *)
(*             k \in {"blob","exe","link"}  r = a blob                       *)
(*             k = "tree"                   r = a tree *smaller than i*      *)
(*             k = "commit"                 a submodule (gitlink), r unused  *)
(*   commits sequence of [tree |-> root tree]; parents play no role: the     *)
(*           check is run on every commit in turn (Dag.tla has the parents). *)
(* present = [blobs |-> set, trees |-> set]: what the object database holds  *)
(* (commits are always there).  Objects are named <<"blob", n>>, <<"tree",n>>*)
(* - ids are uninterpreted, the driver maps names to the ids git assigned.   *)
EXTENDS Naturals, Sequences, FiniteSets

BlobKinds == {"blob", "exe", "link"}
WellFormed(w) ==
  /\ \A i \in 1..Len(w.trees) : \A j \in 1..Len(w.trees[i]) :
       LET e == w.trees[i][j]
       IN \/ e.k \in BlobKinds /\ e.r \in 1..w.nblob
          \/ e.k = "tree" /\ e.r \in 1..(i - 1)
          \/ e.k = "commit"
  /\ \A c \in 1..Len(w.commits) : w.commits[c].tree \in 1..Len(w.trees)
  \* objects are content addressed: two trees with the same entries are one object
  /\ \A i, j \in 1..Len(w.trees) : i # j => w.trees[i] # w.trees[j]

(* ---- the property, as a set: the objects met by walking from the root trees of the commits through the entries   *)
(* of *present* trees (submodule entries are not followed, nothing below a missing tree is visible)                   *)
Children(w, i) == {<<(IF w.trees[i][j].k = "tree" THEN "tree" ELSE "blob"), w.trees[i][j].r>> :
                     j \in {j \in 1..Len(w.trees[i]) : w.trees[i][j].k # "commit"}}
Has(present, o) == IF o[1] = "tree" THEN o[2] \in present.trees ELSE o[2] \in present.blobs

\* trees are numbered bottom-up, so the objects met can be computed top-down in one pass: Met(w, present)
RECURSIVE MetFrom(_, _, _, _)
MetFrom(w, present, i, met) ==
  IF i = 0 THEN met
  ELSE MetFrom(w, present, i - 1,
               IF <<"tree", i>> \in met /\ i \in present.trees THEN met \cup Children(w, i) ELSE met)
Met(w, present) ==
  MetFrom(w, present, Len(w.trees), {<<"tree", w.commits[c].tree>> : c \in 1..Len(w.commits)})
Missing(w, present) == {o \in Met(w, present) : ~Has(present, o)}

(* ---- the design of the checker (gix-fsck Connectivity::check_commit): per commit a FIFO of trees, one `seen` set   *)
(* for the whole run; a tree is looked at when it comes off the queue unseen; blobs are checked when first met.       *)
RECURSIVE Entries(_, _, _, _, _, _, _)
\* returns <<queue, seen, reported>> after looking at entries j.. of tree i
Entries(w, present, i, j, queue, seen, rep) ==
  IF j > Len(w.trees[i]) THEN <<queue, seen, rep>>
  ELSE LET e == w.trees[i][j] IN
       IF e.k = "tree" THEN Entries(w, present, i, j + 1, Append(queue, e.r), seen, rep)
       ELSE IF e.k = "commit" \/ <<"blob", e.r>> \in seen THEN Entries(w, present, i, j + 1, queue, seen, rep)
       ELSE Entries(w, present, i, j + 1, queue, seen \cup {<<"blob", e.r>>},
                    IF e.r \in present.blobs THEN rep ELSE Append(rep, <<"blob", e.r>>))

RECURSIVE Drain(_, _, _, _, _)
Drain(w, present, queue, seen, rep) ==
  IF queue = <<>> THEN <<seen, rep>>
  ELSE LET i == Head(queue) IN
       IF <<"tree", i>> \in seen THEN Drain(w, present, Tail(queue), seen, rep)
       ELSE IF i \notin present.trees
            THEN Drain(w, present, Tail(queue), seen \cup {<<"tree", i>>}, Append(rep, <<"tree", i>>))
            ELSE LET r == Entries(w, present, i, 1, Tail(queue), seen \cup {<<"tree", i>>}, rep)
                 IN Drain(w, present, r[1], r[2], r[3])

RECURSIVE CheckFrom(_, _, _, _, _)
CheckFrom(w, present, c, seen, rep) ==
  IF c > Len(w.commits) THEN rep
  ELSE LET r == Drain(w, present, <<w.commits[c].tree>>, seen, rep)
       IN CheckFrom(w, present, c + 1, r[1], r[2])
Reported(w, present) == CheckFrom(w, present, 1, {}, <<>>)

SeqSet(s) == {s[k] : k \in 1..Len(s)}
NoDup(s) == \A i, j \in 1..Len(s) : i # j => s[i] # s[j]
\* the design meets the property: exactly the missing objects, each once
DesignOk(w, present) == LET r == Reported(w, present) IN NoDup(r) /\ SeqSet(r) = Missing(w, present)
=============================================================================
