SPECIFICATION Spec
CONSTANTS
  MinN = 1
  MaxN = 5
  MaxPar = 2
  MaxOthers = 2
  Pats = {"inc", "eq", "dec"}
INVARIANTS
  Sound
  Emit
CHECK_DEADLOCK FALSE
