-------------------------------- MODULE Dag --------------------------------
(* Abstract commit histories, shared by C46 (merge bases) and C47 (commit   *)
(* walks); C54 (connectivity, Conn.tla) adds trees and blobs.               *)
(*                                                                          *)
(* A history is a record d = [par |-> <<p_1, .., p_N>>, time |-> <<t_1..>>] *)
(* over the commits 1..N: p_c is the *ordered* list of parents of commit c  *)
(* (the first element is the first parent), t_c its committer time.         *)
(* Commits are numbered so that parents are smaller than their children;    *)
(* this is only a naming convention (every finite DAG has such a numbering) *)
(* and lets TLC compute ancestor sets by one pass.  Object ids are *not*    *)
(* part of the model: SHA-1 is uninterpreted, the driver maps 1..N to ids.  *)
EXTENDS Naturals, Integers, Sequences, FiniteSets

Commits(d) == 1..Len(d.par)
ParSeq(d, c) == d.par[c]
ParSet(d, c) == {d.par[c][k] : k \in 1..Len(d.par[c])}
FirstPar(d, c) == IF d.par[c] = <<>> THEN {} ELSE {d.par[c][1]}

SeqSet(s) == {s[k] : k \in 1..Len(s)}
NoDup(s) == \A i, j \in 1..Len(s) : i # j => s[i] # s[j]

WellFormed(d) ==
  /\ Len(d.time) = Len(d.par)
  /\ \A c \in Commits(d) : /\ NoDup(d.par[c])
                           /\ \A k \in 1..Len(d.par[c]) : d.par[c][k] \in 1..(c - 1)

(* ------------------------------------------------------------------------ *)
(* Ancestors.  AncAll(d)[c] is the set of commits reachable from c through  *)
(* parent edges, c included (reflexive-transitive closure).                 *)
RECURSIVE AncAcc(_, _)
AncAcc(d, acc) ==
  IF Len(acc) = Len(d.par) THEN acc
  ELSE LET c == Len(acc) + 1
       IN AncAcc(d, Append(acc, {c} \cup UNION {acc[p] : p \in ParSet(d, c)}))
AncAll(d) == AncAcc(d, <<>>)
Anc(d, c) == AncAll(d)[c]

\* the same closure along first parents only
RECURSIVE FpAncAcc(_, _)
FpAncAcc(d, acc) ==
  IF Len(acc) = Len(d.par) THEN acc
  ELSE LET c == Len(acc) + 1
       IN FpAncAcc(d, Append(acc, {c} \cup UNION {acc[p] : p \in FirstPar(d, c)}))
FpAncAll(d) == FpAncAcc(d, <<>>)

Reachable(d, tips) == LET A == AncAll(d) IN UNION {A[t] : t \in tips}
FpReachable(d, tips) == LET A == FpAncAll(d) IN UNION {A[t] : t \in tips}

\* elements of S that are not a proper ancestor of another element of S
MaximalIn(A, S) == {c \in S : \A x \in S : x = c \/ c \notin A[x]}

(* ------------------------------------------------------------------------ *)
(* C46.  `git merge-base --all first others..` (commit-reach.c,             *)
(* get_merge_bases_many): the *best* common ancestors of `first` and the    *)
(* hypothetical merge of all `others`: the common ancestors of first and    *)
(* any of the others (paint_down_to_common paints PARENT2 from every other),*)
(* reduced to those that are not an ancestor of another one                 *)
(* (remove_redundant).  Independent of commit times and of a commit-graph.  *)
(* No others: first itself.  The empty set means "no merge base".           *)
CommonAnc(d, first, others) ==
  LET A == AncAll(d) IN A[first] \cap UNION {A[o] : o \in others}

MergeBases(d, first, others) ==
  IF others = {} THEN {first}
  ELSE MaximalIn(AncAll(d), CommonAnc(d, first, others))

\* design-level statements about the definition (checked by DagMB_Gen on every enumerated world)
MergeBasesSound(d, first, others) ==
  LET A == AncAll(d)
      M == MergeBases(d, first, others)
  IN /\ \A m \in M : m \in A[first] /\ (others = {} \/ \E o \in others : m \in A[o])
     /\ \A m1, m2 \in M : m1 # m2 => m1 \notin A[m2]                \* pairwise independent
     /\ \A c \in CommonAnc(d, first, others) : \E m \in M : c \in A[m]   \* nothing better is left out
     /\ (first \in others => M = {first})                           \* git's and gitoxide's shortcut agrees

(* ------------------------------------------------------------------------ *)
(* C47.  Commit walks.  `fp` = first-parent mode.                           *)
Time(d, c) == d.time[c]
Pars(d, c, fp) == IF fp /\ d.par[c] # <<>> THEN <<d.par[c][1]>> ELSE d.par[c]

RECURSIVE DedupAcc(_, _, _)
DedupAcc(s, i, acc) ==
  IF i > Len(s) THEN acc
  ELSE DedupAcc(s, i + 1, IF s[i] \in SeqSet(acc) THEN acc ELSE Append(acc, s[i]))
Dedup(s) == DedupAcc(s, 1, <<>>)

RECURSIVE FirstOlder(_, _, _, _)
\* index of the first entry of list that is strictly older than commit c (Len + 1 if none)
FirstOlder(d, list, c, i) ==
  IF i > Len(list) THEN i
  ELSE IF Time(d, list[i]) < Time(d, c) THEN i ELSE FirstOlder(d, list, c, i + 1)

\* git commit_list_insert_by_date: newest first, a new entry goes *behind* the entries of the same date
InsertByDate(d, list, c) ==
  LET k == FirstOlder(d, list, c, 1)
  IN SubSeq(list, 1, k - 1) \o <<c>> \o SubSeq(list, k, Len(list))

RECURSIVE InsertAllByDate(_, _, _, _)
InsertAllByDate(d, list, s, i) ==
  IF i > Len(s) THEN list ELSE InsertAllByDate(d, InsertByDate(d, list, s[i]), s, i + 1)

\* git commit_list_sort_by_date (stable): newest first, command-line order among equal dates
SortByDate(d, s) == InsertAllByDate(d, <<>>, s, 1)

RECURSIVE Unseen(_, _, _, _)
\* the entries of s that are not in seen, in order
Unseen(s, seen, i, acc) ==
  IF i > Len(s) THEN acc
  ELSE Unseen(s, seen, i + 1, IF s[i] \in seen THEN acc ELSE Append(acc, s[i]))

(* `git rev-list [--first-parent] [--max-age=cutoff] tips` (revision.c, get_revision_1 without limiting): the list    *)
(* of pending commits is kept sorted by date; the head is shown and its not yet SEEN parents are inserted by date.   *)
(* A commit older than `cutoff` is dropped when it reaches the head and its parents are not looked at.               *)
RECURSIVE DefaultWalk(_, _, _, _, _, _)
DefaultWalk(d, fp, cutoff, list, seen, out) ==
  IF list = <<>> THEN out
  ELSE LET c == Head(list) IN
       IF Time(d, c) < cutoff THEN DefaultWalk(d, fp, cutoff, Tail(list), seen, out)
       ELSE LET new == Unseen(Pars(d, c, fp), seen, 1, <<>>)
            IN DefaultWalk(d, fp, cutoff, InsertAllByDate(d, Tail(list), new, 1), seen \cup SeqSet(new), Append(out, c))
DefaultOrder(d, tips, fp, cutoff) ==
  DefaultWalk(d, fp, cutoff, SortByDate(d, Dedup(tips)), SeqSet(tips), <<>>)

\* the set shown by a time cut-off walk: reachable through commits that are not older than the cut-off
CutoffSet(d, tips, fp, cutoff) == SeqSet(DefaultOrder(d, tips, fp, cutoff))

(* Breadth-first walk in the order "as mentioned in the graph" (gix Sorting::BreadthFirst): a FIFO of commits,       *)
(* seeded with the tips; a shown commit appends its not yet seen parents in parent order.                             *)
RECURSIVE BfsWalk(_, _, _, _, _)
BfsWalk(d, fp, queue, seen, out) ==
  IF queue = <<>> THEN out
  ELSE LET c == Head(queue)
           new == Unseen(Pars(d, c, fp), seen, 1, <<>>)
       IN BfsWalk(d, fp, Tail(queue) \o new, seen \cup SeqSet(new), Append(out, c))
BfsOrder(d, tips, fp) == BfsWalk(d, fp, Dedup(tips), SeqSet(tips), <<>>)

(* A walk "sorted by commit time" without a rule for equal times (gix Sorting::ByCommitTime[Cutoff]): `seq` is one   *)
(* run of a priority queue keyed by commit time - every shown commit is a newest (oldest) pending one; its unseen    *)
(* parents that are not older than the cut-off become pending; nothing stays pending.                                *)
RECURSIVE PqRun(_, _, _, _, _, _, _)
PqRun(d, newest, cutoff, seq, i, pending, seen) ==
  IF i > Len(seq) THEN pending = {}
  ELSE LET c == seq[i] IN
       /\ c \in pending
       /\ \A q \in pending : IF newest THEN Time(d, q) <= Time(d, c) ELSE Time(d, q) >= Time(d, c)
       /\ LET ps == SeqSet(d.par[c])
          IN PqRun(d, newest, cutoff, seq, i + 1,
                   (pending \ {c}) \cup {p \in ps \ seen : Time(d, p) >= cutoff}, seen \cup ps)
ValidPqRun(d, tips, newest, cutoff, seq) ==
  PqRun(d, newest, cutoff, seq, 1, {t \in SeqSet(tips) : Time(d, t) >= cutoff}, SeqSet(tips))

(* `git rev-list --topo-order | --date-order [--first-parent] tips ^ends` (revision.c init_topo_walk /               *)
(* expand_topo_walk, commit.c sort_in_topological_order).  Shown are the commits reachable from the tips (along      *)
(* first parents in first-parent mode) that are not reachable from an end (ends hide through *all* parents).         *)
(* in-degree = 1 + number of shown children; the tips without shown children start the queue in date order           *)
(* (command-line order among equal dates); a parent is queued when its last child has been shown.                    *)
(*   --topo-order: the queue is a stack (the starting commits come off in their date order);                         *)
(*   --date-order: the newest queued commit comes off, the one queued first among equal dates.                       *)
Shown(d, tips, ends, fp) ==
  (IF fp THEN FpReachable(d, SeqSet(tips)) ELSE Reachable(d, SeqSet(tips))) \ Reachable(d, SeqSet(ends))

Reverse(s) == [i \in 1..Len(s) |-> s[Len(s) + 1 - i]]

(* Without a commit-graph git limits such walks with a date heuristic (revision.c limit_list, SLOP): with clock skew *)
(* - a parent dated after its child - it may show commits an end reaches.  There git itself is not the reference;   *)
(* with generation numbers (commit-graph) it is exact.  The audit of the no-graph algorithm is confined to:         *)
SkewFree(d) == \A c \in Commits(d) : \A p \in ParSet(d, c) : Time(d, p) <= Time(d, c)

RECURSIVE NewestIdx(_, _, _, _)
\* index of the first entry with the greatest commit time
NewestIdx(d, q, i, best) ==
  IF i > Len(q) THEN best
  ELSE NewestIdx(d, q, i + 1, IF Time(d, q[i]) > Time(d, q[best]) THEN i ELSE best)

RECURSIVE Release(_, _, _, _, _)
\* showing a commit: every shown parent loses one pending child, the ones that lost the last are queued in parent order
Release(ps, I, i, indeg, queue) ==
  IF i > Len(ps) THEN <<indeg, queue>>
  ELSE LET p == ps[i] IN
       IF p \notin I THEN Release(ps, I, i + 1, indeg, queue)
       ELSE LET n == indeg[p] - 1
            IN Release(ps, I, i + 1, [indeg EXCEPT ![p] = n], IF n = 1 THEN Append(queue, p) ELSE queue)

(* Which edges count in first-parent mode?  git has two implementations and they differ (`algo`):                   *)
(*  "all"   without generation numbers, sort_in_topological_order counts *every* parent that is shown;              *)
(*  "graph" with generation numbers (commit-graph), in-degrees are counted along first parents only                 *)
(*          (indegree_walk_step), but when a commit is shown expand_topo_walk skips parents hidden by an end        *)
(*          *before* it stops at the first parent - the first parent that is not hidden loses a child;              *)
(*  "first" the plain reading: only first-parent edges exist.                                                       *)
(* They agree unless a shown commit has a shown non-first parent.  Without first-parent mode all three coincide.    *)
CountEdges(d, c, fp, algo) == IF algo = "all" THEN d.par[c] ELSE Pars(d, c, fp)
ReleaseEdges(d, c, fp, algo, hidden) ==
  IF algo = "graph" /\ fp
  THEN LET s == SelectSeq(d.par[c], LAMBDA p : p \notin hidden) IN IF s = <<>> THEN <<>> ELSE <<s[1]>>
  ELSE CountEdges(d, c, fp, algo)

RECURSIVE TopoRun(_, _, _, _, _, _, _, _, _)
TopoRun(d, fp, algo, hidden, bydate, I, queue, indeg, out) ==
  IF queue = <<>> THEN out
  ELSE LET k == IF bydate THEN NewestIdx(d, queue, 1, 1) ELSE Len(queue)
           c == queue[k]
           rest == SubSeq(queue, 1, k - 1) \o SubSeq(queue, k + 1, Len(queue))
           r == Release(ReleaseEdges(d, c, fp, algo, hidden), I, 1, indeg, rest)
       IN TopoRun(d, fp, algo, hidden, bydate, I, r[2], r[1], Append(out, c))

TopoOrderE(d, tips, ends, fp, bydate, algo) ==
  LET I == Shown(d, tips, ends, fp)
      indeg == [p \in Commits(d) |-> 1 + Cardinality({c \in I : p \in SeqSet(CountEdges(d, c, fp, algo))})]
      start == SelectSeq(SortByDate(d, Dedup(tips)), LAMBDA t : t \in I /\ indeg[t] = 1)
  IN TopoRun(d, fp, algo, Reachable(d, SeqSet(ends)), bydate, I, IF bydate THEN start ELSE Reverse(start), indeg, <<>>)

TopoOrder(d, tips, ends, fp, bydate) == TopoOrderE(d, tips, ends, fp, bydate, "first")
\* git is a reference for a topological first-parent walk only where its two implementations agree
FpOrderDefined(d, tips, ends, bydate) ==
  LET s == TopoOrderE(d, tips, ends, TRUE, bydate, "first")
  IN s = TopoOrderE(d, tips, ends, TRUE, bydate, "all") /\ s = TopoOrderE(d, tips, ends, TRUE, bydate, "graph")

\* design-level statements about the order operators
IsTopological(d, fp, seq) ==   \* no parent before one of its shown children
  \A i, j \in 1..Len(seq) : seq[j] \in SeqSet(Pars(d, seq[i], fp)) => i < j
WalkLaws(d, tips, ends, fp) ==
  /\ \A bydate \in BOOLEAN :
       LET s == TopoOrder(d, tips, ends, fp, bydate)
       IN NoDup(s) /\ SeqSet(s) = Shown(d, tips, ends, fp) /\ IsTopological(d, fp, s)
  /\ LET s == DefaultOrder(d, tips, fp, 0)
     IN NoDup(s) /\ SeqSet(s) = Shown(d, tips, <<>>, fp) /\ (~fp => ValidPqRun(d, tips, TRUE, 0, s))
  /\ LET s == BfsOrder(d, tips, fp) IN NoDup(s) /\ SeqSet(s) = Shown(d, tips, <<>>, fp)
=============================================================================
