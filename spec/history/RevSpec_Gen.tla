----------------------------- MODULE RevSpec_Gen -----------------------------
(* Binding A for C48.  The repositories are materialised with git by the       *)
(* driver and read back into the abstract form (file named by REPOS, one JSON  *)
(* object per line; field alpha = the token alphabet chosen for it).  For each  *)
(* repository TLC enumerates the specifications  base nav? nav?  plus the      *)
(* range / exclusion / parent-shorthand forms over a smaller operand set and   *)
(* prints the text with what git resolves it to.                               *)
EXTENDS RevSpec, Json, IOUtils
CONSTANT Wide

Repos == ndJsonDeserialize(IOEnv.REPOS)

\* ---- tokens (uniform records) and their text ------------------------------------------------
Base(b, name, hex, stage, path, word, neg, text) ==
  [b |-> b, name |-> name, hex |-> hex, stage |-> stage, path |-> path, word |-> word, neg |-> neg, text |-> text]
BRef(n) == Base("ref", n, "", "", "", "", FALSE, n)
BHex(h) == Base("hex", "", h, "", "", "", FALSE, h)
BDesc(t, h) == Base("desc", "", h, "", "", "", FALSE, t \o "-g" \o h)
BIdx(st, p) == Base("idx", "", "", IF st = "" THEN "0" ELSE st, p, "", FALSE, IF st = "" THEN ":" \o p ELSE ":" \o st \o ":" \o p)
BSearch(w, neg) == Base("search", "", "", "", "", w, neg, IF neg THEN ":/!-" \o w ELSE ":/" \o w)
BEmpty == Base("empty", "", "", "", "", "", FALSE, "")

Nav(n, k, kind, word, neg, comps, text) == [n |-> n, k |-> k, kind |-> kind, word |-> word, neg |-> neg, comps |-> comps, text |-> text]
NAnc(k, bare) == Nav("anc", k, "", "", FALSE, <<>>, IF bare THEN "~" ELSE "~" \o ToString(k))
NPar(k, bare) == Nav("par", k, "", "", FALSE, <<>>, IF bare THEN "^" ELSE "^" \o ToString(k))
NPeel(kind) == Nav("peel", 0, kind, "", FALSE, <<>>, "^{" \o kind \o "}")
NFind(w, neg) == Nav("find", 0, "", w, neg, <<>>, IF neg THEN "^{/!-" \o w \o "}" ELSE "^{/" \o w \o "}")
RECURSIVE JoinPath(_)
JoinPath(c) == IF c = <<>> THEN "" ELSE IF Len(c) = 1 THEN c[1] ELSE c[1] \o "/" \o JoinPath(Tail(c))
NPath(c) == Nav("path", 0, "", "", FALSE, c, ":" \o JoinPath(c))
NReflog(k) == Nav("reflog", k, "", "", FALSE, <<>>, "@{" \o ToString(k) \o "}")
NPrior(k) == Nav("prior", k, "", "", FALSE, <<>>, "@{-" \o ToString(k) \o "}")

Range(s) == { s[i] : i \in 1..Len(s) }

Bases(R) == { BRef(n) : n \in Range(R.alpha.names) } \cup { BHex(h) : h \in Range(R.alpha.hexes) }
            \cup { BDesc(d.text, d.hex) : d \in Range(R.alpha.descs) }
Closed(R) == { BIdx(x.stage, x.path) : x \in Range(R.alpha.idx) }
             \cup { BSearch(w, FALSE) : w \in Range(R.alpha.words) } \cup { BSearch(R.alpha.words[1], TRUE) }

Navs1(R) == { NAnc(1, TRUE), NAnc(0, FALSE), NAnc(1, FALSE), NAnc(2, FALSE), NAnc(3, FALSE),
              NPar(1, TRUE), NPar(0, FALSE), NPar(1, FALSE), NPar(2, FALSE), NPar(3, FALSE),
              NPeel("commit"), NPeel("tree"), NPeel("blob"), NPeel("tag"), NPeel("object"), NPeel("") }
            \cup { NFind(w, FALSE) : w \in Range(R.alpha.words) } \cup { NFind(R.alpha.words[1], TRUE) }
            \cup { NPath(p) : p \in Range(R.alpha.paths) }
Navs2(R) == { NAnc(1, FALSE), NPar(2, FALSE), NPar(0, FALSE), NPeel("tree"), NPeel("commit"), NPeel(""),
              NFind(R.alpha.words[1], FALSE), NPath(R.alpha.paths[1]), NPath(R.alpha.paths[2]) }
            \cup (IF Wide THEN { NAnc(0, FALSE), NAnc(2, FALSE), NPar(1, TRUE), NPeel("blob"), NPeel("tag"), NPeel("object") } ELSE {})
Reflogs == { NReflog(0), NReflog(1), NReflog(2), NReflog(9) }
Priors == { NPrior(1), NPrior(2), NPrior(9) }

RevOf(b, navs) == [base |-> b, navs |-> navs]
RevText(r) == r.base.text \o (IF r.navs = <<>> THEN "" ELSE IF Len(r.navs) = 1 THEN r.navs[1].text ELSE r.navs[1].text \o r.navs[2].text)

\* a path is terminal: nothing may follow it (the rest of the text would belong to the path)
Revs(R, b) ==
  { RevOf(b, <<>>) } \cup { RevOf(b, <<n>>) : n \in Navs1(R) }
  \cup { RevOf(b, <<n, m>>) : n \in { x \in Navs1(R) : x.n # "path" }, m \in Navs2(R) }
  \cup (IF b.b = "ref" THEN { RevOf(b, <<n>>) : n \in Reflogs } \cup { RevOf(b, <<n, m>>) : n \in Reflogs, m \in { NAnc(1, FALSE), NPeel("tree") } } ELSE {})
HeadRevs(R) == { RevOf(BEmpty, <<n>>) : n \in Reflogs \cup Priors } \cup { RevOf(BEmpty, <<n, NAnc(1, FALSE)>>) : n \in Reflogs \cup Priors }

Spec1(form, a, k, text) == [form |-> form, a |-> a, b |-> RevOf(BEmpty, <<>>), k |-> k, text |-> text]
Spec2(form, a, b, text) == [form |-> form, a |-> a, b |-> b, k |-> 0, text |-> text]

Operands(R) == { RevOf(BRef(n), <<>>) : n \in Range(R.alpha.operands) } \cup { RevOf(BHex(h), <<>>) : h \in Range(R.alpha.ophexes) }
               \cup { RevOf(BEmpty, <<>>), RevOf(BRef(R.alpha.operands[1]), <<NAnc(1, FALSE)>>) }

\* everything generated for base b
SpecsOf(R, b) ==
  { Spec1("rev", r, 0, RevText(r)) : r \in Revs(R, b) }
  \cup { Spec1("not", RevOf(b, <<>>), 0, "^" \o b.text), Spec1("parents", RevOf(b, <<>>), 0, b.text \o "^@"),
         Spec1("noparents", RevOf(b, <<>>), 0, b.text \o "^!"), Spec1("minus", RevOf(b, <<>>), 1, b.text \o "^-"),
         Spec1("minus", RevOf(b, <<>>), 1, b.text \o "^-1"), Spec1("minus", RevOf(b, <<>>), 2, b.text \o "^-2"),
         Spec1("parents", RevOf(b, <<NAnc(1, FALSE)>>), 0, b.text \o "~1^@"), Spec1("noparents", RevOf(b, <<NPar(2, FALSE)>>), 0, b.text \o "^2^!") }
Others(R) ==
  { Spec1("rev", RevOf(b, <<>>), 0, b.text) : b \in Closed(R) }
  \cup { Spec1("rev", r, 0, RevText(r)) : r \in HeadRevs(R) }
  \* (".." alone is the parent directory for git, not a revision specification: not generated)
  \cup { Spec2("range", p[1], p[2], RevText(p[1]) \o ".." \o RevText(p[2])) :
           p \in { q \in Operands(R) \X Operands(R) : ~(q[1].base.b = "empty" /\ q[2].base.b = "empty") } }
  \cup { Spec2("merge", a, b, RevText(a) \o "..." \o RevText(b)) : a \in Operands(R), b \in Operands(R) }

\* one state per (repository, base); BEmpty stands for the forms without an enumerated base
VARIABLES R, cur, done
vars == <<R, cur, done>>
Init == R = [name |-> ""] /\ cur = BEmpty /\ done = FALSE
Pick == R.name = "" /\ \E i \in 1..Len(Repos) : R' = Repos[i] /\ UNCHANGED <<cur, done>>
Step == R.name # "" /\ ~done /\ \E b \in Bases(R) \cup {BEmpty} : cur' = b /\ done' = TRUE /\ UNCHANGED R
Next == Pick \/ Step
Spec == Init /\ [][Next]_vars

\* ---- a stable description of the shape of a spec (what its base names, which operators follow), used by the driver to
\* group disagreements; not part of the rule
Cands(h) == IF h \in DOMAIN R.abbrev THEN { R.abbrev[h][i] : i \in 1..Len(R.abbrev[h]) } ELSE {}
KindsOf(S) == LET K == { KindOf(R, x) : x \in S } IN
  (IF "blob" \in K THEN "b" ELSE "") \o (IF Cardinality({ x \in S : KindOf(R, x) = "commit" }) > 1 THEN "cc" ELSE IF "commit" \in K THEN "c" ELSE "")
  \o (IF "tag" \in K THEN "t" ELSE "") \o (IF "tree" \in K THEN "r" ELSE "")
BaseClass(b) ==
  CASE b.b = "ref" -> IF Dwim(R, b.name) = None THEN "noref" ELSE "ref:" \o KindOf(R, RefValue(R, Dwim(R, b.name), 0))
    [] b.b \in {"hex", "desc"} -> IF b.b = "hex" /\ Len(b.hex) < 40 /\ Dwim(R, b.hex) # None THEN "hexref"
                                  ELSE IF Len(b.hex) = 40 THEN "full:" \o KindOf(R, b.hex)
                                  ELSE IF Cardinality(Cands(b.hex)) = 0 THEN b.b \o ":none"
                                  ELSE IF Cardinality(Cands(b.hex)) = 1 THEN b.b \o ":" \o KindOf(R, CHOOSE x \in Cands(b.hex) : TRUE)
                                  ELSE b.b \o ":amb-" \o KindsOf(Cands(b.hex))
    [] OTHER -> b.b
NavClass(nv) == IF nv.n \in {"anc", "par"} THEN nv.n \o (IF nv.k = 0 THEN "0" ELSE "") ELSE IF nv.n = "peel" THEN "peel-" \o nv.kind ELSE nv.n
RevClass(r) == BaseClass(r.base) \o (IF r.navs = <<>> THEN "" ELSE IF Len(r.navs) = 1 THEN "|" \o NavClass(r.navs[1])
                                      ELSE "|" \o NavClass(r.navs[1]) \o "|" \o NavClass(r.navs[2]))
ClassOf(s) == s.form \o "|" \o RevClass(s.a) \o (IF s.form \in {"range", "merge"} THEN "||" \o RevClass(s.b) ELSE "")

Answer(s) == LET res == Resolve(R, s) IN
  [text |-> s.text, form |-> s.form, ok |-> res.ok, kind |-> res.kind, a |-> res.a, b |-> res.b, lines |-> GitLines(R, res), cls |-> ClassOf(s)]
\* the token vocabulary (with texts) of the repository, for the driver's random compositions (binding B)
Tokens == [bases |-> Bases(R), navs |-> Navs1(R), reflogs |-> Reflogs, priors |-> Priors]
Emit == done => PrintT(<<"CASE", ToJson(IF cur = BEmpty
                                         THEN [repo |-> R.name, specs |-> { Answer(s) : s \in Others(R) }, tokens |-> Tokens]
                                         ELSE [repo |-> R.name, specs |-> { Answer(s) : s \in SpecsOf(R, cur) }])>>)
=============================================================================
