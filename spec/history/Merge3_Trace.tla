---------------------------- MODULE Merge3_Trace ----------------------------
(* Binding B for C45: every merge the real builtin_driver::text performed is  *)
(* judged against the identities of Merge3.                                  *)
EXTENDS Merge3, TraceIO

VARIABLE l
Init == l = 1
Next == l <= NRec /\ l' = l + 1
Spec == Init /\ [][Next]_l

EventOk == l <= NRec => (Obeys(Rec[l]) \/ PrintT(<<"REJECT", l>>))
=============================================================================
