SPECIFICATION Spec
CONSTANTS
  Names = {"a", "a.b"}
  Wide = FALSE
INVARIANTS
  Design
  Emit
CHECK_DEADLOCK FALSE
