SPECIFICATION Spec
CONSTANTS
  Names = {"a", "a.b"}
  Level = 1
INVARIANTS
  Design
  Emit
CHECK_DEADLOCK FALSE
