------------------------------ MODULE DagEnum ------------------------------
(* The enumerator of small histories shared by the generators of C46, C47   *)
(* and C54: every history of MinN..MaxN commits with ordered parent lists   *)
(* of <= MaxPar parents (criss-cross shapes, several roots, octopus merges  *)
(* when MaxPar = 3) and one of the commit-time patterns Pats.               *)
EXTENDS Dag, SequencesExt, TLC
CONSTANTS MinN, MaxN, MaxPar, Pats

VARIABLES par, pat
vars == <<par, pat>>

ParChoices(n) ==
  {<<>>} \cup {<<a>> : a \in 1..n}
         \cup (IF MaxPar >= 2 THEN {s \in {<<a, b>> : a \in 1..n, b \in 1..n} : NoDup(s)} ELSE {})
         \cup (IF MaxPar >= 3 THEN {s \in {<<a, b, c>> : a \in 1..n, b \in 1..n, c \in 1..n} : NoDup(s)} ELSE {})

Init == par = <<>> /\ pat = "none"
Extend == pat = "none" /\ Len(par) < MaxN /\ \E p \in ParChoices(Len(par)) : par' = Append(par, p) /\ pat' = pat
Finish == pat = "none" /\ Len(par) >= MinN /\ \E q \in Pats : pat' = q /\ par' = par
Next == Extend \/ Finish
Spec == Init /\ [][Next]_vars

N == Len(par)
\* commit-time patterns: consistent with the history, all equal (every tie), reversed (every parent
\* is younger than its children: maximal clock skew), single-commit skews, alternating, pairwise ties
TimeOf(q) ==
  CASE q = "inc" -> [c \in 1..N |-> 100 + c]
    [] q = "eq"  -> [c \in 1..N |-> 100]
    [] q = "dec" -> [c \in 1..N |-> 100 + N - c]
    [] q = "rootnew" -> [c \in 1..N |-> IF c = 1 THEN 200 ELSE 100 + c]   \* oldest commit has the newest date
    [] q = "tipold"  -> [c \in 1..N |-> IF c = N THEN 50 ELSE 100 + c]    \* newest commit has the oldest date
    [] q = "zig" -> [c \in 1..N |-> IF c % 2 = 0 THEN 100 + c ELSE 100 + N - c]
    [] q = "pairs" -> [c \in 1..N |-> 100 + (c \div 2)]                    \* consistent, with ties
    [] OTHER -> [c \in 1..N |-> 0]

Done == pat # "none"
World == [par |-> par, time |-> TimeOf(pat)]
Sinks == (1..N) \ UNION {ParSet(World, c) : c \in 1..N}
Sorted(S) == SetToSortSeq(S, <)
=============================================================================
