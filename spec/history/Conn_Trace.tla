----------------------------- MODULE Conn_Trace -----------------------------
(* Binding B (and C) for C54: TLC judges what was reported missing.          *)
(* One event: [nblob, trees, commits : seq of root trees, delb, delt : the   *)
(*   deleted blobs / trees, reported : seq of [k |-> "blob"|"tree", n],      *)
(*   errors : number of check_commit calls that returned an error,           *)
(*   src : "gix" (callback order matters for "each once") | "git" (fsck)]    *)
EXTENDS Conn, TraceIO

VARIABLE l
Init == l = 1
Next == l <= NRec /\ l' = l + 1
Spec == Init /\ [][Next]_l

Judge(r) ==
  LET w == [nblob |-> r.nblob, trees |-> r.trees, commits |-> [c \in 1..Len(r.commits) |-> [tree |-> r.commits[c]]]]
      present == [blobs |-> (1..r.nblob) \ SeqSet(r.delb), trees |-> (1..Len(r.trees)) \ SeqSet(r.delt)]
      rep == [i \in 1..Len(r.reported) |-> <<r.reported[i].k, r.reported[i].n>>]
  IN /\ WellFormed(w)
     /\ NoDup(rep)                            \* each once
     /\ SeqSet(rep) = Missing(w, present)     \* exactly the missing objects that are visible, nothing else
     /\ r.errors = 0                          \* commits are present: no call may fail

EventOk == l <= NRec => (Judge(Rec[l]) \/ PrintT(<<"REJECT", l>>))
=============================================================================
