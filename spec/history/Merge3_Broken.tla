---------------------------- MODULE Merge3_Broken ----------------------------
(* Names the identity of Merge3 each recorded event breaks (labels for the    *)
(* events Merge3_Trace rejected).                                             *)
EXTENDS Merge3, TraceIO, Json

VARIABLE l
Init == l = 1
Next == l <= NRec /\ l' = l + 1
Spec == Init /\ [][Next]_l

Emit == l <= NRec => PrintT(<<"BROKEN", ToJson([i |-> l, broken |-> Broken(Rec[l])])>>)
=============================================================================
