------------------------------ MODULE Conn_Gen ------------------------------
(* Binding A for C54: every world of <= NT trees (tree i may contain the     *)
(* smaller trees: NT levels) with 1..MaxEnt entries over NB blobs, smaller   *)
(* trees and a submodule entry; two commits (the last tree, and any tree);   *)
(* every object reachable; every subset of blobs and trees deleted (at most  *)
(* MaxDel objects).  One line per world with the specification's missing set.*)
EXTENDS Conn, SequencesExt, Json, TLC
CONSTANTS NB, NT, MaxEnt, MaxDel

\* blob n is always referenced with the same kind (1 file, 2 symlink, 3 executable)
KindOf(n) == CASE n = 1 -> "blob" [] n = 2 -> "link" [] OTHER -> "exe"
Opts(i) == {[k |-> KindOf(n), r |-> n] : n \in 1..NB} \cup {[k |-> "tree", r |-> j] : j \in 1..(i - 1)}
           \cup {[k |-> "commit", r |-> 0]}
Rank(e) == IF e.k = "tree" THEN 10 + e.r ELSE IF e.k = "commit" THEN 20 ELSE e.r
\* entry lists up to permutation (names are positional); the same object may occur twice in one tree
TreeChoices(i) == {s \in UNION {[1..n -> Opts(i)] : n \in 1..MaxEnt} :
                     \A a, b \in 1..Len(s) : a < b => Rank(s[a]) <= Rank(s[b])}

VARIABLES trees, fin, done
vars == <<trees, fin, done>>
Init == trees = <<>> /\ fin = [c2 |-> 0, delb |-> {}, delt |-> {}] /\ done = FALSE
AddTree == ~done /\ Len(trees) < NT /\ \E t \in TreeChoices(Len(trees) + 1) \ SeqSet(trees) : trees' = Append(trees, t) /\ UNCHANGED <<fin, done>>
WorldOf(ts, c2) == [nblob |-> NB, trees |-> ts, commits |-> <<[tree |-> Len(ts)], [tree |-> c2]>>]
Everything == [blobs |-> 1..NB, trees |-> 1..NT]
Finish == ~done /\ Len(trees) >= 1 /\
          \E c2 \in 1..Len(trees), db \in SUBSET (1..NB), dt \in SUBSET (1..Len(trees)) :
             /\ Cardinality(db) + Cardinality(dt) <= MaxDel
             \* no junk: with nothing deleted every blob and tree is met
             /\ Met(WorldOf(trees, c2), Everything) = {<<"blob", n>> : n \in 1..NB} \cup {<<"tree", i>> : i \in 1..Len(trees)}
             /\ fin' = [c2 |-> c2, delb |-> db, delt |-> dt]
             /\ trees' = trees /\ done' = TRUE
Next == AddTree \/ Finish
Spec == Init /\ [][Next]_vars

Done == done
W == WorldOf(trees, fin.c2)
P == [blobs |-> (1..NB) \ fin.delb, trees |-> (1..Len(trees)) \ fin.delt]
Sorted(S) == SetToSortSeq(S, <)

Design == Done => WellFormed(W) /\ DesignOk(W, P)

Emit == Done =>
  PrintT(<<"CASE", ToJson([nblob |-> NB, trees |-> trees, commits |-> <<Len(trees), fin.c2>>,
                           delb |-> Sorted(fin.delb), delt |-> Sorted(fin.delt),
                           missb |-> Sorted({o[2] : o \in {m \in Missing(W, P) : m[1] = "blob"}}),
                           misst |-> Sorted({o[2] : o \in {m \in Missing(W, P) : m[1] = "tree"}})])>>)
=============================================================================
