---------------------------- MODULE RevSpec_Trace ----------------------------
(* Binding B for C48: randomly composed specifications (abstract syntax built  *)
(* by the driver from the token vocabulary RevSpec_Gen prints) and what was     *)
(* observed for their text.  One event:                                         *)
(*   [repo : index into REPOS, spec : [form, a, b, k], ok, kind, a, b, lines]   *)
(* Who = "gix": (ok, kind, a, b) is gix::Repository::rev_parse's answer;        *)
(* Who = "git": ok and lines are what `git rev-parse` / cat-file printed.       *)
EXTENDS RevSpec, TraceIO
CONSTANT Who

VARIABLES l, repos
Init == l = 1 /\ repos = ndJsonDeserialize(IOEnv.REPOS)
Next == l <= NRec /\ l' = l + 1 /\ UNCHANGED repos
Spec == Init /\ [][Next]_<<l, repos>>

Judge(e) ==
  LET R == repos[e.repo]
      res == Resolve(R, e.spec)
  IN /\ e.ok = res.ok
     /\ res.ok => IF Who = "git" THEN e.lines = GitLines(R, res)
                  ELSE e.kind = res.kind /\ e.a = res.a /\ e.b = res.b

EventOk == l <= NRec => (Judge(Rec[l]) \/ PrintT(<<"REJECT", l>>))
=============================================================================
