------------------------------- MODULE RevSpec -------------------------------
(* C48.  What `git rev-parse <spec>` resolves a revision specification to     *)
(* (object-name.c: get_oid_with_context_1, get_oid_1, peel_onion,             *)
(* get_short_oid, get_describe_name, get_oid_oneline; builtin/rev-parse.c:    *)
(* try_difference, try_parent_shorthands), over an abstract repository R:     *)
(*   R.objs    id -> [kind, parents, tree, target, words, time, entries]      *)
(*             (entries: name -> [id, kind] for trees; words: the words of a  *)
(*             commit message; SHA-1 is uninterpreted: ids are git's)         *)
(*   R.refs    full name -> [sym, to]      (includes HEAD)                    *)
(*   R.reflog  full name -> ids, newest first                                 *)
(*   R.headlog HEAD's reflog, newest first: [new, checkout, from]             *)
(*   R.index   path -> stage ("0".."3") -> id                                 *)
(*   R.abbrev  hex prefix -> ids of all objects starting with it              *)
(* A specification is an abstract syntax tree (its text is the concatenation  *)
(* of the tokens' texts):                                                     *)
(*   rev  == [base, navs]      spec == [form, a, b]                           *)
(*   base == [b : "ref" | "hex" | "desc" | "idx" | "search" | "empty", ...]   *)
(*   nav  == [n : "anc" | "par" | "peel" | "find" | "path" | "reflog" |       *)
(*                "prior", ...]                                               *)
(*   form : "rev" | "not" (^A) | "range" (A..B) | "merge" (A...B) |           *)
(*          "parents" (A^@) | "noparents" (A^!) | "minus" (A^-n)              *)
EXTENDS Naturals, Integers, Sequences, FiniteSets, TLC

None == ""
Obj(R, x) == R.objs[x]
Has(R, x) == x \in DOMAIN R.objs
KindOf(R, x) == IF Has(R, x) THEN R.objs[x].kind ELSE "missing"

\* ---- peeling ------------------------------------------------------------------------------
RECURSIVE DerefTag(_, _)
DerefTag(R, x) == IF KindOf(R, x) = "tag" THEN DerefTag(R, R.objs[x].target) ELSE x

\* peel_to_type: tags are followed, a commit gives its tree, anything else of the wrong type fails
RECURSIVE PeelTo(_, _, _)
PeelTo(R, x, kind) ==
  IF ~Has(R, x) THEN None
  ELSE IF R.objs[x].kind = kind THEN x
  ELSE IF R.objs[x].kind = "tag" THEN PeelTo(R, R.objs[x].target, kind)
  ELSE IF R.objs[x].kind = "commit" THEN PeelTo(R, R.objs[x].tree, kind)
  ELSE None

Committish(R, x) == KindOf(R, DerefTag(R, x)) = "commit"
Treeish(R, x) == KindOf(R, DerefTag(R, x)) \in {"commit", "tree"}
IsCommit(R, x) == KindOf(R, x) = "commit"

\* ---- references ---------------------------------------------------------------------------
\* refs.c ref_rev_parse_rules
Candidates(n) == << n, "refs/" \o n, "refs/tags/" \o n, "refs/heads/" \o n, "refs/remotes/" \o n, "refs/remotes/" \o n \o "/HEAD" >>
RECURSIVE FirstRef(_, _, _)
FirstRef(R, cands, i) == IF i > Len(cands) THEN None ELSE IF cands[i] \in DOMAIN R.refs THEN cands[i] ELSE FirstRef(R, cands, i + 1)
Dwim(R, n) == FirstRef(R, Candidates(IF n = "@" THEN "HEAD" ELSE n), 1)

RECURSIVE RefValue(_, _, _)
RefValue(R, full, depth) ==
  IF depth > 5 \/ full \notin DOMAIN R.refs THEN None
  ELSE IF R.refs[full].sym THEN RefValue(R, R.refs[full].to, depth + 1) ELSE R.refs[full].to
\* the branch HEAD points to ("" when detached)
HeadBranch(R) == IF R.refs["HEAD"].sym THEN R.refs["HEAD"].to ELSE None

\* ---- abbreviated object names (get_short_oid / update_candidates / finish_object_disambiguation)
HintOk(R, hint, x) ==
  CASE hint = "commit" -> IsCommit(R, x)
    [] hint = "committish" -> Committish(R, x)
    [] hint = "treeish" -> Treeish(R, x)
    [] OTHER -> TRUE
Short(R, hex, hint) ==
  LET c == IF hex \in DOMAIN R.abbrev THEN { R.abbrev[hex][i] : i \in 1..Len(R.abbrev[hex]) } ELSE {}
      p == { x \in c : HintOk(R, hint, x) }
  IN IF Cardinality(c) = 1 THEN CHOOSE x \in c : TRUE
     ELSE IF hint # "" /\ Cardinality(p) = 1 THEN CHOOSE x \in p : TRUE
     ELSE None

\* ---- commit walks -------------------------------------------------------------------------
RECURSIVE NthAncestor(_, _, _)
NthAncestor(R, c, n) ==
  IF c = None \/ n = 0 THEN c
  ELSE IF R.objs[c].parents = <<>> THEN None ELSE NthAncestor(R, R.objs[c].parents[1], n - 1)
NthParent(R, c, n) == IF c = None THEN None ELSE IF n = 0 THEN c ELSE IF n <= Len(R.objs[c].parents) THEN R.objs[c].parents[n] ELSE None

\* get_oid_oneline: commits in commit-date order (newest first) from the given tips; the first one whose
\* message matches (xor negated)
HasWord(R, c, w) == \E i \in 1..Len(R.objs[c].words) : R.objs[c].words[i] = w
Newest(R, q) == CHOOSE x \in q : \A y \in q : R.objs[y].time <= R.objs[x].time
RECURSIVE Oneline(_, _, _, _, _)
Oneline(R, queue, seen, word, neg) ==
  IF queue = {} THEN None
  ELSE LET c == Newest(R, queue)
           ps == { R.objs[c].parents[i] : i \in 1..Len(R.objs[c].parents) } \ seen
       IN IF HasWord(R, c, word) # neg THEN c
          ELSE Oneline(R, (queue \ {c}) \cup ps, seen \cup ps, word, neg)
\* `:/text`: from every ref (tags peeled, non-commits skipped) and HEAD
AllTips(R) == { x \in { DerefTag(R, RefValue(R, n, 0)) : n \in DOMAIN R.refs } : x # None /\ IsCommit(R, x) }

\* ---- trees --------------------------------------------------------------------------------
RECURSIVE TreePath(_, _, _)
TreePath(R, t, comps) ==
  IF comps = <<>> THEN t
  ELSE IF KindOf(R, t) # "tree" \/ Head(comps) \notin DOMAIN R.objs[t].entries THEN None
  ELSE TreePath(R, R.objs[t].entries[Head(comps)].id, Tail(comps))

\* ---- one revision -------------------------------------------------------------------------
\* the lookup hint a following operator imposes on an abbreviated name (peel_onion, get_parent, ...)
HintOfNav(nv) ==
  CASE nv.n \in {"anc", "par", "find"} -> "committish"
    [] nv.n = "peel" /\ nv.kind = "commit" -> "committish"
    [] nv.n = "peel" /\ nv.kind = "tree" -> "treeish"
    [] nv.n = "path" -> "treeish"
    [] OTHER -> ""

\* [id, ref]: the object and (for a leading reference) the full name it was found under
BaseValue(R, b, hint) ==
  CASE b.b = "ref" -> LET f == Dwim(R, b.name) IN [id |-> IF f = None THEN None ELSE RefValue(R, f, 0), ref |-> f]
    [] b.b = "hex" -> IF Len(b.hex) = 40 THEN [id |-> b.hex, ref |-> None]
                      ELSE IF Dwim(R, b.hex) # None THEN [id |-> RefValue(R, Dwim(R, b.hex), 0), ref |-> Dwim(R, b.hex)]
                      ELSE [id |-> Short(R, b.hex, hint), ref |-> None]
    [] b.b = "desc" -> [id |-> Short(R, b.hex, "commit"), ref |-> None]
    [] b.b = "idx" -> [id |-> IF b.path \in DOMAIN R.index /\ b.stage \in DOMAIN R.index[b.path] THEN R.index[b.path][b.stage] ELSE None, ref |-> None]
    [] b.b = "search" -> [id |-> Oneline(R, AllTips(R), AllTips(R), b.word, b.neg), ref |-> None]
    [] OTHER -> [id |-> RefValue(R, "HEAD", 0), ref |-> "HEAD"]     \* "empty": HEAD is implied

ApplyNav(R, x, nv) ==
  CASE nv.n = "anc" -> NthAncestor(R, PeelTo(R, x, "commit"), nv.k)
    [] nv.n = "par" -> NthParent(R, PeelTo(R, x, "commit"), nv.k)
    [] nv.n = "peel" -> IF nv.kind = "" THEN (IF Has(R, DerefTag(R, x)) THEN DerefTag(R, x) ELSE None)
                        ELSE IF nv.kind = "object" THEN (IF Has(R, x) THEN x ELSE None)
                        ELSE PeelTo(R, x, nv.kind)
    [] nv.n = "find" -> LET c == PeelTo(R, x, "commit") IN IF c = None THEN None ELSE Oneline(R, {c}, {c}, nv.word, nv.neg)
    [] nv.n = "path" -> LET t == PeelTo(R, x, "tree") IN IF t = None THEN None ELSE TreePath(R, t, nv.comps)
    [] OTHER -> None

RECURSIVE ApplyNavs(_, _, _, _)
ApplyNavs(R, x, navs, i) == IF x = None \/ i > Len(navs) THEN x ELSE ApplyNavs(R, ApplyNav(R, x, navs[i]), navs, i + 1)

\* refs.c dwim_log: the first rule whose ref exists and has a reflog (its own, or that of the ref it points to)
RECURSIVE FirstLog(_, _, _)
FirstLog(R, cands, i) ==
  IF i > Len(cands) THEN None
  ELSE LET c == cands[i] IN
       IF c \in DOMAIN R.refs /\ RefValue(R, c, 0) # None
       THEN IF c \in DOMAIN R.reflog THEN c
            ELSE IF R.refs[c].sym /\ R.refs[c].to \in DOMAIN R.reflog THEN R.refs[c].to
            ELSE FirstLog(R, cands, i + 1)
       ELSE FirstLog(R, cands, i + 1)
DwimLog(R, n) == FirstLog(R, Candidates(IF n = "@" THEN "HEAD" ELSE n), 1)

\* `@{n}`: entry n of the reflog of the named ref; without a name, of the current branch (HEAD when detached)
ReflogValue(R, full, k) == IF full \in DOMAIN R.reflog /\ k + 1 <= Len(R.reflog[full]) THEN R.reflog[full][k + 1] ELSE None
\* `@{-n}`: the branch checked out before the n-th newest "checkout: moving from" entry of HEAD's reflog
Checkouts(R) == SelectSeq(R.headlog, LAMBDA e : e.checkout)
PriorBranch(R, k) == IF k >= 1 /\ k <= Len(Checkouts(R)) THEN Checkouts(R)[k].from ELSE None

\* value of a revision; `ctx` is the hint of the context (a range side is committish)
Rev(R, r, ctx) ==
  LET navs == r.navs
      first == IF navs = <<>> THEN [n |-> ""] ELSE navs[1]
  IN IF first.n = "reflog"
     THEN \* base must be a reference (or empty: the current branch; "HEAD"/"@" spelled out: HEAD's own log)
          LET full == IF r.base.b = "empty" THEN (IF HeadBranch(R) # None THEN HeadBranch(R) ELSE "HEAD")
                      ELSE IF r.base.b = "ref" THEN DwimLog(R, r.base.name) ELSE None
          IN IF full = None THEN None ELSE ApplyNavs(R, ReflogValue(R, full, first.k), navs, 2)
     ELSE IF first.n = "prior"
     THEN LET br == PriorBranch(R, first.k)
          IN IF br = None \/ r.base.b # "empty" THEN None
             ELSE ApplyNavs(R, BaseValue(R, [b |-> "hex", hex |-> br], "").id, navs, 2)
     ELSE LET hint == IF navs = <<>> THEN ctx ELSE HintOfNav(first)
          IN ApplyNavs(R, BaseValue(R, r.base, hint).id, navs, 1)

\* ---- a whole specification ----------------------------------------------------------------
Fail == [ok |-> FALSE, kind |-> "", a |-> None, b |-> None]
Ok(kind, a, b) == [ok |-> TRUE, kind |-> kind, a |-> a, b |-> b]
\* operands of ranges and of the parent shorthands are looked up as committish and reported UNPEELED
\* (`v1..main` prints the id of the tag object v1); the parent shorthands need a commit behind them
Side(R, r) == Rev(R, r, "committish")
CommitBehind(R, x) == IF x = None THEN None ELSE PeelTo(R, x, "commit")

Resolve(R, s) ==
  CASE s.form = "rev" -> LET x == Rev(R, s.a, "") IN IF x = None THEN Fail ELSE Ok("rev", x, None)
    [] s.form = "not" -> LET x == Rev(R, s.a, "") IN IF x = None THEN Fail ELSE Ok("not", x, None)
    [] s.form \in {"range", "merge"} ->
         \* a missing side is HEAD; ".." alone is the parent directory, not a range
         LET x == Side(R, s.a)  y == Side(R, s.b)
             bare == s.form = "range" /\ s.a.base.b = "empty" /\ s.a.navs = <<>> /\ s.b.base.b = "empty" /\ s.b.navs = <<>>
             \* A...B needs commits behind both sides (for the merge bases); A..B does not look
             nocommit == s.form = "merge" /\ (CommitBehind(R, x) = None \/ CommitBehind(R, y) = None)
         IN IF x = None \/ y = None \/ bare \/ nocommit THEN Fail ELSE Ok(s.form, x, y)
    [] s.form \in {"parents", "noparents"} ->
         LET x == Side(R, s.a) IN IF CommitBehind(R, x) = None THEN Fail ELSE Ok(s.form, x, None)
    [] s.form = "minus" -> LET x == Side(R, s.a)
                               p == NthParent(R, CommitBehind(R, x), s.k)
                           IN IF p = None \/ s.k = 0 THEN Fail ELSE Ok("range", p, x)
    [] OTHER -> Fail

\* what `git rev-parse` prints for a result (merge bases of A...B left out)
Parents(R, x) == R.objs[PeelTo(R, x, "commit")].parents
Neg(x) == "^" \o x
GitLines(R, res) ==
  CASE ~res.ok -> <<>>
    [] res.kind = "rev" -> <<res.a>>
    [] res.kind = "not" -> <<Neg(res.a)>>
    [] res.kind = "range" -> <<res.b, Neg(res.a)>>
    [] res.kind = "merge" -> <<res.b, res.a>>
    [] res.kind = "parents" -> Parents(R, res.a)
    [] res.kind = "noparents" -> <<res.a>> \o [i \in 1..Len(Parents(R, res.a)) |-> Neg(Parents(R, res.a)[i])]
    [] OTHER -> <<>>
=============================================================================
