SPECIFICATION Spec
CONSTANTS
  Who = "gix"
INVARIANT EventOk
CHECK_DEADLOCK FALSE
