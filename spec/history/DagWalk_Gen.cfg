SPECIFICATION Spec
CONSTANTS
  MinN = 1
  MaxN = 4
  MaxPar = 2
  Pats = {"inc", "eq", "dec"}
  MaxTips = 2
  MaxEnds = 1
  LawN = 3
INVARIANTS
  Laws
  Emit
CHECK_DEADLOCK FALSE
