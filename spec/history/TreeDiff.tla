------------------------------ MODULE TreeDiff ------------------------------
(* C44 - what changed between two trees, as `git diff-tree -r -t --no-renames` *)
(* reports it.                                                                *)
(*                                                                            *)
(* A tree is given by its leaves: a set of records [p, k, id] where p is the  *)
(* full path (a non-empty sequence of names), k \in {"blob","exe","link",     *)
(* "commit"} the kind (100644, 100755, 120000, 160000) and id the content.    *)
(* No path is a prefix of another (git has no empty directories, so the       *)
(* leaves determine the tree).  Directories are the proper prefixes; a        *)
(* directory's identity (its object id) is what lies below it.                *)
EXTENDS Naturals, Sequences, FiniteSets

LeafKinds == {"blob", "exe", "link", "commit"}
IsPrefix(s, t) == Len(s) <= Len(t) /\ SubSeq(t, 1, Len(s)) = s
Paths(a) == {e.p : e \in a}
WellFormed(a) ==
  /\ \A e \in a : Len(e.p) >= 1 /\ e.k \in LeafKinds
  /\ \A e1, e2 \in a : e1 # e2 => ~IsPrefix(e1.p, e2.p)
At(a, p) == CHOOSE e \in a : e.p = p
Dirs(a) == UNION {{SubSeq(e.p, 1, n) : n \in 1..(Len(e.p) - 1)} : e \in a}
Below(a, d) == {[p |-> SubSeq(e.p, Len(d) + 1, Len(e.p)), k |-> e.k, id |-> e.id] :
                  e \in {x \in a : IsPrefix(d, x.p) /\ x.p # d}}

(* A change: [c, p, pk, pid, k, id]                                           *)
(*   c = "add": entry (k, id) appears at p          (pk = "none", pid = 0)    *)
(*   c = "del": entry (pk, pid) disappears at p     (k = "none",  id = 0)     *)
(*   c = "mod": entry (pk, pid) becomes (k, id), neither or both a directory  *)
(* Directories have k = "tree" and id = 0 (their id is derived: Below).       *)
Add(p, k, id)          == [c |-> "add", p |-> p, pk |-> "none", pid |-> 0, k |-> k, id |-> id]
Del(p, k, id)          == [c |-> "del", p |-> p, pk |-> k, pid |-> id, k |-> "none", id |-> 0]
Mod(p, pk, pid, k, id) == [c |-> "mod", p |-> p, pk |-> pk, pid |-> pid, k |-> k, id |-> id]

(* git diff-tree -r -t --no-renames --raw a b (tree-diff.c): every path is compared by name;                       *)
(*  - a leaf on one side only, or a directory on one side only: deletion / addition (of the directory entry itself, *)
(*    -t, and of everything below it, -r);                                                                          *)
(*  - a leaf on both sides whose mode or id differs: one modification record (status M, or T when the kind of       *)
(*    object changes - the record carries both modes, so M and T are not distinguished here);                       *)
(*  - a directory on both sides whose content differs: a modification of the directory entry, and recursion;        *)
(*  - a leaf on one side and a directory of the same name on the other: both of the above (D and A).                *)
Diff(a, b) ==
       {Del(e.p, e.k, e.id) : e \in {x \in a : x.p \notin Paths(b)}}
  \cup {Add(e.p, e.k, e.id) : e \in {x \in b : x.p \notin Paths(a)}}
  \cup {Mod(p, At(a, p).k, At(a, p).id, At(b, p).k, At(b, p).id) : p \in {q \in Paths(a) \cap Paths(b) : At(a, q) # At(b, q)}}
  \cup {Del(d, "tree", 0) : d \in Dirs(a) \ Dirs(b)}
  \cup {Add(d, "tree", 0) : d \in Dirs(b) \ Dirs(a)}
  \cup {Mod(d, "tree", 0, "tree", 0) : d \in {q \in Dirs(a) \cap Dirs(b) : Below(a, q) # Below(b, q)}}

(* Applying changes to a tree (only the leaf changes matter; directories follow) *)
Apply(a, D) ==
  LET gone == {ch.p : ch \in {x \in D : x.c \in {"del", "mod"} /\ x.pk # "tree"}}
      new  == {[p |-> ch.p, k |-> ch.k, id |-> ch.id] : ch \in {x \in D : x.c \in {"add", "mod"} /\ x.k # "tree"}}
  IN {e \in a : e.p \notin gone} \cup new

\* design-level statement: the reported changes turn the first tree into the second
RoundTrip(a, b) == Apply(a, Diff(a, b)) = b
\* and nothing is reported for equal trees
Quiet(a) == Diff(a, a) = {}
=============================================================================
