SPECIFICATION Spec
CONSTANTS
  NB = 2
  NT = 2
  MaxEnt = 2
  MaxDel = 4
INVARIANTS
  Design
  Emit
CHECK_DEADLOCK FALSE
