---------------------------- MODULE TreeDiff_Gen ----------------------------
(* Binding A for C44: all ordered pairs of trees in which every top-level    *)
(* name from Names independently is absent, one of the leaf entries Leaves,  *)
(* or one of the directories Subs (given by their leaves below the name).    *)
(* Names is chosen for git's order: a directory "a" sorts as "a/", i.e.      *)
(* behind "a.b" but before "a0", a file "a" before both.                     *)
EXTENDS TreeDiff, SequencesExt, Json, TLC
CONSTANTS Names, Level    \* Level: 0 = small, 1 = quick, 2 = wide alphabets of entries

L(k, id) == [k |-> k, id |-> id]
LeavesQuick == {L("blob", 1), L("blob", 2), L("exe", 1), L("link", 1), L("commit", 3)}
LeavesWide == LeavesQuick \cup {L("commit", 4), L("link", 2), L("exe", 2)}
R(p, k, id) == [p |-> p, k |-> k, id |-> id]
SubsQuick == { {R(<<"x">>, "blob", 1)}, {R(<<"x">>, "blob", 2)}, {R(<<"x">>, "blob", 1), R(<<"y">>, "blob", 1)},
               {R(<<"y">>, "exe", 1)}, {R(<<"x", "x">>, "blob", 1)} }
SubsWide == SubsQuick \cup { {R(<<"x", "x">>, "blob", 2)}, {R(<<"x">>, "blob", 1), R(<<"x.y", "x">>, "link", 1)},
                              {R(<<"x">>, "commit", 3), R(<<"y">>, "blob", 2)} }
LeavesSmall == {L("blob", 1), L("exe", 1), L("commit", 3)}
SubsSmall == { {R(<<"x">>, "blob", 1)}, {R(<<"x">>, "blob", 2)} }
Leaves == CASE Level = 0 -> LeavesSmall [] Level = 1 -> LeavesQuick [] OTHER -> LeavesWide
Subs == CASE Level = 0 -> SubsSmall [] Level = 1 -> SubsQuick [] OTHER -> SubsWide

\* what one name can hold: nothing, a leaf, a directory
Options(n) == {{}} \cup {{R(<<n>>, l.k, l.id)} : l \in Leaves}
                   \cup {{R(<<n>> \o e.p, e.k, e.id) : e \in s} : s \in Subs}
NameSeq == SetToSeq(Names)
RECURSIVE TreesFrom(_)
TreesFrom(i) == IF i > Len(NameSeq) THEN {{}}
                ELSE {o \cup t : o \in Options(NameSeq[i]), t \in TreesFrom(i + 1)}
AllTrees == TreesFrom(1)

VARIABLES ta, tb
Init == ta \in AllTrees /\ tb \in AllTrees
Next == UNCHANGED <<ta, tb>>
Spec == Init /\ [][Next]_<<ta, tb>>

Design == WellFormed(ta) /\ WellFormed(tb) /\ RoundTrip(ta, tb) /\ Quiet(ta)

Emit == PrintT(<<"CASE", ToJson([a |-> SetToSeq(ta), b |-> SetToSeq(tb), changes |-> SetToSeq(Diff(ta, tb))])>>)
=============================================================================
