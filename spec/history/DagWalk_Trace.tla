--------------------------- MODULE DagWalk_Trace ---------------------------
(* Binding B (and C) for C47: TLC judges recorded walks.  One event:        *)
(*   [par, time : the world; mode : which walk; tips, ends : seq of commits;*)
(*    cutoff : time; seq : the commits in the order they were returned;     *)
(*    nograph : BOOLEAN, git ran without a commit-graph (g_* events only)]  *)
(* gix modes: s_* = gix_traverse::commit::Simple, t_* = ..::Topo;           *)
(* git modes: g_* = git rev-list (audit of the order operators).            *)
EXTENDS Dag, TraceIO

VARIABLE l
Init == l = 1
Next == l <= NRec /\ l' = l + 1
Spec == Init /\ [][Next]_l

Judge(r) ==
  LET d == [par |-> r.par, time |-> r.time]
      m == r.mode
  IN /\ WellFormed(d)
     /\ CASE m = "s_bfs"     -> r.seq = BfsOrder(d, r.tips, FALSE)
          [] m = "s_bfs_fp"  -> r.seq = BfsOrder(d, r.tips, TRUE)
          \* sorted by commit time, no rule for equal times: any priority-queue run
          [] m = "s_new"     -> ValidPqRun(d, r.tips, TRUE, 0, r.seq)
          [] m = "s_old"     -> ValidPqRun(d, r.tips, FALSE, 0, r.seq)
          [] m = "s_cut_new" -> ValidPqRun(d, r.tips, TRUE, r.cutoff, r.seq)
          [] m = "s_cut_old" -> ValidPqRun(d, r.tips, FALSE, r.cutoff, r.seq)
          \* first-parent mode with a time sorting: only the set is specified
          [] m = "s_new_fp"  -> NoDup(r.seq) /\ SeqSet(r.seq) = FpReachable(d, SeqSet(r.tips))
          [] m = "t_topo"    -> r.seq = TopoOrder(d, r.tips, r.ends, FALSE, FALSE)
          [] m = "t_topo_fp" -> IF FpOrderDefined(d, r.tips, r.ends, FALSE) THEN r.seq = TopoOrder(d, r.tips, r.ends, TRUE, FALSE)
                                ELSE NoDup(r.seq) /\ SeqSet(r.seq) = Shown(d, r.tips, r.ends, TRUE)
          [] m = "t_date"    -> r.seq = TopoOrder(d, r.tips, r.ends, FALSE, TRUE)
          [] m = "t_date_fp" -> IF FpOrderDefined(d, r.tips, r.ends, TRUE) THEN r.seq = TopoOrder(d, r.tips, r.ends, TRUE, TRUE)
                                ELSE NoDup(r.seq) /\ SeqSet(r.seq) = Shown(d, r.tips, r.ends, TRUE)
          \* audit events: git's limited walks without generation numbers are the reference only without clock skew
          [] m = "g_topo"    -> (r.nograph /\ ~SkewFree(d)) \/ r.seq = TopoOrder(d, r.tips, r.ends, FALSE, FALSE)
          [] m = "g_topo_fp" -> (r.nograph /\ ~SkewFree(d)) \/ r.seq = TopoOrderE(d, r.tips, r.ends, TRUE, FALSE, IF r.nograph THEN "all" ELSE "graph")
          [] m = "g_date"    -> (r.nograph /\ ~SkewFree(d)) \/ r.seq = TopoOrder(d, r.tips, r.ends, FALSE, TRUE)
          [] m = "g_date_fp" -> (r.nograph /\ ~SkewFree(d)) \/ r.seq = TopoOrderE(d, r.tips, r.ends, TRUE, TRUE, IF r.nograph THEN "all" ELSE "graph")
          [] m = "g_def"     -> r.seq = DefaultOrder(d, r.tips, FALSE, 0)
          [] m = "g_def_fp"  -> r.seq = DefaultOrder(d, r.tips, TRUE, 0)
          [] m = "g_cut"     -> r.seq = DefaultOrder(d, r.tips, FALSE, r.cutoff)
          [] OTHER -> FALSE

EventOk == l <= NRec => (Judge(Rec[l]) \/ PrintT(<<"REJECT", l>>))
=============================================================================
