----------------------------- MODULE DagMB_Gen -----------------------------
(* Binding A for C46.  For every enumerated history (DagEnum: <= MaxN       *)
(* commits, ordered parent lists, a commit-time pattern) one line is        *)
(* printed with *every* merge-base query whose tips cover all childless     *)
(* commits (a world with a commit no tip reaches is a smaller world plus    *)
(* noise) and the specification's answer.                                   *)
EXTENDS DagEnum, Json
CONSTANTS MaxOthers

Queries ==
  {<<f, O>> : f \in 1..N, O \in {S \in SUBSET (1..N) : Cardinality(S) <= MaxOthers}}
Covered == {q \in Queries : Sinks \subseteq ({q[1]} \cup q[2])}

\* design-level statement, checked on every enumerated world and query
Sound == Done => \A q \in Covered : MergeBasesSound(World, q[1], q[2])

Emit == Done =>
  PrintT(<<"CASE", ToJson([par |-> par, time |-> TimeOf(pat), pat |-> pat,
                           queries |-> SetToSeq({[first |-> q[1], others |-> Sorted(q[2]),
                                                  mb |-> Sorted(MergeBases(World, q[1], q[2]))] : q \in Covered})])>>)
=============================================================================
