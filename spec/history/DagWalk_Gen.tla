---------------------------- MODULE DagWalk_Gen ----------------------------
(* Binding A for C47.  For every enumerated history (DagEnum) and every     *)
(* query (tips: <= MaxTips distinct commits in order; ends: <= MaxEnds      *)
(* commits) whose commits cover all childless commits, the sequences the    *)
(* specification prescribes for each walk mode are printed.                 *)
EXTENDS DagEnum, Json
CONSTANTS MaxTips, MaxEnds, LawN

TipSeqs == {s \in UNION {[1..k -> 1..N] : k \in 1..MaxTips} : NoDup(s)}
EndSets == {S \in SUBSET (1..N) : Cardinality(S) <= MaxEnds}
Queries == {<<t, Sorted(E)>> : t \in TipSeqs, E \in EndSets}
Covered == {q \in Queries : Sinks \subseteq (SeqSet(q[1]) \cup SeqSet(q[2]))}

\* the time cut-off used for a query: the date of the middle commit
Cutoff == TimeOf(pat)[(N + 1) \div 2]

AllDistinct(S) == \A a, b \in S : a # b => TimeOf(pat)[a] # TimeOf(pat)[b]

Expect(q) ==
  LET d == World
      tips == q[1]
      ends == q[2]
      simple == ends = <<>>       \* gix_traverse::commit::Simple cannot hide commits
  IN [tips |-> tips, ends |-> ends, cutoff |-> Cutoff,
      distinct |-> AllDistinct(Reachable(d, SeqSet(tips))),
      bfs    |-> IF simple THEN BfsOrder(d, tips, FALSE) ELSE <<>>,
      bfsfp  |-> IF simple THEN BfsOrder(d, tips, TRUE) ELSE <<>>,
      def    |-> IF simple THEN DefaultOrder(d, tips, FALSE, 0) ELSE <<>>,
      deffp  |-> IF simple THEN DefaultOrder(d, tips, TRUE, 0) ELSE <<>>,
      cut    |-> IF simple THEN DefaultOrder(d, tips, FALSE, Cutoff) ELSE <<>>,
      topo   |-> TopoOrder(d, tips, ends, FALSE, FALSE),
      topofp |-> TopoOrder(d, tips, ends, TRUE, FALSE),
      date   |-> TopoOrder(d, tips, ends, FALSE, TRUE),
      datefp |-> TopoOrder(d, tips, ends, TRUE, TRUE),
      \* what git prints without generation numbers (in-degrees over all shown parents)
      topofpall |-> TopoOrderE(d, tips, ends, TRUE, FALSE, "all"),
      datefpall |-> TopoOrderE(d, tips, ends, TRUE, TRUE, "all"),
      \* what git prints with generation numbers (commit-graph)
      topofpgraph |-> TopoOrderE(d, tips, ends, TRUE, FALSE, "graph"),
      datefpgraph |-> TopoOrderE(d, tips, ends, TRUE, TRUE, "graph")]

\* design-level statements, checked on every enumerated world of <= LawN commits and every query
Laws == (Done /\ N <= LawN) => \A q \in Covered : \A fp \in BOOLEAN : WalkLaws(World, q[1], q[2], fp)

Emit == Done =>
  PrintT(<<"CASE", ToJson([par |-> par, time |-> TimeOf(pat), pat |-> pat, skewfree |-> SkewFree(World),
                           queries |-> SetToSeq({Expect(q) : q \in Covered})])>>)
=============================================================================
