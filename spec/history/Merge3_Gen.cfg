SPECIFICATION Spec
CONSTANTS
  MaxBase = 3
  MaxEdits = 1
  NSyms = 2
  Variants = {"lf", "crlf", "lf_noeol", "crlf_noeol", "mixed", "lf_ours_noeol", "lf_theirs_noeol"}
INVARIANTS
  InvRender
  Emit
CHECK_DEADLOCK FALSE
