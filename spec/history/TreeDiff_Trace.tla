--------------------------- MODULE TreeDiff_Trace ---------------------------
(* Binding B (and C) for C44: TLC judges recorded change lists.  One event:  *)
(*   [a, b : the two trees as sequences of leaves [p, k, id];                *)
(*    changes : sequence of [c, p, pk, pid, k, id] as reported;              *)
(*    src : "rec" (gix_diff::tree + Recorder) | "twr" (tree_with_rewrites    *)
(*          without rewrites) | "git" (git diff-tree, audit)]                *)
(* A directory entry whose reported object id is not the id of that          *)
(* directory is recorded with id = 1 and is therefore rejected.              *)
EXTENDS TreeDiff, TraceIO

VARIABLE l
Init == l = 1
Next == l <= NRec /\ l' = l + 1
Spec == Init /\ [][Next]_l

SeqSet(s) == {s[i] : i \in 1..Len(s)}
NoDup(s) == \A i, j \in 1..Len(s) : i # j => s[i] # s[j]

Judge(r) ==
  LET a == SeqSet(r.a)
      b == SeqSet(r.b)
  IN /\ WellFormed(a) /\ WellFormed(b)
     /\ NoDup(r.changes)                     \* nothing twice
     /\ SeqSet(r.changes) = Diff(a, b)       \* exactly git's additions, deletions, modifications
     /\ Apply(a, SeqSet(r.changes)) = b      \* applying them to the first tree yields the second

EventOk == l <= NRec => (Judge(Rec[l]) \/ PrintT(<<"REJECT", l>>))
=============================================================================
