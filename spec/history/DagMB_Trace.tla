---------------------------- MODULE DagMB_Trace ----------------------------
(* Binding B for C46: TLC judges what gix_revision::merge_base answered on   *)
(* seeded random histories (larger than the exhaustive scope).  One event:   *)
(*   [par, time : the world; first : commit; others : seq of commits;        *)
(*    none : BOOLEAN (the call returned None); bases : seq of commits]       *)
EXTENDS Dag, TraceIO

VARIABLE l
Init == l = 1
Next == l <= NRec /\ l' = l + 1
Spec == Init /\ [][Next]_l

Judge(r) ==
  LET d == [par |-> r.par, time |-> r.time]
      M == MergeBases(d, r.first, SeqSet(r.others))
  IN /\ WellFormed(d)
     /\ NoDup(r.bases)                       \* each merge base once
     /\ SeqSet(r.bases) = M                  \* exactly git's set
     /\ r.none = (M = {})                    \* None iff there is no merge base

EventOk == l <= NRec => (Judge(Rec[l]) \/ PrintT(<<"REJECT", l>>))
=============================================================================
