----------------------------- MODULE CommitGraph -----------------------------
(* C14.  Commit-graph data versus the commits it describes.                   *)
(*                                                                            *)
(* Abstract side: a history is a sequence of commits 1..N, commit i with an   *)
(* ordered list of parents (indices < i: topologically numbered), a root tree *)
(* and a committer time.  Object ids and times are opaque values here (ids:   *)
(* 40 hex bytes, times: decimal strings / 5 big-endian bytes), SHA-1 is       *)
(* uninterpreted.                                                             *)
(*   Gen(i) = 1 for a root, else 1 + max over parents  (topological level)    *)
(* A commit-graph (one file or a chain of files, base first) covers a set of  *)
(* commits; C14: for every covered commit a reader reports exactly its        *)
(* parents (in order), root tree, time and Gen; finds it by id; and finds no  *)
(* commit that is not covered.                                                *)
(*                                                                            *)
(* Byte side: DecodeFile reads one .graph file (header, chunk table, OIDF,    *)
(* OIDL, CDAT, EDGE, BASE) as gitformat-commit-graph describes it; ChainOk    *)
(* states that a chain of files says about every commit what the history says.*)
EXTENDS Bytes, FiniteSets, TLC

-----------------------------------------------------------------------------
(* abstract history *)
MaxOfSet(S) == CHOOSE m \in S : \A x \in S : m >= x

\* the generation numbers of all commits, oldest first (each computed once from those before it)
RECURSIVE GensUpTo(_, _, _)
GensUpTo(parents, i, acc) ==
  IF i > Len(parents) THEN acc
  ELSE GensUpTo(parents, i + 1,
                Append(acc, IF parents[i] = <<>> THEN 1
                            ELSE 1 + MaxOfSet({ acc[parents[i][k]] : k \in 1..Len(parents[i]) })))
Gens(parents) == GensUpTo(parents, 1, <<>>)
Gen(parents, i) == Gens(parents)[i]

WellFormed(parents) ==
  \A i \in 1..Len(parents) :
     /\ \A k \in 1..Len(parents[i]) : parents[i][k] \in 1..(i - 1)
     /\ \A k, m \in 1..Len(parents[i]) : k # m => parents[i][k] # parents[i][m]

Roots(parents) == { i \in 1..Len(parents) : parents[i] = <<>> }

\* design-level statements about Gen
GenLaw(parents) ==
  LET g == Gens(parents) IN
  \A i \in 1..Len(parents) :
     /\ g[i] >= 1 /\ (parents[i] = <<>> <=> g[i] = 1)
     /\ \A k \in 1..Len(parents[i]) : g[i] > g[parents[i][k]]
     /\ (parents[i] # <<>> => \E k \in 1..Len(parents[i]) : g[i] = g[parents[i][k]] + 1)

\* what a reader must report for covered commit i of history h = [parents, ids, trees, times]
Expected(h, gens, i) ==
  [found |-> TRUE, id |-> h.ids[i], tree |-> h.trees[i], time |-> h.times[i], gen |-> gens[i],
   parents |-> [k \in 1..Len(h.parents[i]) |-> h.ids[h.parents[i][k]]]]
NotFound == [found |-> FALSE]

\* obs: [num : Nat, commits : Seq(record per commit of the history), positions : Seq(Nat or -1),
\*       iter_ids : ids in graph position order, by_pos_ok, iter_agree, verify_ok : BOOLEAN]
\* covered: the commits 1..covered are in the graph (written with --reachable when they were all there were)
ReaderOk(h, covered, obs) ==
  LET gens == Gens(h.parents) IN
  /\ obs.num = covered
  /\ \A i \in 1..Len(h.parents) :
        IF i <= covered THEN obs.commits[i] = Expected(h, gens, i) ELSE obs.commits[i] = NotFound
  /\ \A i \in 1..covered : obs.positions[i] \in 0..(covered - 1) /\ obs.iter_ids[obs.positions[i] + 1] = h.ids[i]
  /\ \A i, j \in 1..covered : i # j => obs.positions[i] # obs.positions[j]
  /\ Len(obs.iter_ids) = covered
  /\ obs.by_pos_ok /\ obs.iter_agree /\ obs.verify_ok

-----------------------------------------------------------------------------
(* the file format *)
U16(b, off) == b[off + 1] * 256 + b[off + 2]
\* unsigned 32 bit big endian, for values below 2^31 (TLC integers are 32 bit); -1 otherwise
U31(b, off) == IF b[off + 1] >= 128 THEN -1 ELSE (U16(b, off) * 256 + b[off + 3]) * 256 + b[off + 4]
\* 64-bit offsets of the chunk table: upper half must be zero
Off64(b, off) == IF SubSeq(b, off + 1, off + 4) # <<0, 0, 0, 0>> THEN -1 ELSE U31(b, off + 4)

HashLen == 20
SIG == <<67, 71, 80, 72>>                 \* "CGPH"
ID_OIDF == <<79, 73, 68, 70>>  ID_OIDL == <<79, 73, 68, 76>>  ID_CDAT == <<67, 68, 65, 84>>
ID_EDGE == <<69, 68, 71, 69>>  ID_BASE == <<66, 65, 83, 69>>
NO_PARENT == <<112, 0, 0, 0>>             \* 0x70000000

\* chunk table: entries (4 byte id, 8 byte offset), terminated by a zero id whose offset ends the last chunk
ChunkEntry(b, k) == [id |-> SubSeq(b, 8 + 12 * k + 1, 8 + 12 * k + 4), off |-> Off64(b, 8 + 12 * k + 4)]
ChunkIndex(b, n, id) == IF \E k \in 0..(n - 1) : ChunkEntry(b, k).id = id
                        THEN CHOOSE k \in 0..(n - 1) : ChunkEntry(b, k).id = id ELSE -1
ChunkStart(b, n, id) == LET k == ChunkIndex(b, n, id) IN IF k < 0 THEN -1 ELSE ChunkEntry(b, k).off
ChunkEnd(b, n, id)   == LET k == ChunkIndex(b, n, id) IN IF k < 0 THEN -1 ELSE ChunkEntry(b, k + 1).off

\* one parent field of CDAT: [kind : "none" | "pos" | "ext", v]
Edge(b, off) ==
  IF SubSeq(b, off + 1, off + 4) = NO_PARENT THEN [kind |-> "none", v |-> 0]
  ELSE IF b[off + 1] >= 128 THEN [kind |-> "ext", v |-> U31(<<b[off + 1] - 128, b[off + 2], b[off + 3], b[off + 4]>>, 0)]
  ELSE [kind |-> "pos", v |-> U31(b, off)]

\* parents (graph positions) from the extra edge list starting at entry idx, up to the entry with the top bit
RECURSIVE ExtraEdges(_, _, _, _)
ExtraEdges(b, start, idx, acc) ==
  LET off == start + 4 * idx
      last == b[off + 1] >= 128
      v == U31(<<b[off + 1] % 128, b[off + 2], b[off + 3], b[off + 4]>>, 0)
  IN IF last THEN Append(acc, v) ELSE ExtraEdges(b, start, idx + 1, Append(acc, v))

DecodeFile(b) ==
  LET n      == b[7]                         \* number of chunks
      fanS   == ChunkStart(b, n, ID_OIDF)
      oidS   == ChunkStart(b, n, ID_OIDL)
      cdS    == ChunkStart(b, n, ID_CDAT)
      edS    == ChunkStart(b, n, ID_EDGE)
      baseS  == ChunkStart(b, n, ID_BASE)
      num    == U31(b, fanS + 4 * 255)
      commit(k) ==
        LET c  == cdS + (HashLen + 16) * k
            p1 == Edge(b, c + HashLen)
            p2 == Edge(b, c + HashLen + 4)
            ps == IF p1.kind = "none" THEN <<>>
                  ELSE IF p2.kind = "none" THEN <<p1.v>>
                  ELSE IF p2.kind = "pos" THEN <<p1.v, p2.v>>
                  ELSE <<p1.v>> \o ExtraEdges(b, edS, p2.v, <<>>)
        IN [id |-> SubSeq(b, oidS + HashLen * k + 1, oidS + HashLen * (k + 1)),
            tree |-> SubSeq(b, c + 1, c + HashLen),
            p1kind |-> p1.kind,
            parents |-> ps,
            gen |-> U31(b, c + HashLen + 8) \div 4,
            time5 |-> <<b[c + HashLen + 12] % 4>> \o SubSeq(b, c + HashLen + 13, c + HashLen + 16)]
  IN [sigok   |-> SubSeq(b, 1, 4) = SIG /\ b[5] = 1 /\ b[6] = 1,
      nbase   |-> b[8],
      chunksok |-> /\ fanS > 0 /\ oidS > 0 /\ cdS > 0
                   /\ ChunkEnd(b, n, ID_OIDF) - fanS = 1024
                   /\ ChunkEnd(b, n, ID_OIDL) - oidS = HashLen * num
                   /\ ChunkEnd(b, n, ID_CDAT) - cdS = (HashLen + 16) * num
                   /\ ChunkEntry(b, n).id = <<0, 0, 0, 0>>
                   /\ ChunkEntry(b, n).off + HashLen = Len(b)          \* the trailing checksum follows the last chunk
                   /\ (b[8] > 0 => baseS > 0 /\ ChunkEnd(b, n, ID_BASE) - baseS = HashLen * b[8]),
      num     |-> num,
      fan     |-> [x \in 0..255 |-> U31(b, fanS + 4 * x)],
      commits |-> [k \in 1..num |-> commit(k - 1)],
      bases   |-> [k \in 1..b[8] |-> SubSeq(b, baseS + HashLen * (k - 1) + 1, baseS + HashLen * k)],
      trailer |-> SubSeq(b, Len(b) - HashLen + 1, Len(b))]

\* ids strictly ascending, fan-out table = running counts by first byte
FileShapeOk(f) ==
  /\ f.sigok /\ f.chunksok
  /\ \A k \in 1..(f.num - 1) : Less(f.commits[k].id, f.commits[k + 1].id)
  /\ \A x \in 0..255 : f.fan[x] = Cardinality({ k \in 1..f.num : f.commits[k].id[1] <= x })

RECURSIVE SumNum(_, _)
SumNum(fs, k) == IF k = 0 THEN 0 ELSE fs[k].num + SumNum(fs, k - 1)

\* the id at a graph position of a chain of decoded files (base first); <<>> if out of range
RECURSIVE IdAt(_, _, _)
IdAt(fs, pos, k) ==
  IF k > Len(fs) THEN <<>>
  ELSE IF pos < fs[k].num THEN fs[k].commits[pos + 1].id
  ELSE IdAt(fs, pos - fs[k].num, k + 1)

\* bytes of an id given as 40 hex characters
Unhex(hex) == [k \in 1..(Len(hex) \div 2) |-> HexVal(hex[2 * k - 1]) * 16 + HexVal(hex[2 * k])]

\* A chain of files (raw bytes, base first) with the evaluated SHA-1 of each file's content before its
\* trailer says about the commits 1..covered of history h what the history says, and nothing else.
ChainOk(h, covered, files, hcontent) ==
  LET fs == [k \in 1..Len(files) |-> DecodeFile(files[k])]
      gens == Gens(h.parents)
      index(i) == { <<k, j>> \in (1..Len(fs)) \X (1..covered) : j <= fs[k].num /\ fs[k].commits[j].id = Unhex(h.ids[i]) }
  IN /\ \A k \in 1..Len(fs) :
          /\ FileShapeOk(fs[k])
          /\ fs[k].nbase = k - 1                                        \* every file names the files below it
          /\ \A m \in 1..(k - 1) : fs[k].bases[m] = fs[m].trailer
          /\ fs[k].trailer = Unhex(hcontent[k])                         \* the checksum is H(content)
     /\ SumNum(fs, Len(fs)) = covered
     /\ \A i \in 1..covered :
          /\ Cardinality(index(i)) = 1                                  \* exactly once in the chain
          /\ LET at == CHOOSE x \in index(i) : TRUE
                 c  == fs[at[1]].commits[at[2]]
             IN /\ c.tree = Unhex(h.trees[i])
                /\ c.gen = gens[i]
                /\ c.time5 = h.time5[i]
                /\ Len(c.parents) = Len(h.parents[i])
                /\ \A p \in 1..Len(c.parents) : IdAt(fs, c.parents[p], 1) = Unhex(h.ids[h.parents[i][p]])
                /\ (Len(h.parents[i]) > 2 <=> Len(c.parents) > 2)
=============================================================================
