------------------------------ MODULE Loose_Gen ------------------------------
(* Binding A for C11: for every kind and every size of the size classes the   *)
(* header the format demands; the driver appends a body of that size, lets    *)
(* the evaluators compute H and Deflate, and compares with what the loose     *)
(* store wrote.  The run checks the header round trip on every case.          *)
EXTENDS Loose, Json, TLC
CONSTANTS Big,    \* TRUE: include the sizes above 4 KiB
          Sizes   \* {}: the size classes of Loose.tla; otherwise exactly these sizes

VARIABLES k, n
Init == k \in Kinds /\ n \in (IF Sizes = {} THEN { s \in Interesting(k) : Big \/ s <= 4097 } ELSE Sizes)
Spec == Init /\ [][UNCHANGED <<k, n>>]_<<k, n>>

InvHeader == HeaderRoundTrip(k, n) /\ Len(LooseHeader(k, n)) <= 28
Emit == PrintT(<<"CASE", ToJson([kind |-> k, n |-> n, header |-> LooseHeader(k, n), hlen |-> Len(LooseHeader(k, n))])>>)
=============================================================================
