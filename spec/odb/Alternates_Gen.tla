--------------------------- MODULE Alternates_Gen ---------------------------
(* C13, design check + binding A.  Every alternates graph over N directories  *)
(* (fan-out <= FanOut, <= MaxEdges links in total, every file that has links  *)
(* reachable from the main directory 1) x every layout of the directories at  *)
(* different depths x every writing style of the entries.  TLC prints git's   *)
(* list (Required), the directories reachable at all (Allowed) and whether a  *)
(* true cycle is reachable, and checks the design: the reference traversal    *)
(* Model satisfies Verdict (violated under each Bug_* switch: self-test).     *)
EXTENDS Alternates, Json

CONSTANTS N, FanOut, MaxEdges,
          Full     \* TRUE: every layout x every style; FALSE: six combinations covering each of them

Layouts == <<
  << <<"r1", "objects">>, <<"r 2", "objects">>, <<"n", "r3", "objects">>, <<"n", "m", "r4", "objects">>, <<"n", "m", "k", "r5", "objects">> >>,
  << <<"n", "m", "r1", "objects">>, <<"n", "r 2", "objects">>, <<"r3", "objects">>, <<"n", "m", "r4", "objects">>, <<"r5", "objects">> >>,
  << <<"r1", "objects">>, <<"r 2", "objects">>, <<"r3", "objects">>, <<"r4", "objects">>, <<"r5", "objects">> >> >>
Styles == 1..4

TargetLists == UNION { [1..k -> 1..N] : k \in 0..FanOut }

VARIABLES g, k, layout, style
vars == <<g, k, layout, style>>

Edges(f) == LET RECURSIVE Sum(_) Sum(d) == IF d = 0 THEN 0 ELSE (IF d \in DOMAIN f THEN Len(f[d]) ELSE 0) + Sum(d - 1) IN Sum(N)

Combos == IF Full THEN (1..Len(Layouts)) \X Styles ELSE { <<1, 1>>, <<1, 2>>, <<2, 2>>, <<2, 3>>, <<1, 4>>, <<3, 4>> }
Init == g = <<>> /\ k = 1 /\ \E c \in Combos : layout = c[1] /\ style = c[2]
Fill == /\ k <= N
        /\ \E l \in TargetLists : Len(l) + Edges(g) <= MaxEdges /\ g' = Append(g, l)
        /\ k' = k + 1 /\ UNCHANGED <<layout, style>>
Next == Fill
Spec == Init /\ [][Next]_vars

done == k > N

\* entry i of a file in the given style
EntryOf(t, i) ==
  CASE style = 1 -> [t |-> t, rel |-> FALSE, q |-> FALSE, slash |-> FALSE, raw |-> ""]
    [] style = 2 -> [t |-> t, rel |-> TRUE, q |-> FALSE, slash |-> FALSE, raw |-> ""]
    [] style = 3 -> [t |-> t, rel |-> TRUE, q |-> TRUE, slash |-> FALSE, raw |-> ""]
    [] OTHER     -> IF i % 2 = 1 THEN [t |-> t, rel |-> TRUE, q |-> FALSE, slash |-> TRUE, raw |-> ""]
                    ELSE [t |-> t, rel |-> FALSE, q |-> TRUE, slash |-> FALSE, raw |-> ""]
Raw(text) == [t |-> 0, rel |-> FALSE, q |-> FALSE, slash |-> FALSE, raw |-> text]

FileOf(d) == LET es == [i \in 1..Len(g[d]) |-> EntryOf(g[d][i], i)] IN
             IF style = 3 /\ es # <<>> THEN <<Raw("# a comment"), Raw("")>> \o es ELSE es

World == [paths |-> SubSeq(Layouts[layout], 1, N), files |-> [d \in 1..N |-> FileOf(d)]]

\* the graph itself: entries are their targets (checked by RelPathSound)
GAdj == [d \in 1..N |-> g[d]]
Canonical == LET R == {1} \cup ReachFrom(GAdj, 1) IN \A d \in 1..N : g[d] # <<>> => d \in R

\* what the harness writes: the text of every line as components
LineOf(w, d, e) == IF IsEntry(e) THEN [abs |-> ~e.rel, comps |-> EntryComps(w, d, e), q |-> e.q, slash |-> e.slash, raw |-> ""]
                   ELSE [abs |-> FALSE, comps |-> <<>>, q |-> FALSE, slash |-> FALSE, raw |-> e.raw]
Lines(w) == [d \in 1..N |-> [i \in 1..Len(w.files[d]) |-> LineOf(w, d, w.files[d][i])]]

SetToSeq(S) == LET RECURSIVE Up(_) Up(d) == IF d > N THEN <<>> ELSE (IF d \in S THEN <<d>> ELSE <<>>) \o Up(d + 1) IN Up(1)

\* one invariant, so that the world and git's list are built once per state:
\*  RelPathSound  a relative text read from its own directory is its target
\*  design        the reference traversal Model satisfies Verdict (violated under each Bug_* switch)
\*  git's list    distinct alternates, all reachable, never the main directory
Checks(w, adj, r, a) ==
  /\ RelPathSound(w)
  /\ VerdictWith(r, a, TrueCycleAdj(adj, 1), 1, N, Model(w, 1))
  /\ \A i, j \in 1..Len(r) : i # j => r[i] # r[j]
  /\ \A i \in 1..Len(r) : r[i] \in a

InvDesign == (done /\ Canonical) => LET w == World adj == Adj(w) IN Checks(w, adj, GitResolveAdj(adj, 1), AllowedAdj(adj, 1))

Emit == (done /\ Canonical) => LET w == World adj == Adj(w) IN
  PrintT(<<"CASE", ToJson([root |-> 1, layout |-> layout, style |-> style, graph |-> g,
                           paths |-> w.paths, files |-> w.files, lines |-> Lines(w),
                           required |-> GitResolveAdj(adj, 1), allowed |-> SetToSeq(AllowedAdj(adj, 1)),
                           truecycle |-> TrueCycleAdj(adj, 1)])>>)
=============================================================================
