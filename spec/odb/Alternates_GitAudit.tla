------------------------- MODULE Alternates_GitAudit -------------------------
(* Binding C for C13 on worlds that were not enumerated by Alternates_Gen:     *)
(* what the installed git lists (`count-objects -v`) and can read in the       *)
(* materialised world must be exactly GitResolve.  One event:                  *)
(*   [paths, files, root, alternates : Seq(directory), readable : Seq(BOOLEAN)]*)
(* A rejected event means the transcription of git is wrong (tool error).      *)
EXTENDS Alternates, TraceIO

VARIABLE l
Init == l = 1
Next == l <= NRec /\ l' = l + 1
Spec == Init /\ [][Next]_l

Judge(r) ==
  LET req == GitResolve([paths |-> r.paths, files |-> r.files], r.root) IN
  /\ r.alternates = req
  /\ \A d \in 1..Len(r.paths) : r.readable[d] <=> (d = r.root \/ InSeq(d, req))

EventOk == l <= NRec => (Judge(Rec[l]) \/ PrintT(<<"REJECT", l>>))
=============================================================================
