--------------------------- MODULE CommitGraph_Gen ---------------------------
(* Binding A for C14: every history of <= N commits (topologically numbered,  *)
(* ordered parent lists of <= MaxParents distinct parents, <= MaxRoots roots) *)
(* with the generation number of every commit.  The driver builds each with   *)
(* git, writes commit-graphs (single file / split chains) and compares what   *)
(* gix-commitgraph reports.  The run checks GenLaw on every history.          *)
EXTENDS CommitGraph, Json, FiniteSets

CONSTANTS N, MaxParents, MaxRoots, MinN

VARIABLE parents
Init == parents = <<>>

\* ordered lists of <= MaxParents distinct earlier commits
RECURSIVE Lists(_, _)
Lists(S, k) == IF k = 0 THEN {<<>>}
               ELSE LET shorter == Lists(S, k - 1) IN
                    shorter \cup { Append(l, x) : l \in { m \in shorter : Len(m) = k - 1 }, x \in S }
Distinct(l) == \A a, b \in 1..Len(l) : a # b => l[a] # l[b]

Add == /\ Len(parents) < N
       /\ \E l \in { m \in Lists(1..Len(parents), MaxParents) : Distinct(m) } :
             /\ (l = <<>> => Cardinality(Roots(parents)) < MaxRoots)
             /\ parents' = Append(parents, l)
Spec == Init /\ [][Add]_parents

InvWellFormed == WellFormed(parents)
InvGenLaw == GenLaw(parents)
Emit == Len(parents) >= MinN =>
  PrintT(<<"CASE", ToJson([parents |-> parents, gens |-> Gens(parents)])>>)
=============================================================================
