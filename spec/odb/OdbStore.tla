------------------------------ MODULE OdbStore ------------------------------
(* Prototype written during the design round to size the C12 model.          *)
EXTENDS Naturals, Sequences, FiniteSets, TLC

CONSTANTS Handles, Files, NSlots, MaxEnv, MaxLookups, BugUnreachable, BugLoadingRace, BugStalePrev

NoFile == "nofile"
NoOne  == "noone"
SlotIds == 0 .. (NSlots - 1)
Objs == {"x", "m"}                 \* x: lives in every pack; m: never exists (forces refreshes)
Content(f) == {"x"}
Rank == CHOOSE r \in [Files -> 1..Cardinality(Files)] : \A a, b \in Files : a # b => r[a] # r[b]

RECURSIVE SortedSeq(_)
SortedSeq(S) == IF S = {} THEN <<>>
                ELSE LET m == CHOOSE a \in S : \A b \in S : Rank[a] <= Rank[b]
                     IN <<m>> \o SortedSeq(S \ {m})
Range(s) == {s[i] : i \in 1..Len(s)}
MaxOf(S) == CHOOSE a \in S : \A b \in S : a >= b
EmptySlot == [file |-> NoFile, gen |-> 0, idx |-> "unloaded", pack |-> "unloaded"]

(* --algorithm OdbStore {
variables
  disk = {}, used = {},
  slots = [i \in SlotIds |-> EmptySlot],
  idxobjs = << [slots |-> <<>>, gen |-> 0, loaded |-> 0, next |-> 0, init |-> FALSE, loading |-> 0] >>,
  cur = 1,
  wlock = NoOne,
  slock = [i \in SlotIds |-> NoOne],
  envSteps = 0,
  panic = FALSE, wrong = FALSE, insufficient = FALSE,
  snap = [h \in Handles |-> [entries |-> {}, gen |-> 0, id |-> 1, loaded |-> 0]],
  lnres = [h \in Handles |-> FALSE], consres = [h \in Handles |-> FALSE], loires = [h \in Handles |-> FALSE];

define {
  Present == UNION {Content(f) : f \in disk}
  Snapshot(io) == [ entries |-> IF idxobjs[io].init
                                 THEN { [slot |-> s, file |-> slots[s].file, pack |-> (slots[s].pack = "loaded")] :
                                          s \in {t \in Range(idxobjs[io].slots) : slots[t].file # NoFile /\ slots[t].idx = "loaded"} }
                                 ELSE {},
                    gen |-> idxobjs[io].gen, id |-> io, loaded |-> idxobjs[io].loaded ]
}

procedure load_next_index(io0)
  variables io = 0, prev = 0, k = 0, s = 0, changed = FALSE;
{
 LN0: io := io0;
 LN0b: prev := idxobjs[io].loaded;
 LN1: if (idxobjs[io].next # Len(idxobjs[io].slots)) {
        k := idxobjs[io].next + 1;
        idxobjs[io] := [idxobjs[io] EXCEPT !.next = @ + 1, !.loading = IF BugLoadingRace THEN @ ELSE @ + 1];
 LN1b:  if (BugLoadingRace) { idxobjs[io].loading := idxobjs[io].loading + 1; };
 LN2:   s := idxobjs[io].slots[k];
        await slock[s] = NoOne;
        if (slots[s].gen > idxobjs[io].gen) { idxobjs[io].loading := idxobjs[io].loading - 1; goto LN1; }
        else if (slots[s].file # NoFile) {
           if (slots[s].idx \in {"loaded"}) {
              idxobjs[io] := [idxobjs[io] EXCEPT !.loaded = @ + 1, !.loading = @ - 1];
              goto LN5;
           } else if (slots[s].file \in disk) {
              slots[s].idx := "loaded" || idxobjs[io] := [idxobjs[io] EXCEPT !.loaded = @ + 1, !.loading = @ - 1];
              goto LN5;
           } else {
              slots[s].idx := "missing" || idxobjs[io] := [idxobjs[io] EXCEPT !.loaded = @ + 1, !.loading = @ - 1];
              goto LN1;
           }
        } else { idxobjs[io].loading := idxobjs[io].loading - 1; goto LN1; }
      } else {
 LN4:   await idxobjs[io].loading = 0;
      };
 LN5: if (prev = idxobjs[io].loaded) {
        if (cur = io) { lnres[self] := FALSE; return; }
        else { io := cur; goto LN0b; }
      } else { lnres[self] := TRUE; return; }
}

procedure consolidate(needs_init, load_new)
  variables i0 = 0, keep = <<>>, add = <<>>, remove = <<>>, nloaded = 0, nextFree = 0, checked = 0,
            needGen = FALSE, generation = 0, c = 0, g2 = 0, newSlots = <<>>;
{
 K1: i0 := cur;
 K2: await wlock = NoOne; wlock := self;
 K3: if (cur # i0 \/ (idxobjs[cur].init /\ needs_init)) {
        await idxobjs[cur].loading = 0; snap[self] := Snapshot(cur); consres[self] := TRUE; wlock := NoOne; return;
     } else {
        with (D = disk, ix = idxobjs[cur]) {
          keep := SelectSeq(SortedSeq(D), LAMBDA f : \E t \in Range(ix.slots) : slots[t].file = f);
          add  := SelectSeq(SortedSeq(D), LAMBDA f : ~ \E t \in Range(ix.slots) : slots[t].file = f);
          remove := SelectSeq(ix.slots, LAMBDA t : slots[t].file # NoFile /\ slots[t].file \notin D);
          nextFree := IF ix.slots = <<>> THEN 0 ELSE (MaxOf(Range(ix.slots)) + 1) % NSlots;
        };
        newSlots := [j \in 1..Len(keep) |-> CHOOSE t \in Range(idxobjs[cur].slots) : slots[t].file = keep[j]];
        nloaded := Cardinality({j \in 1..Len(newSlots) : slots[newSlots[j]].idx = "loaded"});
        checked := 0; needGen := FALSE;
     };
 K3b: \* refuse before anything is changed if the new files cannot all be placed (slots of files that still exist are no candidates)
     if (Len(add) > NSlots - Len(keep)) { insufficient := TRUE; consres[self] := FALSE; wlock := NoOne; return; };
 K4: while (add # <<>>) {
        if (checked = NSlots) { insufficient := TRUE; consres[self] := FALSE; wlock := NoOne; return; };
 K4s:   c := nextFree; nextFree := (nextFree + 1) % NSlots; checked := checked + 1;
        if (c \in Range(newSlots)) {
           \* the slot holds a file that still exists (or was just placed): not a candidate
           skip;
        } else if (slots[c].file # NoFile) {
           await slock[c] = NoOne; slock[c] := self;
           slots[c].gen := idxobjs[cur].gen + 1;
 K4b:      slots[c] := [file |-> Head(add), gen |-> slots[c].gen, idx |-> "unloaded", pack |-> "unloaded"];
           slock[c] := NoOne; needGen := TRUE;
           remove := SelectSeq(remove, LAMBDA t : t # c);
           newSlots := Append(newSlots, c); add := Tail(add);
        } else {
           await slock[c] = NoOne;
           slots[c] := [file |-> Head(add), gen |-> idxobjs[cur].gen, idx |-> "unloaded", pack |-> "unloaded"];
           newSlots := Append(newSlots, c); add := Tail(add);
        }
     };
 K5: generation := IF needGen THEN idxobjs[cur].gen + 1 ELSE idxobjs[cur].gen;
     if (idxobjs[cur].slots # newSlots \/ ~idxobjs[cur].init) {
        idxobjs := Append(idxobjs, [slots |-> newSlots, gen |-> generation, loaded |-> nloaded, next |-> 0, init |-> TRUE, loading |-> 0]);
        cur := Len(idxobjs);
     };
 K6: while (remove # <<>>) {
        await slock[Head(remove)] = NoOne; slock[Head(remove)] := self;
        slots[Head(remove)].gen := generation;
 K6b:   slots[Head(remove)] := [file |-> NoFile, gen |-> slots[Head(remove)].gen, idx |-> "unloaded", pack |-> "unloaded"];
        slock[Head(remove)] := NoOne;
        remove := Tail(remove);
     };
 K7: if (i0 = cur /\ TRUE) {
        \* same index object: state id unchanged unless someone loaded in between (compare loaded counters of same obj: equal)
        consres[self] := FALSE; wlock := NoOne; return;
     } else if (load_new) {
        call load_next_index(cur);
 K8:    await idxobjs[cur].loading = 0; snap[self] := Snapshot(cur); consres[self] := TRUE; wlock := NoOne; return;
     } else {
        await idxobjs[cur].loading = 0; snap[self] := Snapshot(cur); consres[self] := TRUE; wlock := NoOne; return;
     }
}

procedure load_one_index()
  variables li = 0;
{
 LO1: li := cur;
      if (~idxobjs[li].init) { call consolidate(TRUE, FALSE); LO1r: if (~consres[self] /\ (~BugStalePrev /\ <<snap[self].gen, snap[self].id, snap[self].loaded>> # <<idxobjs[cur].gen, cur, idxobjs[cur].loaded>>)) { await idxobjs[cur].loading = 0; snap[self] := Snapshot(cur); loires[self] := TRUE; return; } else { loires[self] := consres[self]; return; }; };
 LO2: if (<<snap[self].gen, snap[self].id, snap[self].loaded>> # <<idxobjs[li].gen, li, idxobjs[li].loaded>>) {
         await idxobjs[cur].loading = 0; snap[self] := Snapshot(cur); loires[self] := TRUE; return;
      } else {
         call load_next_index(li);
 LO3:    if (lnres[self] \/ (~BugStalePrev /\ <<snap[self].gen, snap[self].id, snap[self].loaded>> # <<idxobjs[cur].gen, cur, idxobjs[cur].loaded>>)) { await idxobjs[cur].loading = 0; snap[self] := Snapshot(cur); loires[self] := TRUE; return; }
         else { call consolidate(FALSE, TRUE); LO4: if (~consres[self] /\ (~BugStalePrev /\ <<snap[self].gen, snap[self].id, snap[self].loaded>> # <<idxobjs[cur].gen, cur, idxobjs[cur].loaded>>)) { await idxobjs[cur].loading = 0; snap[self] := Snapshot(cur); loires[self] := TRUE; return; } else { loires[self] := consres[self]; return; }; }
      }
}

process (H \in Handles)
  variables tgt = "x", res = "none", lookups = 0, present0 = FALSE, e = [slot |-> 0, file |-> NoFile, pack |-> FALSE],
            pinned = EmptySlot, got = NoFile;
{
 start: while (lookups < MaxLookups) {
   pick: with (t \in Objs) { tgt := t; };
         res := "none"; present0 := (tgt \in Present); lookups := lookups + 1;
   search:
         if (\E en \in snap[self].entries : tgt \in Content(en.file)) {
            with (en \in {en2 \in snap[self].entries : tgt \in Content(en2.file)}) { e := en; };
            if (e.pack) { res := "found"; goto fin; };
   LP1:     if (idxobjs[cur].gen # snap[self].gen) { goto miss; };
   LP2:     pinned := slots[e.slot];
   LP3:     if (slots[e.slot].gen > snap[self].gen) { goto miss; };
   LP4:     if (pinned.file = NoFile) {
               if (BugUnreachable) { panic := TRUE; res := "panic"; goto fin; } else { goto miss; }
            } else if (pinned.pack = "loaded") { got := pinned.file; goto have; };
   LP5:     await slock[e.slot] = NoOne;
            if (slots[e.slot].file = NoFile) {
               if (BugUnreachable) { panic := TRUE; res := "panic"; goto fin; } else { goto miss; }
            } else if (slots[e.slot].pack = "loaded") { got := slots[e.slot].file; goto have; }
            else if (slots[e.slot].pack = "missing") { goto miss; }
            else if (slots[e.slot].file \in disk) { slots[e.slot].pack := "loaded"; got := slots[e.slot].file; goto have; }
            else { slots[e.slot].pack := "missing"; goto miss; };
   have:    if (got # e.file) { wrong := TRUE; };
            snap[self].entries := (snap[self].entries \ {e}) \cup {[e EXCEPT !.pack = TRUE]};
            res := "found"; goto fin;
   miss:    call load_one_index();
   missr:   if (loires[self]) { goto search; } else { res := "notfound"; goto fin; };
         } else {
   nf:      call load_one_index();
   nfr:     if (loires[self]) { goto search; } else { res := "notfound"; goto fin; };
         };
   fin:  skip;
 }
}

process (Git = "git")
{
 g: while (envSteps < MaxEnv) {
      either { with (f \in Files \ used) { await Cardinality(disk) < NSlots; disk := disk \cup {f}; used := used \cup {f}; } }
      or     { with (f \in disk) { await Content(f) \subseteq UNION {Content(h) : h \in disk \ {f}}; disk := disk \ {f}; } };
      envSteps := envSteps + 1;
    }
}
} *)
\* BEGIN TRANSLATION (chksum(pcal) = "5a232872" /\ chksum(tla) = "b16a6b9a")
CONSTANT defaultInitValue
VARIABLES pc, disk, used, slots, idxobjs, cur, wlock, slock, envSteps, panic, 
          wrong, insufficient, snap, lnres, consres, loires, stack

(* define statement *)
Present == UNION {Content(f) : f \in disk}
Snapshot(io) == [ entries |-> IF idxobjs[io].init
                               THEN { [slot |-> s, file |-> slots[s].file, pack |-> (slots[s].pack = "loaded")] :
                                        s \in {t \in Range(idxobjs[io].slots) : slots[t].file # NoFile /\ slots[t].idx = "loaded"} }
                               ELSE {},
                  gen |-> idxobjs[io].gen, id |-> io, loaded |-> idxobjs[io].loaded ]

VARIABLES io0, io, prev, k, s, changed, needs_init, load_new, i0, keep, add, 
          remove, nloaded, nextFree, checked, needGen, generation, c, g2, 
          newSlots, li, tgt, res, lookups, present0, e, pinned, got

vars == << pc, disk, used, slots, idxobjs, cur, wlock, slock, envSteps, panic, 
           wrong, insufficient, snap, lnres, consres, loires, stack, io0, io, 
           prev, k, s, changed, needs_init, load_new, i0, keep, add, remove, 
           nloaded, nextFree, checked, needGen, generation, c, g2, newSlots, 
           li, tgt, res, lookups, present0, e, pinned, got >>

ProcSet == (Handles) \cup {"git"}

Init == (* Global variables *)
        /\ disk = {}
        /\ used = {}
        /\ slots = [i \in SlotIds |-> EmptySlot]
        /\ idxobjs = << [slots |-> <<>>, gen |-> 0, loaded |-> 0, next |-> 0, init |-> FALSE, loading |-> 0] >>
        /\ cur = 1
        /\ wlock = NoOne
        /\ slock = [i \in SlotIds |-> NoOne]
        /\ envSteps = 0
        /\ panic = FALSE
        /\ wrong = FALSE
        /\ insufficient = FALSE
        /\ snap = [h \in Handles |-> [entries |-> {}, gen |-> 0, id |-> 1, loaded |-> 0]]
        /\ lnres = [h \in Handles |-> FALSE]
        /\ consres = [h \in Handles |-> FALSE]
        /\ loires = [h \in Handles |-> FALSE]
        (* Procedure load_next_index *)
        /\ io0 = [ self \in ProcSet |-> defaultInitValue]
        /\ io = [ self \in ProcSet |-> 0]
        /\ prev = [ self \in ProcSet |-> 0]
        /\ k = [ self \in ProcSet |-> 0]
        /\ s = [ self \in ProcSet |-> 0]
        /\ changed = [ self \in ProcSet |-> FALSE]
        (* Procedure consolidate *)
        /\ needs_init = [ self \in ProcSet |-> defaultInitValue]
        /\ load_new = [ self \in ProcSet |-> defaultInitValue]
        /\ i0 = [ self \in ProcSet |-> 0]
        /\ keep = [ self \in ProcSet |-> <<>>]
        /\ add = [ self \in ProcSet |-> <<>>]
        /\ remove = [ self \in ProcSet |-> <<>>]
        /\ nloaded = [ self \in ProcSet |-> 0]
        /\ nextFree = [ self \in ProcSet |-> 0]
        /\ checked = [ self \in ProcSet |-> 0]
        /\ needGen = [ self \in ProcSet |-> FALSE]
        /\ generation = [ self \in ProcSet |-> 0]
        /\ c = [ self \in ProcSet |-> 0]
        /\ g2 = [ self \in ProcSet |-> 0]
        /\ newSlots = [ self \in ProcSet |-> <<>>]
        (* Procedure load_one_index *)
        /\ li = [ self \in ProcSet |-> 0]
        (* Process H *)
        /\ tgt = [self \in Handles |-> "x"]
        /\ res = [self \in Handles |-> "none"]
        /\ lookups = [self \in Handles |-> 0]
        /\ present0 = [self \in Handles |-> FALSE]
        /\ e = [self \in Handles |-> [slot |-> 0, file |-> NoFile, pack |-> FALSE]]
        /\ pinned = [self \in Handles |-> EmptySlot]
        /\ got = [self \in Handles |-> NoFile]
        /\ stack = [self \in ProcSet |-> << >>]
        /\ pc = [self \in ProcSet |-> CASE self \in Handles -> "start"
                                        [] self = "git" -> "g"]

LN0(self) == /\ pc[self] = "LN0"
             /\ io' = [io EXCEPT ![self] = io0[self]]
             /\ pc' = [pc EXCEPT ![self] = "LN0b"]
             /\ UNCHANGED << disk, used, slots, idxobjs, cur, wlock, slock, 
                             envSteps, panic, wrong, insufficient, snap, lnres, 
                             consres, loires, stack, io0, prev, k, s, changed, 
                             needs_init, load_new, i0, keep, add, remove, 
                             nloaded, nextFree, checked, needGen, generation, 
                             c, g2, newSlots, li, tgt, res, lookups, present0, 
                             e, pinned, got >>

LN0b(self) == /\ pc[self] = "LN0b"
              /\ prev' = [prev EXCEPT ![self] = idxobjs[io[self]].loaded]
              /\ pc' = [pc EXCEPT ![self] = "LN1"]
              /\ UNCHANGED << disk, used, slots, idxobjs, cur, wlock, slock, 
                              envSteps, panic, wrong, insufficient, snap, 
                              lnres, consres, loires, stack, io0, io, k, s, 
                              changed, needs_init, load_new, i0, keep, add, 
                              remove, nloaded, nextFree, checked, needGen, 
                              generation, c, g2, newSlots, li, tgt, res, 
                              lookups, present0, e, pinned, got >>

LN1(self) == /\ pc[self] = "LN1"
             /\ IF idxobjs[io[self]].next # Len(idxobjs[io[self]].slots)
                   THEN /\ k' = [k EXCEPT ![self] = idxobjs[io[self]].next + 1]
                        /\ idxobjs' = [idxobjs EXCEPT ![io[self]] = [idxobjs[io[self]] EXCEPT !.next = @ + 1, !.loading = IF BugLoadingRace THEN @ ELSE @ + 1]]
                        /\ pc' = [pc EXCEPT ![self] = "LN1b"]
                   ELSE /\ pc' = [pc EXCEPT ![self] = "LN4"]
                        /\ UNCHANGED << idxobjs, k >>
             /\ UNCHANGED << disk, used, slots, cur, wlock, slock, envSteps, 
                             panic, wrong, insufficient, snap, lnres, consres, 
                             loires, stack, io0, io, prev, s, changed, 
                             needs_init, load_new, i0, keep, add, remove, 
                             nloaded, nextFree, checked, needGen, generation, 
                             c, g2, newSlots, li, tgt, res, lookups, present0, 
                             e, pinned, got >>

LN1b(self) == /\ pc[self] = "LN1b"
              /\ IF BugLoadingRace
                    THEN /\ idxobjs' = [idxobjs EXCEPT ![io[self]].loading = idxobjs[io[self]].loading + 1]
                    ELSE /\ TRUE
                         /\ UNCHANGED idxobjs
              /\ pc' = [pc EXCEPT ![self] = "LN2"]
              /\ UNCHANGED << disk, used, slots, cur, wlock, slock, envSteps, 
                              panic, wrong, insufficient, snap, lnres, consres, 
                              loires, stack, io0, io, prev, k, s, changed, 
                              needs_init, load_new, i0, keep, add, remove, 
                              nloaded, nextFree, checked, needGen, generation, 
                              c, g2, newSlots, li, tgt, res, lookups, present0, 
                              e, pinned, got >>

LN2(self) == /\ pc[self] = "LN2"
             /\ s' = [s EXCEPT ![self] = idxobjs[io[self]].slots[k[self]]]
             /\ slock[s'[self]] = NoOne
             /\ IF slots[s'[self]].gen > idxobjs[io[self]].gen
                   THEN /\ idxobjs' = [idxobjs EXCEPT ![io[self]].loading = idxobjs[io[self]].loading - 1]
                        /\ pc' = [pc EXCEPT ![self] = "LN1"]
                        /\ slots' = slots
                   ELSE /\ IF slots[s'[self]].file # NoFile
                              THEN /\ IF slots[s'[self]].idx \in {"loaded"}
                                         THEN /\ idxobjs' = [idxobjs EXCEPT ![io[self]] = [idxobjs[io[self]] EXCEPT !.loaded = @ + 1, !.loading = @ - 1]]
                                              /\ pc' = [pc EXCEPT ![self] = "LN5"]
                                              /\ slots' = slots
                                         ELSE /\ IF slots[s'[self]].file \in disk
                                                    THEN /\ /\ idxobjs' = [idxobjs EXCEPT ![io[self]] = [idxobjs[io[self]] EXCEPT !.loaded = @ + 1, !.loading = @ - 1]]
                                                            /\ slots' = [slots EXCEPT ![s'[self]].idx = "loaded"]
                                                         /\ pc' = [pc EXCEPT ![self] = "LN5"]
                                                    ELSE /\ /\ idxobjs' = [idxobjs EXCEPT ![io[self]] = [idxobjs[io[self]] EXCEPT !.loaded = @ + 1, !.loading = @ - 1]]
                                                            /\ slots' = [slots EXCEPT ![s'[self]].idx = "missing"]
                                                         /\ pc' = [pc EXCEPT ![self] = "LN1"]
                              ELSE /\ idxobjs' = [idxobjs EXCEPT ![io[self]].loading = idxobjs[io[self]].loading - 1]
                                   /\ pc' = [pc EXCEPT ![self] = "LN1"]
                                   /\ slots' = slots
             /\ UNCHANGED << disk, used, cur, wlock, slock, envSteps, panic, 
                             wrong, insufficient, snap, lnres, consres, loires, 
                             stack, io0, io, prev, k, changed, needs_init, 
                             load_new, i0, keep, add, remove, nloaded, 
                             nextFree, checked, needGen, generation, c, g2, 
                             newSlots, li, tgt, res, lookups, present0, e, 
                             pinned, got >>

LN4(self) == /\ pc[self] = "LN4"
             /\ idxobjs[io[self]].loading = 0
             /\ pc' = [pc EXCEPT ![self] = "LN5"]
             /\ UNCHANGED << disk, used, slots, idxobjs, cur, wlock, slock, 
                             envSteps, panic, wrong, insufficient, snap, lnres, 
                             consres, loires, stack, io0, io, prev, k, s, 
                             changed, needs_init, load_new, i0, keep, add, 
                             remove, nloaded, nextFree, checked, needGen, 
                             generation, c, g2, newSlots, li, tgt, res, 
                             lookups, present0, e, pinned, got >>

LN5(self) == /\ pc[self] = "LN5"
             /\ IF prev[self] = idxobjs[io[self]].loaded
                   THEN /\ IF cur = io[self]
                              THEN /\ lnres' = [lnres EXCEPT ![self] = FALSE]
                                   /\ pc' = [pc EXCEPT ![self] = Head(stack[self]).pc]
                                   /\ io' = [io EXCEPT ![self] = Head(stack[self]).io]
                                   /\ prev' = [prev EXCEPT ![self] = Head(stack[self]).prev]
                                   /\ k' = [k EXCEPT ![self] = Head(stack[self]).k]
                                   /\ s' = [s EXCEPT ![self] = Head(stack[self]).s]
                                   /\ changed' = [changed EXCEPT ![self] = Head(stack[self]).changed]
                                   /\ io0' = [io0 EXCEPT ![self] = Head(stack[self]).io0]
                                   /\ stack' = [stack EXCEPT ![self] = Tail(stack[self])]
                              ELSE /\ io' = [io EXCEPT ![self] = cur]
                                   /\ pc' = [pc EXCEPT ![self] = "LN0b"]
                                   /\ UNCHANGED << lnres, stack, io0, prev, k, 
                                                   s, changed >>
                   ELSE /\ lnres' = [lnres EXCEPT ![self] = TRUE]
                        /\ pc' = [pc EXCEPT ![self] = Head(stack[self]).pc]
                        /\ io' = [io EXCEPT ![self] = Head(stack[self]).io]
                        /\ prev' = [prev EXCEPT ![self] = Head(stack[self]).prev]
                        /\ k' = [k EXCEPT ![self] = Head(stack[self]).k]
                        /\ s' = [s EXCEPT ![self] = Head(stack[self]).s]
                        /\ changed' = [changed EXCEPT ![self] = Head(stack[self]).changed]
                        /\ io0' = [io0 EXCEPT ![self] = Head(stack[self]).io0]
                        /\ stack' = [stack EXCEPT ![self] = Tail(stack[self])]
             /\ UNCHANGED << disk, used, slots, idxobjs, cur, wlock, slock, 
                             envSteps, panic, wrong, insufficient, snap, 
                             consres, loires, needs_init, load_new, i0, keep, 
                             add, remove, nloaded, nextFree, checked, needGen, 
                             generation, c, g2, newSlots, li, tgt, res, 
                             lookups, present0, e, pinned, got >>

load_next_index(self) == LN0(self) \/ LN0b(self) \/ LN1(self) \/ LN1b(self)
                            \/ LN2(self) \/ LN4(self) \/ LN5(self)

K1(self) == /\ pc[self] = "K1"
            /\ i0' = [i0 EXCEPT ![self] = cur]
            /\ pc' = [pc EXCEPT ![self] = "K2"]
            /\ UNCHANGED << disk, used, slots, idxobjs, cur, wlock, slock, 
                            envSteps, panic, wrong, insufficient, snap, lnres, 
                            consres, loires, stack, io0, io, prev, k, s, 
                            changed, needs_init, load_new, keep, add, remove, 
                            nloaded, nextFree, checked, needGen, generation, c, 
                            g2, newSlots, li, tgt, res, lookups, present0, e, 
                            pinned, got >>

K2(self) == /\ pc[self] = "K2"
            /\ wlock = NoOne
            /\ wlock' = self
            /\ pc' = [pc EXCEPT ![self] = "K3"]
            /\ UNCHANGED << disk, used, slots, idxobjs, cur, slock, envSteps, 
                            panic, wrong, insufficient, snap, lnres, consres, 
                            loires, stack, io0, io, prev, k, s, changed, 
                            needs_init, load_new, i0, keep, add, remove, 
                            nloaded, nextFree, checked, needGen, generation, c, 
                            g2, newSlots, li, tgt, res, lookups, present0, e, 
                            pinned, got >>

K3(self) == /\ pc[self] = "K3"
            /\ IF cur # i0[self] \/ (idxobjs[cur].init /\ needs_init[self])
                  THEN /\ idxobjs[cur].loading = 0
                       /\ snap' = [snap EXCEPT ![self] = Snapshot(cur)]
                       /\ consres' = [consres EXCEPT ![self] = TRUE]
                       /\ wlock' = NoOne
                       /\ pc' = [pc EXCEPT ![self] = Head(stack[self]).pc]
                       /\ i0' = [i0 EXCEPT ![self] = Head(stack[self]).i0]
                       /\ keep' = [keep EXCEPT ![self] = Head(stack[self]).keep]
                       /\ add' = [add EXCEPT ![self] = Head(stack[self]).add]
                       /\ remove' = [remove EXCEPT ![self] = Head(stack[self]).remove]
                       /\ nloaded' = [nloaded EXCEPT ![self] = Head(stack[self]).nloaded]
                       /\ nextFree' = [nextFree EXCEPT ![self] = Head(stack[self]).nextFree]
                       /\ checked' = [checked EXCEPT ![self] = Head(stack[self]).checked]
                       /\ needGen' = [needGen EXCEPT ![self] = Head(stack[self]).needGen]
                       /\ generation' = [generation EXCEPT ![self] = Head(stack[self]).generation]
                       /\ c' = [c EXCEPT ![self] = Head(stack[self]).c]
                       /\ g2' = [g2 EXCEPT ![self] = Head(stack[self]).g2]
                       /\ newSlots' = [newSlots EXCEPT ![self] = Head(stack[self]).newSlots]
                       /\ needs_init' = [needs_init EXCEPT ![self] = Head(stack[self]).needs_init]
                       /\ load_new' = [load_new EXCEPT ![self] = Head(stack[self]).load_new]
                       /\ stack' = [stack EXCEPT ![self] = Tail(stack[self])]
                  ELSE /\ LET D == disk IN
                            LET ix == idxobjs[cur] IN
                              /\ keep' = [keep EXCEPT ![self] = SelectSeq(SortedSeq(D), LAMBDA f : \E t \in Range(ix.slots) : slots[t].file = f)]
                              /\ add' = [add EXCEPT ![self] = SelectSeq(SortedSeq(D), LAMBDA f : ~ \E t \in Range(ix.slots) : slots[t].file = f)]
                              /\ remove' = [remove EXCEPT ![self] = SelectSeq(ix.slots, LAMBDA t : slots[t].file # NoFile /\ slots[t].file \notin D)]
                              /\ nextFree' = [nextFree EXCEPT ![self] = IF ix.slots = <<>> THEN 0 ELSE (MaxOf(Range(ix.slots)) + 1) % NSlots]
                       /\ newSlots' = [newSlots EXCEPT ![self] = [j \in 1..Len(keep'[self]) |-> CHOOSE t \in Range(idxobjs[cur].slots) : slots[t].file = keep'[self][j]]]
                       /\ nloaded' = [nloaded EXCEPT ![self] = Cardinality({j \in 1..Len(newSlots'[self]) : slots[newSlots'[self][j]].idx = "loaded"})]
                       /\ checked' = [checked EXCEPT ![self] = 0]
                       /\ needGen' = [needGen EXCEPT ![self] = FALSE]
                       /\ pc' = [pc EXCEPT ![self] = "K3b"]
                       /\ UNCHANGED << wlock, snap, consres, stack, needs_init, 
                                       load_new, i0, generation, c, g2 >>
            /\ UNCHANGED << disk, used, slots, idxobjs, cur, slock, envSteps, 
                            panic, wrong, insufficient, lnres, loires, io0, io, 
                            prev, k, s, changed, li, tgt, res, lookups, 
                            present0, e, pinned, got >>

K3b(self) == /\ pc[self] = "K3b"
             /\ IF Len(add[self]) > NSlots - Len(keep[self])
                   THEN /\ insufficient' = TRUE
                        /\ consres' = [consres EXCEPT ![self] = FALSE]
                        /\ wlock' = NoOne
                        /\ pc' = [pc EXCEPT ![self] = Head(stack[self]).pc]
                        /\ i0' = [i0 EXCEPT ![self] = Head(stack[self]).i0]
                        /\ keep' = [keep EXCEPT ![self] = Head(stack[self]).keep]
                        /\ add' = [add EXCEPT ![self] = Head(stack[self]).add]
                        /\ remove' = [remove EXCEPT ![self] = Head(stack[self]).remove]
                        /\ nloaded' = [nloaded EXCEPT ![self] = Head(stack[self]).nloaded]
                        /\ nextFree' = [nextFree EXCEPT ![self] = Head(stack[self]).nextFree]
                        /\ checked' = [checked EXCEPT ![self] = Head(stack[self]).checked]
                        /\ needGen' = [needGen EXCEPT ![self] = Head(stack[self]).needGen]
                        /\ generation' = [generation EXCEPT ![self] = Head(stack[self]).generation]
                        /\ c' = [c EXCEPT ![self] = Head(stack[self]).c]
                        /\ g2' = [g2 EXCEPT ![self] = Head(stack[self]).g2]
                        /\ newSlots' = [newSlots EXCEPT ![self] = Head(stack[self]).newSlots]
                        /\ needs_init' = [needs_init EXCEPT ![self] = Head(stack[self]).needs_init]
                        /\ load_new' = [load_new EXCEPT ![self] = Head(stack[self]).load_new]
                        /\ stack' = [stack EXCEPT ![self] = Tail(stack[self])]
                   ELSE /\ pc' = [pc EXCEPT ![self] = "K4"]
                        /\ UNCHANGED << wlock, insufficient, consres, stack, 
                                        needs_init, load_new, i0, keep, add, 
                                        remove, nloaded, nextFree, checked, 
                                        needGen, generation, c, g2, newSlots >>
             /\ UNCHANGED << disk, used, slots, idxobjs, cur, slock, envSteps, 
                             panic, wrong, snap, lnres, loires, io0, io, prev, 
                             k, s, changed, li, tgt, res, lookups, present0, e, 
                             pinned, got >>

K4(self) == /\ pc[self] = "K4"
            /\ IF add[self] # <<>>
                  THEN /\ IF checked[self] = NSlots
                             THEN /\ insufficient' = TRUE
                                  /\ consres' = [consres EXCEPT ![self] = FALSE]
                                  /\ wlock' = NoOne
                                  /\ pc' = [pc EXCEPT ![self] = Head(stack[self]).pc]
                                  /\ i0' = [i0 EXCEPT ![self] = Head(stack[self]).i0]
                                  /\ keep' = [keep EXCEPT ![self] = Head(stack[self]).keep]
                                  /\ add' = [add EXCEPT ![self] = Head(stack[self]).add]
                                  /\ remove' = [remove EXCEPT ![self] = Head(stack[self]).remove]
                                  /\ nloaded' = [nloaded EXCEPT ![self] = Head(stack[self]).nloaded]
                                  /\ nextFree' = [nextFree EXCEPT ![self] = Head(stack[self]).nextFree]
                                  /\ checked' = [checked EXCEPT ![self] = Head(stack[self]).checked]
                                  /\ needGen' = [needGen EXCEPT ![self] = Head(stack[self]).needGen]
                                  /\ generation' = [generation EXCEPT ![self] = Head(stack[self]).generation]
                                  /\ c' = [c EXCEPT ![self] = Head(stack[self]).c]
                                  /\ g2' = [g2 EXCEPT ![self] = Head(stack[self]).g2]
                                  /\ newSlots' = [newSlots EXCEPT ![self] = Head(stack[self]).newSlots]
                                  /\ needs_init' = [needs_init EXCEPT ![self] = Head(stack[self]).needs_init]
                                  /\ load_new' = [load_new EXCEPT ![self] = Head(stack[self]).load_new]
                                  /\ stack' = [stack EXCEPT ![self] = Tail(stack[self])]
                             ELSE /\ pc' = [pc EXCEPT ![self] = "K4s"]
                                  /\ UNCHANGED << wlock, insufficient, consres, 
                                                  stack, needs_init, load_new, 
                                                  i0, keep, add, remove, 
                                                  nloaded, nextFree, checked, 
                                                  needGen, generation, c, g2, 
                                                  newSlots >>
                  ELSE /\ pc' = [pc EXCEPT ![self] = "K5"]
                       /\ UNCHANGED << wlock, insufficient, consres, stack, 
                                       needs_init, load_new, i0, keep, add, 
                                       remove, nloaded, nextFree, checked, 
                                       needGen, generation, c, g2, newSlots >>
            /\ UNCHANGED << disk, used, slots, idxobjs, cur, slock, envSteps, 
                            panic, wrong, snap, lnres, loires, io0, io, prev, 
                            k, s, changed, li, tgt, res, lookups, present0, e, 
                            pinned, got >>

K4s(self) == /\ pc[self] = "K4s"
             /\ c' = [c EXCEPT ![self] = nextFree[self]]
             /\ nextFree' = [nextFree EXCEPT ![self] = (nextFree[self] + 1) % NSlots]
             /\ checked' = [checked EXCEPT ![self] = checked[self] + 1]
             /\ IF c'[self] \in Range(newSlots[self])
                   THEN /\ TRUE
                        /\ pc' = [pc EXCEPT ![self] = "K4"]
                        /\ UNCHANGED << slots, slock, add, newSlots >>
                   ELSE /\ IF slots[c'[self]].file # NoFile
                              THEN /\ slock[c'[self]] = NoOne
                                   /\ slock' = [slock EXCEPT ![c'[self]] = self]
                                   /\ slots' = [slots EXCEPT ![c'[self]].gen = idxobjs[cur].gen + 1]
                                   /\ pc' = [pc EXCEPT ![self] = "K4b"]
                                   /\ UNCHANGED << add, newSlots >>
                              ELSE /\ slock[c'[self]] = NoOne
                                   /\ slots' = [slots EXCEPT ![c'[self]] = [file |-> Head(add[self]), gen |-> idxobjs[cur].gen, idx |-> "unloaded", pack |-> "unloaded"]]
                                   /\ newSlots' = [newSlots EXCEPT ![self] = Append(newSlots[self], c'[self])]
                                   /\ add' = [add EXCEPT ![self] = Tail(add[self])]
                                   /\ pc' = [pc EXCEPT ![self] = "K4"]
                                   /\ slock' = slock
             /\ UNCHANGED << disk, used, idxobjs, cur, wlock, envSteps, panic, 
                             wrong, insufficient, snap, lnres, consres, loires, 
                             stack, io0, io, prev, k, s, changed, needs_init, 
                             load_new, i0, keep, remove, nloaded, needGen, 
                             generation, g2, li, tgt, res, lookups, present0, 
                             e, pinned, got >>

K4b(self) == /\ pc[self] = "K4b"
             /\ slots' = [slots EXCEPT ![c[self]] = [file |-> Head(add[self]), gen |-> slots[c[self]].gen, idx |-> "unloaded", pack |-> "unloaded"]]
             /\ slock' = [slock EXCEPT ![c[self]] = NoOne]
             /\ needGen' = [needGen EXCEPT ![self] = TRUE]
             /\ remove' = [remove EXCEPT ![self] = SelectSeq(remove[self], LAMBDA t : t # c[self])]
             /\ newSlots' = [newSlots EXCEPT ![self] = Append(newSlots[self], c[self])]
             /\ add' = [add EXCEPT ![self] = Tail(add[self])]
             /\ pc' = [pc EXCEPT ![self] = "K4"]
             /\ UNCHANGED << disk, used, idxobjs, cur, wlock, envSteps, panic, 
                             wrong, insufficient, snap, lnres, consres, loires, 
                             stack, io0, io, prev, k, s, changed, needs_init, 
                             load_new, i0, keep, nloaded, nextFree, checked, 
                             generation, c, g2, li, tgt, res, lookups, 
                             present0, e, pinned, got >>

K5(self) == /\ pc[self] = "K5"
            /\ generation' = [generation EXCEPT ![self] = IF needGen[self] THEN idxobjs[cur].gen + 1 ELSE idxobjs[cur].gen]
            /\ IF idxobjs[cur].slots # newSlots[self] \/ ~idxobjs[cur].init
                  THEN /\ idxobjs' = Append(idxobjs, [slots |-> newSlots[self], gen |-> generation'[self], loaded |-> nloaded[self], next |-> 0, init |-> TRUE, loading |-> 0])
                       /\ cur' = Len(idxobjs')
                  ELSE /\ TRUE
                       /\ UNCHANGED << idxobjs, cur >>
            /\ pc' = [pc EXCEPT ![self] = "K6"]
            /\ UNCHANGED << disk, used, slots, wlock, slock, envSteps, panic, 
                            wrong, insufficient, snap, lnres, consres, loires, 
                            stack, io0, io, prev, k, s, changed, needs_init, 
                            load_new, i0, keep, add, remove, nloaded, nextFree, 
                            checked, needGen, c, g2, newSlots, li, tgt, res, 
                            lookups, present0, e, pinned, got >>

K6(self) == /\ pc[self] = "K6"
            /\ IF remove[self] # <<>>
                  THEN /\ slock[Head(remove[self])] = NoOne
                       /\ slock' = [slock EXCEPT ![Head(remove[self])] = self]
                       /\ slots' = [slots EXCEPT ![Head(remove[self])].gen = generation[self]]
                       /\ pc' = [pc EXCEPT ![self] = "K6b"]
                  ELSE /\ pc' = [pc EXCEPT ![self] = "K7"]
                       /\ UNCHANGED << slots, slock >>
            /\ UNCHANGED << disk, used, idxobjs, cur, wlock, envSteps, panic, 
                            wrong, insufficient, snap, lnres, consres, loires, 
                            stack, io0, io, prev, k, s, changed, needs_init, 
                            load_new, i0, keep, add, remove, nloaded, nextFree, 
                            checked, needGen, generation, c, g2, newSlots, li, 
                            tgt, res, lookups, present0, e, pinned, got >>

K6b(self) == /\ pc[self] = "K6b"
             /\ slots' = [slots EXCEPT ![Head(remove[self])] = [file |-> NoFile, gen |-> slots[Head(remove[self])].gen, idx |-> "unloaded", pack |-> "unloaded"]]
             /\ slock' = [slock EXCEPT ![Head(remove[self])] = NoOne]
             /\ remove' = [remove EXCEPT ![self] = Tail(remove[self])]
             /\ pc' = [pc EXCEPT ![self] = "K6"]
             /\ UNCHANGED << disk, used, idxobjs, cur, wlock, envSteps, panic, 
                             wrong, insufficient, snap, lnres, consres, loires, 
                             stack, io0, io, prev, k, s, changed, needs_init, 
                             load_new, i0, keep, add, nloaded, nextFree, 
                             checked, needGen, generation, c, g2, newSlots, li, 
                             tgt, res, lookups, present0, e, pinned, got >>

K7(self) == /\ pc[self] = "K7"
            /\ IF i0[self] = cur /\ TRUE
                  THEN /\ consres' = [consres EXCEPT ![self] = FALSE]
                       /\ wlock' = NoOne
                       /\ pc' = [pc EXCEPT ![self] = Head(stack[self]).pc]
                       /\ i0' = [i0 EXCEPT ![self] = Head(stack[self]).i0]
                       /\ keep' = [keep EXCEPT ![self] = Head(stack[self]).keep]
                       /\ add' = [add EXCEPT ![self] = Head(stack[self]).add]
                       /\ remove' = [remove EXCEPT ![self] = Head(stack[self]).remove]
                       /\ nloaded' = [nloaded EXCEPT ![self] = Head(stack[self]).nloaded]
                       /\ nextFree' = [nextFree EXCEPT ![self] = Head(stack[self]).nextFree]
                       /\ checked' = [checked EXCEPT ![self] = Head(stack[self]).checked]
                       /\ needGen' = [needGen EXCEPT ![self] = Head(stack[self]).needGen]
                       /\ generation' = [generation EXCEPT ![self] = Head(stack[self]).generation]
                       /\ c' = [c EXCEPT ![self] = Head(stack[self]).c]
                       /\ g2' = [g2 EXCEPT ![self] = Head(stack[self]).g2]
                       /\ newSlots' = [newSlots EXCEPT ![self] = Head(stack[self]).newSlots]
                       /\ needs_init' = [needs_init EXCEPT ![self] = Head(stack[self]).needs_init]
                       /\ load_new' = [load_new EXCEPT ![self] = Head(stack[self]).load_new]
                       /\ stack' = [stack EXCEPT ![self] = Tail(stack[self])]
                       /\ UNCHANGED << snap, io0, io, prev, k, s, changed >>
                  ELSE /\ IF load_new[self]
                             THEN /\ /\ io0' = [io0 EXCEPT ![self] = cur]
                                     /\ stack' = [stack EXCEPT ![self] = << [ procedure |->  "load_next_index",
                                                                              pc        |->  "K8",
                                                                              io        |->  io[self],
                                                                              prev      |->  prev[self],
                                                                              k         |->  k[self],
                                                                              s         |->  s[self],
                                                                              changed   |->  changed[self],
                                                                              io0       |->  io0[self] ] >>
                                                                          \o stack[self]]
                                  /\ io' = [io EXCEPT ![self] = 0]
                                  /\ prev' = [prev EXCEPT ![self] = 0]
                                  /\ k' = [k EXCEPT ![self] = 0]
                                  /\ s' = [s EXCEPT ![self] = 0]
                                  /\ changed' = [changed EXCEPT ![self] = FALSE]
                                  /\ pc' = [pc EXCEPT ![self] = "LN0"]
                                  /\ UNCHANGED << wlock, snap, consres, 
                                                  needs_init, load_new, i0, 
                                                  keep, add, remove, nloaded, 
                                                  nextFree, checked, needGen, 
                                                  generation, c, g2, newSlots >>
                             ELSE /\ idxobjs[cur].loading = 0
                                  /\ snap' = [snap EXCEPT ![self] = Snapshot(cur)]
                                  /\ consres' = [consres EXCEPT ![self] = TRUE]
                                  /\ wlock' = NoOne
                                  /\ pc' = [pc EXCEPT ![self] = Head(stack[self]).pc]
                                  /\ i0' = [i0 EXCEPT ![self] = Head(stack[self]).i0]
                                  /\ keep' = [keep EXCEPT ![self] = Head(stack[self]).keep]
                                  /\ add' = [add EXCEPT ![self] = Head(stack[self]).add]
                                  /\ remove' = [remove EXCEPT ![self] = Head(stack[self]).remove]
                                  /\ nloaded' = [nloaded EXCEPT ![self] = Head(stack[self]).nloaded]
                                  /\ nextFree' = [nextFree EXCEPT ![self] = Head(stack[self]).nextFree]
                                  /\ checked' = [checked EXCEPT ![self] = Head(stack[self]).checked]
                                  /\ needGen' = [needGen EXCEPT ![self] = Head(stack[self]).needGen]
                                  /\ generation' = [generation EXCEPT ![self] = Head(stack[self]).generation]
                                  /\ c' = [c EXCEPT ![self] = Head(stack[self]).c]
                                  /\ g2' = [g2 EXCEPT ![self] = Head(stack[self]).g2]
                                  /\ newSlots' = [newSlots EXCEPT ![self] = Head(stack[self]).newSlots]
                                  /\ needs_init' = [needs_init EXCEPT ![self] = Head(stack[self]).needs_init]
                                  /\ load_new' = [load_new EXCEPT ![self] = Head(stack[self]).load_new]
                                  /\ stack' = [stack EXCEPT ![self] = Tail(stack[self])]
                                  /\ UNCHANGED << io0, io, prev, k, s, changed >>
            /\ UNCHANGED << disk, used, slots, idxobjs, cur, slock, envSteps, 
                            panic, wrong, insufficient, lnres, loires, li, tgt, 
                            res, lookups, present0, e, pinned, got >>

K8(self) == /\ pc[self] = "K8"
            /\ idxobjs[cur].loading = 0
            /\ snap' = [snap EXCEPT ![self] = Snapshot(cur)]
            /\ consres' = [consres EXCEPT ![self] = TRUE]
            /\ wlock' = NoOne
            /\ pc' = [pc EXCEPT ![self] = Head(stack[self]).pc]
            /\ i0' = [i0 EXCEPT ![self] = Head(stack[self]).i0]
            /\ keep' = [keep EXCEPT ![self] = Head(stack[self]).keep]
            /\ add' = [add EXCEPT ![self] = Head(stack[self]).add]
            /\ remove' = [remove EXCEPT ![self] = Head(stack[self]).remove]
            /\ nloaded' = [nloaded EXCEPT ![self] = Head(stack[self]).nloaded]
            /\ nextFree' = [nextFree EXCEPT ![self] = Head(stack[self]).nextFree]
            /\ checked' = [checked EXCEPT ![self] = Head(stack[self]).checked]
            /\ needGen' = [needGen EXCEPT ![self] = Head(stack[self]).needGen]
            /\ generation' = [generation EXCEPT ![self] = Head(stack[self]).generation]
            /\ c' = [c EXCEPT ![self] = Head(stack[self]).c]
            /\ g2' = [g2 EXCEPT ![self] = Head(stack[self]).g2]
            /\ newSlots' = [newSlots EXCEPT ![self] = Head(stack[self]).newSlots]
            /\ needs_init' = [needs_init EXCEPT ![self] = Head(stack[self]).needs_init]
            /\ load_new' = [load_new EXCEPT ![self] = Head(stack[self]).load_new]
            /\ stack' = [stack EXCEPT ![self] = Tail(stack[self])]
            /\ UNCHANGED << disk, used, slots, idxobjs, cur, slock, envSteps, 
                            panic, wrong, insufficient, lnres, loires, io0, io, 
                            prev, k, s, changed, li, tgt, res, lookups, 
                            present0, e, pinned, got >>

consolidate(self) == K1(self) \/ K2(self) \/ K3(self) \/ K3b(self)
                        \/ K4(self) \/ K4s(self) \/ K4b(self) \/ K5(self)
                        \/ K6(self) \/ K6b(self) \/ K7(self) \/ K8(self)

LO1(self) == /\ pc[self] = "LO1"
             /\ li' = [li EXCEPT ![self] = cur]
             /\ IF ~idxobjs[li'[self]].init
                   THEN /\ /\ load_new' = [load_new EXCEPT ![self] = FALSE]
                           /\ needs_init' = [needs_init EXCEPT ![self] = TRUE]
                           /\ stack' = [stack EXCEPT ![self] = << [ procedure |->  "consolidate",
                                                                    pc        |->  "LO1r",
                                                                    i0        |->  i0[self],
                                                                    keep      |->  keep[self],
                                                                    add       |->  add[self],
                                                                    remove    |->  remove[self],
                                                                    nloaded   |->  nloaded[self],
                                                                    nextFree  |->  nextFree[self],
                                                                    checked   |->  checked[self],
                                                                    needGen   |->  needGen[self],
                                                                    generation |->  generation[self],
                                                                    c         |->  c[self],
                                                                    g2        |->  g2[self],
                                                                    newSlots  |->  newSlots[self],
                                                                    needs_init |->  needs_init[self],
                                                                    load_new  |->  load_new[self] ] >>
                                                                \o stack[self]]
                        /\ i0' = [i0 EXCEPT ![self] = 0]
                        /\ keep' = [keep EXCEPT ![self] = <<>>]
                        /\ add' = [add EXCEPT ![self] = <<>>]
                        /\ remove' = [remove EXCEPT ![self] = <<>>]
                        /\ nloaded' = [nloaded EXCEPT ![self] = 0]
                        /\ nextFree' = [nextFree EXCEPT ![self] = 0]
                        /\ checked' = [checked EXCEPT ![self] = 0]
                        /\ needGen' = [needGen EXCEPT ![self] = FALSE]
                        /\ generation' = [generation EXCEPT ![self] = 0]
                        /\ c' = [c EXCEPT ![self] = 0]
                        /\ g2' = [g2 EXCEPT ![self] = 0]
                        /\ newSlots' = [newSlots EXCEPT ![self] = <<>>]
                        /\ pc' = [pc EXCEPT ![self] = "K1"]
                   ELSE /\ pc' = [pc EXCEPT ![self] = "LO2"]
                        /\ UNCHANGED << stack, needs_init, load_new, i0, keep, 
                                        add, remove, nloaded, nextFree, 
                                        checked, needGen, generation, c, g2, 
                                        newSlots >>
             /\ UNCHANGED << disk, used, slots, idxobjs, cur, wlock, slock, 
                             envSteps, panic, wrong, insufficient, snap, lnres, 
                             consres, loires, io0, io, prev, k, s, changed, 
                             tgt, res, lookups, present0, e, pinned, got >>

LO1r(self) == /\ pc[self] = "LO1r"
              /\ IF ~consres[self] /\ (~BugStalePrev /\ <<snap[self].gen, snap[self].id, snap[self].loaded>> # <<idxobjs[cur].gen, cur, idxobjs[cur].loaded>>)
                    THEN /\ idxobjs[cur].loading = 0
                         /\ snap' = [snap EXCEPT ![self] = Snapshot(cur)]
                         /\ loires' = [loires EXCEPT ![self] = TRUE]
                         /\ pc' = [pc EXCEPT ![self] = Head(stack[self]).pc]
                         /\ li' = [li EXCEPT ![self] = Head(stack[self]).li]
                         /\ stack' = [stack EXCEPT ![self] = Tail(stack[self])]
                    ELSE /\ loires' = [loires EXCEPT ![self] = consres[self]]
                         /\ pc' = [pc EXCEPT ![self] = Head(stack[self]).pc]
                         /\ li' = [li EXCEPT ![self] = Head(stack[self]).li]
                         /\ stack' = [stack EXCEPT ![self] = Tail(stack[self])]
                         /\ snap' = snap
              /\ UNCHANGED << disk, used, slots, idxobjs, cur, wlock, slock, 
                              envSteps, panic, wrong, insufficient, lnres, 
                              consres, io0, io, prev, k, s, changed, 
                              needs_init, load_new, i0, keep, add, remove, 
                              nloaded, nextFree, checked, needGen, generation, 
                              c, g2, newSlots, tgt, res, lookups, present0, e, 
                              pinned, got >>

LO2(self) == /\ pc[self] = "LO2"
             /\ IF <<snap[self].gen, snap[self].id, snap[self].loaded>> # <<idxobjs[li[self]].gen, li[self], idxobjs[li[self]].loaded>>
                   THEN /\ idxobjs[cur].loading = 0
                        /\ snap' = [snap EXCEPT ![self] = Snapshot(cur)]
                        /\ loires' = [loires EXCEPT ![self] = TRUE]
                        /\ pc' = [pc EXCEPT ![self] = Head(stack[self]).pc]
                        /\ li' = [li EXCEPT ![self] = Head(stack[self]).li]
                        /\ stack' = [stack EXCEPT ![self] = Tail(stack[self])]
                        /\ UNCHANGED << io0, io, prev, k, s, changed >>
                   ELSE /\ /\ io0' = [io0 EXCEPT ![self] = li[self]]
                           /\ stack' = [stack EXCEPT ![self] = << [ procedure |->  "load_next_index",
                                                                    pc        |->  "LO3",
                                                                    io        |->  io[self],
                                                                    prev      |->  prev[self],
                                                                    k         |->  k[self],
                                                                    s         |->  s[self],
                                                                    changed   |->  changed[self],
                                                                    io0       |->  io0[self] ] >>
                                                                \o stack[self]]
                        /\ io' = [io EXCEPT ![self] = 0]
                        /\ prev' = [prev EXCEPT ![self] = 0]
                        /\ k' = [k EXCEPT ![self] = 0]
                        /\ s' = [s EXCEPT ![self] = 0]
                        /\ changed' = [changed EXCEPT ![self] = FALSE]
                        /\ pc' = [pc EXCEPT ![self] = "LN0"]
                        /\ UNCHANGED << snap, loires, li >>
             /\ UNCHANGED << disk, used, slots, idxobjs, cur, wlock, slock, 
                             envSteps, panic, wrong, insufficient, lnres, 
                             consres, needs_init, load_new, i0, keep, add, 
                             remove, nloaded, nextFree, checked, needGen, 
                             generation, c, g2, newSlots, tgt, res, lookups, 
                             present0, e, pinned, got >>

LO3(self) == /\ pc[self] = "LO3"
             /\ IF lnres[self] \/ (~BugStalePrev /\ <<snap[self].gen, snap[self].id, snap[self].loaded>> # <<idxobjs[cur].gen, cur, idxobjs[cur].loaded>>)
                   THEN /\ idxobjs[cur].loading = 0
                        /\ snap' = [snap EXCEPT ![self] = Snapshot(cur)]
                        /\ loires' = [loires EXCEPT ![self] = TRUE]
                        /\ pc' = [pc EXCEPT ![self] = Head(stack[self]).pc]
                        /\ li' = [li EXCEPT ![self] = Head(stack[self]).li]
                        /\ stack' = [stack EXCEPT ![self] = Tail(stack[self])]
                        /\ UNCHANGED << needs_init, load_new, i0, keep, add, 
                                        remove, nloaded, nextFree, checked, 
                                        needGen, generation, c, g2, newSlots >>
                   ELSE /\ /\ load_new' = [load_new EXCEPT ![self] = TRUE]
                           /\ needs_init' = [needs_init EXCEPT ![self] = FALSE]
                           /\ stack' = [stack EXCEPT ![self] = << [ procedure |->  "consolidate",
                                                                    pc        |->  "LO4",
                                                                    i0        |->  i0[self],
                                                                    keep      |->  keep[self],
                                                                    add       |->  add[self],
                                                                    remove    |->  remove[self],
                                                                    nloaded   |->  nloaded[self],
                                                                    nextFree  |->  nextFree[self],
                                                                    checked   |->  checked[self],
                                                                    needGen   |->  needGen[self],
                                                                    generation |->  generation[self],
                                                                    c         |->  c[self],
                                                                    g2        |->  g2[self],
                                                                    newSlots  |->  newSlots[self],
                                                                    needs_init |->  needs_init[self],
                                                                    load_new  |->  load_new[self] ] >>
                                                                \o stack[self]]
                        /\ i0' = [i0 EXCEPT ![self] = 0]
                        /\ keep' = [keep EXCEPT ![self] = <<>>]
                        /\ add' = [add EXCEPT ![self] = <<>>]
                        /\ remove' = [remove EXCEPT ![self] = <<>>]
                        /\ nloaded' = [nloaded EXCEPT ![self] = 0]
                        /\ nextFree' = [nextFree EXCEPT ![self] = 0]
                        /\ checked' = [checked EXCEPT ![self] = 0]
                        /\ needGen' = [needGen EXCEPT ![self] = FALSE]
                        /\ generation' = [generation EXCEPT ![self] = 0]
                        /\ c' = [c EXCEPT ![self] = 0]
                        /\ g2' = [g2 EXCEPT ![self] = 0]
                        /\ newSlots' = [newSlots EXCEPT ![self] = <<>>]
                        /\ pc' = [pc EXCEPT ![self] = "K1"]
                        /\ UNCHANGED << snap, loires, li >>
             /\ UNCHANGED << disk, used, slots, idxobjs, cur, wlock, slock, 
                             envSteps, panic, wrong, insufficient, lnres, 
                             consres, io0, io, prev, k, s, changed, tgt, res, 
                             lookups, present0, e, pinned, got >>

LO4(self) == /\ pc[self] = "LO4"
             /\ IF ~consres[self] /\ (~BugStalePrev /\ <<snap[self].gen, snap[self].id, snap[self].loaded>> # <<idxobjs[cur].gen, cur, idxobjs[cur].loaded>>)
                   THEN /\ idxobjs[cur].loading = 0
                        /\ snap' = [snap EXCEPT ![self] = Snapshot(cur)]
                        /\ loires' = [loires EXCEPT ![self] = TRUE]
                        /\ pc' = [pc EXCEPT ![self] = Head(stack[self]).pc]
                        /\ li' = [li EXCEPT ![self] = Head(stack[self]).li]
                        /\ stack' = [stack EXCEPT ![self] = Tail(stack[self])]
                   ELSE /\ loires' = [loires EXCEPT ![self] = consres[self]]
                        /\ pc' = [pc EXCEPT ![self] = Head(stack[self]).pc]
                        /\ li' = [li EXCEPT ![self] = Head(stack[self]).li]
                        /\ stack' = [stack EXCEPT ![self] = Tail(stack[self])]
                        /\ snap' = snap
             /\ UNCHANGED << disk, used, slots, idxobjs, cur, wlock, slock, 
                             envSteps, panic, wrong, insufficient, lnres, 
                             consres, io0, io, prev, k, s, changed, needs_init, 
                             load_new, i0, keep, add, remove, nloaded, 
                             nextFree, checked, needGen, generation, c, g2, 
                             newSlots, tgt, res, lookups, present0, e, pinned, 
                             got >>

load_one_index(self) == LO1(self) \/ LO1r(self) \/ LO2(self) \/ LO3(self)
                           \/ LO4(self)

start(self) == /\ pc[self] = "start"
               /\ IF lookups[self] < MaxLookups
                     THEN /\ pc' = [pc EXCEPT ![self] = "pick"]
                     ELSE /\ pc' = [pc EXCEPT ![self] = "Done"]
               /\ UNCHANGED << disk, used, slots, idxobjs, cur, wlock, slock, 
                               envSteps, panic, wrong, insufficient, snap, 
                               lnres, consres, loires, stack, io0, io, prev, k, 
                               s, changed, needs_init, load_new, i0, keep, add, 
                               remove, nloaded, nextFree, checked, needGen, 
                               generation, c, g2, newSlots, li, tgt, res, 
                               lookups, present0, e, pinned, got >>

pick(self) == /\ pc[self] = "pick"
              /\ \E t \in Objs:
                   tgt' = [tgt EXCEPT ![self] = t]
              /\ res' = [res EXCEPT ![self] = "none"]
              /\ present0' = [present0 EXCEPT ![self] = (tgt'[self] \in Present)]
              /\ lookups' = [lookups EXCEPT ![self] = lookups[self] + 1]
              /\ pc' = [pc EXCEPT ![self] = "search"]
              /\ UNCHANGED << disk, used, slots, idxobjs, cur, wlock, slock, 
                              envSteps, panic, wrong, insufficient, snap, 
                              lnres, consres, loires, stack, io0, io, prev, k, 
                              s, changed, needs_init, load_new, i0, keep, add, 
                              remove, nloaded, nextFree, checked, needGen, 
                              generation, c, g2, newSlots, li, e, pinned, got >>

search(self) == /\ pc[self] = "search"
                /\ IF \E en \in snap[self].entries : tgt[self] \in Content(en.file)
                      THEN /\ \E en \in {en2 \in snap[self].entries : tgt[self] \in Content(en2.file)}:
                                e' = [e EXCEPT ![self] = en]
                           /\ IF e'[self].pack
                                 THEN /\ res' = [res EXCEPT ![self] = "found"]
                                      /\ pc' = [pc EXCEPT ![self] = "fin"]
                                 ELSE /\ pc' = [pc EXCEPT ![self] = "LP1"]
                                      /\ res' = res
                      ELSE /\ pc' = [pc EXCEPT ![self] = "nf"]
                           /\ UNCHANGED << res, e >>
                /\ UNCHANGED << disk, used, slots, idxobjs, cur, wlock, slock, 
                                envSteps, panic, wrong, insufficient, snap, 
                                lnres, consres, loires, stack, io0, io, prev, 
                                k, s, changed, needs_init, load_new, i0, keep, 
                                add, remove, nloaded, nextFree, checked, 
                                needGen, generation, c, g2, newSlots, li, tgt, 
                                lookups, present0, pinned, got >>

LP1(self) == /\ pc[self] = "LP1"
             /\ IF idxobjs[cur].gen # snap[self].gen
                   THEN /\ pc' = [pc EXCEPT ![self] = "miss"]
                   ELSE /\ pc' = [pc EXCEPT ![self] = "LP2"]
             /\ UNCHANGED << disk, used, slots, idxobjs, cur, wlock, slock, 
                             envSteps, panic, wrong, insufficient, snap, lnres, 
                             consres, loires, stack, io0, io, prev, k, s, 
                             changed, needs_init, load_new, i0, keep, add, 
                             remove, nloaded, nextFree, checked, needGen, 
                             generation, c, g2, newSlots, li, tgt, res, 
                             lookups, present0, e, pinned, got >>

LP2(self) == /\ pc[self] = "LP2"
             /\ pinned' = [pinned EXCEPT ![self] = slots[e[self].slot]]
             /\ pc' = [pc EXCEPT ![self] = "LP3"]
             /\ UNCHANGED << disk, used, slots, idxobjs, cur, wlock, slock, 
                             envSteps, panic, wrong, insufficient, snap, lnres, 
                             consres, loires, stack, io0, io, prev, k, s, 
                             changed, needs_init, load_new, i0, keep, add, 
                             remove, nloaded, nextFree, checked, needGen, 
                             generation, c, g2, newSlots, li, tgt, res, 
                             lookups, present0, e, got >>

LP3(self) == /\ pc[self] = "LP3"
             /\ IF slots[e[self].slot].gen > snap[self].gen
                   THEN /\ pc' = [pc EXCEPT ![self] = "miss"]
                   ELSE /\ pc' = [pc EXCEPT ![self] = "LP4"]
             /\ UNCHANGED << disk, used, slots, idxobjs, cur, wlock, slock, 
                             envSteps, panic, wrong, insufficient, snap, lnres, 
                             consres, loires, stack, io0, io, prev, k, s, 
                             changed, needs_init, load_new, i0, keep, add, 
                             remove, nloaded, nextFree, checked, needGen, 
                             generation, c, g2, newSlots, li, tgt, res, 
                             lookups, present0, e, pinned, got >>

LP4(self) == /\ pc[self] = "LP4"
             /\ IF pinned[self].file = NoFile
                   THEN /\ IF BugUnreachable
                              THEN /\ panic' = TRUE
                                   /\ res' = [res EXCEPT ![self] = "panic"]
                                   /\ pc' = [pc EXCEPT ![self] = "fin"]
                              ELSE /\ pc' = [pc EXCEPT ![self] = "miss"]
                                   /\ UNCHANGED << panic, res >>
                        /\ got' = got
                   ELSE /\ IF pinned[self].pack = "loaded"
                              THEN /\ got' = [got EXCEPT ![self] = pinned[self].file]
                                   /\ pc' = [pc EXCEPT ![self] = "have"]
                              ELSE /\ pc' = [pc EXCEPT ![self] = "LP5"]
                                   /\ got' = got
                        /\ UNCHANGED << panic, res >>
             /\ UNCHANGED << disk, used, slots, idxobjs, cur, wlock, slock, 
                             envSteps, wrong, insufficient, snap, lnres, 
                             consres, loires, stack, io0, io, prev, k, s, 
                             changed, needs_init, load_new, i0, keep, add, 
                             remove, nloaded, nextFree, checked, needGen, 
                             generation, c, g2, newSlots, li, tgt, lookups, 
                             present0, e, pinned >>

LP5(self) == /\ pc[self] = "LP5"
             /\ slock[e[self].slot] = NoOne
             /\ IF slots[e[self].slot].file = NoFile
                   THEN /\ IF BugUnreachable
                              THEN /\ panic' = TRUE
                                   /\ res' = [res EXCEPT ![self] = "panic"]
                                   /\ pc' = [pc EXCEPT ![self] = "fin"]
                              ELSE /\ pc' = [pc EXCEPT ![self] = "miss"]
                                   /\ UNCHANGED << panic, res >>
                        /\ UNCHANGED << slots, got >>
                   ELSE /\ IF slots[e[self].slot].pack = "loaded"
                              THEN /\ got' = [got EXCEPT ![self] = slots[e[self].slot].file]
                                   /\ pc' = [pc EXCEPT ![self] = "have"]
                                   /\ slots' = slots
                              ELSE /\ IF slots[e[self].slot].pack = "missing"
                                         THEN /\ pc' = [pc EXCEPT ![self] = "miss"]
                                              /\ UNCHANGED << slots, got >>
                                         ELSE /\ IF slots[e[self].slot].file \in disk
                                                    THEN /\ slots' = [slots EXCEPT ![e[self].slot].pack = "loaded"]
                                                         /\ got' = [got EXCEPT ![self] = slots'[e[self].slot].file]
                                                         /\ pc' = [pc EXCEPT ![self] = "have"]
                                                    ELSE /\ slots' = [slots EXCEPT ![e[self].slot].pack = "missing"]
                                                         /\ pc' = [pc EXCEPT ![self] = "miss"]
                                                         /\ got' = got
                        /\ UNCHANGED << panic, res >>
             /\ UNCHANGED << disk, used, idxobjs, cur, wlock, slock, envSteps, 
                             wrong, insufficient, snap, lnres, consres, loires, 
                             stack, io0, io, prev, k, s, changed, needs_init, 
                             load_new, i0, keep, add, remove, nloaded, 
                             nextFree, checked, needGen, generation, c, g2, 
                             newSlots, li, tgt, lookups, present0, e, pinned >>

have(self) == /\ pc[self] = "have"
              /\ IF got[self] # e[self].file
                    THEN /\ wrong' = TRUE
                    ELSE /\ TRUE
                         /\ wrong' = wrong
              /\ snap' = [snap EXCEPT ![self].entries = (snap[self].entries \ {e[self]}) \cup {[e[self] EXCEPT !.pack = TRUE]}]
              /\ res' = [res EXCEPT ![self] = "found"]
              /\ pc' = [pc EXCEPT ![self] = "fin"]
              /\ UNCHANGED << disk, used, slots, idxobjs, cur, wlock, slock, 
                              envSteps, panic, insufficient, lnres, consres, 
                              loires, stack, io0, io, prev, k, s, changed, 
                              needs_init, load_new, i0, keep, add, remove, 
                              nloaded, nextFree, checked, needGen, generation, 
                              c, g2, newSlots, li, tgt, lookups, present0, e, 
                              pinned, got >>

miss(self) == /\ pc[self] = "miss"
              /\ stack' = [stack EXCEPT ![self] = << [ procedure |->  "load_one_index",
                                                       pc        |->  "missr",
                                                       li        |->  li[self] ] >>
                                                   \o stack[self]]
              /\ li' = [li EXCEPT ![self] = 0]
              /\ pc' = [pc EXCEPT ![self] = "LO1"]
              /\ UNCHANGED << disk, used, slots, idxobjs, cur, wlock, slock, 
                              envSteps, panic, wrong, insufficient, snap, 
                              lnres, consres, loires, io0, io, prev, k, s, 
                              changed, needs_init, load_new, i0, keep, add, 
                              remove, nloaded, nextFree, checked, needGen, 
                              generation, c, g2, newSlots, tgt, res, lookups, 
                              present0, e, pinned, got >>

missr(self) == /\ pc[self] = "missr"
               /\ IF loires[self]
                     THEN /\ pc' = [pc EXCEPT ![self] = "search"]
                          /\ res' = res
                     ELSE /\ res' = [res EXCEPT ![self] = "notfound"]
                          /\ pc' = [pc EXCEPT ![self] = "fin"]
               /\ UNCHANGED << disk, used, slots, idxobjs, cur, wlock, slock, 
                               envSteps, panic, wrong, insufficient, snap, 
                               lnres, consres, loires, stack, io0, io, prev, k, 
                               s, changed, needs_init, load_new, i0, keep, add, 
                               remove, nloaded, nextFree, checked, needGen, 
                               generation, c, g2, newSlots, li, tgt, lookups, 
                               present0, e, pinned, got >>

nf(self) == /\ pc[self] = "nf"
            /\ stack' = [stack EXCEPT ![self] = << [ procedure |->  "load_one_index",
                                                     pc        |->  "nfr",
                                                     li        |->  li[self] ] >>
                                                 \o stack[self]]
            /\ li' = [li EXCEPT ![self] = 0]
            /\ pc' = [pc EXCEPT ![self] = "LO1"]
            /\ UNCHANGED << disk, used, slots, idxobjs, cur, wlock, slock, 
                            envSteps, panic, wrong, insufficient, snap, lnres, 
                            consres, loires, io0, io, prev, k, s, changed, 
                            needs_init, load_new, i0, keep, add, remove, 
                            nloaded, nextFree, checked, needGen, generation, c, 
                            g2, newSlots, tgt, res, lookups, present0, e, 
                            pinned, got >>

nfr(self) == /\ pc[self] = "nfr"
             /\ IF loires[self]
                   THEN /\ pc' = [pc EXCEPT ![self] = "search"]
                        /\ res' = res
                   ELSE /\ res' = [res EXCEPT ![self] = "notfound"]
                        /\ pc' = [pc EXCEPT ![self] = "fin"]
             /\ UNCHANGED << disk, used, slots, idxobjs, cur, wlock, slock, 
                             envSteps, panic, wrong, insufficient, snap, lnres, 
                             consres, loires, stack, io0, io, prev, k, s, 
                             changed, needs_init, load_new, i0, keep, add, 
                             remove, nloaded, nextFree, checked, needGen, 
                             generation, c, g2, newSlots, li, tgt, lookups, 
                             present0, e, pinned, got >>

fin(self) == /\ pc[self] = "fin"
             /\ TRUE
             /\ pc' = [pc EXCEPT ![self] = "start"]
             /\ UNCHANGED << disk, used, slots, idxobjs, cur, wlock, slock, 
                             envSteps, panic, wrong, insufficient, snap, lnres, 
                             consres, loires, stack, io0, io, prev, k, s, 
                             changed, needs_init, load_new, i0, keep, add, 
                             remove, nloaded, nextFree, checked, needGen, 
                             generation, c, g2, newSlots, li, tgt, res, 
                             lookups, present0, e, pinned, got >>

H(self) == start(self) \/ pick(self) \/ search(self) \/ LP1(self)
              \/ LP2(self) \/ LP3(self) \/ LP4(self) \/ LP5(self)
              \/ have(self) \/ miss(self) \/ missr(self) \/ nf(self)
              \/ nfr(self) \/ fin(self)

g == /\ pc["git"] = "g"
     /\ IF envSteps < MaxEnv
           THEN /\ \/ /\ \E f \in Files \ used:
                           /\ Cardinality(disk) < NSlots
                           /\ disk' = (disk \cup {f})
                           /\ used' = (used \cup {f})
                   \/ /\ \E f \in disk:
                           /\ Content(f) \subseteq UNION {Content(h) : h \in disk \ {f}}
                           /\ disk' = disk \ {f}
                      /\ used' = used
                /\ envSteps' = envSteps + 1
                /\ pc' = [pc EXCEPT !["git"] = "g"]
           ELSE /\ pc' = [pc EXCEPT !["git"] = "Done"]
                /\ UNCHANGED << disk, used, envSteps >>
     /\ UNCHANGED << slots, idxobjs, cur, wlock, slock, panic, wrong, 
                     insufficient, snap, lnres, consres, loires, stack, io0, 
                     io, prev, k, s, changed, needs_init, load_new, i0, keep, 
                     add, remove, nloaded, nextFree, checked, needGen, 
                     generation, c, g2, newSlots, li, tgt, res, lookups, 
                     present0, e, pinned, got >>

Git == g

(* Allow infinite stuttering to prevent deadlock on termination. *)
Terminating == /\ \A self \in ProcSet: pc[self] = "Done"
               /\ UNCHANGED vars

Next == Git
           \/ (\E self \in ProcSet:  \/ load_next_index(self) \/ consolidate(self)
                                     \/ load_one_index(self))
           \/ (\E self \in Handles: H(self))
           \/ Terminating

Spec == Init /\ [][Next]_vars

Termination == <>(\A self \in ProcSet: pc[self] = "Done")

\* END TRANSLATION 
 
 
 
 
 
 

NoPanic == ~panic
NeverWrong == ~wrong
FoundIfPresent == \A h \in Handles : (~insufficient /\ pc[h] = "fin" /\ present0[h] /\ tgt[h] = "x") => res[h] = "found"
=============================================================================
