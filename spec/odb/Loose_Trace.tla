----------------------------- MODULE Loose_Trace -----------------------------
(* Binding B for C11: events recorded from gix_odb::loose::Store, judged.     *)
(*  op "write": [status, id, hraw, path, hinfl]                    -> WriteOk *)
(*  op "read":  [kind, n, hbody, find, header, contains]           -> ReadOk  *)
(*  op "trunc": the same + [k, L]                                  -> TruncOk *)
(* ids and digests are 40 hexadecimal bytes.                                  *)
EXTENDS Loose, TraceIO

VARIABLE l
Init == l = 1
Next == l <= NRec /\ l' = l + 1
Spec == Init /\ [][Next]_l

Judge(r) == CASE r.op = "write" -> WriteOk(r)
              [] r.op = "read"  -> ReadOk(r)
              [] r.op = "trunc" -> TruncOk(r)
              [] OTHER -> FALSE

EventOk == l <= NRec => (Judge(Rec[l]) \/ PrintT(<<"REJECT", l>>))
=============================================================================
