SPECIFICATION GSpec
CONSTANTS
  NSlots = 3
  Files = {1, 2, 3, 4}
  Fix_KeepLive = TRUE
  Fix_Precount = FALSE
  AllowOverflow = TRUE
  Bug_NoGenBump = FALSE
  MaxSteps = 24
INVARIANT Emit
CHECK_DEADLOCK FALSE
