SPECIFICATION Spec
CONSTANTS
  Handles = {A, B}
  Files = {f1, f2}
  NSlots = 2
  MaxEnv = 2
  MaxLookups = 1
  BugUnreachable = FALSE
  BugLoadingRace = FALSE
  BugStalePrev = FALSE
  defaultInitValue = defaultInitValue
INVARIANTS
  NoPanic
  NeverWrong
  FoundIfPresent
CHECK_DEADLOCK FALSE
