SPECIFICATION Spec
CONSTANTS
  MaxSteps = 24
INVARIANT Emit
CHECK_DEADLOCK FALSE
