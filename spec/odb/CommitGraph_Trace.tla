-------------------------- MODULE CommitGraph_Trace --------------------------
(* Binding B / C for C14.                                                     *)
(*  kind "reader": [h : [parents, ids, trees, times], gens, covered, obs]     *)
(*       what gix-commitgraph reported for every commit of the history built  *)
(*       with git, after git wrote the commit-graph(s)            -> ReaderOk *)
(*       (gens, when not empty, are the numbers CommitGraph_Gen printed)      *)
(*  kind "chain":  [h : [parents, ids, trees, time5], covered, files, hcontent]*)
(*       the raw .graph files git wrote (base first), read by DecodeFile      *)
(*       -> ChainOk.  A rejected chain means the transcription of the format  *)
(*       (or git) is wrong: the driver reports it as a tool error.            *)
EXTENDS CommitGraph, TraceIO

VARIABLE l
Init == l = 1
Next == l <= NRec /\ l' = l + 1
Spec == Init /\ [][Next]_l

Judge(r) == CASE r.kind = "reader" -> /\ (r.gens # <<>> => r.gens = Gens(r.h.parents))
                                      /\ ReaderOk(r.h, r.covered, r.obs)
              [] r.kind = "chain"  -> ChainOk(r.h, r.covered, r.files, r.hcontent)
              [] OTHER -> FALSE

EventOk == l <= NRec => (Judge(Rec[l]) \/ PrintT(<<"REJECT", l>>))
=============================================================================
