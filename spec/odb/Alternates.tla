----------------------------- MODULE Alternates -----------------------------
(* C13.  Alternate object directories.                                        *)
(*                                                                            *)
(* A world is a set of object directories 1..N, each at a path (a sequence of *)
(* components below the world directory) and each with an `info/alternates`   *)
(* file: a sequence of lines.  A line is either raw text (comment, blank) or  *)
(* an entry naming a target directory, written absolute or relative TO THE    *)
(* DIRECTORY WHOSE FILE NAMES IT, optionally ansi-c quoted / with a trailing  *)
(* slash.                                                                     *)
(*                                                                            *)
(* GitResolve transcribes git's read_info_alternates / link_alt_odb_entries / *)
(* link_alt_odb_entry / alt_odb_usable (object-file.c, 2.39): depth first in  *)
(* file order, an entry that denotes the main object directory or one already *)
(* linked is skipped silently, relative entries are joined to the directory   *)
(* that names them, files deeper than 5 levels are ignored.                   *)
(*                                                                            *)
(* What C13 demands of an implementation that REPORTS cycles (gitoxide):      *)
(*   a directed cycle reachable from the main directory  => Cycle is reported *)
(*   otherwise: its list contains git's list in git's order, contains nothing *)
(*   that is not reachable through alternates; the objects of the main        *)
(*   directory and of git's alternates are readable, objects of directories   *)
(*   not reachable through alternates are not.                                *)
(* Bug_* switches re-create the three slips of gix_odb::alternate::resolve at *)
(* the pinned commit inside the reference traversal `Model`; with all of them *)
(* FALSE, Model is the intended design and TLC proves Verdict for it.         *)
EXTENDS Naturals, Integers, Sequences, FiniteSets, TLC

CONSTANTS Bug_RelativeToRoot,   \* relative entries joined to the main object directory
          Bug_DupIsCycle,       \* any directory seen twice is reported as a cycle (diamonds, duplicates)
          Bug_ReverseOrder      \* entries of a file are visited last to first

OUTSIDE == 0        \* "not one of the world's directories"
MaxDepth == 5

-----------------------------------------------------------------------------
(* lexical paths: sequences of components; ".." steps up, "." stays *)
RECURSIVE CommonLen(_, _, _)
CommonLen(a, b, i) == IF i < Len(a) /\ i < Len(b) /\ a[i + 1] = b[i + 1] THEN CommonLen(a, b, i + 1) ELSE i

Ups(n) == [i \in 1..n |-> ".."]
RelPath(from, to) == LET k == CommonLen(from, to, 0)
                         p == Ups(Len(from) - k) \o SubSeq(to, k + 1, Len(to))
                     IN IF p = <<>> THEN <<".">> ELSE p

\* <<ok, path>>: ok = FALSE once ".." climbs above the world directory
RECURSIVE Norm(_, _, _)
Norm(p, i, acc) ==
  IF i > Len(p) THEN <<TRUE, acc>>
  ELSE IF p[i] = "." THEN Norm(p, i + 1, acc)
  ELSE IF p[i] = ".." THEN (IF acc = <<>> THEN <<FALSE, <<>> >> ELSE Norm(p, i + 1, SubSeq(acc, 1, Len(acc) - 1)))
  ELSE Norm(p, i + 1, Append(acc, p[i]))

Dirs(w) == 1..Len(w.paths)

Lookup(w, np) == IF ~np[1] THEN OUTSIDE
                 ELSE IF \E d \in Dirs(w) : w.paths[d] = np[2] THEN CHOOSE d \in Dirs(w) : w.paths[d] = np[2]
                 ELSE OUTSIDE

IsEntry(e) == e.t # 0

\* the text of entry e of directory d's file, as components (relative) or below the world (absolute)
EntryComps(w, d, e) == IF e.rel THEN RelPath(w.paths[d], w.paths[e.t]) ELSE w.paths[e.t]

\* the directory the text denotes when a relative text is joined to directory `base`
ResolveAt(w, d, e, base) ==
  IF ~e.rel THEN e.t ELSE Lookup(w, Norm(w.paths[base] \o EntryComps(w, d, e), 1, <<>>))

\* C13: "relative entries are interpreted relative to the object directory whose alternates file names them"
Denotes(w, d, e) == ResolveAt(w, d, e, d)

\* sanity of the module itself: a relative text, read from its own directory, is its target
RelPathSound(w) == \A d \in Dirs(w) : \A i \in 1..Len(w.files[d]) :
                      IsEntry(w.files[d][i]) => Denotes(w, d, w.files[d][i]) = w.files[d][i].t

-----------------------------------------------------------------------------
(* git *)
InSeq(x, s) == \E i \in 1..Len(s) : s[i] = x

\* the links of a world, resolved once: adj[d][i] = directory denoted by line i of d's file (0 for raw lines)
AdjAt(w, atRoot, root) ==
  [d \in Dirs(w) |-> [i \in 1..Len(w.files[d]) |->
      IF IsEntry(w.files[d][i]) THEN ResolveAt(w, d, w.files[d][i], IF atRoot THEN root ELSE d) ELSE 0]]
Adj(w) == AdjAt(w, FALSE, 0)

RECURSIVE GitEntries(_, _, _, _, _, _)
GitEntries(adj, root, d, depth, i, acc) ==
  IF depth > MaxDepth \/ i > Len(adj[d]) THEN acc
  ELSE LET t == adj[d][i]
       IN IF t = 0 \/ t = root \/ InSeq(t, acc)
          THEN GitEntries(adj, root, d, depth, i + 1, acc)
          ELSE GitEntries(adj, root, d, depth, i + 1, GitEntries(adj, root, t, depth + 1, 1, Append(acc, t)))

GitResolveAdj(adj, root) == GitEntries(adj, root, root, 0, 1, <<>>)
GitResolve(w, root) == GitResolveAdj(Adj(w), root)

Succ(adj, d) == { adj[d][i] : i \in 1..Len(adj[d]) } \ {0}

RECURSIVE Closure(_, _)
Closure(adj, S) == LET T == S \cup UNION { Succ(adj, d) : d \in S } IN IF T = S THEN S ELSE Closure(adj, T)

\* directories reachable through one or more alternates links from d
ReachFrom(adj, d) == Closure(adj, Succ(adj, d))
TrueCycleAdj(adj, root) == \E d \in {root} \cup ReachFrom(adj, root) : d \in ReachFrom(adj, d)
AllowedAdj(adj, root) == ReachFrom(adj, root) \ {root}
TrueCycle(w, root) == TrueCycleAdj(Adj(w), root)
Allowed(w, root) == AllowedAdj(Adj(w), root)

-----------------------------------------------------------------------------
(* the demand *)
RECURSIVE IsSubseqFrom(_, _, _, _)
IsSubseqFrom(a, b, i, j) ==
  IF i > Len(a) THEN TRUE
  ELSE IF j > Len(b) THEN FALSE
  ELSE IF a[i] = b[j] THEN IsSubseqFrom(a, b, i + 1, j + 1)
  ELSE IsSubseqFrom(a, b, i, j + 1)
IsSubseq(a, b) == IsSubseqFrom(a, b, 1, 1)

\* obs = [kind : {"ok", "cycle", "err"}, list : Seq(0..N), opened : BOOLEAN, readable : Seq(BOOLEAN)]
VerdictWith(required, allowed, truecycle, root, n, obs) ==
  IF truecycle THEN obs.kind = "cycle"
  ELSE /\ obs.kind = "ok"
       /\ IsSubseq(required, obs.list)
       /\ \A i \in 1..Len(obs.list) : obs.list[i] \in allowed
       /\ obs.opened
       /\ \A d \in 1..n : (d = root \/ InSeq(d, required)) => obs.readable[d]
       /\ \A d \in 1..n : obs.readable[d] => (d = root \/ d \in allowed)

Verdict(w, root, obs) ==
  LET adj == Adj(w) IN
  VerdictWith(GitResolveAdj(adj, root), AllowedAdj(adj, root), TrueCycleAdj(adj, root), root, Len(w.paths), obs)

-----------------------------------------------------------------------------
(* reference traversal with cycle reporting (and the pinned commit's slips) *)
Order(n) == IF Bug_ReverseOrder THEN [i \in 1..n |-> n + 1 - i] ELSE [i \in 1..n |-> i]

\* st = [cycle : BOOLEAN, list : Seq, seen : set of directories]; chain = ancestors of d incl. d
RECURSIVE Visit(_, _, _, _, _)
Visit(adj, d, chain, k, st) ==
  LET n == IF d = OUTSIDE THEN 0 ELSE Len(adj[d]) IN
  IF st.cycle \/ k > n THEN st
  ELSE LET i == Order(n)[k]
           e == adj[d][i]          \* 0: raw line, -1: a path outside the world, else a directory
       IN IF e = 0 THEN Visit(adj, d, chain, k + 1, st)
          ELSE LET t == IF e = -1 THEN OUTSIDE ELSE e IN
          IF t # OUTSIDE /\ (t \in chain \/ (Bug_DupIsCycle /\ t \in st.seen))
          THEN [st EXCEPT !.cycle = TRUE]
          ELSE IF t # OUTSIDE /\ t \in st.seen THEN Visit(adj, d, chain, k + 1, st)
          ELSE Visit(adj, d, chain, k + 1,
                     Visit(adj, t, chain \cup {t}, 1,
                           [st EXCEPT !.list = Append(st.list, t), !.seen = st.seen \cup {t}]))

\* the model sees raw lines as 0 and paths outside the world as -1
ModelAdj(w, root) ==
  [d \in Dirs(w) |-> [i \in 1..Len(w.files[d]) |->
      IF ~IsEntry(w.files[d][i]) THEN 0
      ELSE LET t == ResolveAt(w, d, w.files[d][i], IF Bug_RelativeToRoot THEN root ELSE d) IN
           IF t = OUTSIDE THEN -1 ELSE t]]

Model(w, root) ==
  LET st == Visit(ModelAdj(w, root), root, {root}, 1, [cycle |-> FALSE, list |-> <<>>, seen |-> {root}])
      can == {root} \cup { st.list[i] : i \in 1..Len(st.list) }
  IN [kind |-> IF st.cycle THEN "cycle" ELSE "ok", list |-> st.list, opened |-> ~st.cycle,
      readable |-> [d \in Dirs(w) |-> ~st.cycle /\ d \in can]]
=============================================================================
