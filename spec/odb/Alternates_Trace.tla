-------------------------- MODULE Alternates_Trace --------------------------
(* Binding B for C13: what gix_odb::alternate::resolve returned and which     *)
(* objects a store opened on the main directory could read, in a materialised *)
(* world, judged by Verdict.  One event:                                      *)
(*   [paths, files, root, obs : [kind, list, opened, readable]]               *)
(* `list` holds, for every path returned, the world's directory it is (after  *)
(* canonicalisation) or 0 if it is none of them.                              *)
EXTENDS Alternates, TraceIO

VARIABLE l
Init == l = 1
Next == l <= NRec /\ l' = l + 1
Spec == Init /\ [][Next]_l

Judge(r) == Verdict([paths |-> r.paths, files |-> r.files], r.root, r.obs)

EventOk == l <= NRec => (Judge(Rec[l]) \/ PrintT(<<"REJECT", l>>))
=============================================================================
