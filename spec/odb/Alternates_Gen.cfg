SPECIFICATION Spec
CONSTANTS
  N = 4
  FanOut = 2
  MaxEdges = 4
  Full = FALSE
  Bug_RelativeToRoot = FALSE
  Bug_DupIsCycle = FALSE
  Bug_ReverseOrder = FALSE
INVARIANTS
  InvDesign
  Emit
CHECK_DEADLOCK FALSE
