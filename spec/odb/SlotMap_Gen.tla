---------------------------- MODULE SlotMap_Gen ----------------------------
(* Binding A for the slot allocation (C12): TLC's simulator draws histories of  *)
(* pack files appearing and disappearing, handles with stable pack ids being    *)
(* opened and dropped, and lookups of an object that does not exist - each of    *)
(* which refreshes until a refresh reports no change (find.rs) - and prints,     *)
(* after every lookup, what `Store::structure()` and `Store::metrics()` must     *)
(* show: the index files in the order of the slot-map index, the number of       *)
(* unused slots and of slots kept for stable handles, and whether the lookup     *)
(* was refused (InsufficientSlots).                                               *)
EXTENDS SlotMap, Json
CONSTANTS MaxSteps

VARIABLES hist, inLookup, done
gvars == <<vars, hist, inLookup, done>>

Obs(ok) == [op |-> "lookup", f |-> 0, ok |-> ok,
            order |-> [i \in 1..Len(idx'.order) |-> slots'[idx'.order[i]].f],
            disposable |-> [i \in 1..Len(idx'.order) |-> slots'[idx'.order[i]].trashed],
            unused |-> Cardinality({ s \in Slots : slots'[s].f = NoFile }),
            kept |-> Cardinality({ s \in Slots : slots'[s].f # NoFile /\ slots'[s].trashed })]
Ev(op, f) == [op |-> op, f |-> f, ok |-> TRUE, order |-> <<>>, disposable |-> <<>>, unused |-> 0, kept |-> 0]

GInit == Init /\ hist = <<>> /\ inLookup = FALSE /\ done = FALSE
\* one refresh of a lookup; the lookup goes on while refreshes report a change
GRefresh == /\ Refresh
            /\ inLookup' = (last'.ok /\ last'.changed)
            /\ hist' = IF inLookup' THEN hist ELSE Append(hist, Obs(last'.ok))
GEnv == /\ ~inLookup
        /\ \/ \E f \in Files : (Add(f) /\ hist' = Append(hist, Ev("add", f)))
           \/ \E f \in Files : (Remove(f) /\ hist' = Append(hist, Ev("remove", f)))
           \/ (OpenStable /\ hist' = Append(hist, Ev("open_stable", 0)))
           \/ (DropStable /\ hist' = Append(hist, Ev("drop_stable", 0)))
        /\ UNCHANGED inLookup
GStep == ~done /\ Len(hist) < MaxSteps /\ (GRefresh \/ GEnv) /\ done' = FALSE
GFinish == ~done /\ ~inLookup /\ Len(hist) = MaxSteps /\ done' = TRUE /\ UNCHANGED <<vars, hist, inLookup>>
GNext == GStep \/ GFinish
GSpec == GInit /\ [][GNext]_gvars
Emit == done => PrintT(<<"CASE", ToJson([steps |-> hist])>>)
=============================================================================
