SPECIFICATION Spec
CONSTANTS
  N = 4
  MaxParents = 3
  MaxRoots = 3
  MinN = 1
INVARIANTS
  InvWellFormed
  InvGenLaw
  Emit
CHECK_DEADLOCK FALSE
