---------------------------- MODULE OdbCalls_Gen ----------------------------
(* Binding A for C12 at the granularity of whole lookups: every sequence of    *)
(* <= MaxSteps steps, each either a lookup (contains / find) by one of two      *)
(* handles of the same store or a maintenance step git performs on the object   *)
(* directory.  Maintenance never removes an object (git deletes a file only     *)
(* after its objects are available elsewhere): Present only grows.  Expected:   *)
(* an object in Present when the lookup starts is found with its exact content; *)
(* an id that never existed is not found; no lookup fails or panics.            *)
(* disk tracks where each object lives so that the enumeration distinguishes    *)
(* histories that reach different pack/loose layouts.                           *)
EXTENDS Naturals, Sequences, FiniteSets, TLC, Json
CONSTANTS MaxSteps, MaxEnv, Wide

Handles == {"A", "B"}
LookupsAll == { [h |-> h, op |-> op, obj |-> o] : h \in Handles, op \in {"contains", "find"}, o \in {"x", "l", "missing"} }
\* the quick alphabet: one handle that knows the object, one that keeps asking for something that is not there
LookupsFew == { [h |-> "A", op |-> "contains", obj |-> "x"], [h |-> "A", op |-> "find", obj |-> "x"], [h |-> "A", op |-> "find", obj |-> "l"],
                [h |-> "A", op |-> "find", obj |-> "missing"], [h |-> "B", op |-> "find", obj |-> "missing"], [h |-> "B", op |-> "find", obj |-> "x"] }
Lookups == IF Wide THEN LookupsAll ELSE LookupsFew
EnvOps == {"repack_ad", "new_pack", "midx", "prune_packed"}

VARIABLES disk, hist, nenv, done
vars == <<disk, hist, nenv, done>>
\* disk: [obj -> "pack0" | "loose" | "packN"]; x starts in a pack, l as loose object
Init == disk = [x |-> "pack0", l |-> "loose"] /\ hist = <<>> /\ nenv = 0 /\ done = FALSE
Present == DOMAIN disk

EnvEffect(e) ==
  CASE e = "repack_ad" -> [o \in DOMAIN disk |-> "packAll"]
    [] e = "new_pack"  -> [o \in DOMAIN disk |-> IF disk[o] = "loose" THEN "packNew" ELSE disk[o]]
    [] OTHER -> disk

Step == /\ ~done /\ Len(hist) < MaxSteps
        /\ \/ \E lk \in Lookups :
                /\ hist' = Append(hist, [h |-> lk.h, op |-> lk.op, obj |-> lk.obj, env |-> "",
                                         found |-> lk.obj \in Present])
                /\ UNCHANGED <<disk, nenv>>
           \/ \E e \in EnvOps :
                /\ nenv < MaxEnv
                /\ disk' = EnvEffect(e) /\ nenv' = nenv + 1
                /\ hist' = Append(hist, [h |-> "", op |-> "", obj |-> "", env |-> e, found |-> FALSE])
        /\ done' = FALSE
Finish == ~done /\ Len(hist) = MaxSteps /\ done' = TRUE /\ UNCHANGED <<disk, hist, nenv>>
Next == Step \/ Finish
Spec == Init /\ [][Next]_vars
NeverShrinks == [][DOMAIN disk' = DOMAIN disk]_vars
\* only histories with at least one maintenance step and a lookup after it are of interest
Interesting == \E i, j \in 1..Len(hist) : i < j /\ hist[i].env # "" /\ hist[j].env = ""
Emit == (done /\ Interesting) => PrintT(<<"CASE", ToJson([steps |-> hist])>>)
=============================================================================
