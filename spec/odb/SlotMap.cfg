SPECIFICATION Spec
CONSTANTS
  NSlots = 3
  Files = {1, 2, 3, 4}
  Fix_KeepLive = TRUE
  AllowOverflow = TRUE
  Fix_Precount = TRUE
  Bug_NoGenBump = FALSE
INVARIANTS TypeOK EveryFileHasItsSlot EverySlotLoadable RefusedOnlyWhenFull StableIdsStay
PROPERTIES RefreshSettles SettledStays ReuseBumpsGeneration
CONSTRAINT Bounded
CHECK_DEADLOCK FALSE
