SPECIFICATION Spec
CONSTANTS
  Big = TRUE
  Sizes = {}
INVARIANTS
  InvHeader
  Emit
CHECK_DEADLOCK FALSE
