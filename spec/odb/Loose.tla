-------------------------------- MODULE Loose --------------------------------
(* C11.  The loose object store.                                              *)
(*                                                                            *)
(* An object (kind, body) is stored as the file                               *)
(*        Deflate(LooseHeader(kind, Len(body)) \o body)                       *)
(* at the path  xx/yyyy... below the objects directory, where xxyyyy... is    *)
(* the hexadecimal id  H(LooseHeader(kind, Len(body)) \o body).               *)
(* H (SHA-1) and Deflate/Inflate (zlib) are UNINTERPRETED here: wherever a    *)
(* statement needs their value, the recorded event carries it, evaluated by   *)
(* Python's hashlib / zlib and by git, never by the code under test.          *)
(* Sequences of bytes that are too long to be carried are represented by      *)
(* their H value (equality of digests stands for equality of contents).       *)
EXTENDS Bytes

Kinds == {"blob", "tree", "commit", "tag"}
KindBytes(k) == CASE k = "blob"   -> <<98, 108, 111, 98>>
                  [] k = "tree"   -> <<116, 114, 101, 101>>
                  [] k = "commit" -> <<99, 111, 109, 109, 105, 116>>
                  [] k = "tag"    -> <<116, 97, 103>>
                  [] OTHER        -> <<>>

\* "<kind> <decimal size>\0"
LooseHeader(k, n) == KindBytes(k) \o <<32>> \o DecNat(n) \o <<0>>

RECURSIVE NatOf(_, _, _)
NatOf(s, i, acc) == IF i > Len(s) THEN acc ELSE NatOf(s, i + 1, acc * 10 + (s[i] - 48))

\* reading a header back: [ok, kind, size, len]
ParseHeader(b) ==
  LET sp == FindByte(b, 32)
      z  == FindByte(b, 0)
      kb == SubSeq(b, 1, sp - 1)
      ds == SubSeq(b, sp + 1, z - 1)
      ks == { k \in Kinds : KindBytes(k) = kb }
  IN IF sp = 0 \/ z = 0 \/ z < sp + 2 \/ ks = {} \/ \E i \in 1..Len(ds) : ~IsDigit(ds[i])
     THEN [ok |-> FALSE, kind |-> "", size |-> 0, len |-> 0]
     ELSE [ok |-> TRUE, kind |-> CHOOSE k \in ks : TRUE, size |-> NatOf(ds, 1, 0), len |-> z]

HeaderRoundTrip(k, n) == ParseHeader(LooseHeader(k, n)) = [ok |-> TRUE, kind |-> k, size |-> n, len |-> Len(LooseHeader(k, n))]

\* the relative path of the object file for a hexadecimal id (40 bytes): <<directory, file name>>
PathOf(hex) == <<SubSeq(hex, 1, 2), SubSeq(hex, 3, Len(hex))>>

-----------------------------------------------------------------------------
(* what a read reports: [status : "ok" | "none" | "error", kind, size, h]  (h = H(data)) *)
IsObject(r, k, n, hbody) == r.status = "ok" /\ r.kind = k /\ r.size = n /\ r.h = hbody
IsHeader(r, k, n) == r.status = "ok" /\ r.kind = k /\ r.size = n

\* Writing (kind, body) yielded `id` and a file at `path` whose inflated content has digest hinfl:
\*   hraw = H(LooseHeader(kind, n) \o body), evaluated outside on the header printed by this module
WriteOk(w) ==
  /\ w.status = "ok"
  /\ w.id = w.hraw                 \* placed under the id git computes
  /\ w.path = PathOf(w.id)         \* in the file git looks at
  /\ w.hinfl = w.hraw              \* whose content is exactly header + body

\* Reading an intact object file of (kind, n, body): identical type and bytes; the header-only
\* read agrees; the object is reported present.
ReadOk(r) ==
  /\ IsObject(r.find, r.kind, r.n, r.hbody)
  /\ IsHeader(r.header, r.kind, r.n)
  /\ r.contains

\* Reading the first k bytes of an object file of length L: an error for every k < L, never an
\* object.  (The header-only read does not look at the rest of the file: if it answers, the
\* answer must be the true header.)
TruncOk(r) ==
  IF r.k = r.L THEN ReadOk(r)
  ELSE /\ r.find.status = "error"
       /\ (r.header.status = "ok" => IsHeader(r.header, r.kind, r.n))
       /\ r.header.status # "none"

\* the sizes at which the code's buffers change behaviour (header buffer 64, try_header's 256 - 64
\* bytes of compressed input, the deflate writer's 32 KiB buffer), per kind
Interesting(k) ==
  LET around(c) == {c - 1, c, c + 1} IN
  (0..70) \cup around(192) \cup around(256) \cup around(4096) \cup around(32768) \cup around(65536)
=============================================================================
