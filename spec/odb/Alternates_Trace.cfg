SPECIFICATION Spec
CONSTANTS
  Bug_RelativeToRoot = FALSE
  Bug_DupIsCycle = FALSE
  Bug_ReverseOrder = FALSE
INVARIANT EventOk
CHECK_DEADLOCK FALSE
