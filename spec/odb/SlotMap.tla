------------------------------- MODULE SlotMap -------------------------------
(* The slot allocation of gix-odb's dynamic store, sequentially: what              *)
(* `consolidate_with_disk_state` (load_index.rs) does to the fixed array of slots   *)
(* and to the slot-map index when the pack directory changed, with and without      *)
(* handles that need stable pack ids (`prevent_pack_unload`).  OdbStore.tla has     *)
(* the concurrent protocol (readers, loading, generations) over two slots; this     *)
(* module has the allocation itself over more slots, more files and long            *)
(* histories, where the defects were (a live slot overwritten when the map is full  *)
(* - livelock; the generation not bumped on reuse - seeded change).                 *)
(*                                                                                  *)
(* State                                                                            *)
(*   disk    set of index files in objects/pack (plain .idx + .pack pairs)          *)
(*   slots   slot -> [f: file or NoFile, trashed: kept for stable handles although  *)
(*           deleted, gen: generation a reader needs to trust the slot]             *)
(*   idx     the published slot-map index: [order: slots in use, gen]               *)
(*   stable  number of handles with stable pack ids                                 *)
(*   last    outcome of the latest step (for the properties and the generator)      *)
(* Files are ordered (f1 biggest): the directory listing is sorted by size.         *)
EXTENDS Naturals, Sequences, FiniteSets, TLC
CONSTANTS NSlots, Files,            \* Files: a set of naturals 1..k, 1 = biggest file
          Fix_KeepLive,             \* TRUE: the repaired code (slots of files that still exist are no candidates; a reused slot is not cleared)
          Fix_Precount,             \* TRUE: proposed repair 2 (refuse before anything is changed when the new files cannot all be placed; a slot kept
                                    \* for a stable handle that is gone may be reused for the same file name)
          AllowOverflow,            \* FALSE: refreshes happen only while the files on disk (and the slots kept for stable handles) fit into the slots
          Bug_NoGenBump             \* TRUE: the seeded change (no new generation when an occupied slot is reused for a new plain index)

NoFile == 0
Slots == 0 .. NSlots - 1
VARIABLES disk, slots, idx, stable, last,
          handed     \* history: <<slot, file>> pairs a stable handle may hold pack ids for (published while it lived)
vars == <<disk, slots, idx, stable, last, handed>>

Range(s) == { s[i] : i \in DOMAIN s }
SortedSeq(S) == LET RECURSIVE go(_, _)
                    go(rest, acc) == IF rest = {} THEN acc
                                     ELSE LET m == CHOOSE x \in rest : \A y \in rest : x <= y IN go(rest \ {m}, Append(acc, m))
                IN go(S, <<>>)
MaxOf(S) == CHOOSE x \in S : \A y \in S : y <= x
SlotOf(order, f) == CHOOSE s \in Range(order) : slots[s].f = f

Init == /\ disk = {}
        /\ slots = [s \in Slots |-> [f |-> NoFile, trashed |-> FALSE, gen |-> 0]]
        /\ idx = [order |-> <<>>, gen |-> 0]
        /\ stable = 0
        /\ last = [op |-> "init", ok |-> TRUE, changed |-> FALSE, n |-> 0]
        /\ handed = {}

(* ---- the allocation sweep: place the files of `add` (in listing order) ---- *)
\* st: [sl: slots, next, checked, order, needGen, remove: set of slots, err]
RECURSIVE Place(_, _, _)
Place(st, add, kept) ==
  IF add = <<>> \/ st.err THEN st
  ELSE IF st.checked = NSlots THEN [st EXCEPT !.err = TRUE]
  ELSE LET c == st.next
           st1 == [st EXCEPT !.next = (c + 1) % NSlots, !.checked = @ + 1]
           b == st.sl[c]
           file == Head(add)
       IN IF Fix_KeepLive /\ c \in kept THEN Place(st1, add, kept)
          ELSE IF b.f # NoFile
               THEN IF \/ (b.f = file /\ ~(Fix_Precount /\ b.trashed /\ stable = 0))
                       \/ (b.trashed /\ stable > 0)
                       \/ (Fix_Precount /\ stable > 0 /\ c \in st.remove)     \* about to be kept for the stable handles
                    THEN Place(st1, add, kept)
                    ELSE \* an occupied slot is overwritten: the slot gets the next generation
                         Place([st1 EXCEPT !.sl[c] = [f |-> file, trashed |-> FALSE, gen |-> idx.gen + 1],
                                           !.order = Append(@, c),
                                           !.needGen = IF Bug_NoGenBump THEN @ ELSE TRUE,
                                           !.remove = IF Fix_KeepLive THEN @ \ {c} ELSE @],
                               Tail(add), kept)
               ELSE Place([st1 EXCEPT !.sl[c] = [f |-> file, trashed |-> FALSE, gen |-> idx.gen], !.order = Append(@, c)], Tail(add), kept)

\* consolidate_with_disk_state(needs_init = FALSE): what a lookup does when its snapshot has no answer
Refresh ==
  LET listed  == SortedSeq(disk)
      known   == { slots[s].f : s \in { t \in Range(idx.order) : slots[t].f # NoFile } }
      keepF   == SelectSeq(listed, LAMBDA f : f \in known)
      keepS   == [j \in 1..Len(keepF) |-> SlotOf(idx.order, keepF[j])]
      add     == SelectSeq(listed, LAMBDA f : f \notin known)
      remove0 == { s \in Range(idx.order) : slots[s].f # NoFile /\ slots[s].f \notin disk }
      \* assure_slot_matches_index: a kept slot that was declared garbage is put back
      sl0     == [s \in Slots |-> IF s \in Range(keepS) /\ slots[s].trashed THEN [slots[s] EXCEPT !.trashed = FALSE, !.gen = idx.gen] ELSE slots[s]]
      next0   == IF idx.order = <<>> THEN 0 ELSE (MaxOf(Range(idx.order)) + 1) % NSlots
      st      == Place([sl |-> sl0, next |-> next0, checked |-> 0, order |-> keepS, needGen |-> FALSE, remove |-> remove0, err |-> FALSE],
                       add, Range(keepS))
      cand    == { s \in Slots : s \notin Range(keepS) /\ (sl0[s].f = NoFile \/ ~(stable > 0 /\ (sl0[s].trashed \/ s \in remove0))) }
      gen2    == IF st.needGen THEN idx.gen + 1 ELSE idx.gen
      same    == idx.order = st.order /\ gen2 = idx.gen
      sl2     == [s \in Slots |-> IF s \in st.remove
                                   THEN (IF stable > 0 THEN [st.sl[s] EXCEPT !.trashed = TRUE]
                                                       ELSE [f |-> NoFile, trashed |-> FALSE, gen |-> gen2])
                                   ELSE st.sl[s]]
  IN IF Fix_Precount /\ Len(add) > Cardinality(cand)
     THEN /\ UNCHANGED <<slots, idx, disk, stable, handed>>
          /\ last' = [op |-> "refresh", ok |-> FALSE, changed |-> FALSE, n |-> 0]
     ELSE IF st.err
     THEN \* InsufficientSlots: what was placed so far stays in the slots, no new index is published
          /\ slots' = st.sl /\ UNCHANGED <<idx, disk, stable, handed>>
          /\ last' = [op |-> "refresh", ok |-> FALSE, changed |-> FALSE, n |-> 0]
     ELSE /\ slots' = sl2
          /\ idx' = IF same THEN idx ELSE [order |-> st.order, gen |-> gen2]
          /\ UNCHANGED <<disk, stable>>
          /\ handed' = IF stable > 0 THEN handed \cup { <<s, sl2[s].f>> : s \in Range(st.order) } ELSE {}
          /\ last' = [op |-> "refresh", ok |-> TRUE, changed |-> ~same, n |-> IF last.op = "refresh" /\ last.ok THEN last.n + 1 ELSE 1]

Add(f)    == f \notin disk /\ disk' = disk \cup {f} /\ last' = [op |-> "add", ok |-> TRUE, changed |-> FALSE, n |-> 0] /\ UNCHANGED <<slots, idx, stable, handed>>
Remove(f) == f \in disk /\ disk' = disk \ {f} /\ last' = [op |-> "remove", ok |-> TRUE, changed |-> FALSE, n |-> 0] /\ UNCHANGED <<slots, idx, stable, handed>>
OpenStable == stable = 0 /\ stable' = 1 /\ last' = [op |-> "open_stable", ok |-> TRUE, changed |-> FALSE, n |-> 0] /\ UNCHANGED <<disk, slots, idx>>
              /\ handed' = { <<s, slots[s].f>> : s \in { t \in Range(idx.order) : slots[t].f # NoFile } }
DropStable == stable = 1 /\ stable' = 0 /\ last' = [op |-> "drop_stable", ok |-> TRUE, changed |-> FALSE, n |-> 0] /\ UNCHANGED <<disk, slots, idx>> /\ handed' = {}

Fits == Cardinality(disk) + (IF stable > 0 THEN Cardinality({ s \in Slots : slots[s].f # NoFile /\ slots[s].f \notin disk }) ELSE 0) <= NSlots
Next == ((AllowOverflow \/ Fits) /\ Refresh) \/ OpenStable \/ DropStable \/ \E f \in Files : Add(f) \/ Remove(f)
Spec == Init /\ [][Next]_vars

(* ------------------------------ properties ------------------------------ *)
InUse == { s \in Range(idx.order) : slots[s].f # NoFile /\ ~slots[s].trashed }
Pinned == { s \in Slots : slots[s].f # NoFile /\ slots[s].trashed }

TypeOK == /\ disk \subseteq Files /\ stable \in {0, 1}
          /\ \A s \in Slots : slots[s].f \in Files \cup {NoFile}
          /\ \A s \in Range(idx.order) : s \in Slots

\* after a successful refresh every index file on disk has exactly one slot of the published index, and nothing else is in it
EveryFileHasItsSlot ==
  (last.op = "refresh" /\ last.ok) =>
     /\ { slots[s].f : s \in InUse } = disk
     /\ \A s, t \in InUse : slots[s].f = slots[t].f => s = t
     /\ Len(idx.order) = Cardinality(Range(idx.order))
     /\ Range(idx.order) = InUse

\* readers only load slots whose generation is not ahead of the index: everything the index lists must be loadable
EverySlotLoadable ==
  (last.op = "refresh" /\ last.ok) => \A s \in InUse : slots[s].gen <= idx.gen

\* a refresh is refused only if the files on disk and the slots kept for stable handles do not fit
RefusedOnlyWhenFull ==
  LET held == { s \in Slots : slots[s].f # NoFile /\ (slots[s].trashed \/ (s \in Range(idx.order) /\ slots[s].f \notin disk)) }
  IN (last.op = "refresh" /\ ~last.ok) => Cardinality(disk) + (IF stable > 0 THEN Cardinality(held) ELSE 0) > NSlots

\* refreshing an unchanged directory settles: the first refresh places the files, the second may still publish the listing
\* order (sorted by size; new files were appended), the third changes nothing - otherwise a lookup of an absent object never ends
RefreshSettles ==
  [][ (last.op = "refresh" /\ last.ok /\ last.n >= 2 /\ last'.op = "refresh") => (last'.ok /\ ~last'.changed /\ slots' = slots /\ idx' = idx) ]_vars
\* (and a fixpoint stays one)
SettledStays ==
  [][ (last.op = "refresh" /\ last.ok /\ ~last.changed /\ last'.op = "refresh") => (last'.ok /\ ~last'.changed /\ slots' = slots /\ idx' = idx) ]_vars

\* a slot that changes the file it holds is announced by a new generation of the index (pack ids are slot numbers)
ReuseBumpsGeneration ==
  [][ (\E s \in Slots : slots[s].f # NoFile /\ slots'[s].f # NoFile /\ slots'[s].f # slots[s].f /\ last'.ok) => idx'.gen > idx.gen ]_vars

\* while a handle needs stable pack ids, a slot it may hold a pack id for keeps its file (deleted or not)
StableIdsStay == stable > 0 => \A p \in handed : slots[p[1]].f = p[2]

\* bound for TLC
Bounded == idx.gen <= 4 /\ last.n <= 3
=============================================================================
