----------------------------- MODULE OdbHist_Gen -----------------------------
(* Binding A for C12, long histories: TLC in simulation mode draws random       *)
(* behaviours of MaxSteps steps over lookups by two ordinary handles (A, B), a   *)
(* third handle S that keeps deleted packs available while it is open            *)
(* (prevent_pack_unload; it is opened and dropped during the history), and git   *)
(* maintenance steps - with a store that has only a few slots, so that slots of   *)
(* vanished packs are reused.  "newest" is the blob added by the latest new pack  *)
(* (it lives in that pack only).  Expected as in OdbCalls_Gen: present => found.  *)
EXTENDS Naturals, Sequences, FiniteSets, TLC, Json
CONSTANTS MaxSteps

EnvOps == {"repack_ad", "new_pack", "new_pack", "midx", "prune_packed"}
VARIABLES present, sOpen, hist, done
vars == <<present, sOpen, hist, done>>
Init == present = {"x", "l"} /\ sOpen = FALSE /\ hist = <<>> /\ done = FALSE
Rec(h, op, obj, env, found) == [h |-> h, op |-> op, obj |-> obj, env |-> env, found |-> found]
\* few kinds of lookups, so that maintenance and the life cycle of S make up about half of a random history
Lookups == { <<"A", "find", "x">>, <<"A", "find", "newest">>, <<"A", "contains", "l">>, <<"B", "find", "missing">> }
           \cup (IF sOpen THEN { <<"S", "find", "x">>, <<"S", "contains", "newest">> } ELSE {})
Lookup == \E lk \in Lookups :
            /\ hist' = Append(hist, Rec(lk[1], lk[2], lk[3], "", lk[3] \in present)) /\ UNCHANGED <<present, sOpen>>
OpenS == ~sOpen /\ sOpen' = TRUE /\ hist' = Append(hist, Rec("S", "open_stable", "", "", FALSE)) /\ UNCHANGED present
DropS == sOpen /\ sOpen' = FALSE /\ hist' = Append(hist, Rec("S", "drop", "", "", FALSE)) /\ UNCHANGED present
Env == \E e \in EnvOps :
         /\ present' = IF e = "new_pack" THEN present \cup {"newest"} ELSE present
         /\ hist' = Append(hist, Rec("", "", "", e, FALSE)) /\ UNCHANGED sOpen
Step == ~done /\ Len(hist) < MaxSteps /\ (Lookup \/ OpenS \/ DropS \/ Env) /\ done' = FALSE
Finish == ~done /\ Len(hist) = MaxSteps /\ done' = TRUE /\ UNCHANGED <<present, sOpen, hist>>
Next == Step \/ Finish
Spec == Init /\ [][Next]_vars
Emit == done => PrintT(<<"CASE", ToJson([steps |-> hist])>>)
=============================================================================
