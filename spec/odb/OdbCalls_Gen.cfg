SPECIFICATION Spec
CONSTANTS
  MaxSteps = 4
  MaxEnv = 1
  Wide = FALSE
INVARIANT Emit
PROPERTY NeverShrinks
CHECK_DEADLOCK FALSE
