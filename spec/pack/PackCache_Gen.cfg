SPECIFICATION Spec
CONSTANTS
  NObj = 6
  MaxReq = 4
INVARIANT Emit
CHECK_DEADLOCK FALSE
