SPECIFICATION Spec
CONSTANTS
  Start = 2
  RefLen = 3
  OfsBounds = {4, 12}
  Bug_RefBaseOnlyAmongInserted = FALSE
  N = 4
  Szs = {1, 2}
  Bodies = {1, 6}
  LocalSets = {{}, {"L1", "L2"}, {"L1", "p1"}, {"L1", "L2", "p1", "p2"}}
  Emitting = FALSE
INVARIANTS
  InvWf
  InvGood
  InvErr
CHECK_DEADLOCK FALSE
