------------------------------- MODULE Varint -------------------------------
(* C07 (first half).  The two variable-length integers of a pack entry header *)
(* (git: pack-format.txt, "size encoding" and "offset encoding").             *)
(*                                                                            *)
(* Numbers go up to 2^64 - 1, TLC integers are 32 bit: a number is a BigNat,  *)
(* its binary digits least significant first, without trailing zeros          *)
(* (zero = <<>>).  JSON carries them the same way.                            *)
(*                                                                            *)
(*   EncSize(t, n)   type t (3 bits) and size n: first byte 1tttnnnn/0tttnnnn *)
(*                   with the low 4 bits, then 7 bits per byte, least         *)
(*                   significant group first, MSB = "more follows"            *)
(*   EncOfs(d)       base distance: 7 bits per byte, MOST significant group   *)
(*                   first, MSB = "more follows", and every continuation      *)
(*                   adds 1 to what precedes it (so that no value has two     *)
(*                   encodings): git's  c = d & 127; while (d >>= 7)          *)
(*                   c' = 128 | (--d & 127)                                   *)
(*   EncHeader       size, then for OFS_DELTA the distance, for REF_DELTA the *)
(*                   20 raw bytes of the base id                              *)
(*   DecSize, DecOfs, DecHeader  the readers; `consumed` counts bytes         *)
EXTENDS Bytes

COMMIT == 1
TREE == 2
BLOB == 3
TAG == 4
OFS_DELTA == 6
REF_DELTA == 7
KnownType(t) == t \in {COMMIT, TREE, BLOB, TAG, OFS_DELTA, REF_DELTA}

(* ------------------------------------------------------------------ BigNat *)
IsBigNat(b) == /\ \A i \in 1..Len(b) : b[i] \in {0, 1}
               /\ (b # <<>> => b[Len(b)] = 1)
Fits64(b) == Len(b) <= 64

RECURSIVE Norm(_)
Norm(b) == IF b # <<>> /\ b[Len(b)] = 0 THEN Norm(SubSeq(b, 1, Len(b) - 1)) ELSE b

\* value of the lowest k bits (k <= 7) as an ordinary integer
RECURSIVE LowFrom(_, _, _)
LowFrom(b, k, i) == IF i > k \/ i > Len(b) THEN 0 ELSE b[i] + 2 * LowFrom(b, k, i + 1)
Low(b, k) == LowFrom(b, k, 1)
Shr(b, k) == SubSeq(b, k + 1, Len(b))                       \* stays normalised
\* the k binary digits of the integer v < 2^k, least significant first
RECURSIVE BitsOf(_, _)
BitsOf(v, k) == IF k = 0 THEN <<>> ELSE <<v % 2>> \o BitsOf(v \div 2, k - 1)
\* b * 2^k + v  for v < 2^k
ShlAdd(b, k, v) == Norm(BitsOf(v, k) \o b)

\* b - 1 for b # 0: the lowest 1 becomes 0, the zeros below it become 1
FirstOne(b) == CHOOSE j \in 1..Len(b) : b[j] = 1 /\ \A i \in 1..(j - 1) : b[i] = 0
Pred(b) == LET j == FirstOne(b) IN Norm([i \in 1..Len(b) |-> IF i < j THEN 1 ELSE IF i = j THEN 0 ELSE b[i]])
\* b + 1: the lowest 0 becomes 1, the ones below it become 0
Succ(b) ==
  IF \A i \in 1..Len(b) : b[i] = 1 THEN [i \in 1..(Len(b) + 1) |-> IF i <= Len(b) THEN 0 ELSE 1]
  ELSE LET j == CHOOSE j \in 1..Len(b) : b[j] = 0 /\ \A i \in 1..(j - 1) : b[i] = 1
       IN [i \in 1..Len(b) |-> IF i < j THEN 0 ELSE IF i = j THEN 1 ELSE b[i]]

(* ------------------------------------------------------------ size varint *)
RECURSIVE SizeGroups(_)
SizeGroups(m) ==
  IF m = <<>> THEN <<>>
  ELSE <<Low(m, 7) + (IF Shr(m, 7) # <<>> THEN 128 ELSE 0)>> \o SizeGroups(Shr(m, 7))

EncSize(t, n) ==
  <<t * 16 + Low(n, 4) + (IF Shr(n, 4) # <<>> THEN 128 ELSE 0)>> \o SizeGroups(Shr(n, 4))

\* reads bytes[1..]; [ok, type, size, consumed]; ok = FALSE: ran off the end
RECURSIVE DecSizeFrom(_, _, _)
DecSizeFrom(bytes, i, acc) ==          \* acc: bits read so far (not normalised), byte i-1 had the MSB set
  IF i > Len(bytes) THEN [ok |-> FALSE, bits |-> <<>>, next |-> i]
  ELSE LET c == bytes[i]
           acc2 == acc \o BitsOf(c % 128, 7)
       IN IF c >= 128 THEN DecSizeFrom(bytes, i + 1, acc2) ELSE [ok |-> TRUE, bits |-> acc2, next |-> i + 1]

DecSize(bytes) ==
  IF bytes = <<>> THEN [ok |-> FALSE, type |-> 0, size |-> <<>>, consumed |-> 0]
  ELSE LET c == bytes[1]
           t == (c \div 16) % 8
           low == BitsOf(c % 16, 4)
       IN IF c < 128 THEN [ok |-> TRUE, type |-> t, size |-> Norm(low), consumed |-> 1]
          ELSE LET r == DecSizeFrom(bytes, 2, low) IN
               [ok |-> r.ok, type |-> t, size |-> Norm(r.bits), consumed |-> r.next - 1]

(* ---------------------------------------------------------- offset varint *)
RECURSIVE OfsPrefix(_)
OfsPrefix(m) == IF m = <<>> THEN <<>>
                ELSE LET m1 == Pred(m) IN OfsPrefix(Shr(m1, 7)) \o <<128 + Low(m1, 7)>>
EncOfs(d) == OfsPrefix(Shr(d, 7)) \o <<Low(d, 7)>>

RECURSIVE DecOfsFrom(_, _, _)
DecOfsFrom(bytes, i, v) ==             \* byte i-1 had the MSB set, v = value so far
  IF i > Len(bytes) THEN [ok |-> FALSE, value |-> <<>>, next |-> i]
  ELSE LET c == bytes[i]
           v2 == ShlAdd(Succ(v), 7, c % 128)
       IN IF c >= 128 THEN DecOfsFrom(bytes, i + 1, v2) ELSE [ok |-> TRUE, value |-> v2, next |-> i + 1]
\* reads from index i
DecOfsAt(bytes, i) ==
  IF i > Len(bytes) THEN [ok |-> FALSE, value |-> <<>>, next |-> i]
  ELSE LET c == bytes[i] IN
       IF c >= 128 THEN DecOfsFrom(bytes, i + 1, Norm(BitsOf(c % 128, 7)))
       ELSE [ok |-> TRUE, value |-> Norm(BitsOf(c, 7)), next |-> i + 1]

(* ------------------------------------------------------------ whole header *)
\* h = [type, size, dist, base]: dist (BigNat) only for OFS_DELTA, base (20 bytes) only for REF_DELTA
EncHeader(h) ==
  EncSize(h.type, h.size) \o (IF h.type = OFS_DELTA THEN EncOfs(h.dist)
                              ELSE IF h.type = REF_DELTA THEN h.base ELSE <<>>)

NoHeader == [ok |-> FALSE, type |-> 0, size |-> <<>>, dist |-> <<>>, base |-> <<>>, consumed |-> 0]
DecHeader(bytes, hashLen) ==
  LET s == DecSize(bytes) IN
  IF ~s.ok \/ ~KnownType(s.type) THEN NoHeader
  ELSE IF s.type = OFS_DELTA
       THEN LET o == DecOfsAt(bytes, s.consumed + 1) IN
            IF ~o.ok THEN NoHeader
            ELSE [ok |-> TRUE, type |-> s.type, size |-> s.size, dist |-> o.value, base |-> <<>>, consumed |-> o.next - 1]
  ELSE IF s.type = REF_DELTA
       THEN IF Len(bytes) < s.consumed + hashLen THEN NoHeader
            ELSE [ok |-> TRUE, type |-> s.type, size |-> s.size, dist |-> <<>>,
                  base |-> SubSeq(bytes, s.consumed + 1, s.consumed + hashLen), consumed |-> s.consumed + hashLen]
  ELSE [ok |-> TRUE, type |-> s.type, size |-> s.size, dist |-> <<>>, base |-> <<>>, consumed |-> s.consumed]

\* judged domain of the readers: values below 2^64 (the implementation computes in u64)
DecInDomain(bytes, hashLen) ==
  LET h == DecHeader(bytes, hashLen) IN h.ok /\ Fits64(h.size) /\ Fits64(h.dist)

\* the laws of C07 for one header h
HeaderInDomain(h) == /\ KnownType(h.type) /\ IsBigNat(h.size) /\ Fits64(h.size)
                     /\ (h.type = OFS_DELTA => IsBigNat(h.dist) /\ Fits64(h.dist))
                     /\ (h.type = REF_DELTA => Len(h.base) = 20)
RoundTrip(h, tail) ==
  LET e == EncHeader(h)
      d == DecHeader(e \o tail, 20)
  IN d = [ok |-> TRUE, type |-> h.type, size |-> h.size,
          dist |-> IF h.type = OFS_DELTA THEN h.dist ELSE <<>>,
          base |-> IF h.type = REF_DELTA THEN h.base ELSE <<>>, consumed |-> Len(e)]
=============================================================================
