SPECIFICATION Spec
CONSTANTS
  Start = 2
  RefLen = 3
  OfsBounds = {4, 12}
  Bug_RefBaseOnlyAmongInserted = FALSE
  N = 3
  Szs = {1}
  Bodies = {1, 6}
  LocalSets = {{"L1"}, {"L1", "L2", "p1"}}
  Emitting = TRUE
INVARIANTS
  InvWf
  InvGood
  InvErr
  Emit
CHECK_DEADLOCK FALSE
