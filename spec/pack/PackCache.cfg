SPECIFICATION Spec
CONSTANTS
  N = 5
  Delta <- DeltaDef
  Size <- SizeDef
  Cap = 2
  MemLimit = 12
  MaxReq = 4
  Bug_CreditLen = FALSE
INVARIANTS
  Exact
  CacheExact
  MemAccounted
  MemBounded
  CapBounded
CHECK_DEADLOCK FALSE
