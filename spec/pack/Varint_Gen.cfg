SPECIFICATION Spec
INVARIANTS
  EncDomainOk
  DecInvertsEnc
  ReEncode
  Emit
CHECK_DEADLOCK FALSE
