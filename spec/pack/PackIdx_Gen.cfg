SPECIFICATION Spec
CONSTANTS
  MaxIds = 2
  Wide = FALSE
  Bug_NoPrevNeighbour = FALSE
INVARIANTS
  Design
  Emit
CHECK_DEADLOCK FALSE
