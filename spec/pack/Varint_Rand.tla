----------------------------- MODULE Varint_Rand -----------------------------
(* The specification as reference reader of entry headers found in packs that  *)
(* git wrote: for each line [bytes] (the first bytes of an entry) of the file  *)
(* named by TRACE it prints the decoded header, so that the driver knows where *)
(* the compressed data starts (zlib is uninterpreted) and can compare type,    *)
(* size and base offset with `git verify-pack -v` (binding C).                 *)
EXTENDS Varint, TraceIO

VARIABLE l
Init == l = 1
Next == l <= NRec /\ l' = l + 1
Spec == Init /\ [][Next]_l

Emit == l <= NRec =>
  LET d == DecHeader(Rec[l].bytes, 20) IN
  PrintT(<<"CASE", ToJson([n |-> l, ok |-> d.ok, type |-> d.type, size |-> d.size, dist |-> d.dist, base |-> d.base,
                           consumed |-> d.consumed,
                           canonical |-> (d.ok /\ EncHeader([type |-> d.type, size |-> d.size, dist |-> d.dist, base |-> d.base])
                                                   = SubSeq(Rec[l].bytes, 1, d.consumed))])>>)
=============================================================================
