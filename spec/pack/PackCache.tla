------------------------------ MODULE PackCache ------------------------------
(* C08.  Reading objects from a pack through a cache.                          *)
(* A pack holds objects 1..N; object o is a base (delta[o] = 0) or a delta on    *)
(* object delta[o] (chains).  Resolving o walks the chain down to the first      *)
(* cached entry or base, then applies the deltas upward; every intermediate and  *)
(* final value may be put into the cache, which holds at most Cap entries and at *)
(* most MemLimit bytes, evicting least recently used ones.  Values are abstract:  *)
(* the value of object o is o itself, so exactness is `result = o`.              *)
(* Size[o] is the decoded size; a cached buffer occupies between Size and        *)
(* Slack(Size) bytes (allocator slack: a Vec of 1 byte has capacity 8).          *)
(* Bug_CreditLen: the budget test is made with the data length while the used    *)
(* memory is counted by capacity, as in StaticLinkedList::put at the pinned      *)
(* commit - mem_used can then exceed mem_limit and `mem_limit - mem_used`         *)
(* underflows (panic with overflow checks, no bound at all without).             *)
EXTENDS Naturals, Sequences, FiniteSets, TLC

CONSTANTS N, Delta, Size, Cap, MemLimit, MaxReq, Bug_CreditLen
Objs == 1..N
\* the instance: 1 <- 2 <- 3 <- 4 is a chain of deltas, 5 is a lone base; sizes straddle the allocator minimum
DeltaDef == <<0, 1, 2, 3, 0>>
SizeDef == <<10, 1, 3, 9, 2>>
Slack(n) == IF n < 8 THEN 8 ELSE n

VARIABLES cache,     \* sequence of [key, val, bytes], most recently used last
          memUsed, reqs, lastResult, underflow
vars == <<cache, memUsed, reqs, lastResult, underflow>>
Init == cache = <<>> /\ memUsed = 0 /\ reqs = 0 /\ lastResult = [obj |-> 0, val |-> 0] /\ underflow = FALSE

Keys(c) == { c[i].key : i \in 1..Len(c) }
Lookup(c, k) == (CHOOSE i \in 1..Len(c) : c[i].key = k)
Touch(c, k) == LET i == Lookup(c, k) IN SubSeq(c, 1, i - 1) \o SubSeq(c, i + 1, Len(c)) \o <<c[i]>>

\* put one value; returns the new [cache, memUsed, underflow]
Put(c, used, k, v) ==
  LET bytes == Slack(Size[k])
      budgetTest == IF Bug_CreditLen THEN Size[k] ELSE bytes
      tooBig == budgetTest > MemLimit
      under == used > MemLimit
      free == IF under THEN 0 ELSE MemLimit - used
      \* not enough room: the implementation drops everything it holds
      c1 == IF budgetTest > free THEN <<>> ELSE c
      u1 == IF budgetTest > free THEN 0 ELSE used
      c2 == IF k \in Keys(c1) THEN c1 ELSE IF Len(c1) >= Cap THEN Tail(c1) ELSE c1
      u2 == IF k \in Keys(c1) THEN u1 ELSE IF Len(c1) >= Cap THEN u1 - c1[1].bytes ELSE u1
  IN IF tooBig THEN [cache |-> c, used |-> used, under |-> under]
     ELSE IF k \in Keys(c2) THEN [cache |-> Touch(c2, k), used |-> u2, under |-> under]
     ELSE [cache |-> Append(c2, [key |-> k, val |-> v, bytes |-> bytes]), used |-> u2 + bytes, under |-> under]

\* resolve object o against cache c: the chain walk stops at a hit; result value is computed from
\* the hit's value by "applying" the deltas (abstractly: the value of each object is its id, a hit
\* returns what the cache holds, which is where a wrong cache content would show)
RECURSIVE Resolve(_, _)
Resolve(c, o) ==
  IF o \in Keys(c) THEN [val |-> c[Lookup(c, o)].val + 0, chain |-> <<>>]
  ELSE IF Delta[o] = 0 THEN [val |-> o, chain |-> <<o>>]
  ELSE LET r == Resolve(c, Delta[o]) IN
       \* applying o's delta to the correct base value yields o; to a wrong base value yields garbage (0)
       [val |-> IF r.val = Delta[o] THEN o ELSE 0, chain |-> Append(r.chain, o)]

RECURSIVE PutAll(_, _, _, _)
PutAll(c, used, under, ks) ==
  IF ks = <<>> THEN [cache |-> c, used |-> used, under |-> under]
  ELSE LET r == Put(c, used, Head(ks), Head(ks)) IN PutAll(r.cache, r.used, under \/ r.under, Tail(ks))

Request(o) ==
  /\ reqs < MaxReq
  /\ LET r == Resolve(cache, o)
         c1 == IF o \in Keys(cache) THEN Touch(cache, o) ELSE cache
         p == PutAll(c1, memUsed, underflow, r.chain)
     IN /\ lastResult' = [obj |-> o, val |-> r.val]
        /\ cache' = p.cache /\ memUsed' = p.used /\ underflow' = p.under
  /\ reqs' = reqs + 1
Next == \E o \in Objs : Request(o)
Spec == Init /\ [][Next]_vars

Exact == lastResult.val = lastResult.obj
CacheExact == \A i \in 1..Len(cache) : cache[i].val = cache[i].key
MemAccounted == memUsed = (LET S[i \in 0..Len(cache)] == IF i = 0 THEN 0 ELSE S[i - 1] + cache[i].bytes IN S[Len(cache)])
MemBounded == memUsed <= MemLimit /\ ~underflow
CapBounded == Len(cache) <= Cap
=============================================================================
