SPECIFICATION Spec
CONSTANTS
  Nodes = {"a", "b", "c", "d", "e"}
  Parent <- ParentMC
  Shape = 1
  Threads = {"t1", "t2", "t3"}
  Bug_TempfilesNotRemoved = FALSE
INVARIANTS
  ExactlyOnce
  BaseFirst
  OneOwner
  StreamFaultLeavesNothing
  NoPairAfterFailure
  NoTempAtEnd
  DoneComplete
PROPERTY Terminates
CHECK_DEADLOCK FALSE
