SPECIFICATION Spec
CONSTANTS
  Lanes = 8
  Bug_NoPrevNeighbour = FALSE
INVARIANT Emit
CHECK_DEADLOCK FALSE
