---------------------------- MODULE ThinPack_Gen ----------------------------
(* Design check + binding A for C10 (thin-pack completion).  The machine      *)
(* builds an input pack entry by entry (every kind, every base choice: an     *)
(* earlier entry by offset, an earlier entry by id, an object only the        *)
(* receiver has, an object nobody has) and completes it on the fly.           *)
(*   ThinPack_MC.cfg   TLC checks Good / ErrJustified in every state for toy  *)
(*                     lengths that make OFS headers grow and shrink.         *)
(*   ThinPack_Gen.cfg  additionally prints every finished behaviour as a      *)
(*                     structural case (kinds, base choices, size classes,    *)
(*                     expected completed pack) for the driver to render as a *)
(*                     real pack.                                             *)
EXTENDS ThinPack, Json, TLC

CONSTANTS N,            \* input entries
          Szs, Bodies,  \* toy lengths of the size varint and of the compressed body
          LocalSets,    \* which ids the receiver has (subsets of {"L1","L2","p1","p2"})
          Emitting

PId == <<"p1", "p2", "p3", "p4", "p5", "p6">>
LocalTable == [x \in {"L1", "L2", "p1", "p2"} |->
                 CASE x = "L1" -> [sz |-> 1, body |-> 3] [] x = "L2" -> [sz |-> 2, body |-> 7]
                   [] x = "p1" -> [sz |-> 1, body |-> 2] [] OTHER -> [sz |-> 1, body |-> 6]]

VARIABLES inp, out, err, local, done
vars == <<inp, out, err, local, done>>

Init == inp = <<>> /\ out = <<>> /\ err = "none" /\ done = FALSE
        /\ local \in {[x \in D |-> LocalTable[x]] : D \in LocalSets}

NewEntries ==
  LET i == Len(inp) + 1
      ioff == IF inp = <<>> THEN Start ELSE End(Last(inp))
      Mk(sz, body, kind, dist, base) ==
        [off |-> ioff, sz |-> sz, hdr |-> HdrOf(kind, sz, dist), body |-> body, kind |-> kind, dist |-> dist,
         base |-> base, id |-> PId[i]]
  IN UNION {
       {Mk(sz, body, "base", 0, "")} \cup
       {Mk(sz, body, "ofs", ioff - inp[j].off, "") : j \in 1..(i - 1)} \cup
       {Mk(sz, body, "ref", 0, b) : b \in {inp[j].id : j \in 1..(i - 1)} \cup {"L1", "L2", "M"}}
       : sz \in Szs, body \in Bodies }

Add == /\ ~done /\ err = "none" /\ Len(inp) < N
       /\ \E e \in NewEntries :
            LET inp2 == Append(inp, e)
                r == StepOn(inp2, Len(inp2), out, local)
            IN inp' = inp2 /\ out' = r.out /\ err' = r.err
       /\ UNCHANGED <<local, done>>
Finish == ~done /\ inp # <<>> /\ done' = TRUE /\ UNCHANGED <<inp, out, err, local>>
Next == Add \/ Finish
Spec == Init /\ [][Next]_vars

InvWf == WfInput(inp)
InvGood == err = "none" => Good(inp, Len(inp), out)
InvErr == err # "none" => (ErrJustified(inp, Len(inp), local) /\ Good(inp, Len(inp) - 1, out))

\* structural description of a behaviour (lengths are toy values; the driver renders real objects)
IdxOfOff(off) == CHOOSE k \in 1..Len(out) : out[k].off = off
Emit ==
  (Emitting /\ done) =>
  PrintT(<<"CASE", ToJson(
    [entries |-> [i \in 1..Len(inp) |->
                    [kind |-> inp[i].kind,
                     j    |-> IF inp[i].kind = "ofs" THEN InputAt(inp, inp[i].off - inp[i].dist) ELSE 0,
                     base |-> inp[i].base,
                     big  |-> inp[i].body > 3]],
     local   |-> [x \in DOMAIN local |-> local[x].body > 3],
     verdict |-> err,
     expect  |-> [k \in 1..Len(out) |->
                    [src |-> out[k].src, id |-> out[k].id, kind |-> out[k].kind,
                     basepos |-> IF out[k].kind = "ofs" THEN IdxOfOff(out[k].off - out[k].dist) ELSE 0]]])>>)
=============================================================================
