------------------------------- MODULE PackIdx -------------------------------
(* C09.  Pack index (.idx version 2) and multi-pack-index files: the byte      *)
(* formats (git: Documentation/gitformat-pack.txt), the entry list they denote, *)
(* and what a lookup must answer - defined by a LINEAR SCAN over the sorted id  *)
(* table.  Design level: a transcription of gix_pack::index::access::{lookup,   *)
(* lookup_prefix} (fan-out bucket + bisection + neighbour checks), which TLC    *)
(* checks against the scan in PackIdx_Gen.                                      *)
(*                                                                              *)
(* Object ids are byte strings of length HashLen (20), pack offsets are 8-byte  *)
(* big-endian strings (they exceed TLC's integers), CRCs 4-byte strings.        *)
(* SHA-1 / CRC32 values are uninterpreted data.                                 *)
EXTENDS Bytes

SX == INSTANCE SequencesExt        \* SelectInSeq is evaluated natively by TLC

HashLen == 20
\* lexicographic byte comparison (= Bytes!Cmp: -1, 0, 1) through the first differing index
CmpB(x, y) ==
  LET n == Min2(Len(x), Len(y))
      d == SX!SelectInSeq([i \in 1..n |-> i], LAMBDA i : x[i] # y[i])
  IN IF d # 0 THEN (IF x[d] < y[d] THEN -1 ELSE 1)
     ELSE IF Len(x) < Len(y) THEN -1 ELSE IF Len(x) > Len(y) THEN 1 ELSE 0
Zero4 == <<0, 0, 0, 0>>

\* big-endian u32 at 0-based byte position p; defined when the value is below 2^31
U31Ok(b, p) == p + 4 <= Len(b) /\ b[p + 1] < 128
U31(b, p) == ((b[p + 1] * 256 + b[p + 2]) * 256 + b[p + 3]) * 256 + b[p + 4]
\* low 31 bits of a u32 whose top bit may be set
Low31(b, p) == (((b[p + 1] % 128) * 256 + b[p + 2]) * 256 + b[p + 3]) * 256 + b[p + 4]
HighBit(b, p) == b[p + 1] >= 128
Slice(b, p, n) == SubSeq(b, p + 1, p + n)                \* n bytes at 0-based position p

(* ----------------------------------------------------- what lookups must answer *)
\* ids: the sorted id table (1-based sequence); answers use 0-based entry indices like the API
Lookup(ids, id) ==
  LET S == {i \in 1..Len(ids) : ids[i] = id} IN IF S = {} THEN -1 ELSE (CHOOSE i \in S : TRUE) - 1

\* does id start with the h hex digits of p (p: HashLen bytes, digits beyond h are ignored)
PrefixMatch(id, p, h) ==
  LET k == h \div 2 IN
  /\ SubSeq(id, 1, k) = SubSeq(p, 1, k)
  /\ (h % 2 = 1 => id[k + 1] \div 16 = p[k + 1] \div 16)

\* [kind : "none" | "unique" | "ambiguous", index, start, end): candidates are entries start..end-1
LookupPrefix(ids, p, h) ==
  LET M == {i \in 1..Len(ids) : PrefixMatch(ids[i], p, h)} IN
  IF M = {} THEN [kind |-> "none", index |-> -1, start |-> 0, end |-> 0]
  ELSE LET lo == CHOOSE m \in M : (m - 1) \notin M
           hi == CHOOSE m \in M : (m + 1) \notin M
       IN IF lo = hi THEN [kind |-> "unique", index |-> lo - 1, start |-> lo - 1, end |-> lo]
          ELSE [kind |-> "ambiguous", index |-> -1, start |-> lo - 1, end |-> hi]

\* fan-out: number of ids whose first byte is <= b, for b = 0..255 (sequence index b + 1)
Fanout(ids) == [k \in 1..256 |-> Cardinality({i \in 1..Len(ids) : ids[i][1] <= k - 1})]

StrictlyAscending(ids) == \A i \in 1..(Len(ids) - 1) : CmpB(ids[i], ids[i + 1]) < 0

(* --------------------------------------------------------------- .idx version 2 *)
IdxMagic == <<255, 116, 79, 99, 0, 0, 0, 2>>            \* "\377tOc", version 2
IdxHeaderLen == 8 + 1024

\* [ok, n, fan, ids, crcs, ofs]: ofs[i] is the 8-byte pack offset of entry i
BadIdx == [ok |-> FALSE, n |-> 0, fan |-> <<>>, ids |-> <<>>, crcs |-> <<>>, ofs |-> <<>>]
ParseIdx(b) ==
  IF Len(b) < IdxHeaderLen + 2 * HashLen \/ SubSeq(b, 1, 8) # IdxMagic
     \/ \E k \in 0..255 : ~U31Ok(b, 8 + 4 * k)
  THEN BadIdx
  ELSE LET fan == [k \in 1..256 |-> U31(b, 8 + 4 * (k - 1))]
           n == fan[256]
           idsAt == IdxHeaderLen
           crcAt == idsAt + n * HashLen
           o32At == crcAt + n * 4
           o64At == o32At + n * 4
           n64 == (Len(b) - 2 * HashLen - o64At) \div 8
       IN IF o64At + 2 * HashLen > Len(b) \/ (Len(b) - 2 * HashLen - o64At) % 8 # 0 THEN BadIdx
          ELSE IF \E i \in 0..(n - 1) : HighBit(b, o32At + 4 * i) /\ Low31(b, o32At + 4 * i) >= n64 THEN BadIdx
          ELSE [ok |-> TRUE, n |-> n, fan |-> fan,
                ids |-> [i \in 1..n |-> Slice(b, idsAt + (i - 1) * HashLen, HashLen)],
                crcs |-> [i \in 1..n |-> Slice(b, crcAt + (i - 1) * 4, 4)],
                ofs |-> [i \in 1..n |->
                           LET p == o32At + (i - 1) * 4 IN
                           IF HighBit(b, p) THEN Slice(b, o64At + 8 * Low31(b, p), 8)      \* 31-bit escape into the 64-bit table
                           ELSE Zero4 \o Slice(b, p, 4)]]

(* ------------------------------------------------------------ multi-pack-index *)
MidxMagic == <<77, 73, 68, 88>>                         \* "MIDX"
PNAM == <<80, 78, 65, 77>>
OIDF == <<79, 73, 68, 70>>
OIDL == <<79, 73, 68, 76>>
OOFF == <<79, 79, 70, 70>>
LOFF == <<76, 79, 70, 70>>
MidxHeaderLen == 12

\* chunk table: entry k (0-based) at 12 + 12 k: id (4 bytes), offset (8 bytes, below 2^31 here)
ChunkId(b, k) == Slice(b, MidxHeaderLen + 12 * k, 4)
ChunkOfsOk(b, k) == Slice(b, MidxHeaderLen + 12 * k + 4, 4) = Zero4 /\ U31Ok(b, MidxHeaderLen + 12 * k + 8)
ChunkOfs(b, k) == U31(b, MidxHeaderLen + 12 * k + 8)
\* index of the chunk with the given id, -1 if absent
ChunkIndex(b, nchunks, id) ==
  LET S == {k \in 0..(nchunks - 1) : ChunkId(b, k) = id} IN IF S = {} THEN -1 ELSE CHOOSE k \in S : TRUE

\* NUL-terminated names from position p
RECURSIVE NamesFrom(_, _, _, _)
NamesFrom(b, p, count, acc) ==
  IF count = 0 THEN acc
  ELSE LET e == FindByteFrom(b, 0, p + 1) IN            \* 1-based index of the terminating NUL
       IF e = 0 THEN acc ELSE NamesFrom(b, e, count - 1, Append(acc, SubSeq(b, p + 1, e - 1)))

BadMidx == [ok |-> FALSE, n |-> 0, fan |-> <<>>, ids |-> <<>>, packs |-> <<>>, ofs |-> <<>>, names |-> <<>>]
ParseMidx(b) ==
  IF Len(b) < MidxHeaderLen + 12 + HashLen \/ SubSeq(b, 1, 4) # MidxMagic \/ b[5] # 1 \/ b[6] # 1 \/ ~U31Ok(b, 8)
  THEN BadMidx
  ELSE LET nchunks == b[7]
           npacks == U31(b, 8)
       IN IF Len(b) < MidxHeaderLen + 12 * (nchunks + 1) + HashLen
             \/ \E k \in 0..nchunks : ~ChunkOfsOk(b, k)
          THEN BadMidx
          ELSE LET kn == ChunkIndex(b, nchunks, PNAM)
                   kf == ChunkIndex(b, nchunks, OIDF)
                   kl == ChunkIndex(b, nchunks, OIDL)
                   ko == ChunkIndex(b, nchunks, OOFF)
                   kg == ChunkIndex(b, nchunks, LOFF)
               IN IF kn = -1 \/ kf = -1 \/ kl = -1 \/ ko = -1 THEN BadMidx
                  ELSE LET fanAt == ChunkOfs(b, kf)
                       IN IF fanAt + 1024 > Len(b) \/ \E k \in 0..255 : ~U31Ok(b, fanAt + 4 * k) THEN BadMidx
                          ELSE LET fan == [k \in 1..256 |-> U31(b, fanAt + 4 * (k - 1))]
                                   n == fan[256]
                                   idsAt == ChunkOfs(b, kl)
                                   offAt == ChunkOfs(b, ko)
                                   lofAt == IF kg = -1 THEN 0 ELSE ChunkOfs(b, kg)
                               IN IF \/ idsAt + n * HashLen > Len(b) \/ offAt + n * 8 > Len(b)
                                     \* an escaped offset must index an entry of the large-offset chunk that lies inside the file
                                     \/ \E i \in 1..n : LET p == offAt + (i - 1) * 8 + 4 IN
                                                           kg # -1 /\ HighBit(b, p) /\ (Len(b) < lofAt + 8 \/ Low31(b, p) > (Len(b) - lofAt - 8) \div 8)
                                  THEN BadMidx
                                  ELSE [ok |-> TRUE, n |-> n, fan |-> fan,
                                        ids |-> [i \in 1..n |-> Slice(b, idsAt + (i - 1) * HashLen, HashLen)],
                                        packs |-> [i \in 1..n |-> Slice(b, offAt + (i - 1) * 8, 4)],
                                        \* the top bit escapes into the large-offset chunk only if that chunk exists
                                        ofs |-> [i \in 1..n |->
                                                   LET p == offAt + (i - 1) * 8 + 4 IN
                                                   IF kg # -1 /\ HighBit(b, p) THEN Slice(b, lofAt + 8 * Low31(b, p), 8)
                                                   ELSE Zero4 \o Slice(b, p, 4)],
                                        names |-> NamesFrom(b, ChunkOfs(b, kn), npacks, <<>>)]

\* a file is inside the judged domain when its id table is strictly ascending and its fan-out table is the
\* fan-out of that id table (what every writer must produce)
WellFormed(f) == f.ok /\ StrictlyAscending(f.ids) /\ f.fan = Fanout(f.ids)

(* ========================================================================= *)
(* Design level: transcription of index::access::lookup / lookup_prefix.      *)
(* fan, ids as above; indices 0-based as in the source (ids[mid + 1]).        *)
CONSTANT Bug_NoPrevNeighbour     \* self-test: forget to look at the entry before the hit when no candidate range is asked for

RECURSIVE Bisect(_, _, _, _)
Bisect(ids, id, lower, upper) ==
  IF lower >= upper THEN -1
  ELSE LET mid == (lower + upper) \div 2
           c == CmpB(id, ids[mid + 1])
       IN IF c < 0 THEN Bisect(ids, id, lower, mid)
          ELSE IF c = 0 THEN mid
          ELSE Bisect(ids, id, mid + 1, upper)
ImplLookup(fan, ids, id) ==
  LET fb == id[1] IN Bisect(ids, id, IF fb # 0 THEN fan[fb] ELSE 0, fan[fb + 1])

\* Prefix::cmp_oid: -1 / 0 / 1
PrefixCmp(p, h, id) ==
  LET k == h \div 2
      c == CmpB(SubSeq(p, 1, k), SubSeq(id, 1, k))
  IN IF c # 0 THEN c
     ELSE IF h % 2 = 1
          THEN (LET x == p[k + 1]  y == (id[k + 1] \div 16) * 16 IN IF x < y THEN -1 ELSE IF x > y THEN 1 ELSE 0)
          ELSE 0
\* the prefix as the API holds it: digits beyond h are zero
Truncate(p, h) ==
  [i \in 1..Len(p) |-> IF i <= h \div 2 THEN p[i] ELSE IF i = h \div 2 + 1 /\ h % 2 = 1 THEN (p[i] \div 16) * 16 ELSE 0]

\* length of the run of matching entries from index i (0-based) going down / up
RECURSIVE RunDown(_, _, _, _)
RunDown(ids, p, h, i) == IF i >= 0 /\ PrefixCmp(p, h, ids[i + 1]) = 0 THEN RunDown(ids, p, h, i - 1) ELSE i + 1
RECURSIVE RunUp(_, _, _, _, _)
RunUp(ids, n, p, h, i) == IF i < n /\ PrefixCmp(p, h, ids[i + 1]) = 0 THEN RunUp(ids, n, p, h, i + 1) ELSE i - 1

RECURSIVE BisectPrefix(_, _, _, _, _, _, _)
BisectPrefix(ids, n, p, h, lower, upper, withCandidates) ==
  IF lower >= upper THEN [kind |-> "none", index |-> -1, start |-> 0, end |-> 0]
  ELSE LET mid == (lower + upper) \div 2
           c == PrefixCmp(p, h, ids[mid + 1])
       IN IF c < 0 THEN BisectPrefix(ids, n, p, h, lower, mid, withCandidates)
          ELSE IF c > 0 THEN BisectPrefix(ids, n, p, h, mid + 1, upper, withCandidates)
          ELSE IF withCandidates
               THEN LET first == RunDown(ids, p, h, mid - 1)        \* first_past_entry, or mid
                        last == RunUp(ids, n, p, h, mid + 1)        \* last_future_entry, or mid
                    IN IF last + 1 - first > 1
                       THEN [kind |-> "ambiguous", index |-> -1, start |-> first, end |-> last + 1]
                       ELSE [kind |-> "unique", index |-> mid, start |-> first, end |-> last + 1]
               ELSE IF (mid + 1 < n /\ PrefixCmp(p, h, ids[mid + 2]) = 0) \/ (~Bug_NoPrevNeighbour /\ mid # 0 /\ PrefixCmp(p, h, ids[mid]) = 0)
                    THEN [kind |-> "ambiguous", index |-> -1, start |-> 0, end |-> 0]
                    ELSE [kind |-> "unique", index |-> mid, start |-> 0, end |-> 0]
ImplLookupPrefix(fan, ids, pfx, h, withCandidates) ==
  LET p == Truncate(pfx, h)
      fb == p[1]
  IN BisectPrefix(ids, Len(ids), p, h, IF fb # 0 THEN fan[fb] ELSE 0, fan[fb + 1], withCandidates)
=============================================================================
