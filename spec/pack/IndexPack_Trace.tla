---------------------------- MODULE IndexPack_Trace ----------------------------
(* Binding B for C10 (index + directory protocol).  Events:                   *)
(*  [kind |-> "stored", entries : the entries [id, off, crc] of the pack that *)
(*        was stored, derived independently (git verify-pack + zlib.crc32),   *)
(*        idx : the entries read from the index gitoxide wrote, readable :    *)
(*        ids gitoxide decoded from the new bundle and whose recomputed hash  *)
(*        is the id, want_ids : ids `git index-pack [--fix-thin]` derives for *)
(*        the received stream, same_bytes : index (and for non-thin packs the *)
(*        pack) byte-identical to git's, before / after : directory listings, *)
(*        made : the three paths gitoxide reported, ok]                       *)
(*  [kind |-> "fault", ok, before, after]  a truncated or corrupted stream    *)
EXTENDS IndexPack, TraceIO

ParentTrace == [n \in Nodes |-> "root"]

VARIABLE l
\* (the writer's own variables are not used here; they stay in their initial state)
TInit == l = 1 /\ Init
TNext == l <= NRec /\ l' = l + 1 /\ UNCHANGED vars
TSpec == TInit /\ [][TNext]_<<l, vars>>

Set(s) == {s[i] : i \in 1..Len(s)}

JudgeStored(r) ==
  /\ r.ok
  /\ IdsDistinct(r.entries)
  /\ r.idx = IndexOf(r.entries)                       \* exactly the objects, offsets and CRC32s, in id order
  /\ Set(r.readable) = {r.entries[i].id : i \in 1..Len(r.entries)}    \* every object is then retrievable
  /\ Set(r.want_ids) = Set(r.readable)                \* the objects git index-pack derives for the stream
  /\ r.same_bytes
  /\ Set(r.after) = Set(r.before) \cup Set(r.made) /\ Len(r.made) = 3

JudgeFault(r) == ~r.ok /\ Set(r.after) = Set(r.before)

Judge(r) == IF r.kind = "stored" THEN JudgeStored(r) ELSE JudgeFault(r)

EventOk == l <= NRec => (Judge(Rec[l]) \/ PrintT(<<"REJECT", l>>))
=============================================================================
