SPECIFICATION Spec
CONSTANTS
  Lanes = 8
  Bug_NoPrevNeighbour = FALSE
INVARIANT EventOk
CHECK_DEADLOCK FALSE
