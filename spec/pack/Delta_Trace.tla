----------------------------- MODULE Delta_Trace -----------------------------
(* Binding B (and C) for C07's deltas.  One event per delta entry of a pack    *)
(* that git wrote:                                                             *)
(*   [base : bytes,     the base object (git cat-file of the base id)          *)
(*    delta : bytes,    the inflated delta stream (zlib is uninterpreted)      *)
(*    target : bytes,   the object git says the entry is (git cat-file)        *)
(*    ok : BOOLEAN, got : bytes]   what gix_pack decode_entry produced         *)
(* EventOk : the implementation's result is Apply(base, delta).                *)
(* AuditOk : git's delta obeys the specification: Apply(base, delta) = target. *)
EXTENDS Delta, TraceIO

VARIABLE l
Init == l = 1
Next == l <= NRec /\ l' = l + 1
Spec == Init /\ [][Next]_l

EventOk == l <= NRec =>
  (LET r == Rec[l]
       a == Apply(r.base, r.delta)
   IN (a.ok => (r.ok /\ r.got = a.out)) \/ PrintT(<<"REJECT", l>>))

AuditOk == l <= NRec =>
  (LET r == Rec[l]
       a == Apply(r.base, r.delta)
   IN (a.ok /\ a.out = r.target) \/ PrintT(<<"REJECT", l>>))
=============================================================================
