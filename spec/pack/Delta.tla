------------------------------- MODULE Delta -------------------------------
(* C07 (second half).  git's delta format (pack-format.txt "deltified         *)
(* representation", patch-delta.c): two LEB128 sizes (base, result) followed  *)
(* by instructions                                                            *)
(*   1xxxxxxx  copy: bits 0..3 say which offset bytes follow (little endian), *)
(*             bits 4..6 which size bytes; size 0 means 0x10000               *)
(*   0nnnnnnn  insert the next n bytes (n > 0); 0 is reserved                 *)
(* Apply(base, delta) = [ok, out].  Sizes and offsets stay below 2^31 here    *)
(* (objects of up to 2 GiB), the domain in which TLC's integers are exact.    *)
EXTENDS Bytes

Pow2(k) == IF k = 0 THEN 1 ELSE IF k = 7 THEN 128 ELSE IF k = 8 THEN 256 ELSE IF k = 14 THEN 16384
           ELSE IF k = 16 THEN 65536 ELSE IF k = 21 THEN 2097152 ELSE IF k = 24 THEN 16777216 ELSE 268435456   \* k = 28
Bit(c, k) == (c \div (CASE k = 0 -> 1 [] k = 1 -> 2 [] k = 2 -> 4 [] k = 3 -> 8 [] k = 4 -> 16 [] k = 5 -> 32
                        [] k = 6 -> 64 [] OTHER -> 128)) % 2

Fail == [ok |-> FALSE, out |-> <<>>]

\* little-endian base-128 number at index i: [ok, val, next]; at most 5 groups, below 2^31
RECURSIVE SizeAt(_, _, _, _)
SizeAt(d, i, shift, acc) ==
  IF i > Len(d) \/ shift > 28 THEN [ok |-> FALSE, val |-> 0, next |-> i]
  ELSE LET c == d[i]
           g == c % 128
       IN IF shift = 28 /\ g >= 8 THEN [ok |-> FALSE, val |-> 0, next |-> i]          \* 2^31 or more
          ELSE LET v == acc + g * Pow2(shift) IN
               IF c >= 128 THEN SizeAt(d, i + 1, shift + 7, v) ELSE [ok |-> TRUE, val |-> v, next |-> i + 1]

\* the optional operand bytes of a copy instruction: for k = from..to, byte present iff bit k of cmd is set;
\* value = sum of byte * 256^(k - from); [val, next]
NextMult(m) == IF m >= 16777216 THEN m ELSE m * 256         \* never needed beyond 256^3
RECURSIVE Operand(_, _, _, _, _, _)
Operand(d, cmd, k, to, i, mult) ==
  IF k > to THEN [ok |-> TRUE, val |-> 0, next |-> i]
  ELSE IF Bit(cmd, k) = 0 THEN Operand(d, cmd, k + 1, to, i, NextMult(mult))
  ELSE IF i > Len(d) THEN [ok |-> FALSE, val |-> 0, next |-> i]
  ELSE IF mult = 16777216 /\ d[i] >= 128 THEN [ok |-> FALSE, val |-> 0, next |-> i]   \* offset of 2^31 or more
  ELSE LET r == Operand(d, cmd, k + 1, to, i + 1, NextMult(mult)) IN
       [ok |-> r.ok, val |-> d[i] * mult + r.val, next |-> r.next]

RECURSIVE Run(_, _, _, _)
Run(base, d, i, acc) ==
  IF i > Len(d) THEN [ok |-> TRUE, out |-> acc]
  ELSE LET cmd == d[i] IN
       IF cmd >= 128
       THEN LET o == Operand(d, cmd, 0, 3, i + 1, 1)
                s == IF o.ok THEN Operand(d, cmd, 4, 6, o.next, 1) ELSE o
                size == IF s.val = 0 THEN 65536 ELSE s.val
            IN IF ~o.ok \/ ~s.ok \/ o.val + size > Len(base) THEN Fail
               ELSE Run(base, d, s.next, acc \o SubSeq(base, o.val + 1, o.val + size))
       ELSE IF cmd = 0 THEN Fail
       ELSE IF i + cmd > Len(d) THEN Fail
       ELSE Run(base, d, i + cmd + 1, acc \o SubSeq(d, i + 1, i + cmd))

Apply(base, d) ==
  LET s1 == SizeAt(d, 1, 0, 0)
      s2 == IF s1.ok THEN SizeAt(d, s1.next, 0, 0) ELSE s1
  IN IF ~s1.ok \/ ~s2.ok \/ s1.val # Len(base) THEN Fail
     ELSE LET r == Run(base, d, s2.next, <<>>) IN
          IF r.ok /\ Len(r.out) = s2.val THEN r ELSE Fail

BaseSize(d) == SizeAt(d, 1, 0, 0).val
ResultSize(d) == LET s1 == SizeAt(d, 1, 0, 0) IN SizeAt(d, s1.next, 0, 0).val
=============================================================================
