----------------------------- MODULE Varint_Trace -----------------------------
(* Binding B for C07's headers.  Events recorded from the real code:           *)
(*  op = "enc": [type, size, dist, base, bytes, written, hsize,                *)
(*               mem : [ok, type, size, dist, base, consumed],                 *)
(*               read : [ok, type, size, dist, base, consumed]]                *)
(*      Header::write_to produced `bytes` and returned `written`, Header::size *)
(*      returned `hsize`; Entry::from_bytes / from_read on bytes ++ tail.      *)
(*  op = "dec": [bytes, mem, read]   readers on bytes found in a real pack     *)
(*      (or drawn at random); judged when the specification can decode them    *)
(*      to values below 2^64.                                                  *)
EXTENDS Varint, TraceIO

VARIABLE l
Init == l = 1
Next == l <= NRec /\ l' = l + 1
Spec == Init /\ [][Next]_l

Same(d, want) ==
  /\ d.ok /\ d.type = want.type /\ d.size = want.size /\ d.consumed = want.consumed
  /\ (want.type = OFS_DELTA => d.dist = want.dist)
  /\ (want.type = REF_DELTA => d.base = want.base)

Judge(r) ==
  IF r.op = "enc"
  THEN LET h == [type |-> r.type, size |-> r.size, dist |-> r.dist, base |-> r.base]
           e == EncHeader(h)
           want == [type |-> r.type, size |-> r.size, dist |-> r.dist, base |-> r.base, consumed |-> Len(e)]
       IN HeaderInDomain(h) =>
            /\ r.bytes = e /\ r.written = Len(e) /\ r.hsize = Len(e)
            /\ Same(r.mem, want) /\ Same(r.read, want)
  ELSE LET d == DecHeader(r.bytes, 20) IN
       DecInDomain(r.bytes, 20) => (Same(r.mem, d) /\ Same(r.read, d))

EventOk == l <= NRec => (Judge(Rec[l]) \/ PrintT(<<"REJECT", l>>))
=============================================================================
