----------------------------- MODULE PackIdx_Rand -----------------------------
(* The specification as reference reader of index files supplied by the driver *)
(* (written by the driver's own small writer, by `git index-pack`, by `git      *)
(* multi-pack-index write`, or by gitoxide's multi-index writer).  For each line *)
(*   [kind : "idx" | "midx", file : bytes, queries : Seq([id, hexlen]), full]    *)
(* of the file named by TRACE it prints the entry table it denotes (when `full`) *)
(* and the answers of a linear scan, to be compared with gitoxide (binding A),   *)
(* with `git show-index` (binding C) and with the index files a multi-index was  *)
(* built from.  Eight interleaved lanes so that TLC's workers share the lines.   *)
EXTENDS PackIdx, TraceIO
CONSTANT Lanes

VARIABLE l
Init == l \in 1..Lanes
Next == l + Lanes <= NRec /\ l' = l + Lanes
Spec == Init /\ [][Next]_l

Answer(ids, q) ==
  [lookup |-> IF q.hexlen = 40 THEN Lookup(ids, q.id) ELSE -2,
   prefix |-> LookupPrefix(ids, q.id, q.hexlen)]

Emit == l <= NRec =>
  LET r == Rec[l]
      idx == (r.kind = "idx")
      g == IF idx THEN ParseIdx(r.file) ELSE ParseMidx(r.file)
      wf == WellFormed(g)
  IN PrintT(<<"CASE", ToJson([n          |-> l,
                              ok         |-> g.ok,
                              wellformed |-> wf,
                              count      |-> g.n,
                              names      |-> IF idx THEN <<>> ELSE g.names,
                              ids        |-> IF r.full THEN g.ids ELSE <<>>,
                              ofs        |-> IF r.full THEN g.ofs ELSE <<>>,
                              crcs       |-> IF r.full /\ idx THEN g.crcs ELSE <<>>,
                              packs      |-> IF r.full /\ ~idx THEN [i \in 1..g.n |-> U31(g.packs[i], 0)] ELSE <<>>,
                              answers    |-> IF wf THEN [i \in 1..Len(r.queries) |-> Answer(g.ids, r.queries[i])] ELSE <<>>])>>)
=============================================================================
