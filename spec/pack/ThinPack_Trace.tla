---------------------------- MODULE ThinPack_Trace ----------------------------
(* Binding B for C10 (thin-pack completion).  One event per pack stored with  *)
(* a base-object lookup:                                                      *)
(*   [input  : the entries of the received pack  [off, sz, hdr, body, kind,   *)
(*             dist, base, id]   (parsed by the driver; ids from git),        *)
(*    local  : the ids the receiving object database holds,                   *)
(*    ok     : whether gitoxide stored the pack,                              *)
(*    output : the entries of the pack gitoxide wrote (same fields)]          *)
(* The specification recomputes the completed pack from the input; zlib is    *)
(* uninterpreted, so the length of an inserted base entry is taken from the   *)
(* observed entry at the position where the specification inserts it -        *)
(* everything else (positions, header lengths, distances, kinds, ids, bodies) *)
(* must be exactly the specification's.                                       *)
EXTENDS ThinPack, TraceIO, TLC

VARIABLE l
Init == l = 1
Next == l <= NRec /\ l' = l + 1
Spec == Init /\ [][Next]_l

NoLocal == <<>>        \* a function with empty domain

RECURSIVE Run(_, _, _, _, _)
Run(inp, i, out, localIds, obs) ==
  IF i > Len(inp) THEN [out |-> out, err |-> "none"]
  ELSE LET e == inp[i]
           k == Len(out) + 1
           needIns == e.kind = "ref" /\ Holders(out, e.base) = {} /\ e.base \in localIds
           loc == IF needIns
                  THEN (e.base :> (IF k <= Len(obs) THEN [sz |-> obs[k].sz, body |-> obs[k].body] ELSE [sz |-> 0, body |-> 0]))
                  ELSE NoLocal
           r == StepOn(inp, i, out, loc)
       IN IF r.err # "none" THEN r ELSE Run(inp, i + 1, r.out, localIds, obs)

Strip(o) == [off |-> o.off, sz |-> o.sz, hdr |-> o.hdr, body |-> o.body, kind |-> o.kind, dist |-> o.dist, id |-> o.id]
StripAll(s) == [k \in 1..Len(s) |-> Strip(s[k])]

Judge(r) ==
  LET localIds == {r.local[k] : k \in 1..Len(r.local)}
      want == Run(r.input, 1, <<>>, localIds, r.output)
  IN /\ WfInput(r.input)
     /\ IF want.err = "none"
        THEN r.ok /\ StripAll(r.output) = StripAll(want.out) /\ Good(r.input, Len(r.input), want.out)
        ELSE ~r.ok

EventOk == l <= NRec => (Judge(Rec[l]) \/ PrintT(<<"REJECT", l>>))
=============================================================================
