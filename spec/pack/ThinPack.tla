------------------------------ MODULE ThinPack ------------------------------
(* C10, first part.  Completing a thin pack while it streams in               *)
(* (gix_pack::data::input::LookupRefDeltaObjectsIter).                        *)
(*                                                                            *)
(* A pack is a sequence of entries laid out back to back from offset Start.   *)
(* Entry: [off, sz, hdr, body, kind, dist, base, id]                          *)
(*   sz    length of the type+size varint          hdr  whole header length   *)
(*   body  length of the zlib stream               kind "base" | "ofs" | "ref" *)
(*   dist  (ofs) distance back to the base entry   base (ref) id of the base  *)
(*   id    the object the entry resolves to (uninterpreted, data from git)    *)
(* An OFS_DELTA header is sz + OfsLen(dist) bytes, a REF_DELTA header is      *)
(* sz + RefLen.  A thin pack has REF_DELTA entries whose base is not in the   *)
(* pack; the receiver owns those bases (`local`: id -> [sz, body] of the      *)
(* entry it would write for it; zlib is uninterpreted, so lengths are data).  *)
(*                                                                            *)
(* The completed pack (what is written to disk and indexed) must              *)
(*   - contain no REF_DELTA (the index writer needs offsets),                  *)
(*   - be contiguous, every OFS_DELTA distance landing on the start of the    *)
(*     entry that holds its base object, header lengths adjusted,             *)
(*   - hold every input entry once, in order, and each missing base once,     *)
(*     before its first use.                                                  *)
(* Step processes one input entry, like the iterator's next().                *)
EXTENDS Naturals, Integers, Sequences, FiniteSets

CONSTANTS Start,        \* offset of the first entry (12 in a real pack)
          RefLen,       \* length of a base id in a REF_DELTA header (20)
          OfsBounds,    \* {128, 16512, 2113664, ..}: a distance d takes 1 + #{b \in OfsBounds : d >= b} bytes
          Bug_RefBaseOnlyAmongInserted
          \* TRUE = the implementation at the pinned commit: the base of a REF_DELTA is looked for among
          \* the bases inserted so far and then in the local object database, never among the entries of
          \* the pack itself (so an in-pack base is reported missing, or inserted a second time)

OfsLen(d) == 1 + Cardinality({b \in OfsBounds : d >= b})

End(e) == e.off + e.hdr + e.body
Last(s) == s[Len(s)]

HdrOf(kind, sz, dist) == IF kind = "ofs" THEN sz + OfsLen(dist) ELSE IF kind = "ref" THEN sz + RefLen ELSE sz

\* a well-formed input pack: contiguous, OFS distances land on earlier entries
WfInput(inp) ==
  /\ \A i \in 1..Len(inp) :
       /\ inp[i].off = (IF i = 1 THEN Start ELSE End(inp[i - 1]))
       /\ inp[i].hdr = HdrOf(inp[i].kind, inp[i].sz, inp[i].dist)
       /\ inp[i].kind = "ofs" => \E j \in 1..(i - 1) : inp[j].off = inp[i].off - inp[i].dist
  /\ \A i, j \in 1..Len(inp) : i # j => inp[i].id # inp[j].id

---------------------------------------------------------------------------
(* one step of the completion: `out` is the completed pack so far; output     *)
(* entries carry `src` = index of the input entry they came from, 0 for an    *)
(* inserted base.                                                             *)

Pos(out) == IF out = <<>> THEN Start ELSE End(Last(out))

OutOfSrc(out, j) == out[CHOOSE k \in 1..Len(out) : out[k].src = j]
InputAt(inp, off) == CHOOSE j \in 1..Len(inp) : inp[j].off = off

\* the output entries that hold object `id` (candidates for a REF_DELTA base)
Holders(out, id) ==
  {k \in 1..Len(out) : out[k].id = id /\ (Bug_RefBaseOnlyAmongInserted => out[k].src = 0)}
MaxOf(S) == CHOOSE x \in S : \A y \in S : y <= x

AsOfs(e, pos, baseOff, src) ==
  [off |-> pos, sz |-> e.sz, hdr |-> e.sz + OfsLen(pos - baseOff), body |-> e.body, kind |-> "ofs",
   dist |-> pos - baseOff, id |-> e.id, src |-> src]

\* result: [out, err]; `local` is a function from the ids the receiver has to [sz, body]
StepOn(inp, i, out, local) ==
  LET e == inp[i]
      pos == Pos(out)
  IN CASE e.kind = "base" ->
            [out |-> Append(out, [off |-> pos, sz |-> e.sz, hdr |-> e.hdr, body |-> e.body, kind |-> "base",
                                  dist |-> 0, id |-> e.id, src |-> i]), err |-> "none"]
       [] e.kind = "ofs" ->
            LET b == OutOfSrc(out, InputAt(inp, e.off - e.dist))
            IN [out |-> Append(out, AsOfs(e, pos, b.off, i)), err |-> "none"]
       [] OTHER ->
            LET H == Holders(out, e.base) IN
            IF H # {} THEN [out |-> Append(out, AsOfs(e, pos, out[MaxOf(H)].off, i)), err |-> "none"]
            ELSE IF e.base \in DOMAIN local
            THEN LET ins == [off |-> pos, sz |-> local[e.base].sz, hdr |-> local[e.base].sz, body |-> local[e.base].body,
                             kind |-> "base", dist |-> 0, id |-> e.base, src |-> 0]
                 IN [out |-> out \o <<ins, AsOfs(e, End(ins), pos, i)>>, err |-> "none"]
            ELSE [out |-> out, err |-> "NotFound"]

---------------------------------------------------------------------------
(* what the completed pack must satisfy (whatever algorithm produced it) *)

Contiguous(out) == \A k \in 1..Len(out) : out[k].off = (IF k = 1 THEN Start ELSE End(out[k - 1]))
NoRef(out) == \A k \in 1..Len(out) : out[k].kind \in {"base", "ofs"}
HdrOk(out) == \A k \in 1..Len(out) : out[k].hdr = HdrOf(out[k].kind, out[k].sz, out[k].dist)

\* the id of the object an input entry is a delta against
BaseIdOf(inp, i) ==
  IF inp[i].kind = "ref" THEN inp[i].base ELSE inp[InputAt(inp, inp[i].off - inp[i].dist)].id

DistOk(inp, out) ==
  \A k \in 1..Len(out) :
     out[k].kind = "ofs" =>
       \E b \in 1..(k - 1) : out[b].off = out[k].off - out[k].dist /\ out[b].id = BaseIdOf(inp, out[k].src)

UniqueIds(out) == \A a, b \in 1..Len(out) : a # b => out[a].id # out[b].id

\* the input entries appear once each, in order, with their bodies; the rest are inserted bases
Preserves(inp, n, out) ==
  LET own == SelectSeq(out, LAMBDA o : o.src # 0) IN
  /\ Len(own) = n
  /\ \A k \in 1..n : own[k].src = k /\ own[k].id = inp[k].id /\ own[k].body = inp[k].body /\ own[k].sz = inp[k].sz

\* NotFound is only reported when the base really is nowhere
ErrJustified(inp, i, local) ==
  inp[i].kind = "ref" /\ inp[i].base \notin DOMAIN local /\ \A j \in 1..(i - 1) : inp[j].id # inp[i].base

Good(inp, n, out) ==
  /\ Contiguous(out) /\ NoRef(out) /\ HdrOk(out) /\ DistOk(inp, out) /\ UniqueIds(out) /\ Preserves(inp, n, out)
=============================================================================
