---------------------------- MODULE PackCache_Gen ----------------------------
(* Binding A for C08: every sequence of <= MaxReq requests (with repetition)    *)
(* over the objects of one pack; expected: each request returns the requested   *)
(* object (PackCache!Exact), whatever cache is plugged in.                      *)
EXTENDS Naturals, Sequences, TLC, Json
CONSTANTS NObj, MaxReq
VARIABLES seq, done
Init == seq = <<>> /\ done = FALSE
Next == \/ ~done /\ Len(seq) < MaxReq /\ \E o \in 1..NObj : seq' = Append(seq, o) /\ done' = FALSE
        \/ ~done /\ Len(seq) = MaxReq /\ done' = TRUE /\ UNCHANGED seq
Spec == Init /\ [][Next]_<<seq, done>>
Emit == done => PrintT(<<"CASE", ToJson([requests |-> seq, expect |-> seq])>>)
=============================================================================
