SPECIFICATION Spec
CONSTANTS
  Start = 12
  RefLen = 20
  OfsBounds = {128, 16512, 2113664, 270549120}
  Bug_RefBaseOnlyAmongInserted = FALSE
INVARIANT EventOk
CHECK_DEADLOCK FALSE
