SPECIFICATION TSpec
CONSTANTS
  Nodes = {"a"}
  Parent <- ParentTrace
  Threads = {"t"}
  Bug_TempfilesNotRemoved = FALSE
INVARIANT EventOk
CHECK_DEADLOCK FALSE
