----------------------------- MODULE PackIdx_Trace -----------------------------
(* Binding B for C09: TLC parses the index file itself and judges what           *)
(* gix_pack::index::File / gix_pack::multi_index::File answered.  One event:     *)
(*   [kind : "idx" | "midx", file : bytes, listed : BOOLEAN,                      *)
(*    results : Seq([id, hexlen, lookup, at_id, at_ofs, at_crc, at_pack,          *)
(*                   p_kind, p_index, c_kind, c_index, c_start, c_end]),          *)
(*    list : Seq([id, ofs, crc, pack])]                                           *)
(* lookup: entry index, -1 absent, -2 not asked (prefix shorter than 40 digits).  *)
(* Files whose id table is not strictly ascending or whose fan-out table is not   *)
(* the fan-out of the id table are outside the judged domain.                     *)
EXTENDS PackIdx, TraceIO
CONSTANT Lanes

VARIABLE l
Init == l \in 1..Lanes
Next == l + Lanes <= NRec /\ l' = l + Lanes
Spec == Init /\ [][Next]_l

EntryOk(kind, f, i, id, ofs, crc, pack) ==        \* i: 1-based
  /\ id = f.ids[i] /\ ofs = f.ofs[i]
  /\ (kind = "idx" => crc = f.crcs[i])
  /\ (kind = "midx" => f.packs[i][1] < 128 /\ pack = U31(f.packs[i], 0))

ResultOk(kind, f, q) ==
  LET want == LookupPrefix(f.ids, q.id, q.hexlen) IN
  /\ (q.hexlen = 40 =>
        /\ q.lookup = Lookup(f.ids, q.id)
        /\ (q.lookup >= 0 => EntryOk(kind, f, q.lookup + 1, q.at_id, q.at_ofs, q.at_crc, q.at_pack)))
  /\ q.p_kind = want.kind /\ q.c_kind = want.kind
  /\ (want.kind = "unique" => q.p_index = want.index /\ q.c_index = want.index)
  /\ q.c_start = want.start /\ q.c_end = want.end

Judge(r) ==
  LET f == IF r.kind = "idx" THEN ParseIdx(r.file) @@ [packs |-> <<>>] ELSE ParseMidx(r.file) @@ [crcs |-> <<>>] IN
  WellFormed(f) =>
    /\ \A i \in 1..Len(r.results) : ResultOk(r.kind, f, r.results[i])
    /\ (r.listed => /\ Len(r.list) = f.n
                    /\ \A i \in 1..f.n : EntryOk(r.kind, f, i, r.list[i].id, r.list[i].ofs, r.list[i].crc, r.list[i].pack))

EventOk == l <= NRec => (Judge(Rec[l]) \/ PrintT(<<"REJECT", l>>))
=============================================================================
