----------------------------- MODULE IndexPack_MC -----------------------------
(* Exhaustive instances of the IndexPack writer: five entries in three delta- *)
(* tree shapes, three threads, every interleaving and every fault point.      *)
EXTENDS IndexPack
CONSTANT Shape
ParentMC ==
  CASE Shape = 1 -> [n \in Nodes |-> CASE n = "a" -> "root" [] n = "b" -> "a" [] n = "c" -> "a" [] n = "d" -> "b" [] OTHER -> "root"]  \* mixed
    [] Shape = 2 -> [n \in Nodes |-> CASE n = "a" -> "root" [] n = "b" -> "a" [] n = "c" -> "b" [] n = "d" -> "c" [] OTHER -> "d"]     \* chain
    [] OTHER     -> [n \in Nodes |-> IF n = "a" THEN "root" ELSE "a"]                                                                  \* star
=============================================================================
