----------------------------- MODULE Varint_Gen -----------------------------
(* Binding A for C07 (headers).  Two families of cases:                       *)
(*  "enc": a header [type, size, dist, base] over the values 2^k - 1, 2^k,    *)
(*         2^k + 1 (k <= 64, below 2^64), the first value of every length of  *)
(*         the offset encoding and its predecessor, and two mixed bit         *)
(*         patterns; TLC prints the bytes the header must be written as.      *)
(*  "dec": a byte string built from continuation-byte patterns of every       *)
(*         length (including non-canonical sizes with a zero last group);     *)
(*         TLC prints what a reader must return.                              *)
(* Design-level invariants of the run: decoding inverts encoding and consumes *)
(* exactly the written length, whatever follows; re-encoding a canonical      *)
(* byte string gives it back.                                                 *)
EXTENDS Varint, Json, TLC

Ones(k) == [i \in 1..k |-> 1]                                             \* 2^k - 1
Pow2(k) == [i \in 1..(k + 1) |-> IF i = k + 1 THEN 1 ELSE 0]              \* 2^k
Pow2p1(k) == [i \in 1..(k + 1) |-> IF i = 1 \/ i = k + 1 THEN 1 ELSE 0]   \* 2^k + 1, k >= 1
\* 128 + 128^2 + .. + 128^n: the smallest distance written with n + 1 bytes
OfsFirst(n) == [i \in 1..(7 * n + 1) |-> IF i > 1 /\ (i - 1) % 7 = 0 THEN 1 ELSE 0]
Alt(k) == Norm([i \in 1..k |-> i % 2])                                    \* 0x5555..
Alt2(k) == Norm([i \in 1..k |-> (i + 1) % 2])                             \* 0xaaaa..

Values == {Ones(k) : k \in 0..64} \cup {Pow2(k) : k \in 0..63} \cup {Pow2p1(k) : k \in 1..63}
          \cup {Alt(64), Alt2(64), Alt(33), Alt2(31)}
Dists == Values \cup {OfsFirst(n) : n \in 1..9} \cup {Pred(OfsFirst(n)) : n \in 1..9} \cup {Succ(OfsFirst(n)) : n \in 1..9}
SomeSizes == {<<>>, Ones(4), Pow2(4), Pow2p1(32)}
Id1 == [i \in 1..20 |-> i]
Ids == {Id1, [i \in 1..20 |-> 0], [i \in 1..20 |-> 255]}

H(t, s, d, b) == [type |-> t, size |-> s, dist |-> d, base |-> b]
EncCases == {H(t, s, <<>>, <<>>) : t \in {COMMIT, TREE, BLOB, TAG}, s \in Values}
            \cup {H(OFS_DELTA, s, d, <<>>) : s \in SomeSizes, d \in Dists}
            \cup {H(OFS_DELTA, s, d, <<>>) : s \in Values, d \in {Ones(1), Pow2(7)}}
            \cup {H(REF_DELTA, s, <<>>, b) : s \in Values, b \in Ids}

\* continuation bytes: n bytes, byte i from pattern p
Cont(p, n) == [i \in 1..n |-> IF p = 1 THEN 128 ELSE IF p = 2 THEN 255 ELSE IF i % 2 = 0 THEN 170 ELSE 213]
DecCases ==
  \* sizes: first byte (blob), n continuation bytes, a last byte
  {<<48 + 128 + nib>> \o Cont(p, n) \o <<last>> : nib \in {0, 15}, p \in 1..3, n \in 0..8, last \in {0, 1, 15, 127}}
  \cup {<<48 + nib>> : nib \in {0, 9, 15}}
  \* a 10-byte size whose last group keeps the value below 2^64
  \cup {<<48 + 128 + 15>> \o Cont(p, 8) \o <<last>> : p \in 1..3, last \in {1, 15}}
  \* distances: one size byte (ofs delta, size 5), n continuation bytes, a last byte
  \cup {<<96 + 5>> \o Cont(p, n) \o <<last>> : p \in 1..3, n \in 0..9, last \in {0, 42, 127}}
  \* ref delta: size byte(s) and 20 id bytes
  \cup {<<112 + 7>> \o Id1, <<112 + 128 + 7, 1>> \o Id1}

Tails == { <<>>, <<128, 255>>, <<0>> }

VARIABLES fam, x, done
vars == <<fam, x, done>>
Init == /\ done = FALSE
        /\ \/ fam = "enc" /\ x \in EncCases
           \/ fam = "dec" /\ x \in DecCases
Next == ~done /\ done' = TRUE /\ UNCHANGED <<fam, x>>
Spec == Init /\ [][Next]_vars

\* design level
EncDomainOk == (fam = "enc") => HeaderInDomain(x)
DecInvertsEnc == (fam = "enc" /\ done) => \A t \in Tails : RoundTrip(x, t)
ReEncode ==
  (fam = "dec" /\ done) =>
     LET d == DecHeader(x, 20) IN
     (d.ok /\ x[Len(x)] # 0 /\ Fits64(d.size) /\ Fits64(d.dist)) =>
        EncHeader([type |-> d.type, size |-> d.size, dist |-> d.dist, base |-> d.base]) = x

Emit == done =>
  IF fam = "enc"
  THEN PrintT(<<"CASE", ToJson([op |-> "enc", type |-> x.type, size |-> x.size, dist |-> x.dist, base |-> x.base,
                                bytes |-> EncHeader(x), indomain |-> TRUE, canonical |-> TRUE,
                                consumed |-> Len(EncHeader(x))])>>)
  ELSE LET d == DecHeader(x, 20) IN
       PrintT(<<"CASE", ToJson([op |-> "dec", type |-> d.type, size |-> d.size, dist |-> d.dist, base |-> d.base,
                                bytes |-> x, indomain |-> DecInDomain(x, 20),
                                canonical |-> (d.ok /\ Fits64(d.size) /\ Fits64(d.dist) /\
                                   EncHeader([type |-> d.type, size |-> d.size, dist |-> d.dist, base |-> d.base]) = x),
                                consumed |-> d.consumed])>>)
=============================================================================
