------------------------------ MODULE IndexPack ------------------------------
(* C10, second part.  Storing a received pack: the index is a function of the *)
(* pack; the delta tree is resolved by several threads; pack and index appear *)
(* in the directory together or not at all.                                   *)
(*                                                                            *)
(* 1. IndexOf(entries): the index of a pack with entries [id, off, crc] is    *)
(*    the same entries sorted by id (what `git index-pack` writes; fan-out    *)
(*    and trailer are C09's subject).  ids are byte sequences, crc an opaque  *)
(*    string (32-bit values do not fit TLC's integers).                       *)
(* 2. The writer as a state machine (gix_pack::Bundle::write_to_directory +   *)
(*    index::File::write_data_iter_to_stream + cache::delta::Tree::traverse): *)
(*      start -> streaming (tempfile for the pack) -> resolving (tempfile for *)
(*      the index; threads resolve the delta tree) -> written -> kept (.keep) *)
(*      -> packed (pack renamed into place) -> done (index renamed)           *)
(*    Faults: the stream is truncated/corrupt (detected while streaming or    *)
(*    while a thread decodes an entry), or a rename fails.  Tempfiles remove  *)
(*    themselves.                                                             *)
(* Properties: every node is resolved exactly once and only after its base,   *)
(* for every interleaving; a stream fault leaves the directory as it was; no  *)
(* failure leaves a new pack + index pair; success leaves both.               *)
EXTENDS Bytes, TLC

IdLess(x, y) == Less(x.id, y.id)
IndexOf(entries) == SortSeq(entries, IdLess)
IdsDistinct(entries) == \A i, j \in 1..Len(entries) : i # j => entries[i].id # entries[j].id
SameSet(a, b) == Len(a) = Len(b) /\ {a[i] : i \in 1..Len(a)} = {b[i] : i \in 1..Len(b)}

CONSTANTS Nodes,        \* entries of the pack (model values / strings)
          Parent,       \* Parent[n] = the base entry of n, or "root" for a non-delta entry
          Threads,
          Bug_TempfilesNotRemoved   \* a failing write leaves its tempfiles behind

VARIABLES phase, dir, status, owner, computed, fault
vars == <<phase, dir, status, owner, computed, fault>>

Dir0 == {"old.pack", "old.idx"}

Init == /\ phase = "start" /\ dir = Dir0 /\ fault = "none"
        /\ status = [n \in Nodes |-> "pending"] /\ owner = [t \in Threads |-> "idle"]
        /\ computed = [n \in Nodes |-> 0]

Cleanup(d) == IF Bug_TempfilesNotRemoved THEN d ELSE d \ {"tmp.pack", "tmp.idx"}

Begin == phase = "start" /\ phase' = "streaming" /\ dir' = dir \cup {"tmp.pack"} /\ UNCHANGED <<status, owner, computed, fault>>
StreamOk == phase = "streaming" /\ phase' = "resolving" /\ dir' = dir \cup {"tmp.idx"} /\ UNCHANGED <<status, owner, computed, fault>>
StreamFail == /\ phase = "streaming" /\ phase' = "failed" /\ fault' = "stream" /\ dir' = Cleanup(dir)
              /\ UNCHANGED <<status, owner, computed>>

BaseDone(n) == IF Parent[n] = "root" THEN TRUE ELSE status[Parent[n]] = "done"
Ready(n) == status[n] = "pending" /\ BaseDone(n)
Claim(t, n) == /\ phase = "resolving" /\ owner[t] = "idle" /\ Ready(n)
               /\ status' = [status EXCEPT ![n] = "busy"] /\ owner' = [owner EXCEPT ![t] = n]
               /\ UNCHANGED <<phase, dir, computed, fault>>
Finish(t) == /\ phase = "resolving" /\ owner[t] # "idle"
             /\ status' = [status EXCEPT ![owner[t]] = "done"] /\ computed' = [computed EXCEPT ![owner[t]] = @ + 1]
             /\ owner' = [owner EXCEPT ![t] = "idle"] /\ UNCHANGED <<phase, dir, fault>>
ResolveFail(t) == /\ phase = "resolving" /\ owner[t] # "idle"
                  /\ phase' = "failed" /\ fault' = "resolve" /\ dir' = Cleanup(dir)
                  /\ UNCHANGED <<status, owner, computed>>
WriteIdx == /\ phase = "resolving" /\ \A n \in Nodes : status[n] = "done"
            /\ phase' = "written" /\ UNCHANGED <<dir, status, owner, computed, fault>>
Keep == phase = "written" /\ phase' = "kept" /\ dir' = dir \cup {"new.keep"} /\ UNCHANGED <<status, owner, computed, fault>>
PersistPack == \/ /\ phase = "kept" /\ phase' = "packed" /\ dir' = (dir \ {"tmp.pack"}) \cup {"new.pack"}
                  /\ UNCHANGED <<status, owner, computed, fault>>
               \/ /\ phase = "kept" /\ phase' = "failed" /\ fault' = "io" /\ dir' = Cleanup(dir)
                  /\ UNCHANGED <<status, owner, computed>>
PersistIdx == \/ /\ phase = "packed" /\ phase' = "done" /\ dir' = (dir \ {"tmp.idx"}) \cup {"new.idx"}
                 /\ UNCHANGED <<status, owner, computed, fault>>
              \/ /\ phase = "packed" /\ phase' = "failed" /\ fault' = "io" /\ dir' = Cleanup(dir)
                 /\ UNCHANGED <<status, owner, computed>>

Next == \/ Begin \/ StreamOk \/ StreamFail \/ WriteIdx \/ Keep \/ PersistPack \/ PersistIdx
        \/ \E t \in Threads : Finish(t) \/ ResolveFail(t) \/ \E n \in Nodes : Claim(t, n)
Spec == Init /\ [][Next]_vars /\ WF_vars(Next)

ExactlyOnce == \A n \in Nodes : computed[n] <= 1 /\ (status[n] = "done" <=> computed[n] = 1)
BaseFirst == \A n \in Nodes : status[n] # "pending" => BaseDone(n)
OneOwner == \A t1, t2 \in Threads : t1 # t2 /\ owner[t1] # "idle" => owner[t1] # owner[t2]
StreamFaultLeavesNothing == (phase = "failed" /\ fault \in {"stream", "resolve"}) => dir = Dir0
NoPairAfterFailure == phase = "failed" => ~({"new.pack", "new.idx"} \subseteq dir)
NoTempAtEnd == phase \in {"failed", "done"} => dir \cap {"tmp.pack", "tmp.idx"} = {}
DoneComplete == phase = "done" => (dir = Dir0 \cup {"new.pack", "new.idx", "new.keep"} /\ \A n \in Nodes : computed[n] = 1)
Terminates == <>(phase \in {"done", "failed"})
=============================================================================
