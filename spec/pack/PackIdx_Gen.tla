----------------------------- MODULE PackIdx_Gen -----------------------------
(* Binding A + design check for C09.  TLC enumerates id sets over a universe   *)
(* built from byte classes                                                     *)
(*     id = << b1, 5, b3, 0 x 16, last >>                                      *)
(*     b1 in {00, 01, ff} (fan-out buckets 0, 1, 255; wide: + 7f, 80, fe)      *)
(*     b3 in {00, 10, 11} (differences at hex digit 5 and 6), last in {0, 1}   *)
(* : every set of <= MaxIds ids, every whole bucket and the whole universe;    *)
(* with three offset patterns (small; around 2^31 and 2^32; above 2^32), CRCs  *)
(* and a pack assignment for the multi-pack case.  For every universe id and a *)
(* few ids in empty buckets it prints the answers of a linear scan: full       *)
(* lookup, and prefix lookup at 4, 5, 6, 39 and 40 hex digits.                 *)
(* Invariant `Design`: the transcribed fan-out + bisection + neighbour checks  *)
(* of gix-pack give exactly those answers.                                     *)
EXTENDS PackIdx, Json, TLC
CONSTANTS MaxIds, Wide

B1 == IF Wide THEN <<0, 1, 127, 128, 254, 255>> ELSE <<0, 1, 255>>
B3 == <<0, 16, 17>>
MkId(b1, b3, last) == <<b1, 5, b3>> \o [i \in 1..16 |-> 0] \o <<last>>
\* the universe in ascending order
Universe == [k \in 1..(Len(B1) * 6) |->
               MkId(B1[((k - 1) \div 6) + 1], B3[(((k - 1) % 6) \div 2) + 1], (k - 1) % 2)]
NU == Len(Universe)
Absent == << MkId(2, 0, 0), MkId(253, 17, 1), <<0, 4, 0>> \o [i \in 1..17 |-> 255], <<0, 6>> \o [i \in 1..18 |-> 0],
             <<255, 5, 17>> \o [i \in 1..16 |-> 0] \o <<2>> >>
HexLens == <<4, 5, 6, 39, 40>>

Edge == << <<0,0,0,0,127,255,255,255>>, <<0,0,0,0,128,0,0,0>>, <<0,0,0,0,128,0,0,1>>, <<0,0,0,0,255,255,255,255>>,
           <<0,0,0,1,0,0,0,0>>, <<0,0,0,1,0,0,0,1>>, <<0,0,0,0,0,0,0,12>> >>
OfsOf(pattern, i) ==
  IF pattern = "small" THEN <<0, 0, 0, 0, 0, 0, (12 + 300 * i) \div 256, (12 + 300 * i) % 256>>
  ELSE IF pattern = "edge" THEN Edge[((i - 1) % Len(Edge)) + 1]
  ELSE <<127 - (i % 2), 255, 1, 2, 3, 4, 5, i>>                    \* "huge": all above 2^32
CrcOf(i) == <<222, 173, i, 255 - i>>

VARIABLES sel, pattern, done
vars == <<sel, pattern, done>>
\* sel: ascending sequence of universe indices
Bucket(j) == [k \in 1..6 |-> (j - 1) * 6 + k]
Init == /\ done = FALSE /\ pattern = "small"
        /\ \/ sel = <<>>
           \/ \E j \in 1..Len(B1) : sel = Bucket(j)
           \/ sel = [k \in 1..NU |-> k]
Extend == /\ ~done /\ Len(sel) < MaxIds /\ done' = FALSE /\ UNCHANGED pattern
          /\ \E k \in 1..NU : (IF sel = <<>> THEN TRUE ELSE k > sel[Len(sel)]) /\ sel' = Append(sel, k)
Finish == /\ ~done /\ done' = TRUE /\ UNCHANGED sel
          /\ pattern' \in {"small", "edge", "huge"}
          /\ (sel = <<>> => pattern' = "small")
Next == Extend \/ Finish
Spec == Init /\ [][Next]_vars

\* (Universe and the query list are bound once per evaluation with LET: TLC re-evaluates definitions on every use)
Want(ids, q, h) ==
  [id |-> q, hexlen |-> h,
   lookup |-> IF h = 40 THEN Lookup(ids, q) ELSE -2,
   prefix |-> LookupPrefix(ids, q, h)]

SamePrefix(r, want, withCandidates) ==
  /\ r.kind = want.kind
  /\ (want.kind = "unique" => r.index = want.index)
  /\ (withCandidates => r.start = want.start /\ r.end = want.end)

Design == done =>
  LET uni == Universe
      qids == uni \o Absent
      ids == [i \in 1..Len(sel) |-> uni[sel[i]]]
      fan == Fanout(ids)
  IN /\ StrictlyAscending(ids)
     /\ \A k \in 1..Len(qids) :
          LET q == qids[k] IN
          /\ ImplLookup(fan, ids, q) = Lookup(ids, q)
          /\ \A j \in 1..Len(HexLens) :
               LET want == LookupPrefix(ids, q, HexLens[j]) IN
               /\ SamePrefix(ImplLookupPrefix(fan, ids, q, HexLens[j], TRUE), want, TRUE)
               /\ SamePrefix(ImplLookupPrefix(fan, ids, q, HexLens[j], FALSE), want, FALSE)

Emit == done =>
  LET uni == Universe
      qids == uni \o Absent
      ids == [i \in 1..Len(sel) |-> uni[sel[i]]]
      nh == Len(HexLens)
  IN
  PrintT(<<"CASE", ToJson([ids     |-> ids,
                           pattern |-> pattern,
                           ofs     |-> [i \in 1..Len(ids) |-> OfsOf(pattern, i)],
                           crcs    |-> [i \in 1..Len(ids) |-> CrcOf(i)],
                           packs   |-> [i \in 1..Len(ids) |-> i % 2],
                           fan     |-> Fanout(ids),
                           queries |-> [x \in 1..(Len(qids) * nh) |->
                                          Want(ids, qids[((x - 1) \div nh) + 1], HexLens[((x - 1) % nh) + 1])]])>>)
=============================================================================
