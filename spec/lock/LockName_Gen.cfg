SPECIFICATION Spec
CONSTANTS
  MaxToks = 3
INVARIANTS
  RoundTrip
  Emit
CHECK_DEADLOCK FALSE
