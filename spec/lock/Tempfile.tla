------------------------------ MODULE Tempfile ------------------------------
(* C23.  Registered tempfiles and termination signals.                         *)
(* Slots are tempfiles of one process; each goes absent -> open -> (closed) ->  *)
(* persisted | dropped.  disk = set of file names present.  A termination       *)
(* signal may arrive at any point: between two API calls, or inside a call.     *)
(* The property: afterwards every registered, unpersisted tempfile of the       *)
(* process is gone, persisted files stay, files of other processes stay.        *)
(*                                                                              *)
(* Windows = TRUE models the implementation at the pinned commit: a call takes  *)
(* its entry out of the registry while it works on it (with_mut / close /       *)
(* persist / drop) and creates the file before it is registered, so a signal    *)
(* inside a call does not see that one tempfile.  With Windows = FALSE the      *)
(* model is the property's intended design and TLC proves CleanAfterSignal.     *)
EXTENDS Naturals, Sequences, FiniteSets, TLC

CONSTANTS Slots, Windows

Tmp(t) == <<"tmp", t>>
Out(t) == <<"out", t>>

VARIABLES st,        \* [Slots -> {"absent","open","closed","persisted","dropped"}]
          disk,      \* set of names on disk
          reg,       \* set of slots currently in the registry
          inflight,  \* slot a call is working on right now, 0 if none
          signalled
vars == <<st, disk, reg, inflight, signalled>>

Init == st = [t \in Slots |-> "absent"] /\ disk = {} /\ reg = {} /\ inflight = 0 /\ signalled = FALSE

\* a call on slot t: Begin takes the entry out of the registry (if Windows), End puts the result back
CanCall(t, op) ==
  CASE op = "create"  -> st[t] = "absent"
    [] op = "write"   -> st[t] = "open"
    [] op = "close"   -> st[t] = "open"
    [] op = "persist" -> st[t] \in {"open", "closed"}
    [] op = "drop"    -> st[t] \in {"open", "closed"}

Begin(t, op) == /\ ~signalled /\ inflight = 0 /\ CanCall(t, op)
                /\ inflight' = t
                /\ reg' = IF Windows THEN reg \ {t} ELSE reg
                /\ disk' = IF op = "create" /\ Windows THEN disk \cup {Tmp(t)} ELSE disk   \* created before registered
                /\ UNCHANGED <<st, signalled>>
End(t, op) == /\ ~signalled /\ inflight = t /\ CanCall(t, op)
              /\ inflight' = 0
              /\ CASE op = "create"  -> st' = [st EXCEPT ![t] = "open"] /\ disk' = disk \cup {Tmp(t)} /\ reg' = reg \cup {t}
                   [] op = "write"   -> st' = st /\ disk' = disk /\ reg' = reg \cup {t}
                   [] op = "close"   -> st' = [st EXCEPT ![t] = "closed"] /\ disk' = disk /\ reg' = reg \cup {t}
                   [] op = "persist" -> st' = [st EXCEPT ![t] = "persisted"] /\ disk' = (disk \ {Tmp(t)}) \cup {Out(t)} /\ reg' = reg \ {t}
                   [] op = "drop"    -> st' = [st EXCEPT ![t] = "dropped"] /\ disk' = disk \ {Tmp(t)} /\ reg' = reg \ {t}
              /\ UNCHANGED signalled
\* the handler removes what the registry holds, then the process terminates
Signal == /\ ~signalled /\ signalled' = TRUE
          /\ disk' = disk \ { Tmp(t) : t \in reg }
          /\ UNCHANGED <<st, reg, inflight>>
Ops == {"create", "write", "close", "persist", "drop"}
Next == Signal \/ \E t \in Slots, op \in Ops : Begin(t, op) \/ End(t, op)
Spec == Init /\ [][Next]_vars

CleanAfterSignal == signalled => \A t \in Slots : Tmp(t) \notin disk
PersistedStay == \A t \in Slots : st[t] = "persisted" => Out(t) \in disk
\* what the implementation with windows still guarantees: only the tempfile of the call in flight can stay
OnlyInflightStays == signalled => \A t \in Slots : Tmp(t) \in disk => t = inflight
=============================================================================
