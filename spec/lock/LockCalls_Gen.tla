---------------------------- MODULE LockCalls_Gen ----------------------------
(* Binding A for C22 at the granularity of the public API: every sequence of   *)
(* <= MaxCalls calls (acquire / write / commit / drop) by two holders over two  *)
(* resources (one nested in a directory that is created on demand), with the    *)
(* outcome and file-system state the Lock model predicts after every call.      *)
(* A call is Lock.tla's step sequence run to completion without interference.   *)
EXTENDS Naturals, Sequences, FiniteSets, TLC, Json
CONSTANTS MaxCalls

Procs == {"p1", "p2"}
Res == {"top", "nested"}
None == "none"
VARIABLES content, lock, dir, held, written, hist, done
vars == <<content, lock, dir, held, written, hist, done>>
\* held[p]: resource p holds a lock on (None if not); written[p]: value put into its lock file
Init == /\ content = [r \in Res |-> 0] /\ lock = [r \in Res |-> None] /\ dir = FALSE
        /\ held = [p \in Procs |-> None] /\ written = [p \in Procs |-> 0] /\ hist = <<>> /\ done = FALSE

DirBusy(l, c) == l["nested"] # None \/ c["nested"] # 0
Obs(c, l, d) == [content |-> c, locks |-> {r \in Res : l[r] # None}, dir |-> d]
Record(p, op, r, outcome, c, l, d) == Append(hist, [p |-> p, op |-> op, r |-> r, outcome |-> outcome, state |-> Obs(c, l, d)])

Acquire(p, r) ==
  /\ held[p] = None
  /\ IF lock[r] # None
     THEN /\ hist' = Record(p, "acquire", r, "locked", content, lock, dir)
          /\ UNCHANGED <<content, lock, dir, held, written>>
     ELSE LET l2 == [lock EXCEPT ![r] = p]  d2 == dir \/ r = "nested" IN
          /\ lock' = l2 /\ dir' = d2 /\ held' = [held EXCEPT ![p] = r] /\ written' = [written EXCEPT ![p] = 0]
          /\ hist' = Record(p, "acquire", r, "ok", content, l2, d2)
          /\ UNCHANGED content
Write(p) ==
  /\ held[p] # None /\ written[p] = 0
  /\ written' = [written EXCEPT ![p] = content[held[p]] + 1]
  /\ hist' = Record(p, "write", held[p], "ok", content, lock, dir)
  /\ UNCHANGED <<content, lock, dir, held>>
Commit(p) ==
  /\ held[p] # None
  /\ LET r == held[p]
         c2 == [content EXCEPT ![r] = IF written[p] = 0 THEN 100 ELSE written[p]]   \* 100: an empty lock file became the resource
         l2 == [lock EXCEPT ![r] = None] IN
     /\ content' = c2 /\ lock' = l2 /\ held' = [held EXCEPT ![p] = None]
     /\ hist' = Record(p, "commit", r, "ok", c2, l2, dir)
     /\ UNCHANGED <<dir, written>>
Drop(p) ==
  /\ held[p] # None
  /\ LET r == held[p]
         l2 == [lock EXCEPT ![r] = None]
         d2 == dir /\ (r # "nested" \/ DirBusy(l2, content)) IN
     /\ lock' = l2 /\ dir' = d2 /\ held' = [held EXCEPT ![p] = None]
     /\ hist' = Record(p, "drop", r, "ok", content, l2, d2)
     /\ UNCHANGED <<content, written>>
Call == /\ ~done /\ Len(hist) < MaxCalls /\ done' = FALSE
        /\ \E p \in Procs : (\E r \in Res : Acquire(p, r)) \/ Write(p) \/ Commit(p) \/ Drop(p)
Finish == ~done /\ hist # <<>> /\ done' = TRUE /\ UNCHANGED <<content, lock, dir, held, written, hist>>
Next == Call \/ Finish
Spec == Init /\ [][Next]_vars

MutualExclusion == \A r \in Res : Cardinality({p \in Procs : held[p] = r}) <= 1
LockFileIffHeld == \A r \in Res : (lock[r] # None) <=> (\E p \in Procs : held[p] = r)
DirOnlyWhenNeeded == dir => DirBusy(lock, content)
\* only complete behaviours are printed (prefixes are contained in them)
Emit == (done /\ Len(hist) = MaxCalls) => PrintT(<<"CASE", ToJson([calls |-> hist])>>)
=============================================================================
