SPECIFICATION Spec
CONSTANTS
  MaxCalls = 5
INVARIANTS
  MutualExclusion
  LockFileIffHeld
  DirOnlyWhenNeeded
  Emit
CHECK_DEADLOCK FALSE
