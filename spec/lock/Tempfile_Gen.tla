---------------------------- MODULE Tempfile_Gen ----------------------------
(* Binding A for C23: every valid script of <= MaxOps calls over the slots.   *)
(* For each position k the directory content the model predicts when the      *)
(* signal arrives between call k and call k+1 is printed (Windows = FALSE:    *)
(* the property), together with the slot call k+1 works on.                   *)
EXTENDS Tempfile, Json
CONSTANTS MaxOps
VARIABLES script, done, snaps
gvars == <<st, disk, reg, inflight, signalled, script, done, snaps>>
\* directory after a signal now
AfterSignal == disk \ { Tmp(t) : t \in reg }
GInit == Init /\ script = <<>> /\ done = FALSE /\ snaps = << {} >>
Step == /\ ~done /\ Len(script) < MaxOps /\ inflight = 0
        /\ \E t \in Slots, op \in Ops :
             /\ CanCall(t, op)
             /\ LET st2 == CASE op = "create" -> [st EXCEPT ![t] = "open"] [] op = "write" -> st [] op = "close" -> [st EXCEPT ![t] = "closed"]
                             [] op = "persist" -> [st EXCEPT ![t] = "persisted"] [] op = "drop" -> [st EXCEPT ![t] = "dropped"]
                    disk2 == CASE op = "create" -> disk \cup {Tmp(t)} [] op = "persist" -> (disk \ {Tmp(t)}) \cup {Out(t)}
                               [] op = "drop" -> disk \ {Tmp(t)} [] OTHER -> disk
                    reg2 == IF op \in {"persist", "drop"} THEN reg \ {t} ELSE reg \cup {t}
                IN /\ st' = st2 /\ disk' = disk2 /\ reg' = reg2
                   /\ script' = Append(script, [op |-> op, t |-> t])
                   /\ snaps' = Append(snaps, disk2 \ { Tmp(u) : u \in reg2 })
        /\ UNCHANGED <<inflight, signalled, done>>
Finish == ~done /\ script # <<>> /\ done' = TRUE /\ UNCHANGED <<st, disk, reg, inflight, signalled, script, snaps>>
GNext == Step \/ Finish
GSpec == GInit /\ [][GNext]_gvars
Emit == (done /\ Len(script) = MaxOps) => PrintT(<<"CASE", ToJson([script |-> script, after_signal |-> snaps])>>)
=============================================================================
