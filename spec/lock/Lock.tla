--------------------------------- MODULE Lock ---------------------------------
(* C22.  Lock files over a small file system.                                   *)
(*   LockPath(r) = r ++ ".lock"   (on bytes, for every resource name)           *)
(*   acquire = mkdir -p of missing parents below the boundary (race-proof:      *)
(*             retried when a concurrent cleanup removed the directory again),  *)
(*             then exclusive creation of the lock file                         *)
(*   commit  = rename(lock file -> resource)                                    *)
(*   drop    = unlink(lock file), then rmdir of empty parents up to the boundary*)
(* Resources live either at the boundary ("top") or in the sub-directory "d",   *)
(* which only exists while something needs it.  Each file-system call is one    *)
(* step, so TLC explores all races between acquire, commit and drop.            *)
EXTENDS Naturals, Sequences, FiniteSets, TLC

CONSTANTS Procs, Res, InDir, MaxOps   \* InDir \subseteq Res: resources inside the sub-directory

None == "none"
VARIABLES content,    \* [Res -> Nat]: what the resource file holds (0 = initial)
          lock,       \* [Res -> Procs \cup {None}]: owner of the lock file, None = no lock file
          lockbuf,    \* [Res -> Nat]: content written into the lock file
          dir,        \* BOOLEAN: the sub-directory exists
          pc,         \* [Procs -> step label]
          tgt,        \* [Procs -> Res \cup {None}]: resource the process works on
          ops,        \* [Procs -> Nat]: operations started (bound)
          val,        \* [Procs -> Nat]: value the process will commit
          retries,    \* [Procs -> Nat]
          failed      \* set of <<proc, reason>> acquisition failures (observations)
vars == <<content, lock, lockbuf, dir, pc, tgt, ops, val, retries, failed>>

Init == /\ content = [r \in Res |-> 0] /\ lock = [r \in Res |-> None] /\ lockbuf = [r \in Res |-> 0]
        /\ dir = FALSE /\ pc = [p \in Procs |-> "idle"] /\ tgt = [p \in Procs |-> None]
        /\ ops = [p \in Procs |-> 0] /\ val = [p \in Procs |-> 0] /\ retries = [p \in Procs |-> 0] /\ failed = {}

DirBusy == \E r \in InDir : lock[r] # None \/ content[r] # 0   \* something is inside the sub-directory

Start(p) == /\ pc[p] = "idle" /\ ops[p] < MaxOps
            /\ \E r \in Res : tgt' = [tgt EXCEPT ![p] = r]
            /\ ops' = [ops EXCEPT ![p] = @ + 1] /\ retries' = [retries EXCEPT ![p] = 0]
            /\ pc' = [pc EXCEPT ![p] = "mkdir"]
            /\ UNCHANGED <<content, lock, lockbuf, dir, val, failed>>
Mkdir(p) == /\ pc[p] = "mkdir"
            /\ dir' = (dir \/ tgt[p] \in InDir)
            /\ pc' = [pc EXCEPT ![p] = "create"]
            /\ UNCHANGED <<content, lock, lockbuf, tgt, ops, val, retries, failed>>
\* exclusive creation: fails with "exists" when there is a lock file, with "no directory" when a
\* concurrent cleanup removed the directory between mkdir and create (then mkdir is retried)
Create(p) == /\ pc[p] = "create"
             /\ LET r == tgt[p] IN
                IF r \in InDir /\ ~dir
                THEN /\ retries' = [retries EXCEPT ![p] = @ + 1]
                     /\ pc' = [pc EXCEPT ![p] = IF retries[p] < 3 THEN "mkdir" ELSE "idle"]
                     /\ failed' = IF retries[p] < 3 THEN failed ELSE failed \cup {<<p, "retries">>}
                     /\ UNCHANGED <<lock, lockbuf, val>>
                ELSE IF lock[r] # None
                THEN /\ failed' = failed \cup {<<p, "exists">>}
                     /\ pc' = [pc EXCEPT ![p] = "cleanup_failed"]
                     /\ UNCHANGED <<lock, lockbuf, val, retries>>
                ELSE /\ lock' = [lock EXCEPT ![r] = p] /\ lockbuf' = [lockbuf EXCEPT ![r] = 0]
                     /\ val' = [val EXCEPT ![p] = content[r] + 1]        \* read-modify-write under the lock
                     /\ pc' = [pc EXCEPT ![p] = "holding"]
                     /\ UNCHANGED <<retries, failed>>
             /\ UNCHANGED <<content, dir, tgt, ops>>
\* a failed acquisition leaves no trace: the directory it may have created goes again if empty
CleanupFailed(p) == /\ pc[p] = "cleanup_failed"
                    /\ dir' = (dir /\ (tgt[p] \notin InDir \/ DirBusy))
                    /\ pc' = [pc EXCEPT ![p] = "idle"]
                    /\ UNCHANGED <<content, lock, lockbuf, tgt, ops, val, retries, failed>>
Write(p) == /\ pc[p] = "holding" /\ lockbuf[tgt[p]] # val[p]
            /\ lockbuf' = [lockbuf EXCEPT ![tgt[p]] = val[p]]
            /\ UNCHANGED <<content, lock, dir, pc, tgt, ops, val, retries, failed>>
Commit(p) == /\ pc[p] = "holding" /\ lockbuf[tgt[p]] = val[p]
             /\ content' = [content EXCEPT ![tgt[p]] = lockbuf[tgt[p]]]
             /\ lock' = [lock EXCEPT ![tgt[p]] = None]
             /\ pc' = [pc EXCEPT ![p] = "idle"]
             /\ UNCHANGED <<lockbuf, dir, tgt, ops, val, retries, failed>>
Unlink(p) == /\ pc[p] = "holding"
             /\ lock' = [lock EXCEPT ![tgt[p]] = None]
             /\ pc' = [pc EXCEPT ![p] = "rmdir"]
             /\ UNCHANGED <<content, lockbuf, dir, tgt, ops, val, retries, failed>>
Rmdir(p) == /\ pc[p] = "rmdir"
            /\ dir' = (dir /\ (tgt[p] \notin InDir \/ DirBusy))     \* rmdir only succeeds on an empty directory
            /\ pc' = [pc EXCEPT ![p] = "idle"]
            /\ UNCHANGED <<content, lock, lockbuf, tgt, ops, val, retries, failed>>

Next == \E p \in Procs : Start(p) \/ Mkdir(p) \/ Create(p) \/ CleanupFailed(p) \/ Write(p) \/ Commit(p) \/ Unlink(p) \/ Rmdir(p)
Spec == Init /\ [][Next]_vars /\ WF_vars(Next)

Holders(r) == { p \in Procs : pc[p] = "holding" /\ tgt[p] = r }
\* at most one holder per resource, and the lock file names it
MutualExclusion == \A r \in Res : Cardinality(Holders(r)) <= 1 /\ (\A p \in Holders(r) : lock[r] = p)
\* a lock file without holder never stays behind
NoOrphanLock == \A r \in Res : lock[r] # None => \E p \in Procs : pc[p] \in {"holding"} /\ tgt[p] = r
\* no lost update: the resource counts the commits (read-modify-write under the lock is atomic)
CommitsCounted == [][\A r \in Res : content'[r] \in {content[r], content[r] + 1}]_vars
\* the resource only changes through the commit of its holder
OnlyHolderChanges == [][\A r \in Res : content'[r] # content[r] => \E p \in Holders(r) : pc'[p] = "idle"]_vars
\* when everybody is idle, the sub-directory exists only if something is in it: drops clean up after themselves
Quiescent == \A p \in Procs : pc[p] = "idle"
CleanWhenQuiet == Quiescent => (dir => DirBusy)
\* acquisition never gives up because of directory races in this instance (race-proof creation)
NoRetryExhaustion == \A f \in failed : f[2] # "retries"
=============================================================================
