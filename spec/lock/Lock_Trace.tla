------------------------------ MODULE Lock_Trace ------------------------------
(* Binding B for C22: free-running threads on the real lock files.  Events carry *)
(* a sequence number drawn from one shared atomic counter: "acquired" is logged  *)
(* after acquire returned, "committing"/"dropping" before the call that gives    *)
(* the lock up, so the logged interval lies inside the real holding interval.    *)
(* Acceptor: at most one holder at any time; the counter kept in the resource    *)
(* (read-modify-write under the lock) equals the number of commits.              *)
EXTENDS Integers, Sequences, TraceIO

VARIABLES l, holder, commits
vars == <<l, holder, commits>>
Init == l = 1 /\ holder = -1 /\ commits = 0
Reset == Rec[l].ev = "reset" /\ holder = -1 /\ holder' = -1 /\ commits' = 0
Acquired == Rec[l].ev = "acquired" /\ holder = -1 /\ holder' = Rec[l].t /\ UNCHANGED commits
Committing == Rec[l].ev = "committing" /\ holder = Rec[l].t /\ holder' = -1 /\ commits' = commits + 1
Dropping == Rec[l].ev = "dropping" /\ holder = Rec[l].t /\ holder' = -1 /\ UNCHANGED commits
Final == Rec[l].ev = "final" /\ holder = -1 /\ Rec[l].final = commits /\ Rec[l].commits = commits /\ UNCHANGED <<holder, commits>>
Next == l <= NRec /\ l' = l + 1 /\ (Reset \/ Acquired \/ Committing \/ Dropping \/ Final)
Spec == Init /\ [][Next]_vars
=============================================================================
