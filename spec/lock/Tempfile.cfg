SPECIFICATION Spec
CONSTANTS
  Slots = {1, 2, 3}
  Windows = FALSE
INVARIANTS
  CleanAfterSignal
  PersistedStay
  OnlyInflightStays
CHECK_DEADLOCK FALSE
