SPECIFICATION Spec
CONSTANTS
  Procs = {p1, p2, p3}
  Res = {top, nested}
  InDir = {nested}
  MaxOps = 2
INVARIANTS
  MutualExclusion
  NoOrphanLock
  CleanWhenQuiet
PROPERTIES
  CommitsCounted
  OnlyHolderChanges
CHECK_DEADLOCK FALSE
