SPECIFICATION GSpec
CONSTANTS
  Slots = {1, 2}
  Windows = FALSE
  MaxOps = 5
INVARIANT Emit
CHECK_DEADLOCK FALSE
