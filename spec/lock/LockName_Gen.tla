----------------------------- MODULE LockName_Gen -----------------------------
(* Binding A for the first sentence of C22: for EVERY resource file name (a     *)
(* byte string, not necessarily UTF-8) the lock file is the resource name with  *)
(* ".lock" appended - nothing else; stripping the suffix gives the name back.   *)
EXTENDS Bytes, Json, TLC
CONSTANTS MaxToks
LOCK == <<46,108,111,99,107>>
LockName(r) == r \o LOCK
Strip(l) == SubSeq(l, 1, Len(l) - 5)
Tok == { <<97>>, <<46>>, <<46,101,120,116>>, LOCK, <<120,46>>, <<255>>, <<195,169>>, <<32>>, <<45>>, <<46,254,101>>, <<46,195>> }
\*        a       .       .ext               .lock  x.        0xff     e-acute     space   -       .<fe>e          .<c3> (truncated UTF-8)
VARIABLES toks, done
Init == toks = <<>> /\ done = FALSE
Next == \/ ~done /\ Len(toks) < MaxToks /\ \E t \in Tok : toks' = Append(toks, t) /\ done' = FALSE
        \/ ~done /\ toks # <<>> /\ done' = TRUE /\ UNCHANGED toks
Spec == Init /\ [][Next]_<<toks, done>>
Name == FlatSeq(toks)
\* "." and ".." are directories, not file names
InDomain == Name # <<46>> /\ Name # <<46,46>>
RoundTrip == done => Strip(LockName(Name)) = Name
Emit == (done /\ InDomain) => PrintT(<<"CASE", ToJson([name |-> Name, lock |-> LockName(Name)])>>)
=============================================================================
