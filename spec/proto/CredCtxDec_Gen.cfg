SPECIFICATION Spec
CONSTANTS
  MaxToks = 4
  Bug_StripCR = FALSE
INVARIANTS
  Emit
CHECK_DEADLOCK FALSE
