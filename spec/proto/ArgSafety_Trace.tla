--------------------------- MODULE ArgSafety_Trace ---------------------------
(* Binding B (and C) for C34.  Events, all with the same fields                *)
(*  [ev, kind, v2, view, refused, class, argvs, s, quoted, words, csafe]       *)
(*  ev "ssh":    the ssh transport was asked to connect to the URL whose       *)
(*               parsed fields are `view` with program kind `kind`; it refused *)
(*               (class) or spawned the recorded invocations `argvs`           *)
(*  ev "local":  the local transport for path s                                *)
(*  ev "quote":  gix_quote::single(s) = quoted                                 *)
(*  ev "classify": Url::{user,host}_as_argument / path_argument_safe (csafe)   *)
(*  ev "sh":     audit - the installed sh split command line s into `words`    *)
(*  ev "gitsq":  audit - git rev-parse --sq-quote s printed `quoted`           *)
(*  ev "gitpath": audit - git hands path `quoted` to the remote for URL path s *)
EXTENDS ArgSafety, TraceIO

VARIABLE l
Init == l = 1
Next == l <= NRec /\ l' = l + 1
Spec == Init /\ [][Next]_l

JudgeSsh(r) ==
  /\ Reasons(r.kind, r.view) # {} => r.refused                   \* option-like user / host / path never reach a program
  /\ r.refused => r.class \in MayReasons(r.kind, r.view)         \* and nothing else is refused
  /\ Safe(r.argvs, r.kind, r.view)                               \* every invocation that did happen is safe
  /\ ~r.refused => r.argvs # <<>>

JudgeLocal(r) ==
  /\ LocalReasons(r.s) # {} => r.refused
  /\ r.refused => r.class \in LocalMayReasons(r.s)
  /\ LocalSafe(r.argvs, r.s)
  /\ ~r.refused => r.argvs # <<>>

\* any quoting is fine as long as the remote shell reads exactly one word with the same bytes
JudgeQuote(r) == ShWords(CMD \o <<SP>> \o r.quoted) = [ok |-> TRUE, words |-> <<CMD, r.s>>]

\* the classification helpers of gix-url: Dangerous iff option-like; a path is "argument safe"
\* iff neither it nor what follows its leading slash is option-like
Cls(o) == IF o = None THEN "absent" ELSE IF LooksLikeOption(o[1]) THEN "dangerous" ELSE "usable"
PathArgSafe(p) == ~LooksLikeOption(p) /\ ~(p # <<>> /\ p[1] = SLASH /\ LooksLikeOption(Tail(p)))
JudgeClassify(r) ==
  /\ r.csafe.user = Cls(r.view.user) /\ r.csafe.host = Cls(r.view.host)
  /\ r.csafe.path_safe = PathArgSafe(r.view.path)

Judge(r) == CASE r.ev = "ssh" -> JudgeSsh(r)
              [] r.ev = "local" -> JudgeLocal(r)
              [] r.ev = "quote" -> JudgeQuote(r)
              [] r.ev = "classify" -> JudgeClassify(r)
              [] r.ev = "sh" -> ShWords(r.s) = [ok |-> TRUE, words |-> r.words]
              [] r.ev = "gitsq" -> r.quoted = ShQuote(r.s)
              [] r.ev = "gitpath" -> r.quoted = ShellPath(r.s)
              [] OTHER -> FALSE
EventOk == l <= NRec => (Judge(Rec[l]) \/ PrintT(<<"REJECT", l>>))
=============================================================================
