--------------------------------- MODULE Url ---------------------------------
(* C33.  Git URLs (git-clone(1) "GIT URLS", gix-url crate documentation):      *)
(*                                                                             *)
(*   URL form      scheme://[user[:password]@]host[:port][/path]               *)
(*   file URL      file://[host]/path          (host and path taken verbatim)  *)
(*   scp-like      [user@]host:path            only if no '/' before the first *)
(*                                             ':' and no "://" in the string  *)
(*   local path    anything else                                               *)
(*                                                                             *)
(* Classify(s) is total.  Parse(s) is specified for the *plain* sub-language   *)
(* (InDomain): no character that the WHATWG URL parser behind gix-url would    *)
(* normalise (percent-encoding of odd characters, host case folding, IPv4      *)
(* number forms, dot segments, tab/newline removal, default port of Ext        *)
(* schemes ...).  Write(u) is total over abstract URLs: the alternative form   *)
(* of a file URL is its path, of an ssh URL `[user@]host:path`.                *)
(* Statement: Parse(Write(Parse(s).url)) = Parse(s), TLC-checked on every      *)
(* generated in-domain string; Write and the round trip are judged on EVERY    *)
(* URL the implementation parses (Url_Trace).                                  *)
EXTENDS Bytes

COLON == 58  SLASH == 47  AT == 64  QMARK == 63  HASH == 35  LBR == 91  RBR == 93  PCT == 37  DOT == 46  DASH == 45
SEP == <<58, 47, 47>>                                   \* "://"
FILE == <<102,105,108,101>>   SSH == <<115,115,104>>   GIT == <<103,105,116>>
HTTP == <<104,116,116,112>>   HTTPS == <<104,116,116,112,115>>
SSHGIT == <<115,115,104,43,103,105,116>>   GITSSH == <<103,105,116,43,115,115,104>>

None == <<>>
Some(v) == <<v>>
NoUrl == [scheme |-> <<>>, user |-> None, password |-> None, host |-> None, port |-> None, path |-> <<>>, alt |-> FALSE]
Ok(u) == [ok |-> TRUE, url |-> u, err |-> ""]
Err(e) == [ok |-> FALSE, url |-> NoUrl, err |-> e]

\* ---------------------------------------------------------------- classification
Classify(s) ==
  LET i == FindSub(s, SEP) IN
  IF i # 0 THEN IF LowerSeq(SubSeq(s, 1, i - 1)) = FILE THEN "fileurl" ELSE "url"
  ELSE LET c == FindByte(s, COLON) IN
       IF c # 0 /\ ~HasByte(SubSeq(s, 1, c - 1), SLASH) THEN "scp" ELSE "local"

\* git's is_url(): the scheme must be alpha (alnum + - . after the first character)
SchemeChar(b, first) == IsAlpha(b) \/ (~first /\ (IsDigit(b) \/ b \in {43, 45, 46}))
SchemeOk(sc) == sc # <<>> /\ \A k \in 1..Len(sc) : SchemeChar(sc[k], k = 1)
\* connect.c: a string with "://" whose prefix is no scheme is not a URL for git (it falls back to
\* the scp / local rule); gix-url refuses it.  Not judged (the property is about URLs gitoxide parses).
GitClassify(s) ==
  LET i == FindSub(s, SEP) IN
  IF i # 0 /\ SchemeOk(SubSeq(s, 1, i - 1)) THEN "url"
  ELSE LET c == FindByte(s, COLON) IN
       IF c # 0 /\ ~HasByte(SubSeq(s, 1, c - 1), SLASH) THEN "scp" ELSE "local"

\* ---------------------------------------------------------------- the plain sub-language
PlainUserByte(b) == IsAlnum(b) \/ b \in {DOT, DASH, 95, 126}                  \* unreserved
PlainUser(u) == \A k \in 1..Len(u) : PlainUserByte(u[k])
LastLabel(h) == Drop(h, RFindByte(h, DOT))
IP4 == <<49,50,55,46,48,46,48,46,49>>          \* 127.0.0.1
IP6 == <<91,58,58,49,93>>                      \* [::1]
Numeric(lb) == \/ \A k \in 1..Len(lb) : IsDigit(lb[k])
               \/ Len(lb) >= 2 /\ lb[1] = 48 /\ lb[2] = 120 /\ \A k \in 3..Len(lb) : HexVal(lb[k]) >= 0
PlainHost(h) ==
  \/ h = IP4 \/ h = IP6
  \/ /\ h # <<>>
     /\ \A k \in 1..Len(h) : IsLower(h[k]) \/ IsDigit(h[k]) \/ h[k] \in {DOT, DASH}
     /\ LastLabel(h) # <<>> /\ ~Numeric(LastLabel(h))                         \* not "ends in a number" (IPv4 forms)
     /\ ~Contains(h, <<120,110,45,45>>)                                        \* no punycode labels
PlainPathByte(b) == IsAlnum(b) \/ b \in {DOT, DASH, 95, 126, SLASH, PCT, COLON, AT, 43, 61, 44}
DotSegment(c) == c \in { <<DOT>>, <<DOT, DOT>> }
PlainPath(p) ==
  /\ \A k \in 1..Len(p) : PlainPathByte(p[k])
  /\ \A k \in 1..Len(Split(p, SLASH)) : ~DotSegment(Split(p, SLASH)[k])
  /\ ~Contains(LowerSeq(p), <<PCT, 50, 101>>)                                  \* %2e is a dot too
IsDigits(d) == \A k \in 1..Len(d) : IsDigit(d[k])
RECURSIVE NatOf(_, _, _)
NatOf(d, i, acc) == IF i > Len(d) \/ acc > 99999 THEN acc ELSE NatOf(d, i + 1, acc * 10 + (d[i] - 48))
PlainPort(d) == d = <<>> \/ (IsDigits(d) /\ d[1] # 48 /\ Len(d) <= 5 /\ NatOf(d, 1, 0) <= 65535)

\* ---------------------------------------------------------------- authority = [user[:password]@]host[:port]
\* [ok, user, password, host, port(digits)] ; userinfo ends at the LAST '@', the password starts at
\* the first ':' of the userinfo, the port at the first ':' after the host (after ']' for [v6])
Authority(a) ==
  LET at == RFindByte(a, AT)
      ui == SubSeq(a, 1, at - 1)
      hp == Drop(a, at)
      uc == FindByte(ui, COLON)
      name == IF at = 0 THEN <<>> ELSE IF uc = 0 THEN ui ELSE SubSeq(ui, 1, uc - 1)
      pw == IF at = 0 \/ uc = 0 THEN None ELSE Some(Drop(ui, uc))
      close == IF hp # <<>> /\ hp[1] = LBR THEN FindByte(hp, RBR) ELSE 0
      pc == IF close # 0 THEN (IF Len(hp) > close /\ hp[close + 1] = COLON THEN close + 1 ELSE 0)
            ELSE FindByte(hp, COLON)
      host == IF pc = 0 THEN hp ELSE SubSeq(hp, 1, pc - 1)
      port == IF pc = 0 THEN <<>> ELSE Drop(hp, pc)
  IN [user |-> IF name = <<>> /\ pw = None THEN None ELSE Some(name),       \* gix-url: url_user()
      password |-> pw, host |-> host, port |-> port,
      plain |-> /\ PlainUser(name) /\ (pw # None => PlainUser(pw[1]))
                /\ PlainHost(host) /\ PlainPort(port)
                /\ (close # 0 => Len(hp) = close \/ hp[close + 1] = COLON)]

Special(sc) == sc \in {HTTP, HTTPS}
DefaultPort(sc) == IF sc = HTTP THEN 80 ELSE IF sc = HTTPS THEN 443 ELSE 0
SchemeName(sc) == IF sc \in {SSH, SSHGIT, GITSSH} THEN SSH ELSE sc             \* legacy aliases of ssh
\* schemes for which the WHATWG parser has special rules that this module does not describe
Undescribed(sc) == sc \in { <<102,116,112>>, <<119,115>>, <<119,115,115>> }    \* ftp ws wss

\* ---------------------------------------------------------------- Parse, by form
ParseLocal(s) == IF s = <<>> THEN Err("nopath")
                 ELSE Ok([NoUrl EXCEPT !.scheme = FILE, !.path = s, !.alt = TRUE])

ParseFileUrl(s) ==
  LET rest == Drop(s, FindSub(s, SEP) + 2)
      k == FindByte(rest, SLASH)
  IN IF k = 0 THEN Err("nopath")
     ELSE Ok([NoUrl EXCEPT !.scheme = FILE, !.path = Drop(rest, k - 1),
                           !.host = IF k = 1 THEN None ELSE Some(SubSeq(rest, 1, k - 1))])

ParseScp(s) ==
  LET c == FindByte(s, COLON)
      a == Authority(SubSeq(s, 1, c - 1))
      path == Drop(s, c)
  IN IF path = <<>> THEN Err("nopath")
     ELSE Ok([scheme |-> SSH, user |-> a.user, password |-> a.password, host |-> Some(a.host), port |-> None,
              path |-> path, alt |-> TRUE])

ParseUrl(s) ==
  LET i == FindSub(s, SEP)
      sc == LowerSeq(SubSeq(s, 1, i - 1))
      rest == Drop(s, i + 2)
      k == FindByte(rest, SLASH)
      auth == IF k = 0 THEN rest ELSE SubSeq(rest, 1, k - 1)
      path0 == IF k = 0 THEN <<>> ELSE Drop(rest, k - 1)
      path == IF path0 = <<>> /\ Special(sc) THEN <<SLASH>> ELSE path0
      a == Authority(auth)
      port == IF a.port = <<>> \/ NatOf(a.port, 1, 0) = DefaultPort(sc) THEN None ELSE Some(NatOf(a.port, 1, 0))
  IN IF ~SchemeOk(sc) THEN Err("scheme")
     ELSE IF path = <<>> /\ SchemeName(sc) \in {SSH, GIT} THEN Err("nopath")
     ELSE Ok([scheme |-> SchemeName(sc), user |-> a.user, password |-> a.password, host |-> Some(a.host),
              port |-> port, path |-> path, alt |-> FALSE])

Parse(s) == CASE Classify(s) = "local"   -> ParseLocal(s)
              [] Classify(s) = "fileurl" -> ParseFileUrl(s)
              [] Classify(s) = "scp"     -> ParseScp(s)
              [] OTHER                   -> ParseUrl(s)

\* where Parse is claimed to describe gix_url::parse (the rest is judged through Write / round trip only)
InDomain(s) ==
  CASE Classify(s) = "local" -> TRUE
    [] Classify(s) = "fileurl" -> \A k \in 1..Len(s) : s[k] >= 32 /\ s[k] < 127
    [] Classify(s) = "scp" ->
         LET c == FindByte(s, COLON) IN
         /\ Authority(SubSeq(s, 1, c - 1)).plain /\ ~HasByte(SubSeq(s, 1, c - 1), LBR)
         /\ \A k \in c..Len(s) : s[k] >= 32 /\ s[k] < 127
    [] OTHER ->
         LET i == FindSub(s, SEP)
             sc == LowerSeq(SubSeq(s, 1, i - 1))
             rest == Drop(s, i + 2)
             k == FindByte(rest, SLASH)
         IN /\ SchemeOk(sc) /\ ~Undescribed(sc)
            /\ Authority(IF k = 0 THEN rest ELSE SubSeq(rest, 1, k - 1)).plain
            /\ PlainPath(IF k = 0 THEN <<>> ELSE Drop(rest, k - 1))

\* ---------------------------------------------------------------- Write
AltForm(u) == u.alt /\ u.scheme \in {FILE, SSH}
Write(u) ==
  (IF AltForm(u) THEN <<>> ELSE u.scheme \o SEP)
  \o (IF u.host = None THEN <<>>
      ELSE (IF u.user = None THEN <<>>
            ELSE u.user[1] \o (IF u.password = None THEN <<>> ELSE <<COLON>> \o u.password[1]) \o <<AT>>)
           \o u.host[1])
  \o (IF u.port = None THEN <<>> ELSE <<COLON>> \o DecNat(u.port[1]))
  \o (IF u.alt /\ u.scheme = SSH THEN <<COLON>> ELSE <<>>)
  \o u.path

\* where `git fetch-pack --diag-url` can audit Classify/Parse
GitComparable(s) ==
  /\ InDomain(s) /\ Parse(s).ok
  /\ GitClassify(s) = (IF Classify(s) = "fileurl" THEN "url" ELSE Classify(s))
  /\ Parse(s).url.scheme \in {SSH, FILE}
  /\ Parse(s).url.password = None
  /\ (HasByte(s, AT) => Parse(s).url.user # None)                        \* git keeps an empty user name ("@h")
  /\ ~HasByte(s, PCT) /\ ~HasByte(s, 126) /\ ~HasByte(s, LBR)            \* git url-decodes, strips /~, unbrackets

\* the statement of C33 on the specification itself
RoundTrip(s) == Parse(s).ok => Parse(Write(Parse(s).url)) = Parse(s)
\* the plain sub-language is closed under parse-then-write
DomainClosed(s) == (InDomain(s) /\ Parse(s).ok) => InDomain(Write(Parse(s).url))
=============================================================================
