----------------------------- MODULE PktLine_MC -----------------------------
(* C29, the reader as a state machine over a *chunked* source.                *)
(*                                                                            *)
(* Transcribes gix-packetline's blocking StreamingPeekableIter (read_line,    *)
(* peek_line, reset; buf / peek_buf / is_done / stopped_at) and WithSidebands *)
(* (fill_buf + Read::read: pos, cap, progress handler) step by step.  The     *)
(* source hands out 1..MaxChunk bytes per `read`; read_exact loops.  A client *)
(* issues up to MaxCalls calls.  TLC explores every stream of Streams, every  *)
(* configuration, every call sequence and EVERY chunking, and checks          *)
(*   Refines  : the outcomes so far are exactly AbsRun(stream, cfg, calls) -  *)
(*              so they do not depend on how the bytes were split, peek then  *)
(*              read give the same line, data bands concatenate, progress is  *)
(*              in order (all of that is what AbsRun says);                   *)
(*   NoPanic  : no length prefix makes the reader index outside its buffer.   *)
(* Bug_NoLenCheck = TRUE is the reader of the pinned commit: the prefix is    *)
(* not compared with the buffer size before `split_at_mut` (fff1..ffff).      *)
(* Bug_EmptyProgress = TRUE: TextRef::from indexes d[len-1] of an empty       *)
(* progress/error band payload.                                               *)
EXTENDS PktLine, TLC

CONSTANTS MaxChunk, MaxCalls, MaxToks, ReadSizes, Bug_NoLenCheck, Bug_EmptyProgress

\* streams: token strings; with MaxData = 5 the longest legal prefix is 0009
LineTok == { <<48,48,48,53, 97>>,                       \* 0005 a
             <<48,48,48,54, 97,10>>,                    \* 0006 a LF
             <<48,48,48,57, 69,82,82,32, 101>>,         \* 0009 ERR e
             FLUSH, DELIM, REND,
             <<48,48,48,51>>, <<48,48,48,52>>,          \* 0003 0004
             <<48,48,48,97>>,                           \* 000a : one more than the buffer holds
             <<102,102,102,102>>,                       \* ffff
             <<48,48,48,103>>,                          \* 000g : not hex
             <<48,48,48,55, 97>> }                      \* 0007 a : truncated unless followed by more
BandTok == { <<48,48,48,55, 1, 97,98>>,                 \* band 1 "ab"
             <<48,48,48,54, 1, 99>>,                    \* band 1 "c"
             <<48,48,48,53, 1>>,                        \* band 1, empty
             <<48,48,48,55, 2, 112,10>>,                \* band 2 "p\n"
             <<48,48,48,54, 3, 101>>,                   \* band 3 "e"
             <<48,48,48,53, 2>>,                        \* band 2, empty
             <<48,48,48,53, 97>>,                       \* not a band
             FLUSH, DELIM,
             <<48,48,48,97>>,                           \* too long
             <<48,48,48,54, 1>> }                       \* truncated band 1
RECURSIVE Strs(_, _)
Strs(T, n) == IF n = 0 THEN { <<>> } ELSE LET P == Strs(T, n - 1) IN P \cup { s \o t : s \in P, t \in T }

Cfgs == { [delims |-> d, foe |-> f, h |-> FALSE, kind |-> "lines"] : d \in { {}, {"flush"}, {"flush", "delim"} }, f \in BOOLEAN }
        \cup { [delims |-> {"flush"}, foe |-> FALSE, h |-> hh, kind |-> "sb"] : hh \in BOOLEAN }

VARIABLES S, cfg,      \* the stream and the configuration of this behaviour
          rest,        \* bytes the source has not handed out yet
          rd,          \* reader: [buf, peek, done, stop, pos, cap]
          io,          \* in-flight read_exact: [pc, tgt, acc, need]; pc in idle hex data got panic
          res,         \* result of the last line fetch: [out, raw]
          cur,         \* the call being served
          calls, outs, \* history
          prog         \* progress messages delivered during the current call
vars == <<S, cfg, rest, rd, io, res, cur, calls, outs, prog>>

NoRes == [out |-> Out("", <<>>, "", ""), raw |-> <<>>]
Idle == [pc |-> "idle", tgt |-> "buf", acc |-> <<>>, need |-> 0]

Init == /\ cfg \in Cfgs
        /\ S \in Strs(IF cfg.kind = "sb" THEN BandTok ELSE LineTok, MaxToks)
        /\ rest = S
        /\ rd = [buf |-> <<>>, peek |-> <<>>, done |-> FALSE, stop |-> "", pos |-> 0, cap |-> 0]
        /\ io = Idle /\ res = NoRes /\ cur = [op |-> "", n |-> 0]
        /\ calls = <<>> /\ outs = <<>> /\ prog = <<>>

RawOfBuf(b) == Decode(b).line                   \* `crate::decode(&self.buf).expect("only valid data ...")`
LineOut(raw, stop) == Out(raw.k, raw.d, "", stop)

\* ---- StreamingPeekableIter::read_line up to the point where bytes are needed
\* (sets rd', io', res'; used by the read call and by the side-band loop)
InnerRead ==
  IF rd.done
  THEN /\ res' = [out |-> Out("none", <<>>, "", rd.stop), raw |-> <<>>]
       /\ io' = [Idle EXCEPT !.pc = "got"] /\ rd' = rd
  ELSE IF rd.peek # <<>>
  THEN /\ rd' = [rd EXCEPT !.buf = rd.peek, !.peek = <<>>]            \* mem::swap + clear
       /\ res' = [out |-> LineOut(RawOfBuf(rd.peek), rd.stop), raw |-> <<RawOfBuf(rd.peek)>>]
       /\ io' = [Idle EXCEPT !.pc = "got"]
  ELSE /\ io' = [pc |-> "hex", tgt |-> "buf", acc |-> <<>>, need |-> 4]
       /\ rd' = rd /\ res' = NoRes

Begin(c) == /\ io.pc = "idle" /\ Len(calls) < MaxCalls
            /\ calls' = Append(calls, c) /\ cur' = c /\ prog' = <<>>
            /\ UNCHANGED <<S, cfg, rest, outs>>

CallRead == /\ cfg.kind = "lines" /\ Begin([op |-> "read", n |-> 0]) /\ InnerRead

CallPeek ==
  /\ Begin([op |-> IF cfg.kind = "sb" THEN "sbpeek" ELSE "peek", n |-> 0])
  /\ IF rd.done
     THEN res' = [out |-> Out("none", <<>>, "", rd.stop), raw |-> <<>>] /\ io' = [Idle EXCEPT !.pc = "got"] /\ rd' = rd
     ELSE IF rd.peek # <<>>
     THEN res' = [out |-> LineOut(RawOfBuf(rd.peek), rd.stop), raw |-> <<>>] /\ io' = [Idle EXCEPT !.pc = "got"] /\ rd' = rd
     ELSE io' = [pc |-> "hex", tgt |-> "peek", acc |-> <<>>, need |-> 4] /\ rd' = rd /\ res' = NoRes

CallReset ==
  /\ cfg.kind = "lines" /\ Begin([op |-> "reset", n |-> 0])
  /\ rd' = [rd EXCEPT !.done = FALSE, !.stop = ""]
  /\ res' = [out |-> Out("ok", <<>>, "", ""), raw |-> <<>>] /\ io' = [Idle EXCEPT !.pc = "got"]

\* WithSidebands::read(buf of n bytes) = fill_buf, copy, consume
CallSbRead(n) ==
  /\ cfg.kind = "sb" /\ Begin([op |-> "sbread", n |-> n])
  /\ IF rd.pos < rd.cap
     THEN /\ res' = [out |-> Out("bytes", SubSeq(rd.buf, rd.pos + 1, Min2(rd.pos + n, rd.cap)), "", rd.stop), raw |-> <<>>]
          /\ rd' = [rd EXCEPT !.pos = Min2(rd.pos + n, rd.cap)]
          /\ io' = [Idle EXCEPT !.pc = "ret"]
     ELSE InnerRead

\* ---- the source: read_exact loops over reads of 1..MaxChunk bytes; 0 bytes = EOF
ClearTgt(r, tgt) == IF tgt = "peek" THEN [r EXCEPT !.peek = <<>>] ELSE [r EXCEPT !.buf = <<>>]

SrcRead ==
  /\ io.pc \in {"hex", "data"} /\ io.need > 0
  /\ IF rest = <<>>
     THEN /\ rd' = [ClearTgt(rd, io.tgt) EXCEPT !.stop = ""]
          /\ res' = [out |-> Out("ioerr", <<>>, "eof", ""), raw |-> <<>>]
          /\ io' = [Idle EXCEPT !.pc = "got"] /\ rest' = rest
     ELSE \E k \in 1..Min2(Min2(io.need, Len(rest)), MaxChunk) :
            /\ io' = [io EXCEPT !.acc = @ \o SubSeq(rest, 1, k), !.need = @ - k]
            /\ rest' = Drop(rest, k) /\ UNCHANGED <<rd, res>>
  /\ UNCHANGED <<S, cfg, cur, calls, outs, prog>>

\* read_line_inner_exhaustive after read_line_inner returned a line
LineDone(raw) ==
  IF raw.k \in cfg.delims
  THEN /\ rd' = [ClearTgt(rd, io.tgt) EXCEPT !.done = TRUE, !.stop = raw.k]
       /\ res' = [out |-> Out("none", <<>>, "", raw.k), raw |-> <<>>]
  ELSE IF cfg.foe /\ raw.k = "data" /\ IsErrLine(raw.d)
  THEN /\ rd' = [ClearTgt(rd, io.tgt) EXCEPT !.done = TRUE, !.stop = ""]
       /\ res' = [out |-> Out("ioerr", ErrMsg(raw.d), "errline", ""), raw |-> <<>>]
  ELSE /\ rd' = IF io.tgt = "peek" THEN [rd EXCEPT !.peek = io.acc, !.stop = ""] ELSE [rd EXCEPT !.buf = io.acc, !.stop = ""]
       /\ res' = [out |-> LineOut(raw, ""), raw |-> <<raw>>]

DecodeFailed(class) ==
  /\ rd' = [ClearTgt(rd, io.tgt) EXCEPT !.stop = ""]
  /\ res' = [out |-> Out("derr", <<>>, class, ""), raw |-> <<>>]

HexDone ==
  /\ io.pc = "hex" /\ io.need = 0
  /\ UNCHANGED <<S, cfg, rest, cur, calls, outs, prog>>
  /\ IF io.acc \in {FLUSH, DELIM, REND}
     THEN LineDone(Raw(Prefix(io.acc).k, <<>>)) /\ io' = [Idle EXCEPT !.pc = "got"]
     ELSE IF ~HexOk(io.acc) THEN DecodeFailed("hex") /\ io' = [Idle EXCEPT !.pc = "got"]
     ELSE IF HexNum(io.acc) = 3 THEN DecodeFailed("len3") /\ io' = [Idle EXCEPT !.pc = "got"]
     ELSE IF HexNum(io.acc) = 4 THEN DecodeFailed("empty") /\ io' = [Idle EXCEPT !.pc = "got"]
     ELSE IF HexNum(io.acc) - 4 > MaxData                       \* data_bytes.split_at_mut(num_data_bytes)
     THEN IF Bug_NoLenCheck THEN io' = [io EXCEPT !.pc = "panic"] /\ UNCHANGED <<rd, res>>
          ELSE DecodeFailed("toolong") /\ io' = [Idle EXCEPT !.pc = "got"]
     ELSE io' = [io EXCEPT !.pc = "data", !.need = HexNum(io.acc) - 4] /\ UNCHANGED <<rd, res>>

DataDone ==
  /\ io.pc = "data" /\ io.need = 0
  /\ LineDone(Raw("data", Drop(io.acc, 4))) /\ io' = [Idle EXCEPT !.pc = "got"]
  /\ UNCHANGED <<S, cfg, rest, cur, calls, outs, prog>>

\* ---- a fetch result is available: hand it to the caller, or run one turn of the side-band loop
Return(o) == /\ outs' = Append(outs, [o EXCEPT !.prog = prog]) /\ io' = Idle /\ res' = NoRes
             /\ UNCHANGED <<S, cfg, rest, cur, calls, prog>>

Got ==
  /\ io.pc = "got"
  /\ IF cur.op # "sbread"
     THEN /\ rd' = rd
          /\ Return(IF cur.op = "sbpeek" /\ res.out.k \in {"flush", "delim", "rend"} THEN [res.out EXCEPT !.k = "none"] ELSE res.out)
     ELSE LET o == res.out IN
          IF o.k = "none" THEN Return(Out("bytes", <<>>, "", rd.stop)) /\ rd' = [rd EXCEPT !.pos = 0, !.cap = 0]
          ELSE IF o.k = "derr" THEN Return(Out("ioerr", <<>>, DC(o.c), rd.stop)) /\ rd' = rd
          ELSE IF o.k = "ioerr" THEN Return(Out("ioerr", o.d, o.c, rd.stop)) /\ rd' = rd
          ELSE IF ~cfg.h
          THEN IF o.k = "data"
               THEN /\ rd' = [rd EXCEPT !.cap = 4 + Len(o.d), !.pos = Min2(4 + cur.n, 4 + Len(o.d))]
                    /\ Return(Out("bytes", SubSeq(rd.buf, 5, Min2(4 + cur.n, 4 + Len(o.d))), "", rd.stop))
               ELSE Return(Out("ioerr", <<>>, "nondata", rd.stop)) /\ rd' = rd
          ELSE IF o.k # "data" \/ ~BandOk(o.d) THEN Return(Out("ioerr", <<>>, "band", rd.stop)) /\ rd' = rd
          ELSE IF o.d[1] = 1
          THEN IF Len(o.d) = 1
               THEN /\ InnerRead /\ UNCHANGED <<S, cfg, rest, cur, calls, outs, prog>>      \* `continue`
               ELSE /\ rd' = [rd EXCEPT !.cap = 4 + Len(o.d), !.pos = Min2(5 + cur.n, 4 + Len(o.d))]
                    /\ Return(Out("bytes", SubSeq(rd.buf, 6, Min2(5 + cur.n, 4 + Len(o.d))), "", rd.stop))
          ELSE IF Bug_EmptyProgress /\ Len(o.d) = 1
          THEN io' = [io EXCEPT !.pc = "panic"] /\ UNCHANGED <<S, cfg, rest, rd, res, cur, calls, outs, prog>>
          ELSE /\ prog' = Append(prog, [err |-> (o.d[1] = 3), d |-> AsText(Tail(o.d))])
               /\ InnerRead /\ UNCHANGED <<S, cfg, rest, cur, calls, outs>>

\* the window was already filled: return straight away
Ret == /\ io.pc = "ret" /\ Return(res.out) /\ rd' = rd

Next == CallRead \/ CallPeek \/ CallReset \/ (\E n \in ReadSizes : CallSbRead(n))
        \/ SrcRead \/ HexDone \/ DataDone \/ Got \/ Ret
Spec == Init /\ [][Next]_vars

\* ---------------------------------------------------------------- properties
AbsCfg == [delims |-> cfg.delims, foe |-> cfg.foe, h |-> cfg.h]
NoPanic == io.pc # "panic"
Refines == io.pc = "idle" => outs = AbsRun(S, AbsCfg, calls)
\* while a call is in flight the finished ones still agree
RefinesPrefix == io.pc # "idle" => outs = AbsRun(S, AbsCfg, SubSeq(calls, 1, Len(outs)))
\* once idle the concrete reader is in the abstract state: it has taken exactly the bytes of the
\* lines it has seen from the source ("without consuming more than needed"), the same line is
\* held back by peek, the same window is left for the side-band reader
StateAgrees ==
  io.pc = "idle" =>
    LET a == AbsFinal(S, AbsCfg, calls) IN
    /\ Len(S) - Len(rest) = a.pos
    /\ rd.done = a.done /\ rd.stop = a.stop
    /\ (rd.peek = <<>>) = (a.peeked = <<>>)
    /\ (rd.peek # <<>> => RawOfBuf(rd.peek) = a.peeked[1])
    /\ (cfg.kind = "sb" => SubSeq(rd.buf, rd.pos + 1, rd.cap) = a.win)
=============================================================================
