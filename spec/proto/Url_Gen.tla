------------------------------- MODULE Url_Gen -------------------------------
(* Binding A for C33: URL strings are built grammar-wise from option sets      *)
(*   [scheme://] [userinfo@] [host] [:port] [:] [path]                          *)
(* so that URL form, file URLs, scp-like forms and local paths, with the       *)
(* separators in odd places, are all reached with few tokens.  For each string *)
(* TLC prints the form, whether Parse describes it (indomain), Parse's result  *)
(* and Write of the parsed URL; RoundTrip and DomainClosed are checked on it.  *)
EXTENDS Url, Json, TLC
CONSTANT Wide

T(s) == s
Schemes == { <<>>, SSH \o SEP, GIT \o SEP, HTTPS \o SEP, HTTP \o SEP, FILE \o SEP, <<70,73,76,69>> \o SEP,        \* FILE://
             SSHGIT \o SEP, <<101,120,116>> \o SEP }                                                              \* ext://
           \cup (IF Wide THEN { <<83,83,72>> \o SEP, <<97,32,98>> \o SEP, SEP, <<49,120>> \o SEP } ELSE {})        \* SSH:// "a b://" "://" 1x://
UserInfos == { <<>>, <<117,64>>, <<117,58,112,119,64>>, <<45,117,64>>, <<58,112,119,64>>, <<64>> }                \* u@ u:pw@ -u@ :pw@ @
             \cup (IF Wide THEN { <<117,32,120,64>>, <<117,64,118,64>> } ELSE {})                                  \* "u x@" u@v@
Hosts == { <<>>, <<104>>, <<97,46,98>>, <<45,111,120>>, IP4, IP6 }                                                \* h a.b -ox 127.0.0.1 [::1]
         \cup (IF Wide THEN { <<72>>, <<49,46,50>>, <<91,58,58,49>> } ELSE {})                                     \* H 1.2 [::1
Ports == { <<>>, <<58,50,50>>, <<58,56,48>>, <<58>> } \cup (IF Wide THEN { <<58,120>>, <<58,48,50,50>>, <<58,55,48,48,48,48>> } ELSE {})
Seps == { <<>>, <<58>> }
Paths == { <<>>, <<47>>, <<47,112>>, <<112>>, <<126,47,112>>, <<47,126,47,112>>, <<46,47,114>>, <<47,97,58,98>>,
           <<47,112,37,50,48,113>>, <<47,112,32,113>>, <<47,45,112>>, <<67,58,47,120>>, <<47,47,112>> }
         \cup (IF Wide THEN { <<46,46,47,117>>, <<47,112,47,46,46,47,113>>, <<47,112,63,113,35,102>>, <<47,112,9,113>>, <<47,195,169>>,
                              <<47,112,47>>, <<112,58,47,47,113>> } ELSE {})
\* / /p p ~/p /~/p ./r /a:b /p%20q "/p q" /-p C:/x //p    wide: ../u /p/../q /p?q#f "/p<TAB>q" /e-acute /p/ p://q

Selectors == Schemes \X UserInfos
CasesOf(sel) == { sel[1] \o sel[2] \o h \o po \o se \o pa : h \in Hosts, po \in Ports, se \in Seps, pa \in Paths }

VARIABLES sel, s, done
vars == <<sel, s, done>>
Init == sel \in Selectors /\ s = <<>> /\ done = FALSE
Pick == ~done /\ s' \in CasesOf(sel) /\ done' = TRUE /\ UNCHANGED sel
Spec == Init /\ [][Pick]_vars

InvRoundTrip == done => RoundTrip(s)
InvDomainClosed == done => DomainClosed(s)

Emit == done => PrintT(<<"CASE", ToJson([input    |-> s,
                                          form     |-> Classify(s),
                                          gitform  |-> GitClassify(s),
                                          indomain |-> InDomain(s),
                                          gitcmp   |-> GitComparable(s),
                                          ok       |-> Parse(s).ok,
                                          err      |-> Parse(s).err,
                                          url      |-> Parse(s).url,
                                          write    |-> IF Parse(s).ok THEN Write(Parse(s).url) ELSE <<>>])>>)
=============================================================================
