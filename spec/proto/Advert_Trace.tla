---------------------------- MODULE Advert_Trace ----------------------------
(* Bindings B and C for C30.  One event per conversation with a real          *)
(* `git upload-pack`:                                                         *)
(*   [version  : 0 | 1 | 2,                                                   *)
(*    server   : the abstract server (head, refs, tags) that was materialised,*)
(*    prefixes : the ref-prefix arguments sent (v2), unborn : BOOLEAN,        *)
(*    wire     : the pkt-line payloads git sent (advertisement resp. ls-refs  *)
(*               response, up to the flush packet),                           *)
(*    ok, reported : what gitoxide's handshake (+ ls_refs) returned]          *)
(* EventOk (B): what gitoxide reported is the specification's reading of the  *)
(*   bytes git sent.                                                          *)
(* AuditOk (C): the bytes git sent are what the specification says a server   *)
(*   in that state advertises (cfg Advert_Audit) - a rejection there is an    *)
(*   error of the specification, never of gitoxide.                           *)
EXTENDS Advert, TraceIO

VARIABLE l
Init == l = 1
Next == l <= NRec /\ l' = l + 1
Spec == Init /\ [][Next]_l

WireRefs(r) == IF r.version = 2 THEN ReadV2(DecodeV2(r.wire)) ELSE ReadV0(DecodeV0(r.wire))

Judge(r) == r.ok /\ SameMultiset(r.reported, WireRefs(r))

Audit(r) ==
  IF r.version = 2
  THEN LET a == DecodeV2(r.wire)
           b == AdvertV2(r.server, r.prefixes, r.unborn)
       IN Len(a) = Len(b) /\ SeqSet(a) = SeqSet(b) /\ (r.prefixes = <<>> => a = b)
  ELSE DecodeV0(r.wire) = AdvertV0(r.server)

EventOk == l <= NRec => (Judge(Rec[l]) \/ PrintT(<<"REJECT", l>>))
AuditOk == l <= NRec => (Audit(Rec[l]) \/ PrintT(<<"REJECT", l>>))
=============================================================================
