SPECIFICATION Spec
CONSTANTS
  MaxData = 65516
  LineToks = 2
  BandToks = 2
  Big = TRUE
INVARIANTS
  InvRoundTrip
  InvNoEarlyComplete
  InvDemuxAgrees
  Emit
CHECK_DEADLOCK FALSE
