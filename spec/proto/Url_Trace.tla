------------------------------- MODULE Url_Trace -------------------------------
(* Binding B (and C) for C33.  Events [ev, input, ok, url, written, back_ok,   *)
(* back_equal, back, git]:                                                      *)
(*  ev "rt":  gix_url::parse(input) gave ok/url; to_bstring gave `written`;    *)
(*            parse(written) gave back_ok / back (back_equal: Rust's ==)       *)
(*  ev "git": `git fetch-pack --diag-url input` reported git = [protocol,      *)
(*            userhost, port, path] (audit of Classify / Parse)                *)
EXTENDS Url, TraceIO

VARIABLE l
Init == l = 1
Next == l <= NRec /\ l' = l + 1
Spec == Init /\ [][Next]_l

JudgeRt(r) ==
  /\ InDomain(r.input) => /\ r.ok = Parse(r.input).ok                      \* Parse describes the plain language
                          /\ (r.ok => r.url = Parse(r.input).url)
  /\ r.ok => /\ r.written = Write(r.url)                                   \* serialisation is Write, for every URL
             /\ r.back_ok /\ r.back = r.url /\ r.back_equal                 \* and it parses back to an equal URL

\* git prints user@host (or host:port for git://) as one string
UserHost(u) == (IF u.user = None THEN <<>> ELSE u.user[1] \o <<AT>>) \o (IF u.host = None THEN <<>> ELSE u.host[1])
JudgeGit(r) ==
  GitComparable(r.input) =>
    LET u == Parse(r.input).url IN
    /\ r.git.protocol = (IF u.scheme = SSH THEN "ssh" ELSE "file")
    /\ r.git.path = u.path
    /\ r.git.userhost = UserHost(u)
    /\ r.git.port = (IF u.port = None THEN <<>> ELSE DecNat(u.port[1]))

Judge(r) == CASE r.ev = "rt" -> JudgeRt(r) [] r.ev = "git" -> JudgeGit(r) [] OTHER -> FALSE
EventOk == l <= NRec => (Judge(Rec[l]) \/ PrintT(<<"REJECT", l>>))
=============================================================================
