------------------------------- MODULE Advert -------------------------------
(* C30.  What a git server tells a client about its references, and what the  *)
(* client must understand.                                                    *)
(*                                                                            *)
(* A server is                                                                *)
(*   head : [k : {"sym","oid"}, v]      HEAD is a symbolic ref or detached     *)
(*   refs : sequence of [name, k : {"oid","sym"}, v]   (names are distinct)    *)
(*   tags : sequence of [id, target]    the annotated-tag objects              *)
(* names, object ids (40 hex digits) are byte sequences; <<>> stands for       *)
(* "absent".  SHA-1 is uninterpreted: ids are data.                            *)
(*                                                                            *)
(* Three layers, all from git's side of the protocol                          *)
(* (Documentation/gitprotocol-pack.txt, gitprotocol-v2.txt, upload-pack.c,    *)
(* ls-refs.c):                                                                *)
(*   AdvertV0 / AdvertV2   what the server says, as abstract lines            *)
(*   DecodeV0 / DecodeV2   the same lines read back from the wire bytes        *)
(*   ReadV0 / ReadV2       the references a client must report for them        *)
(*                           (gix_protocol::handshake::Ref, per its docs)      *)
EXTENDS Bytes, TLC

None == <<>>

SP == 32
LF == 10
NUL == 0
COLON == 58
S_HEAD == <<72,69,65,68>>                                      \* HEAD
S_PEELMARK == <<94,123,125>>                                   \* ^{}
S_SYMREFCAP == <<115,121,109,114,101,102,61>>                  \* symref=
S_SYMTARGET == <<115,121,109,114,101,102,45,116,97,114,103,101,116,58>>   \* symref-target:
S_PEELED == <<112,101,101,108,101,100,58>>                     \* peeled:
S_UNBORN == <<117,110,98,111,114,110>>                         \* unborn
S_VERSION == <<118,101,114,115,105,111,110,32>>                \* "version "
SYMREF_MAXDEPTH == 5

---------------------------------------------------------------------------
(* the server's reference store *)

HasRef(srv, name) == \E i \in 1..Len(srv.refs) : srv.refs[i].name = name
RefOf(srv, name) == srv.refs[CHOOSE i \in 1..Len(srv.refs) : srv.refs[i].name = name]

IsTag(srv, o) == \E i \in 1..Len(srv.tags) : srv.tags[i].id = o
TagTarget(srv, o) == srv.tags[CHOOSE i \in 1..Len(srv.tags) : srv.tags[i].id = o].target

\* peel an object id through annotated tags (tags are finite and acyclic: ids are hashes)
RECURSIVE PeelObj(_, _)
PeelObj(srv, o) == IF IsTag(srv, o) THEN PeelObj(srv, TagTarget(srv, o)) ELSE o
\* the `peeled` attribute: absent unless the object is an annotated tag
PeeledOf(srv, o) == IF IsTag(srv, o) THEN PeelObj(srv, o) ELSE None

\* resolve_ref_unsafe: follow symbolic refs; result [ok, name, oid] where name is the last
\* name reached (for a dangling chain: the name that does not exist)
RECURSIVE ResolveFrom(_, _, _)
ResolveFrom(srv, name, depth) ==
  IF depth > SYMREF_MAXDEPTH THEN [ok |-> FALSE, name |-> name, oid |-> None, broken |-> TRUE]
  ELSE IF ~HasRef(srv, name) THEN [ok |-> FALSE, name |-> name, oid |-> None, broken |-> FALSE]
  ELSE LET r == RefOf(srv, name) IN
       IF r.k = "oid" THEN [ok |-> TRUE, name |-> name, oid |-> r.v, broken |-> FALSE]
       ELSE ResolveFrom(srv, r.v, depth + 1)

ResolveRef(srv, name) == ResolveFrom(srv, name, 0)

ResolveHead(srv) ==
  IF srv.head.k = "oid" THEN [ok |-> TRUE, name |-> S_HEAD, oid |-> srv.head.v, broken |-> FALSE]
  ELSE ResolveFrom(srv, srv.head.v, 1)

IsSymRef(srv, name) == HasRef(srv, name) /\ RefOf(srv, name).k = "sym"

\* the names under refs/ that resolve, in git's (bytewise) order
NameLess(a, b) == Less(a, b)
ResolvableNames(srv) ==
  LET all == [i \in 1..Len(srv.refs) |-> srv.refs[i].name]
  IN SortSeq(SelectSeq(all, LAMBDA n : ResolveRef(srv, n).ok), NameLess)

---------------------------------------------------------------------------
(* Protocol v0 / v1: upload-pack sends HEAD (if it resolves) and then every    *)
(* resolvable ref in name order; an annotated tag is followed by a `^{}` line  *)
(* carrying the fully peeled id; the capability list after the first line's    *)
(* NUL names HEAD's final target as symref=HEAD:<target> if HEAD is symbolic.  *)
(* Abstract line: [name, oid, peeled]; symrefs: sequence of [name, target].    *)

LineOf(srv, name, oid) == [name |-> name, oid |-> oid, peeled |-> PeeledOf(srv, oid)]

AdvertV0(srv) ==
  LET h == ResolveHead(srv)
      names == ResolvableNames(srv)
  IN [lines   |-> (IF h.ok THEN <<LineOf(srv, S_HEAD, h.oid)>> ELSE <<>>)
                  \o [i \in 1..Len(names) |-> LineOf(srv, names[i], ResolveRef(srv, names[i]).oid)],
      symrefs |-> IF h.ok /\ srv.head.k = "sym" THEN <<[name |-> S_HEAD, target |-> h.name]>> ELSE <<>>]

\* What the client must report (gix_protocol::handshake::Ref):
\*   Symbolic {full_ref_name, target, tag: the annotated tag if the ref points to one, object: the
\*             object the target ultimately points to}
\*   Peeled {full_ref_name, tag, object} / Direct {full_ref_name, object} / Unborn {full_ref_name, target}
MkRef(k, name, target, tag, object) == [k |-> k, name |-> name, target |-> target, tag |-> tag, object |-> object]

SymTargetOf(symrefs, name) ==
  IF \E i \in 1..Len(symrefs) : symrefs[i].name = name
  THEN symrefs[CHOOSE i \in 1..Len(symrefs) : symrefs[i].name = name].target
  ELSE None

ReadLine(name, oid, target, peeled) ==
  IF target # None
  THEN MkRef("Symbolic", name, target, IF peeled # None THEN oid ELSE None, IF peeled # None THEN peeled ELSE oid)
  ELSE IF peeled # None THEN MkRef("Peeled", name, None, oid, peeled)
  ELSE MkRef("Direct", name, None, None, oid)

ReadV0(adv) ==
  [i \in 1..Len(adv.lines) |->
     LET e == adv.lines[i] IN ReadLine(e.name, e.oid, SymTargetOf(adv.symrefs, e.name), e.peeled)]

---------------------------------------------------------------------------
(* Protocol v2, `ls-refs` with the arguments `symrefs` and `peel` (always sent *)
(* by the client under test), optionally `unborn`, and ref-prefix arguments.   *)
(* Abstract line: [name, oid | "unborn", target, peeled].                      *)

MatchesPrefix(name, prefixes) ==
  prefixes = <<>> \/ \E i \in 1..Len(prefixes) : StartsWith(name, prefixes[i])

AdvertV2(srv, prefixes, unborn) ==
  LET h == ResolveHead(srv)
      headLine ==
        IF ~MatchesPrefix(S_HEAD, prefixes) THEN <<>>
        ELSE IF h.ok
        THEN <<[name |-> S_HEAD, oid |-> h.oid,
                target |-> IF srv.head.k = "sym" THEN h.name ELSE None, peeled |-> PeeledOf(srv, h.oid)]>>
        ELSE IF unborn /\ srv.head.k = "sym" /\ ~h.broken
        THEN <<[name |-> S_HEAD, oid |-> S_UNBORN, target |-> h.name, peeled |-> None]>>
        ELSE <<>>
      names == SelectSeq(ResolvableNames(srv), LAMBDA n : MatchesPrefix(n, prefixes))
  IN headLine \o
     [i \in 1..Len(names) |->
        LET r == ResolveRef(srv, names[i]) IN
        [name |-> names[i], oid |-> r.oid,
         target |-> IF IsSymRef(srv, names[i]) THEN r.name ELSE None,
         peeled |-> PeeledOf(srv, r.oid)]]

ReadV2(lines) ==
  [i \in 1..Len(lines) |->
     LET e == lines[i] IN
     IF e.oid = S_UNBORN THEN MkRef("Unborn", e.name, e.target, None, None)
     ELSE ReadLine(e.name, e.oid, e.target, e.peeled)]

ExpectedV0(srv) == ReadV0(AdvertV0(srv))
ExpectedV2(srv, prefixes, unborn) == ReadV2(AdvertV2(srv, prefixes, unborn))

---------------------------------------------------------------------------
(* The wire.  `lines` is the sequence of pkt-line payloads up to the flush     *)
(* packet (framing is C29's subject).                                         *)

StripLF(s) == IF s # <<>> /\ Last(s) = LF THEN Front(s) ELSE s

\* "<oid> SP <name>" -> [oid, name]; the oid is everything before the first space
OidAndName(s) ==
  LET p == FindByte(s, SP) IN
  IF p = 0 THEN [oid |-> s, name |-> None] ELSE [oid |-> SubSeq(s, 1, p - 1), name |-> Drop(s, p)]

\* fold the ^{} lines into the entry they follow
RECURSIVE FoldV0(_, _, _)
FoldV0(ents, i, acc) ==
  IF i > Len(ents) THEN acc
  ELSE LET e == ents[i] IN
       IF EndsWith(e.name, S_PEELMARK) /\ acc # <<>> /\
          Last(acc).name = SubSeq(e.name, 1, Len(e.name) - 3) /\ Last(acc).peeled = None
       THEN FoldV0(ents, i + 1, [acc EXCEPT ![Len(acc)].peeled = e.oid])
       ELSE FoldV0(ents, i + 1, Append(acc, [name |-> e.name, oid |-> e.oid, peeled |-> None]))

CapSymrefs(caps) ==
  LET words == Split(caps, SP)
      sel == SelectSeq(words, LAMBDA w : StartsWith(w, S_SYMREFCAP))
  IN [i \in 1..Len(sel) |->
        LET v == Drop(sel[i], Len(S_SYMREFCAP))
            c == FindByte(v, COLON)
        IN [name |-> SubSeq(v, 1, c - 1), target |-> Drop(v, c)]]

\* v0: first line "<oid> <name> NUL <capabilities>"; v1: preceded by "version 1"
DecodeV0(lines0) ==
  LET lines == IF lines0 # <<>> /\ StartsWith(lines0[1], S_VERSION) THEN Tail(lines0) ELSE lines0 IN
  IF lines = <<>> THEN [lines |-> <<>>, symrefs |-> <<>>]
  ELSE LET z == FindByte(lines[1], NUL)
           first == IF z = 0 THEN StripLF(lines[1]) ELSE SubSeq(lines[1], 1, z - 1)
           caps == IF z = 0 THEN <<>> ELSE StripLF(Drop(lines[1], z))
           ents == [i \in 1..Len(lines) |-> OidAndName(IF i = 1 THEN first ELSE StripLF(lines[i]))]
       IN [lines |-> FoldV0(ents, 1, <<>>), symrefs |-> CapSymrefs(caps)]

AttrOf(words, key) ==
  LET sel == SelectSeq(words, LAMBDA w : StartsWith(w, key))
  IN IF sel = <<>> THEN None ELSE Drop(sel[1], Len(key))

\* v2 ls-refs response line: "<oid|unborn> SP <name> [SP symref-target:<t>] [SP peeled:<oid>]"
DecodeV2(lines) ==
  [i \in 1..Len(lines) |->
     LET w == Split(StripLF(lines[i]), SP) IN
     [name |-> IF Len(w) >= 2 THEN w[2] ELSE None, oid |-> w[1],
      target |-> AttrOf(Drop(w, 2), S_SYMTARGET), peeled |-> AttrOf(Drop(w, 2), S_PEELED)]]

SeqSet(s) == {s[i] : i \in 1..Len(s)}
SameMultiset(a, b) == Len(a) = Len(b) /\ SeqSet(a) = SeqSet(b) /\ Cardinality(SeqSet(a)) = Len(a)
=============================================================================
