SPECIFICATION Spec
INVARIANT AuditOk
CHECK_DEADLOCK FALSE
