------------------------------ MODULE ArgSafety ------------------------------
(* C34.  What the ssh and local transports may put on the command line of the  *)
(* program they spawn, for a URL [user, host, port, path] (byte strings; <<>> /  *)
(* <<x>> for optional values).                                                  *)
(*                                                                              *)
(*  LooksLikeOption(s)   s begins with '-'                                      *)
(*  ShQuote(s)           s wrapped in single quotes, ' and ! as '\'' and '\!'   *)
(*  ShWords(c)           POSIX sh word splitting of a command line made of      *)
(*                       plain characters, single-quoted parts and backslash    *)
(*                       escapes ([ok, words]; ok = FALSE if an unquoted shell  *)
(*                       metacharacter or an unterminated quote occurs)         *)
(*  QuoteLaw(s)          ShWords("cmd " ++ ShQuote(s)) = <<"cmd", s>>           *)
(*  Invocation(kind, v2, u)   the argv of the ssh client (after the program     *)
(*                       name) or the refusal; kinds ssh plink putty            *)
(*                       tortoiseplink simple, and "auto" (kind detected by a   *)
(*                       `-G host` probe, which is itself an invocation)        *)
(*  Safe(argvs, u)       what the property demands of ANY observed invocation:  *)
(*                       fixed options, then [user@]host not option-like, then  *)
(*                       the service and ONE argument that the remote shell     *)
(*                       splits into exactly <<service, ShellPath(u)>>          *)
(*  LocalSafe            the local transport hands the path as one argument     *)
(*                       that is not option-like                                *)
EXTENDS Bytes

DASH == 45  SQ == 39  BANG == 33  BSL == 92  SP == 32  TAB == 9  NL == 10  AT == 64  SLASH == 47  TILDE == 126
None == <<>>

LooksLikeOption(s) == s # <<>> /\ s[1] = DASH

\* ---------------------------------------------------------------- shell quoting
RECURSIVE QuoteFrom(_, _, _)
QuoteFrom(s, i, acc) ==
  IF i > Len(s) THEN Append(acc, SQ)
  ELSE IF s[i] \in {SQ, BANG} THEN QuoteFrom(s, i + 1, acc \o <<SQ, BSL, s[i], SQ>>)
  ELSE QuoteFrom(s, i + 1, Append(acc, s[i]))
ShQuote(s) == QuoteFrom(s, 1, <<SQ>>)

\* POSIX sh (XCU 2.2, 2.6.5): unquoted blanks/newline separate words; '...' keeps everything; \c keeps c
\* (\newline is removed); every other special character would be interpreted -> not ok.
IsBlank(b) == b \in {SP, TAB, NL}
ShSpecial(b) == b \in {36, 96, 34, 59, 38, 124, 60, 62, 40, 41, 42, 63, 91, 35, 126, 123, 125, 61}   \* $ ` " ; & | < > ( ) * ? [ # ~ { } =
RECURSIVE WordsFrom(_, _, _, _, _, _)
\* c: command line, i: index, q: inside single quotes, w: current word, st: word started, acc: words
WordsFrom(c, i, q, w, st, acc) ==
  IF i > Len(c) THEN [ok |-> ~q, words |-> IF st THEN Append(acc, w) ELSE acc]
  ELSE IF q THEN IF c[i] = SQ THEN WordsFrom(c, i + 1, FALSE, w, TRUE, acc)
                 ELSE WordsFrom(c, i + 1, TRUE, Append(w, c[i]), TRUE, acc)
  ELSE IF c[i] = SQ THEN WordsFrom(c, i + 1, TRUE, w, TRUE, acc)
  ELSE IF IsBlank(c[i]) THEN WordsFrom(c, i + 1, FALSE, <<>>, FALSE, IF st THEN Append(acc, w) ELSE acc)
  ELSE IF c[i] = BSL THEN IF i = Len(c) THEN [ok |-> FALSE, words |-> acc]
                          ELSE IF c[i + 1] = NL THEN WordsFrom(c, i + 2, FALSE, w, st, acc)
                          ELSE WordsFrom(c, i + 2, FALSE, Append(w, c[i + 1]), TRUE, acc)
  ELSE IF ShSpecial(c[i]) THEN [ok |-> FALSE, words |-> acc]
  ELSE WordsFrom(c, i + 1, FALSE, Append(w, c[i]), TRUE, acc)
ShWords(c) == WordsFrom(c, 1, FALSE, <<>>, FALSE, <<>>)

CMD == <<99, 109, 100>>                                  \* "cmd"
QuoteLaw(s) == ShWords(CMD \o <<SP>> \o ShQuote(s)) = [ok |-> TRUE, words |-> <<CMD, s>>]

\* ---------------------------------------------------------------- the URL as the transport sees it
\* git and gitoxide hand "/~..." to the remote shell as "~..." (so that it expands the home directory)
ShellPath(p) ==
  IF Len(p) >= 2 /\ p[1] = SLASH /\ p[2] = TILDE
  THEN LET segs == Split(Drop(p, 1), SLASH) IN segs[1] \o <<SLASH>> \o Join(Tail(segs), <<SLASH>>)
  ELSE p
IsWs(b) == b \in {SP, TAB, NL, 11, 12, 13}
RECURSIVE TrimLeft(_)
TrimLeft(s) == IF s # <<>> /\ IsWs(s[1]) THEN TrimLeft(Tail(s)) ELSE s

UPLOAD == <<103,105,116,45,117,112,108,111,97,100,45,112,97,99,107>>       \* git-upload-pack
SENDENV == <<83,101,110,100,69,110,118,61,71,73,84,95,80,82,79,84,79,67,79,76>>   \* SendEnv=GIT_PROTOCOL
DashO == <<45, 111>>  DashP == <<45, 80>>  DashG == <<45, 71>>  Batch == <<45, 98, 97, 116, 99, 104>>

UserHost(u) == IF u.user = None THEN u.host[1] ELSE u.user[1] \o <<AT>> \o u.host[1]

\* reasons to refuse (any implementation must refuse when one holds, and may only refuse for one)
Reasons(kind, u) ==
  (IF u.user # None /\ LooksLikeOption(u.user[1]) THEN {"user"} ELSE {})
  \cup (IF LooksLikeOption(u.host[1]) /\ (u.user = None \/ kind = "auto") THEN {"host"} ELSE {})
  \cup (IF LooksLikeOption(ShellPath(u.path)) THEN {"path"} ELSE {})
\* refusing is also allowed (not demanded) for these
MayReasons(kind, u) ==
  Reasons(kind, u)
  \cup (IF kind = "simple" /\ u.port # None THEN {"port"} ELSE {})                    \* no way to pass a port
  \cup (IF LooksLikeOption(TrimLeft(ShellPath(u.path))) THEN {"path"} ELSE {})        \* " -x": refused as well

Options(kind, v2, u) ==
  CASE kind \in {"ssh", "auto"} -> (IF v2 THEN <<DashO, SENDENV>> ELSE <<>>)
                                   \o (IF u.port = None THEN <<>> ELSE << <<45, 112>> \o DecNat(u.port[1]) >>)       \* -p22
    [] kind \in {"plink", "putty"} -> (IF u.port = None THEN <<>> ELSE <<DashP, DecNat(u.port[1])>>)
    [] kind = "tortoiseplink" -> <<Batch>> \o (IF u.port = None THEN <<>> ELSE <<DashP, DecNat(u.port[1])>>)
    [] OTHER -> <<>>

\* the invocations (argv without the program name) in order; the connection itself is refused when
\* MayReasons holds (the `-G host` probe of auto-detection happens before user and path are looked at)
Invocation(kind, v2, u) ==
  (IF kind = "auto" /\ ~LooksLikeOption(u.host[1]) THEN << <<DashG, u.host[1]>> >> ELSE <<>>)
  \o (IF MayReasons(kind, u) # {} THEN <<>>
      ELSE << Options(kind, v2, u) \o <<UserHost(u), UPLOAD, ShQuote(ShellPath(u.path))>> >>)

\* ---------------------------------------------------------------- the demand on observed invocations
IsOptionArg(a, kind, u) ==      \* an argument that is an option of the client program by construction
  \/ a \in {DashO, SENDENV, DashP, DashG, Batch}
  \/ (u.port # None /\ a \in { <<45, 112>> \o DecNat(u.port[1]), DecNat(u.port[1]) })

SafeOne(argv, kind, u) ==
  LET n == Len(argv) IN
  \/ /\ n = 2 /\ argv[1] = DashG /\ argv[2] = u.host[1] /\ ~LooksLikeOption(argv[2])           \* the probe
  \/ /\ n >= 3
     /\ \A i \in 1..(n - 3) : IsOptionArg(argv[i], kind, u)
     /\ argv[n - 2] = UserHost(u) /\ ~LooksLikeOption(argv[n - 2])
     /\ argv[n - 1] = UPLOAD
     /\ ~LooksLikeOption(argv[n])
     \* ssh joins its arguments with blanks and the remote shell splits them again
     /\ ShWords(argv[n - 1] \o <<SP>> \o argv[n]) = [ok |-> TRUE, words |-> <<UPLOAD, ShellPath(u.path)>>]
     /\ ~LooksLikeOption(ShellPath(u.path))
Safe(argvs, kind, u) == \A i \in 1..Len(argvs) : SafeOne(argvs[i], kind, u)

\* local transport: the service program gets the path as its only argument, verbatim
LocalReasons(p) == IF LooksLikeOption(p) THEN {"path"} ELSE {}
LocalMayReasons(p) == IF LooksLikeOption(TrimLeft(p)) THEN {"path"} ELSE {}
LocalSafe(argvs, p) == \A i \in 1..Len(argvs) : argvs[i] = <<p>> /\ ~LooksLikeOption(p)

\* design-level statement: what Invocation builds is Safe, and it refuses whenever it must
InvocationSafe(kind, v2, u) ==
  /\ Safe(Invocation(kind, v2, u), kind, u)
  /\ (Reasons(kind, u) # {} => \A i \in 1..Len(Invocation(kind, v2, u)) : Len(Invocation(kind, v2, u)[i]) = 2)   \* at most the probe
=============================================================================
