SPECIFICATION Spec
CONSTANTS
  MaxData = 5
  MaxChunk = 3
  MaxCalls = 3
  MaxToks = 2
  ReadSizes = {1, 4}
  Bug_NoLenCheck = FALSE
  Bug_EmptyProgress = FALSE
INVARIANTS
  NoPanic
  Refines
  RefinesPrefix
  StateAgrees
CHECK_DEADLOCK FALSE
