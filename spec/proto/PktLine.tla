------------------------------- MODULE PktLine -------------------------------
(* C29.  The pkt-line wire format (gitprotocol-common(5)) and the behaviour of *)
(* a pkt-line reader, independent of how the transport splits the bytes.       *)
(*                                                                             *)
(*  pkt-line   = 4 hex digits giving the total length (prefix included)        *)
(*               followed by length-4 payload bytes; 0000 flush-pkt,           *)
(*               0001 delim-pkt, 0002 response-end-pkt; 0003 is malformed;     *)
(*               0004 (empty payload) is refused by gitoxide on both sides;    *)
(*               payload <= MaxData (65516) bytes, i.e. prefix <= fff0.        *)
(*  Encode(l)  for data / text (LF appended) / ERR / side-band 1..3 / specials *)
(*  Decode(b)  complete(line, used) | incomplete(need) | err(class) for EVERY  *)
(*             byte string b                                                   *)
(*  reader     abstract semantics of read_line / peek_line / reset and of the  *)
(*             side-band demultiplexer as functions of (stream, position):     *)
(*             AbsCall, AbsRun.  PktLine_MC refines it with a byte-chunked     *)
(*             source and TLC shows the outcomes do not depend on chunking.    *)
EXTENDS Bytes

CONSTANT MaxData            \* 65516 for the real format; small in PktLine_MC

MaxLine == MaxData + 4
LF == 10
ERRP  == <<69, 82, 82, 32>>                     \* "ERR "
FLUSH == <<48, 48, 48, 48>>
DELIM == <<48, 48, 48, 49>>
REND  == <<48, 48, 48, 50>>

Hex4(n) == <<HexDigit(n \div 4096), HexDigit((n \div 256) % 16), HexDigit((n \div 16) % 16), HexDigit(n % 16)>>
HexOk(p) == \A i \in 1..4 : HexVal(p[i]) >= 0                         \* both cases, like git's hexval
HexNum(p) == HexVal(p[1]) * 4096 + HexVal(p[2]) * 256 + HexVal(p[3]) * 16 + HexVal(p[4])

\* ---------------------------------------------------------------- encoding
\* abstract lines: [t, ch, d]; t in data text err band flush delim rend; ch = band (1..3) else 0
Framed(prefix, d, suffix) ==
  LET n == Len(prefix) + Len(d) + Len(suffix) IN
  IF n > MaxData THEN [ok |-> FALSE, err |-> "toolong", bytes |-> <<>>]
  ELSE IF d = <<>> THEN [ok |-> FALSE, err |-> "empty", bytes |-> <<>>]
  ELSE [ok |-> TRUE, err |-> "", bytes |-> Hex4(n + 4) \o prefix \o d \o suffix]
Special(b) == [ok |-> TRUE, err |-> "", bytes |-> b]

Encode(l) == CASE l.t = "data"  -> Framed(<<>>, l.d, <<>>)
               [] l.t = "text"  -> Framed(<<>>, l.d, <<LF>>)
               [] l.t = "err"   -> Framed(ERRP, l.d, <<>>)
               [] l.t = "band"  -> Framed(<<l.ch>>, l.d, <<>>)
               [] l.t = "flush" -> Special(FLUSH)
               [] l.t = "delim" -> Special(DELIM)
               [] l.t = "rend"  -> Special(REND)
               [] OTHER -> [ok |-> FALSE, err |-> "kind", bytes |-> <<>>]

\* ---------------------------------------------------------------- decoding
\* raw decoded lines: [k, d]; k in data flush delim rend
Raw(k, d) == [k |-> k, d |-> d]
NoRaw == Raw("none", <<>>)
DComplete(line, used) == [s |-> "complete",   line |-> line,  used |-> used, need |-> 0, err |-> ""]
DIncomplete(need)     == [s |-> "incomplete", line |-> NoRaw, used |-> 0,    need |-> need, err |-> ""]
DErr(class)           == [s |-> "err",        line |-> NoRaw, used |-> 0,    need |-> 0, err |-> class]

\* what a 4-byte prefix means: [c |-> "line", k] | [c |-> "err", e] | [c |-> "want", n] (n = total length)
Prefix(p) ==
  IF p = FLUSH THEN [c |-> "line", k |-> "flush", e |-> "", n |-> 4]
  ELSE IF p = DELIM THEN [c |-> "line", k |-> "delim", e |-> "", n |-> 4]
  ELSE IF p = REND THEN [c |-> "line", k |-> "rend", e |-> "", n |-> 4]
  ELSE IF ~HexOk(p) THEN [c |-> "err", k |-> "", e |-> "hex", n |-> 0]
  ELSE IF HexNum(p) < 4 THEN [c |-> "err", k |-> "", e |-> "len3", n |-> 0]
  ELSE IF HexNum(p) = 4 THEN [c |-> "err", k |-> "", e |-> "empty", n |-> 0]
  ELSE IF HexNum(p) > MaxLine THEN [c |-> "err", k |-> "", e |-> "toolong", n |-> 0]
  ELSE [c |-> "want", k |-> "", e |-> "", n |-> HexNum(p)]

Decode(b) ==
  IF Len(b) < 4 THEN DIncomplete(4 - Len(b))
  ELSE LET p == Prefix(SubSeq(b, 1, 4)) IN
       IF p.c = "line" THEN DComplete(Raw(p.k, <<>>), 4)
       ELSE IF p.c = "err" THEN DErr(p.e)
       ELSE IF Len(b) < p.n THEN DIncomplete(p.n - Len(b))
       ELSE DComplete(Raw("data", SubSeq(b, 5, p.n)), p.n)

\* interpretations of a data payload
AsText(d) == IF d # <<>> /\ d[Len(d)] = LF THEN SubSeq(d, 1, Len(d) - 1) ELSE d
IsErrLine(d) == StartsWith(d, ERRP)
ErrMsg(d) == Drop(d, 4)
BandOk(d) == d # <<>> /\ d[1] \in {1, 2, 3}

\* "every line written decodes back to the same line"
RoundTrip(l) ==
  LET e == Encode(l)
      r == Decode(e.bytes)
  IN e.ok => /\ r.s = "complete" /\ r.used = Len(e.bytes)
             /\ CASE l.t = "data" -> r.line = Raw("data", l.d)
                  [] l.t = "text" -> r.line.k = "data" /\ AsText(r.line.d) = l.d
                  [] l.t = "err"  -> r.line.k = "data" /\ IsErrLine(r.line.d) /\ ErrMsg(r.line.d) = l.d
                  [] l.t = "band" -> r.line.k = "data" /\ BandOk(r.line.d) /\ r.line.d[1] = l.ch /\ Tail(r.line.d) = l.d
                  [] OTHER -> r.line = Raw(l.t, <<>>)
\* and no proper prefix of an encoding is a complete line
NoEarlyComplete(l) ==
  LET e == Encode(l) IN e.ok => \A n \in 0..(Len(e.bytes) - 1) : Decode(SubSeq(e.bytes, 1, n)).s = "incomplete"

\* ---------------------------------------------------------------- UTF-8 (RFC 3629), for read_line_to_string
IsCont(b) == b >= 128 /\ b <= 191
RECURSIVE Utf8From(_, _)
Utf8From(s, i) ==
  IF i > Len(s) THEN TRUE
  ELSE LET b == s[i]
           n == Len(s)
           c(k) == i + k <= n /\ IsCont(s[i + k])
       IN IF b < 128 THEN Utf8From(s, i + 1)
          ELSE IF b >= 194 /\ b <= 223 THEN c(1) /\ Utf8From(s, i + 2)
          ELSE IF b = 224 THEN c(1) /\ s[i + 1] >= 160 /\ c(2) /\ Utf8From(s, i + 3)
          ELSE IF b = 237 THEN c(1) /\ s[i + 1] <= 159 /\ c(2) /\ Utf8From(s, i + 3)
          ELSE IF b >= 225 /\ b <= 239 THEN c(1) /\ c(2) /\ Utf8From(s, i + 3)
          ELSE IF b = 240 THEN c(1) /\ s[i + 1] >= 144 /\ c(2) /\ c(3) /\ Utf8From(s, i + 4)
          ELSE IF b = 244 THEN c(1) /\ s[i + 1] <= 143 /\ c(2) /\ c(3) /\ Utf8From(s, i + 4)
          ELSE IF b >= 241 /\ b <= 243 THEN c(1) /\ c(2) /\ c(3) /\ Utf8From(s, i + 4)
          ELSE FALSE
Utf8Ok(s) == Utf8From(s, 1)

\* ---------------------------------------------------------------- the reader, abstractly
\* configuration: [delims : set of kinds, foe : fail on ERR lines, h : side-band handler installed]
\* state:  pos     bytes of the stream consumed so far
\*         peeked  <<>> or <<raw line>> (read by peek_line, not yet handed out by read_line)
\*         done    iteration stopped (delimiter seen / ERR line); stop = the delimiter kind or ""
\*         win     side-band reader: undelivered rest of the current data payload
\* outcome of a call: [k, d, c, stop, prog]
\*   k in data flush delim rend (a line) | none | derr (c = decode error class) | ioerr (c = eof,
\*   errline (d = message), band, nondata, utf8, d:<class>) | bytes (d) | ok ; stop = stopped_at()
\*   after the call; prog = progress messages <<[err, d]>> delivered to the handler during the call
InitSt == [pos |-> 0, peeked |-> <<>>, done |-> FALSE, stop |-> "", win |-> <<>>]
Out(k, d, c, stop) == [k |-> k, d |-> d, c |-> c, stop |-> stop, prog |-> <<>>]
DC(class) == CASE class = "hex" -> "d:hex" [] class = "len3" -> "d:len3" [] class = "empty" -> "d:empty"
               [] class = "toolong" -> "d:toolong" [] OTHER -> "d:?"

\* take the next line off the stream (no peeked line pending)
AbsFetch(S, cfg, st) ==
  LET r == Decode(Drop(S, st.pos)) IN
  IF r.s = "incomplete"
  THEN [out |-> Out("ioerr", <<>>, "eof", ""), st |-> [st EXCEPT !.pos = Len(S), !.stop = ""], raw |-> <<>>]
  ELSE IF r.s = "err"
  THEN [out |-> Out("derr", <<>>, r.err, ""), st |-> [st EXCEPT !.pos = @ + 4, !.stop = ""], raw |-> <<>>]
  ELSE LET st1 == [st EXCEPT !.pos = @ + r.used] IN
       IF r.line.k \in cfg.delims
       THEN [out |-> Out("none", <<>>, "", r.line.k), st |-> [st1 EXCEPT !.done = TRUE, !.stop = r.line.k], raw |-> <<>>]
       ELSE IF cfg.foe /\ r.line.k = "data" /\ IsErrLine(r.line.d)
       THEN [out |-> Out("ioerr", ErrMsg(r.line.d), "errline", ""), st |-> [st1 EXCEPT !.done = TRUE, !.stop = ""], raw |-> <<>>]
       ELSE [out |-> Out(r.line.k, r.line.d, "", ""), st |-> [st1 EXCEPT !.stop = ""], raw |-> <<r.line>>]

AbsRead(S, cfg, st) ==
  IF st.done THEN [out |-> Out("none", <<>>, "", st.stop), st |-> st]
  ELSE IF st.peeked # <<>>
  THEN [out |-> Out(st.peeked[1].k, st.peeked[1].d, "", st.stop), st |-> [st EXCEPT !.peeked = <<>>]]
  ELSE LET f == AbsFetch(S, cfg, st) IN [out |-> f.out, st |-> f.st]

AbsPeek(S, cfg, st) ==
  IF st.done THEN [out |-> Out("none", <<>>, "", st.stop), st |-> st]
  ELSE IF st.peeked # <<>>
  THEN [out |-> Out(st.peeked[1].k, st.peeked[1].d, "", st.stop), st |-> st]
  ELSE LET f == AbsFetch(S, cfg, st) IN [out |-> f.out, st |-> [f.st EXCEPT !.peeked = f.raw]]

\* side-band demultiplexer: pull lines until a data payload, the end, or an error.
\* result: [st, prog, k in win eof ioerr, c, d]
RECURSIVE SbFill(_, _, _, _)
SbFill(S, cfg, st, prog) ==
  LET r == AbsRead(S, cfg, st)
      o == r.out
      Fail(c, d) == [st |-> r.st, prog |-> prog, k |-> "ioerr", c |-> c, d |-> d]
  IN IF o.k = "none" THEN [st |-> r.st, prog |-> prog, k |-> "eof", c |-> "", d |-> <<>>]
     ELSE IF o.k = "derr" THEN Fail(DC(o.c), <<>>)
     ELSE IF o.k = "ioerr" THEN Fail(o.c, o.d)
     ELSE IF cfg.h
     THEN IF o.k # "data" \/ ~BandOk(o.d) THEN Fail("band", <<>>)
          ELSE IF o.d[1] = 1
          THEN IF Len(o.d) = 1 THEN SbFill(S, cfg, r.st, prog)                    \* empty data band: skipped
               ELSE [st |-> r.st, prog |-> prog, k |-> "win", c |-> "", d |-> Tail(o.d)]
          ELSE SbFill(S, cfg, r.st, Append(prog, [err |-> (o.d[1] = 3), d |-> AsText(Tail(o.d))]))
     ELSE IF o.k = "data" THEN [st |-> r.st, prog |-> prog, k |-> "win", c |-> "", d |-> o.d]
          ELSE Fail("nondata", <<>>)

\* io::Read::read with a buffer of n >= 1 bytes
AbsSbRead(S, cfg, st, n) ==
  IF st.win # <<>>
  THEN [out |-> Out("bytes", Take(st.win, n), "", st.stop), st |-> [st EXCEPT !.win = Drop(@, n)]]
  ELSE LET f == SbFill(S, cfg, st, <<>>) IN
       IF f.k = "win"
       THEN [out |-> [Out("bytes", Take(f.d, n), "", f.st.stop) EXCEPT !.prog = f.prog], st |-> [f.st EXCEPT !.win = Drop(f.d, n)]]
       ELSE IF f.k = "eof"
       THEN [out |-> [Out("bytes", <<>>, "", f.st.stop) EXCEPT !.prog = f.prog], st |-> f.st]
       ELSE [out |-> [Out("ioerr", f.d, f.c, f.st.stop) EXCEPT !.prog = f.prog], st |-> f.st]

\* read_line_to_string: one whole payload per call, which must be UTF-8
AbsSbLine(S, cfg, st) ==
  LET f == SbFill(S, cfg, st, <<>>) IN
  IF f.k = "win"
  THEN IF Utf8Ok(f.d) THEN [out |-> [Out("bytes", f.d, "", f.st.stop) EXCEPT !.prog = f.prog], st |-> f.st]
       ELSE [out |-> [Out("ioerr", <<>>, "utf8", f.st.stop) EXCEPT !.prog = f.prog], st |-> [f.st EXCEPT !.win = f.d]]
  ELSE IF f.k = "eof"
  THEN [out |-> [Out("bytes", <<>>, "", f.st.stop) EXCEPT !.prog = f.prog], st |-> f.st]
  ELSE [out |-> [Out("ioerr", f.d, f.c, f.st.stop) EXCEPT !.prog = f.prog], st |-> f.st]

\* calls: [op, n]
AbsCall(S, cfg, st, call) ==
  CASE call.op = "read"   -> AbsRead(S, cfg, st)
    [] call.op = "peek"   -> AbsPeek(S, cfg, st)
    [] call.op = "reset"  -> [out |-> Out("ok", <<>>, "", ""), st |-> [st EXCEPT !.done = FALSE, !.stop = ""]]
    [] call.op = "sbread" -> AbsSbRead(S, cfg, st, call.n)
    [] call.op = "sbpeek" -> LET r == AbsPeek(S, cfg, st) IN      \* peek_data_line: only data lines are shown
                             IF r.out.k \in {"flush", "delim", "rend"} THEN [r EXCEPT !.out.k = "none"] ELSE r
    [] call.op = "sbline" -> AbsSbLine(S, cfg, st)

RECURSIVE AbsRunFrom(_, _, _, _, _, _)
AbsRunFrom(S, cfg, st, calls, i, acc) ==
  IF i > Len(calls) THEN acc
  ELSE LET r == AbsCall(S, cfg, st, calls[i]) IN AbsRunFrom(S, cfg, r.st, calls, i + 1, Append(acc, r.out))
AbsRun(S, cfg, calls) == AbsRunFrom(S, cfg, InitSt, calls, 1, <<>>)
\* After read_line_to_string reported ill-formed UTF-8 the side-band reader keeps a partial buffer and
\* documents that it must not be used further ("read-line must be used consistently"): outcomes
\* after such an error are not judged.
JudgedUpTo(outs) == LET I == {i \in 1..Len(outs) : outs[i].k = "ioerr" /\ outs[i].c = "utf8"} IN
                    IF I = {} THEN Len(outs) ELSE CHOOSE i \in I : \A j \in I : i <= j
RECURSIVE AbsStateFrom(_, _, _, _, _)
AbsStateFrom(S, cfg, st, calls, i) ==
  IF i > Len(calls) THEN st ELSE AbsStateFrom(S, cfg, AbsCall(S, cfg, st, calls[i]).st, calls, i + 1)
AbsFinal(S, cfg, calls) == AbsStateFrom(S, cfg, InitSt, calls, 1)

\* "side-band demultiplexing delivers the data bands concatenated and progress messages in order":
\* what a complete side-band read of the stream must deliver, stated directly on the line sequence
RECURSIVE Demux(_, _, _, _, _)
Demux(S, cfg, pos, data, prog) ==
  LET r == Decode(Drop(S, pos)) IN
  IF r.s # "complete" \/ r.line.k \in cfg.delims \/ r.line.k # "data" \/ ~BandOk(r.line.d)
     \/ (cfg.foe /\ IsErrLine(r.line.d))
  THEN [data |-> data, prog |-> prog]
  ELSE IF r.line.d[1] = 1 THEN Demux(S, cfg, pos + r.used, data \o Tail(r.line.d), prog)
  ELSE Demux(S, cfg, pos + r.used, data, Append(prog, [err |-> (r.line.d[1] = 3), d |-> AsText(Tail(r.line.d))]))
=============================================================================
