---------------------------- MODULE Refspec_Trace ----------------------------
(* Binding B (and the git audit of random cases) for C32.  One event per       *)
(* observation of a (refspec list, advertised refs) input:                     *)
(*  who = "gix": parse : seq of BOOLEAN (gix_refspec::parse accepted),         *)
(*               ran : BOOLEAN (all parsed, match_remotes + validated ran),    *)
(*               matched, final : seq of [src, dst, oid, spec], vok : BOOLEAN  *)
(*  who = "git": what `git fetch` did: invalid, missing, conflict : BOOLEAN,   *)
(*               pairs : seq of [src, dst]                                     *)
(* TLC recomputes the specification's answer and accepts or rejects the event. *)
EXTENDS Refspec, TraceIO

VARIABLE l
Init == l = 1
Next == l <= NRec /\ l' = l + 1
Spec == Init /\ [][Next]_l

Quad(ms) == { <<m.src, m.dst, m.oid, FirstSpec(ms, <<m.src, m.dst>>)>> : m \in ms }
SeqQuad(s) == { <<s[i].src, s[i].dst, s[i].oid, s[i].spec>> : i \in 1..Len(s) }
SeqPairs(s) == { <<s[i].src, s[i].dst>> : i \in 1..Len(s) }

\* The property quantifies over refspecs that are valid for git: what gix_refspec::parse says about a
\* string git refuses is not judged, and a list containing such a string is not judged at all.
JudgeGix(r) ==
  LET ps == ParseAll(r.specs)
      dom == \A k \in 1..Len(r.specs) : GixParseOk(r.specs[k])
      mt == Matched(ps, r.refs)
      fn == { m \in mt : ~Funny(m) } IN
  /\ \A k \in 1..Len(r.specs) : ps[k].ok => r.parse[k] = GixParseOk(r.specs[k])
  /\ dom => /\ r.ran
            /\ SeqQuad(r.matched) = Quad(mt)
            /\ r.vok = ~Conflict(fn)
            /\ (r.vok => SeqQuad(r.final) = Quad(fn))

JudgeGit(r) ==
  LET ps == ParseAll(r.specs)
      fn == Final(ps, r.refs) IN
  /\ r.invalid = ~AllOk(r.specs)
  /\ (~r.invalid => r.missing = AnyMissing(ps, r.refs))
  /\ (~r.invalid /\ ~r.missing => r.conflict = Conflict(fn))
  /\ (~r.invalid /\ ~r.missing /\ ~r.conflict => SeqPairs(r.pairs) = Pairs(fn))

\* who = "probe": does the input have the named shape?  (labels rejected events; rejected <=> it has)
JudgeProbe(r) ==
  LET ps == ParseAll(r.specs) IN
  ~(AllOk(r.specs) /\ Shapes(ps, r.refs, Matched(ps, r.refs))[r.shape])

Judge(r) == IF r.who = "gix" THEN JudgeGix(r) ELSE IF r.who = "git" THEN JudgeGit(r) ELSE JudgeProbe(r)

EventOk == l <= NRec => (Judge(Rec[l]) \/ PrintT(<<"REJECT", l>>))
=============================================================================
