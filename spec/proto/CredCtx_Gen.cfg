SPECIFICATION Spec
CONSTANTS
  FocusToks = 3
  PairToks = 1
  Bug_StripCR = FALSE
INVARIANTS
  InvRoundTrip
  InvRefusalNecessary
  Emit
CHECK_DEADLOCK FALSE
