----------------------------- MODULE Fetch_Trace -----------------------------
(* Binding B for C31.  One event per real fetch (all events of one run share  *)
(* the history shape, constant Shape):                                        *)
(*   [refs0, odb0   : the client before (refs as [name, obj], objects),       *)
(*    ms            : the mappings [src, dst, force, tag, commit],            *)
(*    stags, follow : the server's tags and whether tags are followed,        *)
(*    ok            : the fetch call succeeded,                               *)
(*    refs, has     : the client's references and which objects of the        *)
(*                    history it holds afterwards (observed with git)]        *)
(* Judged with the operators of Fetch.tla: the references are ExpectedRefs,   *)
(* every reference's history is present, everything the wanted tips reach is  *)
(* present.                                                                   *)
EXTENDS Fetch_Gen, TraceIO

VARIABLE l
\* (the state machine's own variables are not used here; they get one fixed value)
TInit == /\ l = 1 /\ phase = "trace" /\ odb = {} /\ refs = <<>> /\ haves = {} /\ acked = {} /\ queue = {} /\ world = <<>>
TNext == l <= NRec /\ l' = l + 1 /\ UNCHANGED vars
TSpec == TInit /\ [][TNext]_<<l, vars>>

Fn(s) == [n \in {s[i].name : i \in 1..Len(s)} |-> s[CHOOSE i \in 1..Len(s) : s[i].name = n].obj]
Set(s) == {s[i] : i \in 1..Len(s)}

Judge(r) ==
  LET r0 == Fn(r.refs0)
      after == Set(r.odb0) \cup Closure(Wants(r.ms))
      want == ExpectedRefs(r0, r.ms, Fn(r.stags), r.follow, after)
      got == Fn(r.refs)
      has == Set(r.has)
  IN /\ r.ok
     /\ got = want
     /\ \A n \in DOMAIN got : got[n] \in Commits /\ Anc(got[n]) \subseteq has
     /\ Closure(Wants(r.ms)) \subseteq has

EventOk == l <= NRec => (Judge(Rec[l]) \/ PrintT(<<"REJECT", l>>))
=============================================================================
