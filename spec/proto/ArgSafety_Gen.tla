---------------------------- MODULE ArgSafety_Gen ----------------------------
(* Binding A for C34 + the design-level statements.                           *)
(*  fam "quote": every string of <= QuoteToks tokens over ' " ! space LF $ \  *)
(*               ; - a : QuoteLaw is checked, ShQuote printed (<= 4 tokens)   *)
(*  fam "ssh":   URL strings in URL form and scp-like form with user / host / *)
(*               path drawn from option-like and shell-hostile tokens; where  *)
(*               Url.Parse describes the string (indomain) the expected URL   *)
(*               fields, refusal reasons and argv per variant are printed     *)
(*  fam "local": paths for the local transport                                *)
EXTENDS ArgSafety, Json, TLC
CONSTANTS QuoteToks, PathToks, RichUrlForm

U == INSTANCE Url

RECURSIVE Strs(_, _)
Strs(T, n) == IF n = 0 THEN { <<>> } ELSE LET P == Strs(T, n - 1) IN P \cup { s \o t : s \in P, t \in T }

QTok == { <<SQ>>, <<34>>, <<BANG>>, <<SP>>, <<NL>>, <<36>>, <<BSL>>, <<59>>, <<DASH>>, <<97>> }

Users == { <<>>, <<117, AT>>, <<45, 117, AT>>, <<45, 111, 80, 61, 120, AT>> }                  \* u@  -u@  -oP=x@
Hosts == { <<104>>, <<45, 111, 104>>, <<97, 46, 98>> }                                           \* h  -oh  a.b
Ports == { <<>>, <<58, 50, 50>> }
PTok == { <<97>>, <<DASH>>, <<SQ>>, <<34>>, <<BANG>>, <<SP>>, <<36, 40, 120, 41>>, <<59>>, <<BSL>>, <<TILDE>>, <<SLASH>> }
FewPaths == { <<112>>, <<45, 112>>, <<97, SQ, 98>>, <<TILDE, SLASH, 112>>, <<SP, 45, 112>> }     \* p  -p  a'b  ~/p  " -p"
SSHP == <<115, 115, 104, 58, 47, 47>>                                                             \* ssh://

V(k, v2, sh) == [kind |-> k, v2 |-> v2, shell |-> sh]
AllVariants == << V("ssh", FALSE, FALSE), V("plink", FALSE, FALSE), V("putty", FALSE, FALSE), V("tortoiseplink", FALSE, FALSE),
                  V("simple", FALSE, FALSE), V("auto", FALSE, FALSE), V("ssh", TRUE, FALSE), V("ssh", TRUE, TRUE) >>
OneVariant == << V("ssh", TRUE, FALSE) >>

UrlForm(us, h, po, pa) == SSHP \o us \o h \o po \o <<SLASH>> \o pa
ScpForm(us, h, pa) == us \o h \o <<58>> \o pa

\* the transport's view of a parsed URL
View(u) == [user |-> u.user, host |-> u.host, port |-> u.port, path |-> u.path]
Expect(s, vs) ==
  LET p == U!Parse(s)
      dom == U!InDomain(s) /\ p.ok /\ p.url.scheme = U!SSH
  IN [fam |-> "ssh", url |-> s, indomain |-> dom,
      view |-> IF dom THEN View(p.url) ELSE View(U!NoUrl),
      variants |-> vs,
      expect |-> IF dom THEN [i \in 1..Len(vs) |->
                                [may |-> MayReasons(vs[i].kind, View(p.url)), must |-> Reasons(vs[i].kind, View(p.url)),
                                 argvs |-> Invocation(vs[i].kind, vs[i].v2, View(p.url))]]
                 ELSE <<>>]

Selectors == { <<"quote", t, <<>> >> : t \in QTok } \cup { <<"quote0", <<>>, <<>> >>, <<"local", <<>>, <<>> >> } \cup { <<"ssh", us, h>> : us \in Users, h \in Hosts }
CasesOf(sel) ==
  CASE sel[1] = "quote" -> { [fam |-> "quote", s |-> sel[2] \o s, quoted |-> ShQuote(sel[2] \o s), emit |-> Len(s) <= 3] : s \in Strs(QTok, QuoteToks - 1) }
    [] sel[1] = "quote0" -> { [fam |-> "quote", s |-> <<>>, quoted |-> ShQuote(<<>>), emit |-> TRUE] }
    [] sel[1] = "local" -> { [fam |-> "local", path |-> p, may |-> LocalMayReasons(p), must |-> LocalReasons(p), argvs |-> IF LocalMayReasons(p) = {} THEN << <<p>> >> ELSE <<>>]
                             : p \in (Strs(PTok, 2) \ { <<>> }) \cup FewPaths \cup { <<45,45,117,112,108,111,97,100,45,112,97,99,107,61,120>>, <<TAB, 45, 120>> } }
    [] OTHER -> (IF RichUrlForm THEN { Expect(UrlForm(sel[2], sel[3], po, pa), OneVariant) : po \in Ports, pa \in Strs(PTok, PathToks) } ELSE {})
                \cup { Expect(ScpForm(sel[2], sel[3], pa), OneVariant) : pa \in Strs(PTok, PathToks) \ { <<>> } }
                \cup { Expect(UrlForm(sel[2], sel[3], po, pa), AllVariants) : po \in Ports, pa \in FewPaths }
                \cup { Expect(ScpForm(sel[2], sel[3], pa), AllVariants) : pa \in FewPaths }

NoCase == [fam |-> "none"]
VARIABLES sel, case, done
vars == <<sel, case, done>>
Init == sel \in Selectors /\ case = NoCase /\ done = FALSE
Pick == ~done /\ case' \in CasesOf(sel) /\ done' = TRUE /\ UNCHANGED sel
Spec == Init /\ [][Pick]_vars

InvQuoteLaw == (done /\ case.fam = "quote") => QuoteLaw(case.s)
\* the design (Invocation) meets the demand (Safe) for every generated URL the Url module can parse
InvInvocationSafe ==
  (done /\ case.fam = "ssh" /\ case.indomain) =>
     \A i \in 1..Len(case.variants) : InvocationSafe(case.variants[i].kind, case.variants[i].v2, case.view)

Emit == (done /\ (case.fam # "quote" \/ case.emit)) => PrintT(<<"CASE", ToJson(case)>>)
=============================================================================
