----------------------------- MODULE Advert_Gen -----------------------------
(* Binding A for C30: TLC enumerates every server with <= MaxRefs references   *)
(* from the alphabet below x every HEAD kind and prints what a client must     *)
(* report after the v0/v1 handshake and after a v2 `ls-refs` for each of the   *)
(* prefix sets.  Object ids are uninterpreted: the driver creates the objects  *)
(* (commits c1, c2; tag t1 -> c1; tag tt -> t1) with the real git and passes   *)
(* their hex ids in the JSON file $PARAMS.                                    *)
EXTENDS Advert, Json, IOUtils
CONSTANTS MaxRefs

P == ndJsonDeserialize(IOEnv.PARAMS)[1]
C1 == P.c1
C2 == P.c2
T1 == P.t1
TT == P.tt
Tags == << [id |-> T1, target |-> C1], [id |-> TT, target |-> T1] >>

RH == <<114,101,102,115,47,104,101,97,100,115,47>>              \* refs/heads/
RT == <<114,101,102,115,47,116,97,103,115,47>>                  \* refs/tags/
N_a    == RH \o <<97>>                                          \* refs/heads/a
N_db   == RH \o <<100,47,98>>                                   \* refs/heads/d/b
N_l    == RT \o <<108>>                                         \* refs/tags/l
N_t    == RT \o <<116>>                                         \* refs/tags/t
N_tt   == RT \o <<116,116>>                                     \* refs/tags/tt
N_s    == RH \o <<115>>                                         \* refs/heads/s
N_st   == RH \o <<115,116>>                                     \* refs/heads/st
N_sd   == RH \o <<115,100>>                                     \* refs/heads/sd
N_ss   == RH \o <<115,115>>                                     \* refs/heads/ss
N_oh   == <<114,101,102,115,47,114,101,109,111,116,101,115,47,111,47,72,69,65,68>>   \* refs/remotes/o/HEAD
N_none == RH \o <<110,111,110,101>>                             \* refs/heads/none (never exists)

Oid(n, v) == [name |-> n, k |-> "oid", v |-> v]
Sym(n, v) == [name |-> n, k |-> "sym", v |-> v]

Alphabet == <<
  Oid(N_a, C1),        \* branch
  Oid(N_db, C2),       \* nested branch
  Oid(N_l, C1),        \* lightweight tag
  Oid(N_t, T1),        \* annotated tag
  Oid(N_tt, TT),       \* tag of a tag
  Sym(N_s, N_a),       \* symbolic ref to a branch (dangling when the branch is absent)
  Sym(N_st, N_t),      \* symbolic ref to an annotated tag
  Sym(N_sd, N_none),   \* dangling symbolic ref
  Sym(N_ss, N_s),      \* chain of symbolic refs
  Sym(N_oh, N_a)       \* the usual refs/remotes/<r>/HEAD
>>

Heads == { [k |-> "sym", v |-> N_a], [k |-> "sym", v |-> N_t], [k |-> "sym", v |-> N_s], [k |-> "sym", v |-> N_sd],
           [k |-> "sym", v |-> N_none], [k |-> "oid", v |-> C2], [k |-> "oid", v |-> T1] }

PrefixSets == << <<>>, <<RH>>, <<S_HEAD, RT>>, <<N_s>>, <<RH \o <<100,47>>>> >>
\*               none  refs/heads/  HEAD+refs/tags/  refs/heads/s  refs/heads/d/

VARIABLES sel, head
vars == <<sel, head>>
Init == /\ sel \in {s \in SUBSET (1..Len(Alphabet)) : Cardinality(s) <= MaxRefs}
        /\ head \in Heads
Next == UNCHANGED vars
Spec == Init /\ [][Next]_vars

RECURSIVE Pick(_)
Pick(i) == IF i > Len(Alphabet) THEN <<>> ELSE (IF i \in sel THEN <<Alphabet[i]>> ELSE <<>>) \o Pick(i + 1)

Server == [head |-> head, refs |-> Pick(1), tags |-> Tags]

\* what `git for-each-ref` must show for the materialised world (checked before gitoxide runs)
ForEachRef(srv) ==
  LET names == ResolvableNames(srv) IN
  [i \in 1..Len(names) |->
     LET r == ResolveRef(srv, names[i]) IN
     [name |-> names[i], oid |-> r.oid, sym |-> IF IsSymRef(srv, names[i]) THEN r.name ELSE None]]

\* design-level statements about the specification itself
InvRoundTripV0 == LET s == Server IN ReadV0(AdvertV0(s)) = ExpectedV0(s)
InvNamesDistinct == LET e == ExpectedV0(Server) IN Cardinality({e[i].name : i \in 1..Len(e)}) = Len(e)
\* a v2 listing without prefixes names exactly the v0 references, plus possibly an unborn HEAD
InvV2CoversV0 ==
  LET s == Server
      a == ExpectedV0(s)
      b == ExpectedV2(s, <<>>, TRUE)
  IN {a[i].name : i \in 1..Len(a)} = {b[i].name : i \in 1..Len(b)} \ {b[i].name : i \in {j \in 1..Len(b) : b[j].k = "Unborn"}}
\* prefixes only ever remove lines
InvPrefixFilters ==
  LET s == Server
      all == SeqSet(ExpectedV2(s, <<>>, TRUE))
  IN \A p \in 1..Len(PrefixSets) : SeqSet(ExpectedV2(s, PrefixSets[p], TRUE)) \subseteq all

Emit == PrintT(<<"CASE", ToJson([server  |-> Server,
                                  foreach |-> ForEachRef(Server),
                                  exp_v0  |-> ExpectedV0(Server),
                                  v2      |-> [p \in 1..Len(PrefixSets) |->
                                                 [prefixes |-> PrefixSets[p],
                                                  exp |-> ExpectedV2(Server, PrefixSets[p], TRUE)]]])>>)
=============================================================================
