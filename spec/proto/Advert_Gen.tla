----------------------------- MODULE Advert_Gen -----------------------------
(* Binding A for C30: TLC enumerates every server with <= MaxRefs references   *)
(* from the alphabet below x every HEAD kind and prints what a client must     *)
(* report after the v0/v1 handshake and after a v2 `ls-refs` for each of the   *)
(* prefix sets.  Object ids are uninterpreted: the driver creates the objects  *)
(* (commits c1, c2; tag t1 -> c1; tag tt -> t1) with the real git and passes   *)
(* their hex ids in the JSON file $PARAMS.                                    *)
EXTENDS Advert, Json, IOUtils
CONSTANTS MaxRefs

P == ndJsonDeserialize(IOEnv.PARAMS)[1]
C1 == P.c1
C2 == P.c2
T1 == P.t1
TT == P.tt
Tags == << [id |-> T1, target |-> C1], [id |-> TT, target |-> T1] >>

RH == <<114,101,102,115,47,104,101,97,100,115,47>>              \* refs/heads/
RT == <<114,101,102,115,47,116,97,103,115,47>>                  \* refs/tags/
N_a    == RH \o <<97>>                                          \* refs/heads/a
N_db   == RH \o <<100,47,98>>                                   \* refs/heads/d/b
N_l    == RT \o <<108>>                                         \* refs/tags/l
N_t    == RT \o <<116>>                                         \* refs/tags/t
N_tt   == RT \o <<116,116>>                                     \* refs/tags/tt
N_s    == RH \o <<115>>                                         \* refs/heads/s
N_st   == RH \o <<115,116>>                                     \* refs/heads/st
N_sd   == RH \o <<115,100>>                                     \* refs/heads/sd
N_ss   == RH \o <<115,115>>                                     \* refs/heads/ss
N_oh   == <<114,101,102,115,47,114,101,109,111,116,101,115,47,111,47,72,69,65,68>>   \* refs/remotes/o/HEAD
N_eq   == RH \o <<101,61,49>>                                  \* refs/heads/e=1 ('=' also separates a capability from its value)
N_nbsp == RH \o <<117,194,160>>                               \* refs/heads/u<U+00A0>: ends with a non-ASCII blank (lines end with LF only)
N_none == RH \o <<110,111,110,101>>                             \* refs/heads/none (never exists)

Oid(n, v) == [name |-> n, k |-> "oid", v |-> v]
Sym(n, v) == [name |-> n, k |-> "sym", v |-> v]

Alphabet == <<
  Oid(N_a, C1),        \* branch
  Oid(N_db, C2),       \* nested branch
  Oid(N_l, C1),        \* lightweight tag
  Oid(N_t, T1),        \* annotated tag
  Oid(N_tt, TT),       \* tag of a tag
  Sym(N_s, N_a),       \* symbolic ref to a branch (dangling when the branch is absent)
  Sym(N_st, N_t),      \* symbolic ref to an annotated tag
  Sym(N_sd, N_none),   \* dangling symbolic ref
  Sym(N_ss, N_s),      \* chain of symbolic refs
  Sym(N_oh, N_a),      \* the usual refs/remotes/<r>/HEAD
  Oid(N_eq, C2),       \* a branch whose name contains '='
  Oid(N_nbsp, C1)      \* a branch whose name ends with U+00A0
>>

Heads == { [k |-> "sym", v |-> N_a], [k |-> "sym", v |-> N_t], [k |-> "sym", v |-> N_s], [k |-> "sym", v |-> N_sd],
           [k |-> "sym", v |-> N_none], [k |-> "sym", v |-> N_eq], [k |-> "oid", v |-> C2], [k |-> "oid", v |-> T1] }

PrefixSets == << <<>>, <<RH>>, <<S_HEAD, RT>>, <<N_s>>, <<RH \o <<100,47>>>> >>
\*               none  refs/heads/  HEAD+refs/tags/  refs/heads/s  refs/heads/d/

VARIABLES sel, head, done
vars == <<sel, head, done>>
Init == sel = {} /\ head = [k |-> "oid", v |-> C2] /\ done = 0
\* two steps choose the server (split so that TLC's workers share the enumeration)
Choose1 == /\ done = 0 /\ done' = 1
           /\ sel' \in {s \in SUBSET (1..3) : Cardinality(s) <= MaxRefs}
           /\ head' \in Heads
Choose2 == /\ done = 1 /\ done' = 2 /\ UNCHANGED head
           /\ \E s \in SUBSET (4..Len(Alphabet)) : Cardinality(s) + Cardinality(sel) <= MaxRefs /\ sel' = sel \cup s
Next == Choose1 \/ Choose2
Spec == Init /\ [][Next]_vars

RECURSIVE Pick(_)
Pick(i) == IF i > Len(Alphabet) THEN <<>> ELSE (IF i \in sel THEN <<Alphabet[i]>> ELSE <<>>) \o Pick(i + 1)

Server == [head |-> head, refs |-> Pick(1), tags |-> Tags]

\* what `git for-each-ref` must show for the materialised world (checked before gitoxide runs)
ForEachRef(srv) ==
  LET names == ResolvableNames(srv) IN
  [i \in 1..Len(names) |->
     LET r == ResolveRef(srv, names[i]) IN
     [name |-> names[i], oid |-> r.oid, sym |-> IF IsSymRef(srv, names[i]) THEN r.name ELSE None]]

\* everything the specification says about one server, evaluated once per state
CaseOf(s) ==
  [server  |-> s,
   foreach |-> ForEachRef(s),
   exp_v0  |-> ExpectedV0(s),
   v2      |-> [p \in 1..Len(PrefixSets) |-> [prefixes |-> PrefixSets[p], exp |-> ExpectedV2(s, PrefixSets[p], TRUE)]]]

Names(refs) == {refs[i].name : i \in 1..Len(refs)}
\* design-level statements about the specification itself, on every enumerated server:
\* a reference is reported once
NamesDistinct(c) == Cardinality(Names(c.exp_v0)) = Len(c.exp_v0)
\* a v2 listing without prefixes names exactly the v0 references, plus possibly an unborn HEAD
V2CoversV0(c) ==
  LET b == c.v2[1].exp IN
  Names(c.exp_v0) = Names(b) \ {b[i].name : i \in {j \in 1..Len(b) : b[j].k = "Unborn"}}
\* apart from the symbolic-ref information v0 cannot carry, both protocols describe the same objects
SameObjects(c) ==
  LET b == c.v2[1].exp
      Obj(r) == <<r.name, r.tag, r.object>>
  IN {Obj(c.exp_v0[i]) : i \in 1..Len(c.exp_v0)} = {Obj(b[i]) : i \in {j \in 1..Len(b) : b[j].k # "Unborn"}}
\* prefixes only ever remove lines
PrefixFilters(c) == \A p \in 1..Len(PrefixSets) : SeqSet(c.v2[p].exp) \subseteq SeqSet(c.v2[1].exp)

Emit ==
  done = 2 =>
  LET c == CaseOf(Server) IN
  /\ Assert(NamesDistinct(c), "NamesDistinct")
  /\ Assert(V2CoversV0(c), "V2CoversV0")
  /\ Assert(SameObjects(c), "SameObjects")
  /\ Assert(PrefixFilters(c), "PrefixFilters")
  /\ PrintT(<<"CASE", ToJson(c)>>)
=============================================================================
