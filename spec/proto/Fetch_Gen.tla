------------------------------ MODULE Fetch_Gen ------------------------------
(* Design check + binding A for C31.  One TLC run per history shape (Shape):  *)
(* every world = server refs x client refs x refspec set x tag following from  *)
(* the per-shape choice sets; the fetch state machine of Fetch.tla runs on it  *)
(* (every length of the have-negotiation) and the invariants are checked in    *)
(* every state.  With Emitting, each world is printed once with the expected   *)
(* final references and object set.                                            *)
EXTENDS Fetch, Json

CONSTANTS Shape, Emitting, Small

\* objects 1..6 are commits, 7 is an annotated tag object.  Times are skewed in shapes 4 and 5.
Shapes == <<
  \* 1 linear: 1 <- 2 <- 3 <- 4 <- 5 ; 6 is a client-only child of 2 ; tag 7 -> 3
  [parents |-> <<{}, {1}, {2}, {3}, {4}, {2}, {3}>>, time |-> <<10, 20, 30, 40, 50, 35, 0>>],
  \* 2 fork: 1 <- 2 <- 3 (main), 1 <- 4 <- 5 (dev) ; 6 child of 3 ; tag 7 -> 2
  [parents |-> <<{}, {1}, {2}, {1}, {4}, {3}, {2}>>, time |-> <<10, 20, 30, 25, 45, 60, 0>>],
  \* 3 merge: 1 <- 2, 1 <- 3, {2,3} <- 4 <- 5 ; 6 child of 3 ; tag 7 -> 4
  [parents |-> <<{}, {1}, {1}, {2, 3}, {4}, {3}, {4}>>, time |-> <<10, 20, 21, 30, 40, 33, 0>>],
  \* 4 skewed linear: the middle commit carries an EARLIER time than its parent
  [parents |-> <<{}, {1}, {2}, {3}, {4}, {2}, {3}>>, time |-> <<10, 50, 20, 60, 70, 15, 0>>],
  \* 5 skewed criss-cross: 1 <- 2, 1 <- 3, {2,3} <- 4, {2,3} <- 5 ; 6 = merge of {4,5}
  [parents |-> <<{}, {1}, {1}, {2, 3}, {2, 3}, {4, 5}, {5}>>, time |-> <<30, 20, 40, 10, 50, 60, 0>>]
>>
ParentsMC == [c \in 1..7 |-> Shapes[Shape].parents[c]]
TimeMC == [c \in 1..7 |-> Shapes[Shape].time[c]]
KindMC == [c \in 1..7 |-> IF c = 7 THEN "tag" ELSE "commit"]

\* server: main and dev tips, tag v1
SMain == {3, 5}
SDev == IF Small THEN {None, 5} ELSE {None, 4, 5}
STag == IF Small THEN {None, 7} ELSE {None, 2, 7}
\* client: the remote-tracking refs, a local branch, a local tag
CMain == {None, 2, 3, 6}
CDev == {None, 4}
CLocal == IF Small THEN {None, 6} ELSE {None, 2, 6}
CTag == IF Small THEN {None, 3} ELSE {None, 2, 3}

\* refspec sets: id, the mapping of a server head/tag name to [dst, force] (dst "" = not mapped)
\* 1 +refs/heads/*:refs/remotes/origin/*      2 refs/heads/*:refs/remotes/origin/*
\* 3 refs/heads/main:refs/heads/main          4 +refs/heads/*:refs/remotes/origin/*  ^refs/heads/dev
\* 5 (1) + refs/tags/*:refs/tags/*            6 (1) + +refs/tags/*:refs/tags/*
SpecSets == 1..6
MapHead(set, name) ==
  CASE set \in {1, 4, 5, 6} -> (IF set = 4 /\ name = "dev" THEN [dst |-> "", force |-> FALSE]
                                ELSE [dst |-> "refs/remotes/origin/" \o name, force |-> TRUE])
    [] set = 2 -> [dst |-> "refs/remotes/origin/" \o name, force |-> FALSE]
    [] OTHER -> (IF name = "main" THEN [dst |-> "refs/heads/main", force |-> FALSE] ELSE [dst |-> "", force |-> FALSE])
MapTag(set, name) ==
  IF set = 5 THEN [dst |-> "refs/tags/" \o name, force |-> FALSE]
  ELSE IF set = 6 THEN [dst |-> "refs/tags/" \o name, force |-> TRUE]
  ELSE [dst |-> "", force |-> FALSE]

Restrict(f) == [n \in {x \in DOMAIN f : f[x] # None} |-> f[n]]

Mappings(set, smain, sdev, stag) ==
  LET h(name, c) == IF c # None /\ MapHead(set, name).dst # ""
                    THEN <<[src |-> "refs/heads/" \o name, dst |-> MapHead(set, name).dst, force |-> MapHead(set, name).force,
                            tag |-> FALSE, commit |-> c]>> ELSE <<>>
      t(name, c) == IF c # None /\ MapTag(set, name).dst # ""
                    THEN <<[src |-> "refs/tags/" \o name, dst |-> MapTag(set, name).dst, force |-> MapTag(set, name).force,
                            tag |-> TRUE, commit |-> c]>> ELSE <<>>
  IN h("dev", sdev) \o h("main", smain) \o t("v1", stag)

Init ==
  /\ phase = "start" /\ haves = {} /\ acked = {} /\ queue = {}
  /\ \E smain \in SMain, sdev \in SDev, stag \in STag, cmain \in CMain, cdev \in CDev, cloc \in CLocal, ctag \in CTag,
        set \in SpecSets, follow \in BOOLEAN :
       LET r0 == Restrict([n \in {"refs/remotes/origin/main", "refs/remotes/origin/dev", "refs/heads/main", "refs/tags/v1"} |->
                             CASE n = "refs/remotes/origin/main" -> cmain [] n = "refs/remotes/origin/dev" -> cdev
                               [] n = "refs/heads/main" -> cloc [] OTHER -> ctag])
           o0 == Closure({r0[n] : n \in DOMAIN r0})
       IN /\ refs = r0 /\ odb = o0
          /\ world = [server |-> Closure({smain} \cup ({sdev, stag} \ {None})),
                      srefs |-> Restrict([n \in {"refs/heads/main", "refs/heads/dev"} |-> IF n = "refs/heads/main" THEN smain ELSE sdev]),
                      stags |-> Restrict([n \in {"refs/tags/v1"} |-> stag]),
                      ms |-> Mappings(set, smain, sdev, stag), set |-> set, follow |-> follow, refs0 |-> r0, odb0 |-> o0]

Spec == Init /\ [][Next]_vars

\* a clone (default refspec +refs/heads/*:refs/remotes/origin/*, all tags, HEAD's branch created locally,
\* refs/remotes/origin/HEAD pointing at it): the references as `git for-each-ref` shows them
ExpectedClone(smain, sdev, stag) ==
  Restrict([n \in {"refs/remotes/origin/main", "refs/remotes/origin/dev", "refs/remotes/origin/HEAD", "refs/heads/main", "refs/tags/v1"} |->
              CASE n = "refs/remotes/origin/dev" -> sdev [] n = "refs/tags/v1" -> stag [] OTHER -> smain])
\* with --depth 1 only the tips themselves arrive and they are recorded as shallow boundaries (those that have parents)
ShallowTips(smain, sdev) == {c \in ({smain, sdev} \ {None}) : Parents[c] # {}}

\* one line per world, printed when the run that stops negotiating at once reaches the end
SetSeq(S) == LET RECURSIVE F(_) F(T) == IF T = {} THEN <<>> ELSE LET x == CHOOSE x \in T : \A y \in T : x <= y IN <<x>> \o F(T \ {x}) IN F(S)
RefSeq(f) == LET RECURSIVE G(_) G(T) == IF T = {} THEN <<>> ELSE LET x == CHOOSE x \in T : TRUE IN <<[name |-> x, obj |-> f[x]]>> \o G(T \ {x}) IN G(DOMAIN f)
Emit ==
  (Emitting /\ phase = "done" /\ haves = {}) =>
  PrintT(<<"CASE", ToJson([shape |-> Shape, set |-> world.set, follow |-> world.follow,
                           server_refs |-> RefSeq(world.srefs) \o RefSeq(world.stags),
                           client_refs |-> RefSeq(world.refs0), client_odb |-> SetSeq(world.odb0),
                           mappings |-> [i \in 1..Len(world.ms) |-> [src |-> world.ms[i].src, dst |-> world.ms[i].dst,
                                                                     decision |-> Decide(RefOf(world.refs0, world.ms[i].dst), world.ms[i])]],
                           server_odb |-> SetSeq(world.server),
                           specs |-> [i \in 1..Len(world.ms) |-> [src |-> world.ms[i].src, dst |-> world.ms[i].dst, force |-> world.ms[i].force,
                                                                  tag |-> world.ms[i].tag, commit |-> world.ms[i].commit]],
                           expected_clone |-> RefSeq(ExpectedClone(RefOf(world.srefs, "refs/heads/main"), RefOf(world.srefs, "refs/heads/dev"),
                                                                   RefOf(world.stags, "refs/tags/v1"))),
                           shallow_tips |-> SetSeq(ShallowTips(RefOf(world.srefs, "refs/heads/main"), RefOf(world.srefs, "refs/heads/dev"))),
                           expected_refs |-> RefSeq(refs), expected_odb |-> SetSeq(odb)])>>)
=============================================================================
