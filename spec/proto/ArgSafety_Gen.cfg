SPECIFICATION Spec
CONSTANTS
  QuoteToks = 5
  PathToks = 2
  RichUrlForm = FALSE
INVARIANTS
  InvQuoteLaw
  InvInvocationSafe
  Emit
CHECK_DEADLOCK FALSE
