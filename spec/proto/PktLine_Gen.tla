----------------------------- MODULE PktLine_Gen -----------------------------
(* Binding A for C29.  Families of cases (one TLC worker per selector):        *)
(*  enc   abstract lines -> Encode (or the refusal), incl. the size boundary    *)
(*  wr    Writer: a buffer becomes ceil(n / MaxData) data lines                 *)
(*  dec   4-byte prefixes of every class x tails -> Decode                      *)
(*  run   stream (token string) x reader configuration x call script ->         *)
(*        AbsRun: what read_line/peek_line/reset and the side-band reader must  *)
(*        return, for ANY chunking of the stream (PktLine_MC shows that the     *)
(*        chunked reader refines AbsRun; the executor replays each case with    *)
(*        several chunkings)                                                    *)
(* Design-level statements checked on the way: RoundTrip, NoEarlyComplete,      *)
(* DemuxAgrees (data bands concatenated, progress in order).                    *)
EXTENDS PktLine, Json, TLC
CONSTANTS LineToks, BandToks, Big     \* token-string lengths of the run families; Big: 65516-byte lines too

Fill(b, n) == [i \in 1..n |-> b]
S2B(t) == t    \* tokens are byte sequences already

\* ---------------------------------------------------------------- enc / wr
Payloads == { <<>>, <<97>>, <<97, 10>>, <<10>>, <<69,82,82,32,120>>, <<1, 97>>, <<0>>, <<255, 10, 10>> }
BigPayloads == IF Big THEN { Fill(120, n) : n \in {65511, 65512, 65515, 65516, 65517} } ELSE {}
EncLines == { [t |-> t, ch |-> 0, d |-> d] : t \in {"data", "text", "err"}, d \in Payloads \cup BigPayloads }
            \cup { [t |-> "band", ch |-> c, d |-> d] : c \in 1..3, d \in Payloads \cup BigPayloads }
            \cup { [t |-> t, ch |-> 0, d |-> <<>>] : t \in {"flush", "delim", "rend"} }

\* Writer (binary mode): chunks of MaxData bytes, each a data line; the empty buffer is refused.
\* Text mode is judged only for buffers shorter than MaxData (one line, LF appended).
RECURSIVE WriterBytes(_, _)
WriterBytes(d, acc) == IF d = <<>> THEN acc
                       ELSE WriterBytes(Drop(d, MaxData), acc \o Encode([t |-> "data", ch |-> 0, d |-> Take(d, MaxData)]).bytes)
WrCases == { [d |-> d, binary |-> TRUE] : d \in {<<>>, <<97>>, <<97, 10>>} \cup (IF Big THEN {Fill(121, 65516), Fill(121, 65517), Fill(121, 131033)} ELSE {}) }
           \cup { [d |-> d, binary |-> FALSE] : d \in {<<>>, <<97>>, <<97, 10>>} \cup (IF Big THEN {Fill(121, 65515)} ELSE {}) }
WrExpect(c) == IF c.d = <<>> THEN [ok |-> FALSE, bytes |-> <<>>, written |-> 0]
               ELSE IF c.binary THEN [ok |-> TRUE, bytes |-> WriterBytes(c.d, <<>>), written |-> Len(c.d)]
               ELSE [ok |-> TRUE, bytes |-> Encode([t |-> "text", ch |-> 0, d |-> c.d]).bytes, written |-> Len(c.d)]

\* ---------------------------------------------------------------- dec
Prefixes == { <<48,48,48,48>>, <<48,48,48,49>>, <<48,48,48,50>>, <<48,48,48,51>>, <<48,48,48,52>>, <<48,48,48,53>>,
              <<48,48,48,54>>, <<48,48,49,48>>,
              <<102,102,102,48>>, <<102,102,102,49>>, <<102,102,101,102>>, <<102,102,102,102>>,      \* fff0 fff1 ffef ffff
              <<70,70,70,48>>, <<70,70,70,49>>, <<48,48,48,65>>, <<48,48,48,97>>,                     \* FFF0 FFF1 000A 000a
              <<48,48,48,103>>, <<48,48,32,53>>, <<43,48,48,53>>, <<45,48,48,49>>, <<48,120,48,53>>,   \* 000g "00 5" +005 -001 0x05
              <<0,0,0,5>>, <<255,255,255,255>> }
Tails == { <<>>, <<97>>, <<97, 98>>, <<97,98,99,100,101,102>>, <<48,48,48,48>> }
DecInputs == { p \o t : p \in Prefixes, t \in Tails } \cup { <<>>, <<48>>, <<48,48>>, <<48,48,48>>, <<102,102,102>> }

\* ---------------------------------------------------------------- run
Txt(n, d) == Hex4(n) \o d
LineTok == { Txt(5, <<97>>), Txt(6, <<97,10>>), Txt(9, ERRP \o <<101>>), Txt(8, ERRP),   \* a, a LF, ERR e, "ERR " alone
             FLUSH, DELIM, REND,
             <<48,48,48,51>>, <<48,48,48,52>>,                                              \* 0003 0004
             <<102,102,102,49>>, <<102,102,102,102>>,                                       \* fff1 ffff
             <<48,48,48,103>>,                                                              \* 000g
             <<48,48,48,55, 97>>,                                                           \* 0007 a (one byte short)
             <<48,48>> }                                                                    \* a cut prefix
BandTok == { Txt(7, <<1,97,98>>), Txt(6, <<1,99>>), Txt(5, <<1>>),                          \* band 1: ab, c, empty
             Txt(7, <<2,112,10>>), Txt(6, <<3,101>>), Txt(5, <<2>>), Txt(5, <<3>>),         \* band 2 "p LF", band 3 "e", empty 2 / 3
             Txt(6, <<1,255>>),                                                             \* band 1 with a non-UTF-8 byte
             Txt(5, <<97>>),                                                                \* no band
             FLUSH, DELIM,
             <<102,102,102,49>>,                                                            \* fff1
             <<48,48,48,54, 1>> }                                                           \* band 1, one byte short
RECURSIVE Strs(_, _)
Strs(T, n) == IF n = 0 THEN { <<>> } ELSE LET P == Strs(T, n - 1) IN P \cup { s \o t : s \in P, t \in T }

C(op, n) == [op |-> op, n |-> n]
R == C("read", 0)  P == C("peek", 0)  Z == C("reset", 0)
LineScripts == { <<a, b, c, d>> : a \in {R, P}, b \in {R, P}, c \in {R, P}, d \in {R, P} }
               \cup { <<R, Z, R, R>>, <<P, Z, P, R>>, <<R, R, Z, R>>, <<R, P, Z, R, R>> }
LineCfgs == { [delims |-> dl, foe |-> f, h |-> FALSE] : dl \in { {}, {"flush"}, {"flush", "delim", "rend"} }, f \in BOOLEAN }

Rep(c, n) == [i \in 1..n |-> c]
SbScripts == { Rep(C("sbread", 1), 8), Rep(C("sbread", 100), 5),
               <<C("sbpeek", 0), C("sbread", 100), C("sbpeek", 0), C("sbread", 1), C("sbread", 100), C("sbread", 100)>>,
               Rep(C("sbline", 0), 5) }
SbCfgs == { [delims |-> {"flush"}, foe |-> f, h |-> hh] : f \in {FALSE}, hh \in BOOLEAN }

\* big lines: the largest legal line, one that claims the largest size but is cut, and oversize prefixes
BigLine == <<102,102,102,48>> \o Fill(122, 65516)
BigStreams == IF Big THEN { BigLine, BigLine \o Txt(5, <<97>>), <<102,102,102,48>> \o Fill(122, 100),
                            Txt(5, <<97>>) \o BigLine \o FLUSH, <<102,102,102,49>> \o Fill(122, 65517) }
              ELSE {}
BigScripts == { <<R, R, R>>, <<P, R, R>> }

\* ---------------------------------------------------------------- selectors and cases
\* a protocol-v2 ls-refs request for the audit against the installed git (binding C)
L(t, d) == [t |-> t, ch |-> 0, d |-> d]
AuditRequest == FlatSeq(<< Encode(L("text", <<99,111,109,109,97,110,100,61,108,115,45,114,101,102,115>>)).bytes,   \* command=ls-refs
                           Encode(L("text", <<111,98,106,101,99,116,45,102,111,114,109,97,116,61,115,104,97,49>>)).bytes, \* object-format=sha1
                           Encode(L("delim", <<>>)).bytes,
                           Encode(L("data", <<112,101,101,108,10>>)).bytes,                                      \* peel LF, as a data line
                           Encode(L("text", <<115,121,109,114,101,102,115>>)).bytes,                             \* symrefs
                           Encode(L("flush", <<>>)).bytes >>)

Selectors == { <<"enc", 0>>, <<"wr", 0>>, <<"dec", 0>>, <<"audit", 0>> }
             \cup { <<"lines", c>> : c \in LineCfgs } \cup { <<"sb", c>> : c \in SbCfgs }
             \cup (IF Big THEN { <<"big", 0>> } ELSE {})

RunCase(kind, S, cfg, calls) == [fam |-> "run", kind |-> kind, stream |-> S, delims |-> cfg.delims, foe |-> cfg.foe,
                                 h |-> cfg.h, calls |-> calls, outs |-> AbsRun(S, cfg, calls),
                                 upto |-> JudgedUpTo(AbsRun(S, cfg, calls))]
CasesOf(sel) ==
  CASE sel[1] = "enc"   -> { [fam |-> "enc", line |-> l, exp |-> Encode(l)] : l \in EncLines }
    [] sel[1] = "wr"    -> { [fam |-> "wr", d |-> c.d, binary |-> c.binary, exp |-> WrExpect(c)] : c \in WrCases }
    [] sel[1] = "audit" -> { [fam |-> "audit", request |-> AuditRequest] }
    [] sel[1] = "dec"   -> { [fam |-> "dec", input |-> b, exp |-> Decode(b)] : b \in DecInputs }
    [] sel[1] = "lines" -> { RunCase("lines", S, sel[2], sc) : S \in Strs(LineTok, LineToks), sc \in LineScripts }
    [] sel[1] = "sb"    -> { RunCase("sb", S, sel[2], sc) : S \in Strs(BandTok, BandToks), sc \in SbScripts }
    [] sel[1] = "big"   -> { RunCase("lines", S, [delims |-> {"flush"}, foe |-> FALSE, h |-> FALSE], sc) : S \in BigStreams, sc \in BigScripts }

NoCase == [fam |-> "none"]
VARIABLES sel, case, done
vars == <<sel, case, done>>
Init == sel \in Selectors /\ case = NoCase /\ done = FALSE
Pick == ~done /\ case' \in CasesOf(sel) /\ done' = TRUE /\ UNCHANGED sel
Spec == Init /\ [][Pick]_vars

\* ---------------------------------------------------------------- design-level statements
InvRoundTrip == (done /\ case.fam = "enc") => RoundTrip(case.line)
InvNoEarlyComplete == (done /\ case.fam = "enc" /\ Len(case.line.d) < 64) => NoEarlyComplete(case.line)
\* a side-band session of plain reads that reached the end without an error delivered exactly the
\* concatenated data bands and the progress messages in order
RECURSIVE CatD(_, _, _)  CatD(os, i, acc) == IF i > Len(os) THEN acc ELSE CatD(os, i + 1, acc \o os[i].d)
RECURSIVE CatP(_, _, _)  CatP(os, i, acc) == IF i > Len(os) THEN acc ELSE CatP(os, i + 1, acc \o os[i].prog)
InvDemuxAgrees ==
  (done /\ case.fam = "run" /\ case.kind = "sb" /\ case.h
   /\ (\A i \in 1..Len(case.calls) : case.calls[i].op = "sbread" /\ case.outs[i].k = "bytes")
   /\ case.outs[Len(case.outs)].d = <<>>)
  => LET dm == Demux(case.stream, [delims |-> case.delims, foe |-> case.foe, h |-> TRUE], 0, <<>>, <<>>) IN
     CatD(case.outs, 1, <<>>) = dm.data /\ CatP(case.outs, 1, <<>>) = dm.prog

Emit == done => PrintT(<<"CASE", ToJson(case)>>)
=============================================================================
