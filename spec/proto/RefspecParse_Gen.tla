--------------------------- MODULE RefspecParse_Gen ---------------------------
(* Binding A for C32, parsing: every string of <= MaxToks tokens, with git's   *)
(* verdict (parse_refspec, fetch), the parsed fields, and whether gitoxide's   *)
(* documented restrictions on negative specs apply.                            *)
EXTENDS Refspec, Json, TLC
CONSTANTS MaxToks, Wide

HEX == [i \in 1..40 |-> IF i % 2 = 0 THEN 97 ELSE 49]      \* "1a1a...": 40 hex digits
TokQuick == { <<PLUS>>, <<CARET>>, <<COLON>>, <<STAR>>, <<97>>, REFS \o HEADS, <<AT>>, HEX, <<SLASH>> }
TokWide == TokQuick \cup { HEADNAME, <<DOT>>, HEADS, <<98>> }
Tok == IF Wide THEN TokWide ELSE TokQuick

VARIABLES toks, done
vars == <<toks, done>>
Init == toks = <<>> /\ done = FALSE
Extend == ~done /\ Len(toks) < MaxToks /\ \E t \in Tok : toks' = Append(toks, t) /\ done' = FALSE
Finish == ~done /\ done' = TRUE /\ UNCHANGED toks
Next == Extend \/ Finish
Spec == Init /\ [][Next]_vars

Input == FlatSeq(toks)

\* design-level: a valid spec has balanced patterns, negative specs have no destination
ShapeLaws == done => LET p == Parse(Input) IN
  p.ok => /\ (p.mode = "negative" => p.dst = <<>>)
          /\ (p.pattern /\ p.mode # "negative" => HasByte(p.dst, STAR))
          /\ (~p.pattern => ~HasByte(p.dst, STAR) /\ ~HasByte(p.src, STAR))
          /\ (p.exact => ~p.pattern)

Emit == done => LET p == Parse(Input) IN
  PrintT(<<"CASE", ToJson([input |-> Input, gitok |-> p.ok, gixok |-> GixParseOk(Input),
                           bydesign |-> GixRefusesByDesign(Input),
                           mode |-> p.mode, src |-> SrcName(p), dst |-> p.dst])>>)
=============================================================================
