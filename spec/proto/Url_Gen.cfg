SPECIFICATION Spec
CONSTANTS
  Wide = FALSE
INVARIANTS
  InvRoundTrip
  InvDomainClosed
  Emit
CHECK_DEADLOCK FALSE
