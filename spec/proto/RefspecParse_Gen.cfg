SPECIFICATION Spec
CONSTANTS
  MaxToks = 4
  Wide = FALSE
  Bug_GlobOverlap = FALSE
INVARIANTS
  ShapeLaws
  Emit
CHECK_DEADLOCK FALSE
