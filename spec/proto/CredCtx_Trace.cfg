SPECIFICATION Spec
CONSTANTS
  Bug_StripCR = FALSE
INVARIANT EventOk
CHECK_DEADLOCK FALSE
