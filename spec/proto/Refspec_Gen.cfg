SPECIFICATION Spec
CONSTANTS
  MaxSpecs = 2
  MaxRefs = 3
  Wide = FALSE
  Bug_GlobOverlap = FALSE
INVARIANTS
  TokensValid
  ParsedIsParse
  GlobMapsKeepMiddle
  NegativeRemoves
  Emit
CHECK_DEADLOCK FALSE
