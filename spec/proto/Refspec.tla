------------------------------- MODULE Refspec -------------------------------
(* C32.  Fetch refspecs: git's parse_refspec (refspec.c, fetch = 1) and the   *)
(* mapping git fetch computes from a list of refspecs and the references the  *)
(* remote advertises (remote.c: get_fetch_map, get_expanded_map,              *)
(* match_name_with_pattern, find_ref_by_name_abbrev / refname_match,          *)
(* get_local_ref, apply_negative_refspecs, ref_remove_duplicates).            *)
(*                                                                            *)
(* Byte strings are sequences over 0..255.  A remote reference is a record    *)
(* [name, oid]; `oid` is 40 hex bytes and uninterpreted.  An absent           *)
(* destination is the empty byte string (git: "missing is the same as         *)
(* empty": do not store).                                                     *)
EXTENDS Bytes

\* TRUE re-introduces the defect of gix-refspec/src/match_group/util.rs at the pinned commit: the glob
\* match forgets that prefix and suffix must not overlap (self-test: GlobMapsKeepMiddle then fails).
CONSTANT Bug_GlobOverlap

PLUS == 43  CARET == 94  COLON == 58  STAR == 42  AT == 64  SLASH == 47  DOT == 46  LBRACE == 123
REFS     == <<114,101,102,115,47>>                                  \* "refs/"
HEADS    == <<104,101,97,100,115,47>>                               \* "heads/"
TAGS     == <<116,97,103,115,47>>                                   \* "tags/"
REMOTES  == <<114,101,109,111,116,101,115,47>>                      \* "remotes/"
HEADNAME == <<72,69,65,68>>                                         \* "HEAD"
SLASHHEAD == <<47,72,69,65,68>>                                     \* "/HEAD"
LOCK     == <<46,108,111,99,107>>                                   \* ".lock"

---------------------------------------------------------------------------
(* check_refname_format(name, REFNAME_ALLOW_ONELEVEL [| REFNAME_REFSPEC_PATTERN]) *)
BadByte(b) == b < 32 \/ b = 127 \/ b \in {32, 126, 94, 58, 63, 91, 92}

ComponentOk(c) ==
  /\ Len(c) > 0
  /\ c[1] # DOT
  /\ ~EndsWith(c, LOCK)
  /\ \A i \in 1..Len(c) :
       /\ ~BadByte(c[i])
       /\ ~(i > 1 /\ c[i] = DOT /\ c[i-1] = DOT)
       /\ ~(i > 1 /\ c[i] = LBRACE /\ c[i-1] = AT)

StarCount(s) == Cardinality({i \in 1..Len(s) : s[i] = STAR})

\* allowStar: REFNAME_REFSPEC_PATTERN - a single '*' in the whole name is accepted
RefFormatOk(s, allowStar) ==
  /\ Len(s) > 0
  /\ s # <<AT>>
  /\ \A i \in 1..Len(Split(s, SLASH)) : ComponentOk(Split(s, SLASH)[i])
  /\ s[Len(s)] # DOT
  /\ StarCount(s) <= (IF allowStar THEN 1 ELSE 0)

IsHex(b) == IsDigit(b) \/ (b >= 97 /\ b <= 102) \/ (b >= 65 /\ b <= 70)
IsOidHex(s) == Len(s) = 40 /\ \A i \in 1..40 : IsHex(s[i])

---------------------------------------------------------------------------
(* parse_refspec(item, text, fetch = 1)                                      *)
(* Result: [ok, mode, src, dst, pattern, exact].  src = <<>> means HEAD.     *)
Parse(s) ==
  LET first  == IF s = <<>> THEN 0 ELSE s[1]
      mode   == IF first = PLUS THEN "force" ELSE IF first = CARET THEN "negative" ELSE "normal"
      body   == IF first \in {PLUS, CARET} THEN Tail(s) ELSE s
      neg    == mode = "negative"
      colon  == RFindByte(body, COLON)                      \* strrchr: the LAST colon
      hasRhs == colon # 0
      lhs    == IF hasRhs THEN SubSeq(body, 1, colon - 1) ELSE body
      rhs    == IF hasRhs THEN Drop(body, colon) ELSE <<>>
      rglob  == HasByte(rhs, STAR)
      lglob  == HasByte(lhs, STAR)
      shape  == /\ ~(neg /\ hasRhs)
                /\ (lglob => ~((hasRhs /\ ~rglob) \/ (~hasRhs /\ ~neg)))
                /\ (~lglob => ~(hasRhs /\ rglob))
      glob   == lglob
      src    == IF lhs = <<AT>> THEN HEADNAME ELSE lhs
      exact  == ~neg /\ IsOidHex(src)
      srcOk  == IF neg THEN src # <<>> /\ ~IsOidHex(src) /\ RefFormatOk(src, glob)
                ELSE src = <<>> \/ exact \/ RefFormatOk(src, glob)
      dstOk  == rhs = <<>> \/ RefFormatOk(rhs, glob)
  IN [ok |-> shape /\ srcOk /\ dstOk, mode |-> mode, src |-> src, dst |-> rhs,
      pattern |-> glob, exact |-> exact]

(* Restrictions gitoxide documents for negative specs (gix-refspec/src/parse.rs, Error::            *)
(* NegativeGlobPattern "Negative glob patterns are not allowed", Error::NegativePartialName          *)
(* "Negative specs must be full ref names, starting with \"refs/\""): such specs are valid for git   *)
(* but refused by design; spec lists containing them are outside the judged domain of matching.     *)
GixRefusesByDesign(s) ==
  LET p == Parse(s) IN
  p.ok /\ p.mode = "negative" /\ (p.pattern \/ ~(StartsWith(p.src, REFS) \/ p.src = HEADNAME))

GixParseOk(s) == Parse(s).ok /\ ~GixRefusesByDesign(s)

---------------------------------------------------------------------------
(* match_name_with_pattern(key, name, value)                                 *)
StarPos(k) == FindByte(k, STAR)
GlobPrefix(k) == SubSeq(k, 1, StarPos(k) - 1)
GlobSuffix(k) == Drop(k, StarPos(k))

GlobMatch(key, name) ==
  /\ StartsWith(name, GlobPrefix(key))
  /\ (Bug_GlobOverlap \/ Len(name) >= Len(GlobPrefix(key)) + Len(GlobSuffix(key)))  \* prefix and suffix must not overlap
  /\ EndsWith(name, GlobSuffix(key))

GlobSubst(key, name, value) ==
  GlobPrefix(value)
    \o SubSeq(name, Len(GlobPrefix(key)) + 1, Len(name) - Len(GlobSuffix(key)))
    \o GlobSuffix(value)

(* refname_match / ref_rev_parse_rules: the rule list, best (earliest) rule wins *)
Rules(n) == << n, REFS \o n, REFS \o TAGS \o n, REFS \o HEADS \o n, REFS \o REMOTES \o n,
               REFS \o REMOTES \o n \o SLASHHEAD >>

RuleOf(n, full) == IF \E k \in 1..6 : Rules(n)[k] = full
                   THEN CHOOSE k \in 1..6 : Rules(n)[k] = full /\ \A j \in 1..(k-1) : Rules(n)[j] # full
                   ELSE 0

\* index into refs of the reference `git fetch <name>` selects, 0 if none ("couldn't find remote ref")
BestRef(refs, n) ==
  LET cand == {i \in 1..Len(refs) : RuleOf(n, refs[i].name) # 0} IN
  IF cand = {} THEN 0
  ELSE CHOOSE i \in cand : \A j \in cand : RuleOf(n, refs[i].name) <= RuleOf(n, refs[j].name)

(* get_local_ref *)
LocalRef(d) ==
  IF d = <<>> THEN <<>>
  ELSE IF StartsWith(d, REFS) THEN d
  ELSE IF StartsWith(d, HEADS) \/ StartsWith(d, TAGS) \/ StartsWith(d, REMOTES) THEN REFS \o d
  ELSE REFS \o HEADS \o d

SrcName(p) == IF p.src = <<>> THEN HEADNAME ELSE p.src

Mapping(src, isOid, dst, k) == [src |-> src, oid |-> isOid, dst |-> dst, spec |-> k]

\* get_fetch_map for one positive refspec p (index k): the set of mappings it contributes
SpecMaps(p, k, refs) ==
  IF p.mode = "negative" THEN {}
  ELSE IF p.pattern
    THEN { Mapping(refs[i].name, FALSE, GlobSubst(p.src, refs[i].name, p.dst), k) :
             i \in {j \in 1..Len(refs) : GlobMatch(p.src, refs[j].name)} }
  ELSE IF p.exact THEN { Mapping(LowerSeq(p.src), TRUE, LocalRef(p.dst), k) }
  ELSE LET b == BestRef(refs, SrcName(p)) IN
       IF b = 0 THEN {} ELSE { Mapping(refs[b].name, FALSE, LocalRef(p.dst), k) }

\* a non-pattern name that the remote does not have: git dies "couldn't find remote ref"
MissingRef(p, refs) ==
  p.mode # "negative" /\ ~p.pattern /\ ~p.exact /\ BestRef(refs, SrcName(p)) = 0

\* refspec_match / omit_name_by_refspec
Omitted(name, ps) ==
  \E k \in 1..Len(ps) :
     /\ ps[k].mode = "negative"
     /\ IF ps[k].pattern THEN GlobMatch(ps[k].src, name) ELSE ps[k].src = name

\* "* Ignoring funny ref '%s' locally"
Funny(m) == m.dst # <<>> /\ ~(StartsWith(m.dst, REFS) /\ RefFormatOk(m.dst, FALSE))

AllMaps(ps, refs) == UNION { SpecMaps(ps[k], k, refs) : k \in 1..Len(ps) }

\* after the negative specs were applied (what match_remotes reports)
Matched(ps, refs) == { m \in AllMaps(ps, refs) : ~Omitted(m.src, ps) }
\* git's final map: funny destinations are dropped when each spec is expanded
Final(ps, refs) == { m \in Matched(ps, refs) : ~Funny(m) }

\* ref_remove_duplicates / handle_duplicate: "Cannot fetch both %s and %s to %s"
Conflict(ms) == \E a \in ms, b \in ms : a.dst # <<>> /\ a.dst = b.dst /\ a.src # b.src

\* the observable: pairs source -> destination, each with the first spec that produced it
Pairs(ms) == { <<m.src, m.dst>> : m \in ms }
FirstSpec(ms, pr) == CHOOSE k \in {m.spec : m \in {x \in ms : <<x.src, x.dst>> = pr}} :
                        \A m \in ms : <<m.src, m.dst>> = pr => k <= m.spec

ParseAll(specs) == [k \in 1..Len(specs) |-> Parse(specs[k])]
AllOk(specs) == \A k \in 1..Len(specs) : Parse(specs[k]).ok
AnyMissing(ps, refs) == \E k \in 1..Len(ps) : MissingRef(ps[k], refs)

---------------------------------------------------------------------------
(* Shapes of inputs, used to label cases (never to decide them).             *)
\* a pattern whose prefix and suffix overlap on some advertised name
OverlapShape(ps, refs) ==
  \E k \in 1..Len(ps), i \in 1..Len(refs) :
     /\ ps[k].pattern
     /\ StartsWith(refs[i].name, GlobPrefix(ps[k].src))
     /\ EndsWith(refs[i].name, GlobSuffix(ps[k].src))
     /\ Len(refs[i].name) < Len(GlobPrefix(ps[k].src)) + Len(GlobSuffix(ps[k].src))
\* an abbreviated name that more than one advertised reference would satisfy
AmbiguousShape(ps, refs) ==
  \E k \in 1..Len(ps) :
     /\ ps[k].mode # "negative" /\ ~ps[k].pattern /\ ~ps[k].exact
     /\ Cardinality({i \in 1..Len(refs) : RuleOf(SrcName(ps[k]), refs[i].name) # 0}) > 1
\* destination abbreviated with heads/
HeadsDstShape(ps) == \E k \in 1..Len(ps) : ~ps[k].pattern /\ StartsWith(ps[k].dst, HEADS)
\* funny destinations by kind: the literal HEAD, a name below refs/ that is not a valid refname,
\* a name outside refs/
FunnyHeadShape(ms) == \E m \in ms : Funny(m) /\ m.dst = HEADNAME
FunnyNameShape(ms) == \E m \in ms : Funny(m) /\ StartsWith(m.dst, REFS)
FunnyOutsideShape(ms) == \E m \in ms : Funny(m) /\ ~StartsWith(m.dst, REFS) /\ m.dst # HEADNAME
Shapes(ps, refs, mt) == [overlap |-> OverlapShape(ps, refs), ambiguous |-> AmbiguousShape(ps, refs),
                         headsdst |-> HeadsDstShape(ps), funnyhead |-> FunnyHeadShape(mt),
                         funnyname |-> FunnyNameShape(mt), funnyoutside |-> FunnyOutsideShape(mt)]
=============================================================================
