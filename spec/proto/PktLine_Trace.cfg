SPECIFICATION Spec
CONSTANTS
  MaxData = 65516
INVARIANT EventOk
CHECK_DEADLOCK FALSE
