---------------------------- MODULE CredCtxDec_Gen ----------------------------
(* Binding A for C35 (reader side): every message of <= MaxToks tokens with   *)
(* what Read makes of it.  Tokens are chosen from the reader's special cases: *)
(* known keys, an unknown key, '=', LF (blank line = end), CR, NUL, a byte    *)
(* that is not UTF-8, a two-byte UTF-8 character.                             *)
EXTENDS CredCtx, Json, TLC
CONSTANTS MaxToks

Tok == { KeyBytes["username"] \o <<EQ>>, KeyBytes["path"] \o <<EQ>>, <<120, 61>>, <<97>>, <<61>>,
         <<10>>, <<13>>, <<0>>, <<255>>, <<195,169>> }

VARIABLES toks, done
vars == <<toks, done>>
Init == toks = <<>> /\ done = FALSE
Extend == ~done /\ Len(toks) < MaxToks /\ \E t \in Tok : toks' = Append(toks, t) /\ done' = FALSE
Finish == ~done /\ done' = TRUE /\ UNCHANGED toks
Next == Extend \/ Finish
Spec == Init /\ [][Next]_vars

Input == FlatSeq(toks)
Emit == done => PrintT(<<"CASE", ToJson([input    |-> Input,
                                          ok       |-> Read(Input).ok,
                                          ctx      |-> Read(Input).ctx,
                                          indomain |-> DecodeInDomain(Input)])>>)
=============================================================================
