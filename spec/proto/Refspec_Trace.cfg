SPECIFICATION Spec
CONSTANTS
  Bug_GlobOverlap = FALSE
INVARIANT EventOk
CHECK_DEADLOCK FALSE
