SPECIFICATION TSpec
CONSTANTS
  Parents <- ParentsMC
  Time <- TimeMC
  Kind <- KindMC
  Bug_FFByTimeCutoff = FALSE
  Shape = 1
  Small = TRUE
  Emitting = FALSE
INVARIANT EventOk
CHECK_DEADLOCK FALSE
