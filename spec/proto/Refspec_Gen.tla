----------------------------- MODULE Refspec_Gen -----------------------------
(* Binding A for C32: TLC enumerates every list of <= MaxSpecs refspecs from   *)
(* the token alphabet against every set of <= MaxRefs advertised references    *)
(* and prints git's mapping as computed by the specification.                  *)
(* Object ids are uninterpreted: the driver creates one commit per name index  *)
(* with the real git and passes the hex ids in the JSON file $PARAMS           *)
(* ({"oids": [[40 hex bytes], ...]}).                                          *)
EXTENDS Refspec, Json, IOUtils, TLC
CONSTANTS MaxSpecs, MaxRefs, Wide

P == ndJsonDeserialize(IOEnv.PARAMS)[1]
Oid(i) == P.oids[i]

a == <<97>>
RH == REFS \o HEADS
RT == REFS \o TAGS
RR == REFS \o REMOTES
RO == RR \o <<111,47>>                 \* refs/remotes/o/
C(x, y) == x \o <<COLON>> \o y

\* advertised names, in the order git advertises them
NamesQuick == << HEADNAME, RH \o a, RH \o <<97,97>>, RH \o <<97,98,97>>, RH \o <<109,97,105,110>>, RT \o a >>
\*               HEAD      refs/heads/a  refs/heads/aa    refs/heads/aba       refs/heads/main          refs/tags/a
NamesWide == NamesQuick \o << REFS \o a, RR \o a \o SLASHHEAD >>
\*                            refs/a      refs/remotes/a/HEAD
Names == IF Wide THEN NamesWide ELSE NamesQuick

SpecQuick == {
  C(RH \o <<STAR>>, RO \o <<STAR>>),                          \* refs/heads/*:refs/remotes/o/*
  <<PLUS>> \o C(RT \o <<STAR>>, RO \o <<STAR>>),              \* +refs/tags/*:refs/remotes/o/*
  C(RH \o <<97,STAR,97>>, REFS \o <<120,47,97,STAR,97>>),     \* refs/heads/a*a:refs/x/a*a   (overlap)
  C(REFS \o <<STAR,47,97>>, REFS \o <<121,47,STAR>>),         \* refs/*/a:refs/y/*
  C(RH \o <<STAR,97>>, REFS \o <<122,47,STAR,97>>),           \* refs/heads/*a:refs/z/*a
  <<CARET>> \o RH \o a,                                       \* ^refs/heads/a
  <<CARET>> \o RH \o <<97,97>>,                               \* ^refs/heads/aa
  <<CARET>> \o HEADNAME,                                      \* ^HEAD
  a,                                                          \* a            (abbreviated, ambiguous)
  C(<<109,97,105,110>>, <<109>>),                             \* main:m
  C(HEADS \o a, HEADS \o <<98>>),                             \* heads/a:heads/b
  C(a, TAGS \o <<116>>),                                      \* a:tags/t
  C(RH \o a, RO \o a),                                        \* refs/heads/a:refs/remotes/o/a
  C(RH \o <<97,97>>, RO \o a),                                \* refs/heads/aa:refs/remotes/o/a
  <<PLUS>> \o C(a, RO \o a),                                  \* +a:refs/remotes/o/a
  Oid(19),                                                    \* <id of a commit no advertised ref points at>
  C(Oid(19), RO \o a),                                        \* <id>:refs/remotes/o/a
  <<>>,                                                       \* (empty: HEAD)
  C(<<>>, RH \o <<104>>),                                     \* :refs/heads/h
  C(<<AT>>, REMOTES \o <<114>>),                              \* @:remotes/r
  C(RH \o <<STAR>>, <<120,47,STAR>>),                         \* refs/heads/*:x/*   (funny destination)
  C(<<STAR>>, <<STAR>>)                                       \* *:*
}
SpecWide == SpecQuick \cup {
  <<PLUS>> \o C(RH \o <<STAR>>, RO \o <<STAR>>),              \* +refs/heads/*:refs/remotes/o/*
  C(RT \o <<STAR>>, <<120,47,STAR>>),                         \* refs/tags/*:x/*
  C(RH \o <<97,STAR>>, REFS \o <<120,47,97,46,STAR>>),        \* refs/heads/a*:refs/x/a.*
  C(RH \o <<97,STAR,98,97>>, RH \o <<STAR>>),                 \* refs/heads/a*ba:refs/heads/*
  <<CARET>> \o RT \o a,                                       \* ^refs/tags/a
  C(REMOTES \o a, <<114>>),                                   \* remotes/a:r
  C(a \o SLASHHEAD, <<>>),                                    \* a/HEAD:
  C(HEADNAME, HEADNAME),                                      \* HEAD:HEAD
  C(Oid(20), <<111>>),                                        \* <another id>:o
  C(TAGS \o a, RO \o a)                                       \* tags/a:refs/remotes/o/a
}
SpecTok == IF Wide THEN SpecWide ELSE SpecQuick

\* parsed once per token (constant-level, evaluated once by TLC)
ParseTok == [t \in SpecTok |-> Parse(t)]

VARIABLES specs, ps, sel, done        \* ps = ParseAll(specs), carried along
vars == <<specs, ps, sel, done>>

Init == specs = <<>> /\ ps = <<>> /\ done = FALSE /\ sel \in {s \in SUBSET (1..Len(Names)) : Cardinality(s) <= MaxRefs}
Extend == ~done /\ Len(specs) < MaxSpecs /\ \E t \in SpecTok : specs' = Append(specs, t) /\ ps' = Append(ps, ParseTok[t]) /\ UNCHANGED <<sel, done>>
Finish == ~done /\ specs # <<>> /\ done' = TRUE /\ UNCHANGED <<specs, ps, sel>>
Next == Extend \/ Finish
Spec == Init /\ [][Next]_vars

RECURSIVE PickRefs(_)
PickRefs(i) == IF i > Len(Names) THEN <<>>
               ELSE (IF i \in sel THEN << [name |-> Names[i], oid |-> Oid(i)] >> ELSE <<>>) \o PickRefs(i + 1)
Refs == PickRefs(1)

MapsJson(ms) == { [src |-> m.src, oid |-> m.oid, dst |-> m.dst, spec |-> FirstSpec(ms, <<m.src, m.dst>>)] : m \in ms }

\* every enumerated token is a valid refspec for git and for gitoxide (the parse generator covers the rest)
TokensValid == \A t \in SpecTok : GixParseOk(t)

\* design-level statements about the mapping
ParsedIsParse == ps = ParseAll(specs)
GlobMapsKeepMiddle ==
  done => \A m \in AllMaps(ps, Refs) :
            ps[m.spec].pattern => Len(m.dst) - Len(ps[m.spec].dst) = Len(m.src) - Len(ps[m.spec].src)
NegativeRemoves ==
  done => \A m \in Final(ps, Refs) : ~Omitted(m.src, ps)

Emit == done =>
  LET mt == Matched(ps, Refs)
      fn == {m \in mt : ~Funny(m)} IN
  PrintT(<<"CASE", ToJson([specs    |-> specs,
                           refs     |-> Refs,
                           missing  |-> AnyMissing(ps, Refs),
                           matched  |-> MapsJson(mt),
                           final    |-> MapsJson(fn),
                           conflict |-> Conflict(fn),
                           shapes   |-> Shapes(ps, Refs, mt)])>>)
=============================================================================
