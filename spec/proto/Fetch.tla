------------------------------- MODULE Fetch -------------------------------
(* C31.  Fetching from a git server: which objects arrive and what the local  *)
(* references become.                                                         *)
(*                                                                            *)
(* History: commits are numbers; Parents[c] is a set of smaller numbers,      *)
(* Time[c] the committer time (NOT necessarily monotonic along parents:       *)
(* clocks are skewed in real histories).  SHA-1 is uninterpreted; a commit's  *)
(* tree and blobs travel with it, so "objects" are commits and tag objects.   *)
(*                                                                            *)
(* Server: refs  name -> commit  over heads ("refs/heads/..") and tags.       *)
(* Client: odb (a set of commits, closed under Parents), refs name -> commit. *)
(* Refspec set: the mappings  server ref -> [dst, force]  it induces (the     *)
(* matching rules themselves are C32's subject; here they are tabulated per   *)
(* named set), and whether tags are followed automatically.                   *)
(*                                                                            *)
(* The fetch is a state machine                                               *)
(*   "start" -> "negotiate" (rounds of have-lines, newest commit time first;  *)
(*   the server acknowledges the ones it has) -> "pack" (the server sends     *)
(*   Closure(wants) minus everything reachable from acknowledged commits)     *)
(*   -> "refs" (each mapping is decided by git's update rules) -> "done"      *)
(* with the invariants                                                        *)
(*   HavesAreLocal   every have-line names a commit of the client             *)
(*   AckedAreCommon  what the server acknowledged it really has               *)
(*   RefsClosed      at every moment every client ref's history is in the odb *)
(*                   (so refs may only move after the pack is stored)         *)
(*   PackSuffices    after "pack" the odb contains Closure(wants)             *)
(* and the final refs are ExpectedRefs.                                       *)
EXTENDS Naturals, Integers, Sequences, FiniteSets, TLC

CONSTANTS Parents,      \* function object -> set of objects (a commit's parents; a tag object's target)
          Time,         \* function commit -> committer time
          Kind,         \* function object -> "commit" | "tag"  (annotated tag objects are part of the graph)
          Bug_FFByTimeCutoff
          \* TRUE = gix at the pinned commit: "is the local commit an ancestor of the remote one" is decided by a walk
          \* from the remote commit that does not go below the local commit's committer time

Commits == DOMAIN Parents
None == 0                                        \* "no such ref"

RECURSIVE Closure(_)
Closure(S) == LET next == S \cup UNION {Parents[c] : c \in S} IN IF next = S THEN S ELSE Closure(next)
\* ancestors-or-self of one commit
Anc(c) == Closure({c})
RECURSIVE Peel(_)
Peel(o) == IF Kind[o] = "tag" THEN Peel(CHOOSE t \in Parents[o] : TRUE) ELSE o
IsAncestor(a, b) == a \in Anc(b)

\* the walk of the pinned implementation: from b, never expanding commits older than a's time
RECURSIVE CutWalk(_, _, _)
CutWalk(front, seen, cutoff) ==
  LET ok == {c \in front : Time[c] >= cutoff} IN
  IF ok = {} THEN seen
  ELSE CutWalk((UNION {Parents[c] : c \in ok}) \ (seen \cup ok), seen \cup ok, cutoff)
IsAncestorByTimeCutoff(a, b) == a \in CutWalk({b}, {}, Time[a])

FastForward(old, new) == IF Bug_FFByTimeCutoff THEN IsAncestorByTimeCutoff(old, new) ELSE IsAncestor(old, new)

---------------------------------------------------------------------------
(* reference update rules (git: builtin/fetch.c update_local_ref)            *)
(* mapping: [src, dst, force, tag (dst is under refs/tags/), commit]          *)

Decide(cur, m) ==
  IF cur = None THEN "new"
  ELSE IF cur = m.commit THEN "same"
  ELSE IF m.tag THEN (IF m.force THEN "forced" ELSE "rejected-tag")
  ELSE IF FastForward(cur, m.commit) THEN "fast-forward"
  ELSE IF m.force THEN "forced"
  ELSE "rejected-nonff"

Updates(d) == d \in {"new", "fast-forward", "forced"}

RefOf(refs, name) == IF name \in DOMAIN refs THEN refs[name] ELSE None

\* apply the mappings (a sequence; a destination is mapped at most once)
RECURSIVE ApplyAll(_, _, _)
ApplyAll(refs, ms, i) ==
  IF i > Len(ms) THEN refs
  ELSE LET m == ms[i]
           d == Decide(RefOf(refs, m.dst), m)
       IN ApplyAll(IF Updates(d) THEN [n \in (DOMAIN refs \cup {m.dst}) |-> IF n = m.dst THEN m.commit ELSE refs[n]] ELSE refs, ms, i + 1)

\* automatic tag following: a server tag whose name is free locally is created if the tagged commit is in the
\* object database once the pack is stored (git: find_non_local_tags + backfill_tags); the tag object comes along
FollowedTags(serverTags, refs, odbAfter) ==
  {t \in DOMAIN serverTags : RefOf(refs, t) = None /\ Peel(serverTags[t]) \in odbAfter}

ExpectedRefs(refs, ms, serverTags, follow, odbAfter) ==
  LET r1 == ApplyAll(refs, ms, 1)
      ft == IF follow THEN FollowedTags(serverTags, r1, odbAfter) ELSE {}
  IN [n \in (DOMAIN r1 \cup ft) |-> IF n \in ft THEN serverTags[n] ELSE r1[n]]

ExpectedOdb(refs, ms, serverTags, follow, odbAfter) ==
  LET r1 == ApplyAll(refs, ms, 1)
      ft == IF follow THEN FollowedTags(serverTags, r1, odbAfter) ELSE {}
  IN odbAfter \cup Closure({serverTags[t] : t \in ft})

Wants(ms) == {ms[i].commit : i \in 1..Len(ms)}

---------------------------------------------------------------------------
(* the state machine *)

VARIABLES phase, odb, refs, haves, acked, queue, world
vars == <<phase, odb, refs, haves, acked, queue, world>>
\* world = [server : commits the server has, srefs, stags, ms, follow, refs0, odb0]  (constant during a fetch)

RefsClosed == \A n \in DOMAIN refs : Anc(refs[n]) \subseteq odb
HavesAreLocal == haves \subseteq world.odb0
AckedAreCommon == acked \subseteq (world.server \cap world.odb0)
PackSuffices == phase \in {"refs", "done"} => Closure(Wants(world.ms)) \subseteq odb
OdbClosed == Closure(odb) = odb
FinalRefs == phase = "done" => refs = ExpectedRefs(world.refs0, world.ms, world.stags, world.follow, odb)
\* a fast-forward by the rule actually used is a fast-forward (no history is lost without `+`)
NoSilentRewind ==
  phase = "done" =>
    \A i \in 1..Len(world.ms) :
       LET m == world.ms[i]
           old == RefOf(world.refs0, m.dst)
       IN (old # None /\ ~m.force /\ ~m.tag /\ RefOf(refs, m.dst) # old) => IsAncestor(old, RefOf(refs, m.dst))
\* ... and every true fast-forward is taken (this is what a commit-time cut-off breaks)
FastForwardsTaken ==
  phase = "done" =>
    \A i \in 1..Len(world.ms) :
       LET m == world.ms[i]
           old == RefOf(world.refs0, m.dst)
       IN (old # None /\ ~m.tag /\ IsAncestor(old, m.commit)) => RefOf(refs, m.dst) = m.commit

Newest(S) == CHOOSE c \in S : \A d \in S : Time[d] < Time[c] \/ (Time[d] = Time[c] /\ d <= c)

\* start: the tips of the client's refs enter the queue
Start == /\ phase = "start"
         /\ phase' = "negotiate"
         /\ queue' = {refs[n] : n \in DOMAIN refs}
         /\ UNCHANGED <<odb, refs, haves, acked, world>>

\* one have-line: the newest queued commit; the server acknowledges it if it has it; ancestors of an
\* acknowledged commit are common too and are not offered any more
Have == /\ phase = "negotiate" /\ queue # {}
        /\ LET c == Newest(queue)
               common == c \in world.server
           IN /\ haves' = haves \cup {c}
              /\ acked' = IF common THEN acked \cup {c} ELSE acked
              /\ queue' = (queue \ {c}) \cup (IF common THEN {} ELSE (Parents[c] \ (haves \cup Closure(acked))))
        /\ UNCHANGED <<phase, odb, refs, world>>

\* the client may stop offering at any time ("done"); the server then sends what the wants need beyond the
\* acknowledged history
SendPack == /\ phase = "negotiate"
            /\ phase' = "refs"
            /\ odb' = odb \cup (Closure(Wants(world.ms)) \ Closure(acked))
            /\ UNCHANGED <<refs, haves, acked, queue, world>>

UpdateRefs == /\ phase = "refs"
              /\ phase' = "done"
              /\ refs' = ExpectedRefs(refs, world.ms, world.stags, world.follow, odb)
              /\ odb' = ExpectedOdb(refs, world.ms, world.stags, world.follow, odb)      \* followed tag objects are back-filled
              /\ UNCHANGED <<haves, acked, queue, world>>

Next == Start \/ Have \/ SendPack \/ UpdateRefs
=============================================================================
