SPECIFICATION Spec
CONSTANTS
  Parents <- ParentsMC
  Time <- TimeMC
  Kind <- KindMC
  Bug_FFByTimeCutoff = FALSE
  Shape = 1
  Small = TRUE
  Emitting = FALSE
INVARIANTS
  RefsClosed
  HavesAreLocal
  AckedAreCommon
  PackSuffices
  OdbClosed
  FinalRefs
  NoSilentRewind
  FastForwardsTaken
CHECK_DEADLOCK FALSE
