SPECIFICATION Spec
CONSTANTS
  MaxRefs = 2
INVARIANTS
  InvNamesDistinct
  InvV2CoversV0
  InvPrefixFilters
  Emit
CHECK_DEADLOCK FALSE
