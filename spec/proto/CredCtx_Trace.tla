---------------------------- MODULE CredCtx_Trace ----------------------------
(* Binding B (and C) for C35.  Events, all with the same fields                *)
(*   [kind, ctx, refused, bytes, back_ok, back, ok]                            *)
(*  kind "rt" : Context::write_to(ctx) was refused / produced `bytes`, and     *)
(*              Context::from_bytes(bytes) gave back_ok / back                 *)
(*  kind "dec": Context::from_bytes(bytes) gave ok / back                      *)
(*  kind "git": the installed git was handed ctx; it refused, or its helper    *)
(*              received `bytes` (audit of the specification)                  *)
EXTENDS CredCtx, TraceIO

VARIABLE l
Init == l = 1
Next == l <= NRec /\ l' = l + 1
Spec == Init /\ [][Next]_l

JudgeRt(r) ==
  /\ MustRefuse(r.ctx) => r.refused                 \* LF / NUL are never sent
  /\ r.refused => MayRefuse(r.ctx)                  \* nothing else is refused (CR: either way)
  /\ ~r.refused => /\ IsEncodingOf(r.bytes, r.ctx)  \* exactly one key=value line per field set
                   /\ r.back_ok /\ r.back = r.ctx   \* and the real reader returns the same fields

JudgeDec(r) ==
  DecodeInDomain(r.bytes) => /\ r.ok = Read(r.bytes).ok
                             /\ (r.ok => r.back = Read(r.bytes).ctx)

\* git refuses LF, NUL cannot be expressed, and (protectProtocol) CR; what it sends is an encoding
JudgeGit(r) ==
  /\ r.refused = MayRefuse(r.ctx)
  /\ ~r.refused => IsEncodingOf(r.bytes, r.ctx)

Judge(r) == CASE r.kind = "rt"  -> JudgeRt(r)
              [] r.kind = "dec" -> JudgeDec(r)
              [] r.kind = "git" -> JudgeGit(r)
              [] OTHER -> FALSE

EventOk == l <= NRec => (Judge(Rec[l]) \/ PrintT(<<"REJECT", l>>))
=============================================================================
