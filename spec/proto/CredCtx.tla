------------------------------- MODULE CredCtx -------------------------------
(* C35.  The credential-helper wire format (gitcredentials(7), "INPUT/OUTPUT   *)
(* FORMAT" of git-credential(1)): a context is sent as `key=value` lines, each *)
(* terminated by LF; the value is everything after the first '=' up to the LF; *)
(* an empty line (or the end of input) ends the message; unknown keys are      *)
(* skipped; a later line for the same key replaces the earlier one.            *)
(*                                                                             *)
(* A context is a function from the six field names to an *optional* byte      *)
(* string: <<>> = absent, <<v>> = present with value v (JSON: [] / [[..]]).    *)
(*                                                                             *)
(*   Write(c)      the message for c (fields in a canonical order)             *)
(*   Read(b)       [ok, ctx] for EVERY byte string b                           *)
(*   MustRefuse(c) a value contains LF or NUL: such a context cannot be sent   *)
(*                 (TLC shows Read(RawWrite(c)) # c for every such c, and      *)
(*                 Read(Write(c)) = c for every other c)                       *)
(*   MayRefuse(c)  MustRefuse, or a value contains CR (git >= 2.48.1 and the   *)
(*                 installed 2.39.5-deb12u3 refuse these: CVE-2024-52006,      *)
(*                 credential.protectProtocol) - an implementation may go      *)
(*                 either way, but what it does send must read back unchanged. *)
(*                                                                             *)
(* Bug_StripCR re-introduces the reader of the pinned commit (lines are split  *)
(* with bstr's `lines()`, which also drops a CR in front of the LF).           *)
EXTENDS Bytes

CONSTANT Bug_StripCR

LF == 10  CR == 13  NUL == 0  EQ == 61

FieldSet == {"url", "path", "protocol", "host", "username", "password"}
Order == <<"url", "path", "protocol", "host", "username", "password">>   \* canonical order of Write
StringFields == {"protocol", "host", "username", "password"}             \* text (UTF-8) in gitoxide's type
KeyBytes == [url      |-> <<117,114,108>>,
             path     |-> <<112,97,116,104>>,
             protocol |-> <<112,114,111,116,111,99,111,108>>,
             host     |-> <<104,111,115,116>>,
             username |-> <<117,115,101,114,110,97,109,101>>,
             password |-> <<112,97,115,115,119,111,114,100>>]

None == <<>>
Some(v) == <<v>>
IsSet(c, f) == c[f] # <<>>
Val(c, f) == c[f][1]
EmptyCtx == [f \in FieldSet |-> None]
SetFields(c) == {f \in FieldSet : IsSet(c, f)}

\* ---------------------------------------------------------------- UTF-8 (RFC 3629)
IsCont(b) == b >= 128 /\ b <= 191
RECURSIVE Utf8From(_, _)
Utf8From(s, i) ==
  IF i > Len(s) THEN TRUE
  ELSE LET b == s[i]
           n == Len(s)
           c(k) == i + k <= n /\ IsCont(s[i + k])
       IN IF b < 128 THEN Utf8From(s, i + 1)
          ELSE IF b >= 194 /\ b <= 223 THEN c(1) /\ Utf8From(s, i + 2)
          ELSE IF b = 224 THEN c(1) /\ s[i + 1] >= 160 /\ c(2) /\ Utf8From(s, i + 3)
          ELSE IF b = 237 THEN c(1) /\ s[i + 1] <= 159 /\ c(2) /\ Utf8From(s, i + 3)
          ELSE IF b >= 225 /\ b <= 239 THEN c(1) /\ c(2) /\ Utf8From(s, i + 3)
          ELSE IF b = 240 THEN c(1) /\ s[i + 1] >= 144 /\ c(2) /\ c(3) /\ Utf8From(s, i + 4)
          ELSE IF b = 244 THEN c(1) /\ s[i + 1] <= 143 /\ c(2) /\ c(3) /\ Utf8From(s, i + 4)
          ELSE IF b >= 241 /\ b <= 243 THEN c(1) /\ c(2) /\ c(3) /\ Utf8From(s, i + 4)
          ELSE FALSE
Utf8Ok(s) == Utf8From(s, 1)

\* ---------------------------------------------------------------- writing
BadValue(v) == HasByte(v, LF) \/ HasByte(v, NUL)
MustRefuse(c) == \E f \in FieldSet : IsSet(c, f) /\ BadValue(Val(c, f))
MayRefuse(c)  == \E f \in FieldSet : IsSet(c, f) /\ (BadValue(Val(c, f)) \/ HasByte(Val(c, f), CR))

Line(f, v) == KeyBytes[f] \o <<EQ>> \o v \o <<LF>>
\* the bytes that would be sent without any validation
RawWrite(c) == FlatSeq([i \in 1..6 |-> IF IsSet(c, Order[i]) THEN Line(Order[i], Val(c, Order[i])) ELSE <<>>])
Write(c) == IF MustRefuse(c) THEN [refused |-> TRUE, bytes |-> <<>>]
            ELSE [refused |-> FALSE, bytes |-> RawWrite(c)]

\* ---------------------------------------------------------------- reading
StripCR(l) == IF Bug_StripCR /\ l # <<>> /\ l[Len(l)] = CR THEN SubSeq(l, 1, Len(l) - 1) ELSE l

RECURSIVE ReadFrom(_, _, _)
ReadFrom(ls, i, ctx) ==
  IF i > Len(ls) \/ StripCR(ls[i]) = <<>> THEN [ok |-> TRUE, ctx |-> ctx]
  ELSE LET l == StripCR(ls[i])
           e == FindByte(l, EQ)
           k == SubSeq(l, 1, e - 1)
           v == SubSeq(l, e + 1, Len(l))
       IN IF e = 0 \/ HasByte(l, NUL) THEN [ok |-> FALSE, ctx |-> EmptyCtx]
          ELSE IF \E f \in FieldSet : KeyBytes[f] = k
               THEN LET f == CHOOSE g \in FieldSet : KeyBytes[g] = k IN
                    IF f \in StringFields /\ ~Utf8Ok(v) THEN [ok |-> FALSE, ctx |-> EmptyCtx]
                    ELSE ReadFrom(ls, i + 1, [ctx EXCEPT ![f] = Some(v)])
               ELSE ReadFrom(ls, i + 1, ctx)

Read(b) == ReadFrom(Split(b, LF), 1, EmptyCtx)

\* Lines of a message: the components between LFs; a well-formed message ends with LF (or is empty)
MsgLines(b) == IF b = <<>> THEN <<>> ELSE Front(Split(b, LF))

\* b is a faithful message for c, whatever order the writer chose: exactly one line per field
\* that is set, each of them `key=value`, nothing else - and the reader gets c back.
IsEncodingOf(b, c) ==
  /\ b = <<>> \/ Last(b) = LF
  /\ Len(MsgLines(b)) = Cardinality(SetFields(c))
  /\ \A f \in SetFields(c) : \E i \in 1..Len(MsgLines(b)) : MsgLines(b)[i] = KeyBytes[f] \o <<EQ>> \o Val(c, f)
  /\ Read(b) = [ok |-> TRUE, ctx |-> c]

\* ---------------------------------------------------------------- design-level statements
\* (model-checked over every context of CredCtx_Gen)
RoundTrip(c)       == ~MustRefuse(c) => /\ Read(Write(c).bytes) = [ok |-> TRUE, ctx |-> c]
                                        /\ IsEncodingOf(Write(c).bytes, c)
RefusalNecessary(c) == MustRefuse(c) => Read(RawWrite(c)) # [ok |-> TRUE, ctx |-> c]

\* ---------------------------------------------------------------- judged domain of the decoder
\* A line ending in CR is read by git (strbuf_getline) and by gitoxide without the CR: tolerated
\* for messages *received* from helpers (CRLF line ends), so such inputs are not judged. Keys are
\* ASCII in the protocol; a key that is not UTF-8 is refused by gitoxide - not judged either.
RECURSIVE LinesJudged(_, _)
LinesJudged(ls, i) ==
  IF i > Len(ls) \/ ls[i] = <<>> THEN TRUE
  ELSE /\ Last(ls[i]) # CR
       /\ LET e == FindByte(ls[i], EQ) IN \A j \in 1..(IF e = 0 THEN Len(ls[i]) ELSE e - 1) : ls[i][j] < 128
       /\ LinesJudged(ls, i + 1)
DecodeInDomain(b) == LinesJudged(Split(b, LF), 1)
=============================================================================
