----------------------------- MODULE CredCtx_Gen -----------------------------
(* Binding A for C35 (writer side) + the design-level statements.            *)
(* Contexts: one "focus" field takes every token string of <= FocusToks      *)
(* tokens (or is absent) while the others are all absent / all "b"; and every *)
(* pair of fields takes every combination of strings of <= PairToks tokens.   *)
(* TLC checks RoundTrip and RefusalNecessary on each and prints what the      *)
(* property demands of the implementation.                                    *)
EXTENDS CredCtx, Json, TLC
CONSTANTS FocusToks, PairToks

Tok == { <<97>>, <<61>>, <<13>>, <<10>>, <<0>>, <<195,169>> }      \* a = CR LF NUL e-acute
ByteTok == Tok \cup { <<255>> }                                     \* url/path are byte strings
TokFor(f) == IF f \in StringFields THEN Tok ELSE ByteTok

RECURSIVE Strs(_, _)
Strs(T, n) == IF n = 0 THEN { <<>> } ELSE LET P == Strs(T, n - 1) IN P \cup { s \o t : s \in P, t \in T }
Opt(S) == { None } \cup { Some(v) : v \in S }
Bg == { None, Some(<<98>>) }

\* a selector fixes the focus field(s) and the background; the contexts of one selector are
\* enumerated by one TLC worker, the selectors in parallel
PairIdx == { p \in (1..6) \X (1..6) : p[1] < p[2] }
Selectors == { <<i, i, bg>> : i \in 1..6, bg \in Bg } \cup { <<p[1], p[2], bg>> : p \in PairIdx, bg \in Bg }
CasesOf(sel) ==
  IF sel[1] = sel[2]
  THEN { [g \in FieldSet |-> IF g = Order[sel[1]] THEN o ELSE sel[3]] : o \in Opt(Strs(TokFor(Order[sel[1]]), FocusToks)) }
  ELSE { [g \in FieldSet |-> IF g = Order[sel[1]] THEN o1 ELSE IF g = Order[sel[2]] THEN o2 ELSE sel[3]]
         : o1 \in Opt(Strs(TokFor(Order[sel[1]]), PairToks)), o2 \in Opt(Strs(TokFor(Order[sel[2]]), PairToks)) }

VARIABLES sel, ctx, done
vars == <<sel, ctx, done>>
Init == sel \in Selectors /\ ctx = EmptyCtx /\ done = FALSE
Pick == ~done /\ ctx' \in CasesOf(sel) /\ done' = TRUE /\ UNCHANGED sel
Next == Pick
Spec == Init /\ [][Next]_vars

InvRoundTrip == done => RoundTrip(ctx)
InvRefusalNecessary == done => RefusalNecessary(ctx)

Emit == done => PrintT(<<"CASE", ToJson([ctx         |-> ctx,
                                          must_refuse |-> MustRefuse(ctx),
                                          may_refuse  |-> MayRefuse(ctx),
                                          wire        |-> Write(ctx).bytes])>>)
=============================================================================
