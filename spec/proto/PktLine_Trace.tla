---------------------------- MODULE PktLine_Trace ----------------------------
(* Binding B (and C) for C29.  Events, all with the same fields                *)
(*  [ev, line, ok, err, bytes, dec, stream, delims, foe, h, calls, obs]        *)
(*  ev "enc": the real encoder turned `line` into ok/err/bytes                 *)
(*  ev "dec": decode::streaming(bytes) gave `dec` = [s, k, d, used, need, err] *)
(*  ev "run": a reader over `stream` with (delims, foe, h) served `calls`;     *)
(*            obs = one outcome list per chunking of the source                *)
(*  ev "git": `stream` was produced by the installed git (audit): it must      *)
(*            decode to the end without error or rest, end with a flush, and   *)
(*            every line re-encodes to the very same bytes                     *)
EXTENDS PktLine, TraceIO

VARIABLE l
Init == l = 1
Next == l <= NRec /\ l' = l + 1
Spec == Init /\ [][Next]_l

JudgeEnc(r) == LET e == Encode(r.line) IN r.ok = e.ok /\ r.err = e.err /\ (e.ok => r.bytes = e.bytes)

JudgeDec(r) == LET x == Decode(r.bytes) IN
  /\ r.dec.s = x.s /\ r.dec.err = x.err /\ r.dec.need = x.need /\ r.dec.used = x.used
  /\ r.dec.k = x.line.k /\ r.dec.d = x.line.d

JudgeRun(r) ==
  LET cfg == [delims |-> {r.delims[i] : i \in 1..Len(r.delims)}, foe |-> r.foe, h |-> r.h]
      exp == AbsRun(r.stream, cfg, r.calls)
      n   == JudgedUpTo(exp)
  IN \A j \in 1..Len(r.obs) : Len(r.obs[j]) = Len(exp) /\ SubSeq(r.obs[j], 1, n) = SubSeq(exp, 1, n)

RECURSIVE GitOk(_, _, _)
GitOk(S, pos, lastk) ==
  IF pos = Len(S) THEN lastk = "flush"
  ELSE LET x == Decode(Drop(S, pos)) IN
       /\ x.s = "complete"
       /\ Encode([t |-> x.line.k, ch |-> 0, d |-> x.line.d]).bytes = SubSeq(S, pos + 1, pos + x.used)
       /\ GitOk(S, pos + x.used, x.line.k)

Judge(r) == CASE r.ev = "enc" -> JudgeEnc(r)
              [] r.ev = "dec" -> JudgeDec(r)
              [] r.ev = "run" -> JudgeRun(r)
              [] r.ev = "git" -> GitOk(r.stream, 0, "")
              [] OTHER -> FALSE

EventOk == l <= NRec => (Judge(Rec[l]) \/ PrintT(<<"REJECT", l>>))
=============================================================================
