---------------------------- MODULE ConfigValues ----------------------------
(* C27.  What a config file means key by key: lookup (`git config --get-all`), *)
(* and the interpretation of a value as boolean, integer and path              *)
(* (`--type=bool|int|path`), transcribed from git (config.c: git_config_parse_key,*)
(* git_parse_maybe_bool, git_parse_signed / get_unit_factor, parse.c;          *)
(* path.c: interpolate_path).  Texts are read by ConfigFormat!Parse.           *)
(*                                                                             *)
(* A query is [sec, hassub, sub, key].  git canonicalises it to                *)
(* lower(sec) [. sub] . lower(key) and compares with the entry names byte for  *)
(* byte: section and key are case-insensitive, a quoted subsection is          *)
(* case-sensitive, a legacy `[sec.Sub]` header is lower-cased when read.       *)
(*                                                                             *)
(* Documented gitoxide deviations (named operators, nothing else is excused):  *)
(*  DocLegacyKeepsCase   gix-config/src/lib.rs "Known differences": legacy     *)
(*                       headers keep their case and are compared              *)
(*                       case-insensitively.                                   *)
(*  DocImplicitNoString  gix-config Body::value: a key without `=` does not    *)
(*                       exist for the single-value string / integer / path    *)
(*                       getters (booleans see it as true, multi-value getters *)
(*                       as an empty string).                                  *)
EXTENDS ConfigFormat

\* Judged domain of C27: ConfigFormat's (git accepts the text, no NUL, keys inside sections, no
\* unquoted inner tab) and a carriage return occurs only as part of CR LF (git reads a lone CR as a
\* blank; such texts are not among the shapes the property quantifies over).
CrOnlyInCrLf(s) == \A i \in 1..Len(s) : s[i] = CR => (i < Len(s) /\ s[i + 1] = NL)
ValuesDomain(s, p) == p.ok /\ InDomainList(p.list) /\ ~HasByte(s, 0) /\ CrOnlyInCrLf(s)

\* ------------------------------------------------------------------ numbers
\* naturals of any size: decimal digit sequences, most significant first, no leading zero, 0 = <<0>>
RECURSIVE Strip0(_)
Strip0(d) == IF Len(d) > 1 /\ d[1] = 0 THEN Strip0(Tail(d)) ELSE d

RECURSIVE MulAddR(_, _, _, _, _)
MulAddR(d, m, i, carry, acc) ==
  IF i = 0 THEN (IF carry = 0 THEN acc ELSE MulAddR(d, m, 0, carry \div 10, <<carry % 10>> \o acc))
  ELSE LET t == d[i] * m + carry IN MulAddR(d, m, i - 1, t \div 10, <<t % 10>> \o acc)
MulAdd(d, m, a) == Strip0(MulAddR(d, m, Len(d), a, <<>>))        \* d * m + a   (m <= 1024, a < 1024)

LeqNat(a, b) == Len(a) < Len(b) \/ (Len(a) = Len(b) /\ Cmp(a, b) <= 0)
MAX63 == <<9,2,2,3,3,7,2,0,3,6,8,5,4,7,7,5,8,0,7>>                \* 2^63 - 1
MAX31 == <<2,1,4,7,4,8,3,6,4,7>>                                  \* 2^31 - 1
DigitsToBytes(d) == [k \in 1..Len(d) |-> 48 + d[k]]

CIsSpace(c) == c \in {32, 9, 10, 11, 12, 13}                      \* C isspace, used by strtoimax
RECURSIVE SkipCSpace(_, _)
SkipCSpace(v, i) == IF i <= Len(v) /\ CIsSpace(v[i]) THEN SkipCSpace(v, i + 1) ELSE i

DigitVal(c, base) ==
  LET h == HexVal(c) IN IF h >= 0 /\ h < base THEN h ELSE -1

\* consume digits of `base` from index i: [mag, n, cnt]
RECURSIVE Digits(_, _, _, _, _)
Digits(v, i, base, mag, cnt) ==
  IF i <= Len(v) /\ DigitVal(v[i], base) >= 0
  THEN Digits(v, i + 1, base, MulAdd(mag, base, DigitVal(v[i], base)), cnt + 1)
  ELSE [mag |-> mag, n |-> i, cnt |-> cnt]

\* strtoimax(v, &end, 0): blanks, sign, 0x / 0 prefix; [ok, neg, mag, rest]
StrToNum(v) ==
  LET i0 == SkipCSpace(v, 1)
      neg == i0 <= Len(v) /\ v[i0] = 45
      i1 == IF i0 <= Len(v) /\ v[i0] \in {43, 45} THEN i0 + 1 ELSE i0
      isHex == i1 + 2 <= Len(v) /\ v[i1] = 48 /\ v[i1 + 1] \in {120, 88} /\ DigitVal(v[i1 + 2], 16) >= 0
      base == IF isHex THEN 16 ELSE IF i1 <= Len(v) /\ v[i1] = 48 THEN 8 ELSE 10
      r == Digits(v, IF isHex THEN i1 + 2 ELSE i1, base, <<0>>, 0)
  IN IF r.cnt = 0 THEN [ok |-> FALSE, neg |-> FALSE, mag |-> <<0>>, rest |-> <<>>]
     ELSE [ok |-> TRUE, neg |-> neg, mag |-> r.mag, rest |-> SubSeq(v, r.n, Len(v))]

\* get_unit_factor: number of times to multiply by 1024; -1 = not a unit
UnitPow(rest) ==
  IF rest = <<>> THEN 0
  ELSE IF Len(rest) = 1 /\ ToLower(rest[1]) = 107 THEN 1
  ELSE IF Len(rest) = 1 /\ ToLower(rest[1]) = 109 THEN 2
  ELSE IF Len(rest) = 1 /\ ToLower(rest[1]) = 103 THEN 3
  ELSE -1
RECURSIVE Times1024(_, _)
Times1024(d, k) == IF k = 0 THEN d ELSE Times1024(MulAdd(d, 1024, 0), k - 1)

Res(kind, v) == [kind |-> kind, v |-> v]
ERR == Res("err", <<>>)
NONE == Res("none", <<>>)

\* git_parse_signed(v, max): decimal rendering of the number, or error
ParseSigned(v, max) ==
  IF v = <<>> THEN ERR
  ELSE LET n == StrToNum(v) IN
       IF ~n.ok \/ UnitPow(n.rest) < 0 THEN ERR
       ELSE LET m == Times1024(n.mag, UnitPow(n.rest)) IN
            IF ~LeqNat(m, max) THEN ERR
            ELSE Res("ok", (IF n.neg /\ m # <<0>> THEN <<45>> ELSE <<>>) \o DigitsToBytes(m))

\* --type=int  (git_config_int64)
IntOf(e) == IF ~e.hasval THEN ERR ELSE ParseSigned(e.val, MAX63)

\* --type=bool (git_config_bool -> git_parse_maybe_bool)
TRUE_B == <<116,114,117,101>>  FALSE_B == <<102,97,108,115,101>>
BoolWords == [t |-> {TRUE_B, <<121,101,115>>, <<111,110>>}, f |-> {FALSE_B, <<110,111>>, <<111,102,102>>}]
BoolOf(e) ==
  IF ~e.hasval THEN Res("ok", TRUE_B)
  ELSE IF e.val = <<>> THEN Res("ok", FALSE_B)
  ELSE IF LowerSeq(e.val) \in BoolWords.t THEN Res("ok", TRUE_B)
  ELSE IF LowerSeq(e.val) \in BoolWords.f THEN Res("ok", FALSE_B)
  ELSE LET n == ParseSigned(e.val, MAX31) IN
       IF n.kind # "ok" THEN ERR ELSE Res("ok", IF n.v \in {<<48>>} THEN FALSE_B ELSE TRUE_B)

\* --type=path (interpolate_path) for the judged domain: `~/rest` and `~` name $HOME
PathInDomain(e) ==
  /\ e.hasval /\ e.val # <<>>
  /\ (e.val[1] = 126 => (Len(e.val) >= 2 /\ e.val[2] = 47 /\ ~(Len(e.val) >= 3 /\ e.val[3] = 47)))   \* "~/x", not "~", "~user", "~//"
  /\ ~StartsWith(e.val, <<37,40,112,114,101,102,105,120,41,47>>)                                     \* "%(prefix)/"
PathOf(e, home) ==
  IF e.val[1] = 126 THEN Res("ok", home \o Drop(e.val, 1)) ELSE Res("ok", e.val)

\* ------------------------------------------------------------------ lookup
QueryName(q) == LowerSeq(q.sec) \o (IF q.hassub THEN <<DOT>> \o q.sub ELSE <<>>) \o <<DOT>> \o LowerSeq(q.key)

\* indices of the entries a query addresses, in file order (git)
Hits(list, q) == LET qn == QueryName(q) IN SelectSeq([k \in 1..Len(list) |-> k], LAMBDA k : list[k].name = qn)

\* DocLegacyKeepsCase: an entry below a legacy header is also found by a subsection that differs in
\* case only (and git's own match, with the lower-cased subsection, is kept)
DocLegacyKeepsCase(e, q) ==
  /\ e.legacy /\ q.hassub
  /\ e.name = LowerSeq(q.sec) \o <<DOT>> \o LowerSeq(q.sub) \o <<DOT>> \o LowerSeq(q.key)
HitsDoc(list, q) ==
  LET qn == QueryName(q) IN
  SelectSeq([k \in 1..Len(list) |-> k], LAMBDA k : list[k].name = qn \/ DocLegacyKeepsCase(list[k], q))

ValuesAt(list, idx) == [k \in 1..Len(idx) |-> list[idx[k]].val]       \* implicit entries read as ""

\* everything the getters must return for one query, by git's rules (g*) and with the documented
\* deviations applied (the expectation for gitoxide)
Answer(list, q, home) ==
  LET h == Hits(list, q)
      hd == HitsDoc(list, q)
      last == IF hd = <<>> THEN [name |-> <<>>, hasval |-> FALSE, val |-> <<>>, wsd |-> FALSE, legacy |-> FALSE]
              ELSE list[hd[Len(hd)]]
  IN [sec |-> q.sec, hassub |-> q.hassub, sub |-> q.sub, key |-> q.key,
      name |-> QueryName(q),
      gvalues |-> ValuesAt(list, h),                       \* git --get-all (audit)
      deviates |-> h # hd,
      values |-> ValuesAt(list, hd),                       \* expectation for strings / raw_values
      found |-> hd # <<>>,
      lastimplicit |-> hd # <<>> /\ ~last.hasval,          \* DocImplicitNoString: single string/int/path not judged
      string |-> IF hd = <<>> THEN NONE ELSE Res("ok", last.val),
      bool |-> IF hd = <<>> THEN NONE ELSE BoolOf(last),
      int |-> IF hd = <<>> THEN NONE ELSE IntOf(last),
      pathdom |-> hd # <<>> /\ PathInDomain(last),
      path |-> IF hd # <<>> /\ PathInDomain(last) THEN PathOf(last, home) ELSE NONE]
=============================================================================
