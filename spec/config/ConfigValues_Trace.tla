-------------------------- MODULE ConfigValues_Trace --------------------------
(* Binding B for C27: answers recorded from gix_config::File, judged by the    *)
(* specification.  One event per (text, query):                                *)
(*   [input, q |-> [sec, hassub, sub, key], file_ok,                           *)
(*    strings |-> [kind, l], string, bool, int, path |-> [kind, v]]            *)
(* Texts outside the judged domain (git rejects them, section-less keys, inner *)
(* tabs) are accepted whatever was observed.  With ConfigValues_Eval.cfg the   *)
(* module prints, for every input, the spec's listing, the queries derived     *)
(* from it and their Answers (used for the seeded random texts).               *)
EXTENDS ConfigValues, TraceIO

Home == <<47, 104, 111, 109, 101, 47, 117>>     \* /home/u

VARIABLE l
Init == l = 1
Next == l <= NRec /\ l' = l + 1
Spec == Init /\ [][Next]_l

Judge(r) ==
  LET p == Parse(r.input) IN
  ValuesDomain(r.input, p) =>
    /\ r.file_ok
    /\ LET a == Answer(p.list, r.q, Home) IN
         /\ r.strings = (IF a.found THEN [kind |-> "ok", l |-> a.values] ELSE [kind |-> "none", l |-> <<>>])
         /\ r.bool = a.bool
         /\ (~a.lastimplicit => r.string = a.string /\ r.int = a.int)      \* DocImplicitNoString
         /\ (a.pathdom => r.path = a.path)

EventOk == l <= NRec => (Judge(Rec[l]) \/ PrintT(<<"REJECT", l>>))

UpperSeq(s) == [i \in 1..Len(s) |-> ToUpper(s[i])]
SwapCase(s) == [i \in 1..Len(s) |-> IF IsUpper(s[i]) THEN ToLower(s[i]) ELSE ToUpper(s[i])]
QOf(name) == [sec |-> SecOf(name), hassub |-> HasSub(name), sub |-> SubOf(name), key |-> KeyOf(name)]
Variants(name) ==
  LET q == QOf(name) IN
  <<q, [q EXCEPT !.sec = UpperSeq(q.sec), !.key = UpperSeq(q.key)]>>
  \o (IF q.hassub /\ SwapCase(q.sub) # q.sub THEN <<[q EXCEPT !.sub = SwapCase(q.sub)]>> ELSE <<>>)
Queries(list) ==
  LET first == SelectSeq([k \in 1..Len(list) |-> k],
                         LAMBDA k : Addressable(list[k].name) /\ \A j \in 1..(k - 1) : list[j].name # list[k].name)
  IN FlatSeq([k \in 1..Len(first) |-> Variants(list[first[k]].name)])

EvalEmit == l <= NRec =>
   LET p == Parse(Rec[l].input)
       dom == ValuesDomain(Rec[l].input, p)
       qs == IF dom THEN Queries(p.list) ELSE <<>> IN
   PrintT(<<"CASE", ToJson([input |-> Rec[l].input, valid |-> p.ok, indomain |-> dom,
                            list |-> IF p.ok THEN p.list ELSE <<>>,
                            answers |-> [k \in 1..Len(qs) |-> Answer(p.list, qs[k], Home)]])>>)
=============================================================================
