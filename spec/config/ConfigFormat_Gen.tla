--------------------------- MODULE ConfigFormat_Gen ---------------------------
(* Binding A for C26 (and the corpus of C27): TLC enumerates config texts from *)
(* token alphabets and prints, per text, the specification's verdict (git      *)
(* accepts it or not) and its listing.  Two alphabets:                         *)
(*   Mode = "value"  : `[a]<nl>k=` followed by <= MaxToks value tokens         *)
(*                     (quotes, escapes, continuation lines, comment starts,   *)
(*                     blanks, LF / CRLF - so further lines appear as well)    *)
(*   Mode = "struct" : <= MaxToks structure tokens (BOM, headers plain /       *)
(*                     legacy / quoted with escapes, keys, `=`, comments,      *)
(*                     blanks, LF / CRLF)                                      *)
(* The same run checks the model-level round-trip law of the canonical writer  *)
(* on every listing met.                                                       *)
EXTENDS ConfigFormat, Json, TLC
CONSTANTS MaxToks, Mode, Wide

ValQuick == { <<97>>, <<SP>>, <<TAB>>, <<DQ>>, <<BSL, DQ>>, <<BSL, BSL>>, <<BSL, 110>>, <<BSL, 98>>,
              <<BSL, NL>>, <<SEMI>>, <<NL>>, <<CR, NL>> }
\*             a       space   tab      "       \"          \\           \n            \b
\*             \<lf>       ;        <lf>    <cr><lf>
ValWide == ValQuick \cup { <<HASH>>, <<BSL, 116>>, <<BSL, CR, NL>>, <<BSL, 120>>, <<EQ>>, <<CR>>, <<195, 169>>, <<BSL>> }
\*                          #        \t            \<cr><lf>         \x (invalid)  =       lone CR  e-acute    lone backslash

HdrA     == <<LBR, 97, RBR>>                                   \* [a]
HdrQuot  == <<LBR, 97, SP, DQ, 66, DQ, RBR>>                   \* [a "B"]
HdrLeg   == <<LBR, 97, DOT, 66, RBR>>                          \* [a.B]
HdrEsc   == <<LBR, 97, SP, DQ, 120, BSL, DQ, BSL, BSL, 121, DQ, RBR>>   \* [a "x\"\\y"]
HdrEscX  == <<LBR, 97, SP, DQ, 120, BSL, 121, DQ, RBR>>        \* [a "x\y"]
\* the only byte needing an escape is the first / the only / the last one of the name
HdrEscFirst == <<LBR, 97, SP, DQ, BSL, BSL, 115, DQ, RBR>>     \* [a "\\s"]
HdrEscOnly  == <<LBR, 97, SP, DQ, BSL, DQ, DQ, RBR>>           \* [a "\""]
HdrEscLast  == <<LBR, 97, SP, DQ, 115, BSL, BSL, DQ, RBR>>     \* [a "s\\"]
StrQuick == { BOM, HdrA, HdrQuot, HdrLeg, HdrEsc, HdrEscX, HdrEscFirst, HdrEscOnly, HdrEscLast, <<107>>, <<EQ>>, <<118>>, <<SP>>, <<SEMI, 99>>, <<NL>>, <<CR, NL>> }
\*                                                          k        =       v        space   ;c
StrWide == StrQuick \cup { <<LBR>>, <<RBR>>, <<DQ>>, <<LBR, 65, RBR>>, <<LBR, 97, SP, SP, DQ, 98, DQ, RBR>>,
                           <<LBR, 97, TAB, DQ, 98, DQ, RBR>>, <<LBR, 97, DOT, 98, DOT, 67, RBR>>, <<LBR, 97, DASH, 49, RBR>>,
                           <<HASH, 99>>, <<TAB>>, <<75, 49, DASH>>, <<49>>, <<LBR, 97, SP, DQ, DQ, RBR>>, <<DOT>> }
\*                          [  ]  "  [A]  [a  "b"]  [a<tab>"b"]  [a.b.C]  [a-1]  #c  tab  K1-  1  [a ""]  .

Tok == IF Mode = "value" THEN (IF Wide THEN ValWide ELSE ValQuick) ELSE (IF Wide THEN StrWide ELSE StrQuick)
Prefix == IF Mode = "value" THEN <<LBR, 97, RBR, NL, 107, EQ>> ELSE <<>>     \* [a]<lf>k=

VARIABLES toks, done
vars == <<toks, done>>

Init == toks = <<>> /\ done = FALSE
Extend == ~done /\ Len(toks) < MaxToks /\ \E t \in Tok : toks' = Append(toks, t) /\ done' = FALSE
Finish == ~done /\ done' = TRUE /\ UNCHANGED toks
Next == Extend \/ Finish
Spec == Init /\ [][Next]_vars

Input == Prefix \o FlatSeq(toks)

\* model-level round-trip law of the canonical writer, on every listing the reader produces
RoundTripLaw == done => LET p == Parse(Input) IN (p.ok /\ InDomainList(p.list)) => RoundTrip(AbstractOf(p.list))

Emit == done => LET p == Parse(Input) IN
          PrintT(<<"CASE", ToJson([input |-> Input, valid |-> p.ok,
                                   indomain |-> (p.ok /\ InDomainList(p.list) /\ ~HasByte(Input, 0)),
                                   list |-> IF p.ok THEN p.list ELSE <<>>,
                                   abs |-> IF p.ok THEN AbstractOf(p.list) ELSE <<>>])>>)
=============================================================================
