SPECIFICATION Spec
CONSTANTS
  MaxToks = 4
  Mode = "value"
  Wide = FALSE
INVARIANTS
  RoundTripLaw
  Emit
CHECK_DEADLOCK FALSE
