--------------------------- MODULE ConfigValues_Gen ---------------------------
(* Binding A for C27.  The texts of ConfigFormat_Gen (Mode "value" / "struct") *)
(* plus Mode "typed": one entry `a.k` whose value is a string of <= MaxToks    *)
(* tokens from the boolean / integer / path alphabet, written by the spec's    *)
(* canonical writer.  Per text: the spec's verdict and listing, and for every  *)
(* key of the listing (canonical spelling, upper-cased section and key,        *)
(* case-swapped subsection) the complete Answer: all values, last value, and   *)
(* its reading as boolean, integer and path.                                   *)
EXTENDS ConfigValues, Json, TLC
CONSTANTS MaxToks, Mode, Wide

ValQuick == { <<97>>, <<SP>>, <<TAB>>, <<DQ>>, <<BSL, DQ>>, <<BSL, BSL>>, <<BSL, 110>>, <<BSL, 98>>,
              <<BSL, NL>>, <<SEMI>>, <<NL>>, <<CR, NL>> }
ValWide == ValQuick \cup { <<HASH>>, <<BSL, 116>>, <<BSL, CR, NL>>, <<BSL, 120>>, <<EQ>>, <<195, 169>>, <<BSL>> }

HdrA     == <<LBR, 97, RBR>>                                   \* [a]
HdrQuot  == <<LBR, 97, SP, DQ, 66, DQ, RBR>>                   \* [a "B"]
HdrQuotL == <<LBR, 65, SP, DQ, 98, DQ, RBR>>                   \* [A "b"]
HdrLeg   == <<LBR, 97, DOT, 66, RBR>>                          \* [a.B]
HdrEsc   == <<LBR, 97, SP, DQ, 120, BSL, DQ, BSL, BSL, 121, DQ, RBR>>   \* [a "x\"\\y"]
KV       == <<107, EQ, 118>>                                   \* k=v
KV2      == <<75, SP, EQ, SP, 119>>                            \* K = w
StrQuick == { HdrA, HdrQuot, HdrQuotL, HdrLeg, HdrEsc, KV, KV2, <<107>>, <<SP>>, <<SEMI, 99>>, <<NL>>, <<CR, NL>> }
StrWide == StrQuick \cup { BOM, <<LBR, 65, RBR>>, <<LBR, 97, DOT, 98, DOT, 67, RBR>>, <<LBR, 97, DOT, 98, RBR>>, <<EQ>>, <<118>>,
                           <<LBR, 97, SP, DQ, 120, BSL, 121, DQ, RBR>>, <<LBR, 97, SP, DQ, DQ, RBR>>, <<LBR, 97, DASH, 49, RBR>> }

TypQuick == { <<48>>, <<49>>, <<50>>, <<55>>, <<56>>, <<45>>, <<107>>, <<77>>, <<103>>, <<SP>>,
              <<116,114,117,101>>, <<78,111>>, <<111,110>>, <<126,47>>,
              <<57,50,50,51,51,55,50,48,51,54,56,53,52,55,55,53,56,48>>,           \* 922337203685477580 (+7 / +8)
              <<50,49,52,55,52,56,51,54,52>>,                                       \* 214748364 (+7 / +8)
              <<57,48,48,55,49,57,57,50,53,52,55,52,48,57,57>> }                    \* 900719925474099 (+1k / +2k)
TypWide == TypQuick \cup { <<43>>, <<120>>, <<126>>, <<97>>, <<102,65,76,83,69>>, <<111,102,102>>, <<121,101,115>>, <<47>>, <<TAB>>, <<102>>, <<71>>, <<75>>, <<109>>, <<88>> }

\* Mode "cont": whole entries of two keys of one section, with values continued over lines and without
ContToks == { <<107, EQ, 97, BSL, NL, 98, NL>>,       \* k=a\<lf>b<lf>
              <<106, EQ, 99, BSL, NL, 100, NL>>,      \* j=c\<lf>d<lf>
              <<107, EQ, 118, NL>>,                   \* k=v<lf>
              <<106, EQ, 119, NL>>,                   \* j=w<lf>
              <<107, NL>> }                           \* k<lf>
Tok == IF Mode = "cont" THEN ContToks ELSE
       IF Mode = "value" THEN (IF Wide THEN ValWide ELSE ValQuick)
       ELSE IF Mode = "struct" THEN (IF Wide THEN StrWide ELSE StrQuick)
       ELSE (IF Wide THEN TypWide ELSE TypQuick)
Prefix == IF Mode = "value" THEN <<LBR, 97, RBR, NL, 107, EQ>>               \* [a]<lf>k=
          ELSE IF Mode = "cont" THEN <<LBR, 97, RBR, NL>> ELSE <<>>

VARIABLES toks, done
vars == <<toks, done>>

Init == toks = <<>> /\ done = FALSE
Extend == ~done /\ Len(toks) < MaxToks /\ \E t \in Tok : toks' = Append(toks, t) /\ done' = FALSE
Finish == ~done /\ done' = TRUE /\ UNCHANGED toks
Next == Extend \/ Finish
Spec == Init /\ [][Next]_vars

TypedEntry == [sec |-> <<97>>, hassub |-> FALSE, sub |-> <<>>, key |-> <<107>>, hasval |-> TRUE, val |-> FlatSeq(toks)]
Input == IF Mode = "typed" THEN Render(<<TypedEntry>>) ELSE Prefix \o FlatSeq(toks)

Home == <<47, 104, 111, 109, 101, 47, 117>>     \* /home/u

UpperSeq(s) == [i \in 1..Len(s) |-> ToUpper(s[i])]
SwapCase(s) == [i \in 1..Len(s) |-> IF IsUpper(s[i]) THEN ToLower(s[i]) ELSE ToUpper(s[i])]
QOf(name) == [sec |-> SecOf(name), hassub |-> HasSub(name), sub |-> SubOf(name), key |-> KeyOf(name)]
Variants(name) ==
  LET q == QOf(name) IN
  <<q, [q EXCEPT !.sec = UpperSeq(q.sec), !.key = UpperSeq(q.key)]>>
  \o (IF q.hassub /\ SwapCase(q.sub) # q.sub THEN <<[q EXCEPT !.sub = SwapCase(q.sub)]>> ELSE <<>>)

Queries(list) ==
  LET first == SelectSeq([k \in 1..Len(list) |-> k],
                         LAMBDA k : Addressable(list[k].name) /\ \A j \in 1..(k - 1) : list[j].name # list[k].name)
  IN FlatSeq([k \in 1..Len(first) |-> Variants(list[first[k]].name)])

\* the typed text is what the spec's writer made of the value: it must read back as that value
TypedReadsBack == (done /\ Mode = "typed") => Abstract(Input) = <<TypedEntry>>

Emit == done => LET p == Parse(Input)
                    dom == ValuesDomain(Input, p)
                    qs == IF dom THEN Queries(p.list) ELSE <<>> IN
          PrintT(<<"CASE", ToJson([input |-> Input, valid |-> p.ok, indomain |-> dom,
                                   list |-> IF p.ok THEN p.list ELSE <<>>,
                                   answers |-> [k \in 1..Len(qs) |-> Answer(p.list, qs[k], Home)]])>>)
=============================================================================
