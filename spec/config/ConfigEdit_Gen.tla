---------------------------- MODULE ConfigEdit_Gen ----------------------------
(* Binding A for C28 and the model check of the design statement.  A behaviour *)
(* first builds a config text from line tokens (a header first; entries        *)
(* `k = v`, implicit `k`, quoted value with trailing comment, continuation     *)
(* line, other key, comment line, blank line, second header - so duplicate     *)
(* sections and keys occur), then applies <= MaxEdits API calls from Ops.      *)
(* Invariants (TLC): after every call only the targeted entries differ and     *)
(* comments are preserved (OnlyTargetsChange); the abstract file stays         *)
(* renderable.  Every complete behaviour is printed with the abstract file     *)
(* expected after each call.                                                   *)
EXTENDS ConfigEdit, Json, TLC
CONSTANTS MaxLines, MaxEdits, Wide

A == <<97>>  K == <<107>>  J == <<106>>  N == <<110>>  S == <<115>>
HdrA  == <<LBR, 97, RBR, NL>>                                   \* [a]
HdrAS == <<LBR, 97, SP, DQ, 115, DQ, RBR, NL>>                  \* [a "s"]
LKV   == <<TAB, 107, SP, EQ, SP, 118, NL>>                      \* <tab>k = v
LImp  == <<TAB, 107, NL>>                                       \* <tab>k
LQuo  == <<TAB, 107, SP, EQ, SP, DQ, 113, SP, 118, DQ, SP, SEMI, SP, 99, NL>>   \* <tab>k = "q v" ; c
LCont == <<TAB, 107, SP, EQ, SP, 97, BSL, NL, SP, SP, 98, NL>>  \* <tab>k = a\<lf>  b
LJ    == <<SP, SP, 74, EQ, 119, SP, HASH, 100, NL>>             \* __J=w #d
LCom  == <<SEMI, SP, 110, 111, 116, 101, NL>>                   \* ; note
LBlank == <<NL>>
LImpSp == <<TAB, 107, SP, NL>>                                  \* <tab>k<space>   (implicit, trailing blank)
LCrLf == <<TAB, 107, SP, EQ, SP, 118, CR, NL>>                  \* <tab>k = v<cr><lf>
LineQuick == { HdrA, HdrAS, LKV, LImp, LQuo, LCont, LJ, LCom, LBlank }
LineWide == LineQuick \cup { LImpSp, LCrLf, <<LBR, 65, RBR, NL>>, <<LBR, 97, SP, DQ, 115, BSL, DQ, 116, DQ, RBR, NL>> }
Line == IF Wide THEN LineWide ELSE LineQuick

O(op, hassub, key, hasval, val) ==
  [op |-> op, sec |-> A, hassub |-> hassub, sub |-> IF hassub THEN S ELSE <<>>, key |-> key, hasval |-> hasval, val |-> val,
   nsec |-> <<>>, nhassub |-> FALSE, nsub |-> <<>>, idx |-> 0, cmt |-> <<>>]
VX == <<120>>                                  \* x
VQ == <<SP, 121, SEMI>>                        \* " y;"     needs quotes
VE == <<113, DQ, BSL, NL, 122>>                \* q"\<lf>z  needs escapes
OpsQuick == {
  O("set", FALSE, K, TRUE, VX), O("set", FALSE, N, TRUE, VQ), O("push", FALSE, K, TRUE, VQ), O("push", FALSE, J, FALSE, <<>>),
  O("remove", FALSE, K, FALSE, <<>>), O("pop", FALSE, <<>>, FALSE, <<>>),
  O("set_raw", FALSE, K, TRUE, VE), O("set_raw", TRUE, N, TRUE, VX), O("set_existing", FALSE, K, TRUE, VX),
  O("new_section", TRUE, <<>>, FALSE, <<>>), O("remove_section", FALSE, <<>>, FALSE, <<>>),
  [O("rename_section", FALSE, <<>>, FALSE, <<>>) EXCEPT !.nsec = <<99>>, !.nhassub = TRUE, !.nsub = <<116>>],
  O("multi_set_all", FALSE, K, TRUE, VX), O("multi_delete", FALSE, K, FALSE, <<>>), O("value_delete", FALSE, K, FALSE, <<>>),
  [O("pushc", FALSE, N, TRUE, VX) EXCEPT !.cmt = <<119, 104, 121>>], [O("pushc", FALSE, J, FALSE, <<>>) EXCEPT !.cmt = <<119>>] }
OpsWide == OpsQuick \cup {
  O("set", TRUE, K, TRUE, VE), O("set", FALSE, J, TRUE, <<>>), O("push", TRUE, N, TRUE, VX), O("remove", FALSE, J, FALSE, <<>>),
  O("remove", TRUE, K, FALSE, <<>>), O("pop", TRUE, <<>>, FALSE, <<>>), O("set_existing", TRUE, K, TRUE, VQ),
  O("set_existing", FALSE, N, TRUE, VX), O("remove_section", TRUE, <<>>, FALSE, <<>>),
  [O("rename_section", TRUE, <<>>, FALSE, <<>>) EXCEPT !.nsec = <<97>>],
  [O("multi_delete", FALSE, K, FALSE, <<>>) EXCEPT !.idx = 1], O("multi_set_all", TRUE, K, TRUE, VQ),
  O("value_delete", FALSE, J, FALSE, <<>>), O("new_section", FALSE, <<>>, FALSE, <<>>),
  [O("pushc", FALSE, K, FALSE, <<>>) EXCEPT !.cmt = <<SP, 97, NL, 98>>] }
Ops == IF Wide THEN OpsWide ELSE OpsQuick

VARIABLES lines, F, hist, phase
vars == <<lines, F, hist, phase>>

Text == FlatSeq(lines)
Init == lines \in {<<HdrA>>, <<HdrAS>>} /\ F = EmptyFile /\ hist = <<>> /\ phase = "text"
AddLine == /\ phase = "text" /\ Len(lines) < MaxLines + 1
           /\ \E t \in Line : lines' = Append(lines, t)
           /\ UNCHANGED <<F, hist, phase>>
Load == /\ phase = "text" /\ EditDomain(Text)
        /\ phase' = "edit" /\ F' = FileOf(Text) /\ UNCHANGED <<lines, hist>>
Edit == /\ phase = "edit" /\ Len(hist) < MaxEdits
        /\ \E o \in Ops :
             LET r == Apply(F, o) IN
             /\ F' = r.F
             /\ hist' = Append(hist, [o |-> o, ok |-> r.ok, file |-> r.F, listing |-> Listing(r.F), before |-> F])
        /\ UNCHANGED <<lines, phase>>
Finish == phase = "edit" /\ hist # <<>> /\ phase' = "done" /\ UNCHANGED <<lines, F, hist>>
Next == AddLine \/ Load \/ Edit \/ Finish
Spec == Init /\ [][Next]_vars

\* design statements
InvOnlyTargets == (phase = "edit" /\ hist # <<>>) => OnlyTargetsChange(hist[Len(hist)].before, hist[Len(hist)].o)
InvLoadedIsParsed == (phase = "edit" /\ hist = <<>>) => Listing(F) =
      [k \in 1..Len(Parse(Text).list) |-> [name |-> Parse(Text).list[k].name, hasval |-> Parse(Text).list[k].hasval, val |-> Parse(Text).list[k].val]]

Emit == phase = "done" =>
  PrintT(<<"CASE", ToJson([text |-> Text, init |-> FileOf(Text), ops |-> [k \in 1..Len(hist) |-> hist[k].o],
                           steps |-> [k \in 1..Len(hist) |-> [ok |-> hist[k].ok, file |-> hist[k].file, listing |-> hist[k].listing]]])>>)
=============================================================================
