SPECIFICATION Spec
INVARIANT EvalEmit
CHECK_DEADLOCK FALSE
