SPECIFICATION Spec
CONSTANTS
  MaxLines = 2
  MaxEdits = 1
  Wide = FALSE
INVARIANTS
  InvOnlyTargets
  InvLoadedIsParsed
  Emit
CHECK_DEADLOCK FALSE
