--------------------------- MODULE ConfigEdit_Trace ---------------------------
(* Binding B for C28: edit histories executed by the real gix_config::File,    *)
(* judged call by call.  Events:                                               *)
(*   [ev |-> "load", text, o, ok, ser]     a text is loaded (o / ok / ser unused)*)
(*   [ev |-> "op",   text, o, ok, ser]     API call o was made; ok = it reported *)
(*                                         success; ser = to_bstring afterwards  *)
(* State F = the abstract file before the event.  A call is accepted iff the   *)
(* serialised file is a text git accepts whose abstraction (sections, entries, *)
(* values, comments, in order) is exactly Apply(F, o).F, and the success flag  *)
(* is Apply's.  After every call F is re-read from the observed text, so each  *)
(* call is judged on the state the real file was really in (one defect does    *)
(* not cascade through the rest of the history; the executor reloads the file  *)
(* from that text for the random histories).                                   *)
EXTENDS ConfigEdit, TraceIO

VARIABLES l, F, lost
vars == <<l, F, lost>>

Init == l = 1 /\ F = EmptyFile /\ lost = FALSE
Next == /\ l <= NRec /\ l' = l + 1
        /\ IF Rec[l].ev = "load"
           THEN LET p == ParseItems(Rec[l].text) IN F' = FileOfP(p) /\ lost' = ~EditDomainP(Rec[l].text, p)
           ELSE LET p == ParseItems(Rec[l].ser) IN
                IF lost \/ ~EditDomainP(Rec[l].ser, p) THEN F' = EmptyFile /\ lost' = TRUE
                ELSE F' = FileOfP(p) /\ lost' = FALSE
Spec == Init /\ [][Next]_vars

\* lost: an earlier call of this history left a text git cannot read (rejected there); the state
\* is unknown until the next load and the calls in between are not judged.
Judge(r) ==
  IF r.ev = "load" THEN EditDomain(r.text)
  ELSE IF lost THEN TRUE
  ELSE LET a == Apply(F, r.o)
           p == ParseItems(r.ser) IN
       /\ r.ok = a.ok
       /\ p.ok
       /\ FileOfP(p) = a.F

EventOk == l <= NRec => (Judge(Rec[l]) \/ PrintT(<<"REJECT", l>>))
=============================================================================
