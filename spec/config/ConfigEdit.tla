----------------------------- MODULE ConfigEdit -----------------------------
(* C28.  Editing a loaded config file changes exactly what was edited.        *)
(*                                                                            *)
(* Abstract file (what git and any reader see, plus the comments):            *)
(*   [front : Seq(comment text),                                              *)
(*    secs  : Seq([name  : header as git reads it, e.g. "a" or "a.sub",       *)
(*                 items : Seq( [t |-> "kv", key, hasval, val]                *)
(*                            | [t |-> "c",  key = <<>>, hasval = FALSE, val = text] ) ])] *)
(* FileOf(text) abstracts a text with ConfigFormat!ParseItems (the audited    *)
(* transcription of git's reader, which also delimits the comments).          *)
(*                                                                            *)
(* Apply(F, o) is the intended meaning of one call of the mutation API of     *)
(* gix_config::File (op names as in the executor):                            *)
(*   set, push, pushc, remove, pop      SectionMut on the LAST section named  *)
(*                                      (sec, sub)                            *)
(*   set_raw, set_existing, value_delete, multi_set_all, multi_delete         *)
(*                                      File-level value access               *)
(*   new_section, remove_section, rename_section                              *)
(* It returns [ok, F]: ok = FALSE when there is nothing to edit (the API      *)
(* reports None / an error) and then F is unchanged.  Every other section,    *)
(* entry and comment is carried over untouched - that is the property.        *)
(* After every call the serialised file must abstract to Apply's result       *)
(* (ConfigEdit_Trace), whatever the formatting.                               *)
(*                                                                            *)
(* Judged domain: texts git accepts, without legacy [a.b] headers (gitoxide   *)
(* documents a different matching for them, see C27), every key inside a      *)
(* section, no NUL / lone CR / unquoted inner tab; new values without NUL, CR.*)
EXTENDS ConfigFormat

KvItem(key, hasval, val) == [t |-> "kv", key |-> key, hasval |-> hasval, val |-> val]
CItem(text) == [t |-> "c", key |-> <<>>, hasval |-> FALSE, val |-> text]
EmptyFile == [front |-> <<>>, secs |-> <<>>]

\* ---- abstraction of a text -----------------------------------------------------------------
RECURSIVE Fold(_, _, _)
Fold(items, i, F) ==
  IF i > Len(items) THEN F
  ELSE LET it == items[i]
           n == Len(F.secs) IN
       IF it.t = "h" THEN Fold(items, i + 1, [F EXCEPT !.secs = Append(@, [name |-> it.name, items |-> <<>>])])
       ELSE LET x == IF it.t = "kv" THEN KvItem(KeyOf(it.name), it.hasval, it.val) ELSE CItem(it.val) IN
            IF n = 0 THEN Fold(items, i + 1, [F EXCEPT !.front = Append(@, x)])
            ELSE Fold(items, i + 1, [F EXCEPT !.secs[n].items = Append(@, x)])
FileOfP(p) == Fold(p.items, 1, EmptyFile)             \* p = ParseItems(text)
FileOf(text) == FileOfP(ParseItems(text))

CrOnlyInCrLf(s) == \A i \in 1..Len(s) : s[i] = CR => (i < Len(s) /\ s[i + 1] = NL)
EditDomainP(text, p) ==
  /\ p.ok /\ ~HasByte(text, 0) /\ CrOnlyInCrLf(text)
  /\ \A k \in 1..Len(p.items) : ~p.items[k].legacy /\ ~p.items[k].wsd
  /\ LET f == FileOfP(p) IN \A k \in 1..Len(f.front) : f.front[k].t = "c"
EditDomain(text) == EditDomainP(text, ParseItems(text))

\* ---- the views the property speaks about ------------------------------------------------------
RECURSIVE ListingFrom(_, _, _)
ListingFrom(F, i, acc) ==
  IF i > Len(F.secs) THEN acc
  ELSE LET s == F.secs[i]
           kv == SelectSeq(s.items, LAMBDA it : it.t = "kv") IN
       ListingFrom(F, i + 1, acc \o [k \in 1..Len(kv) |->
            [name |-> s.name \o <<DOT>> \o kv[k].key, hasval |-> kv[k].hasval, val |-> kv[k].val]])
Listing(F) == ListingFrom(F, 1, <<>>)                               \* what `git config --list` shows
RECURSIVE CommentsFrom(_, _, _)
CommentsFrom(F, i, acc) ==
  IF i > Len(F.secs) THEN acc
  ELSE LET c == SelectSeq(F.secs[i].items, LAMBDA it : it.t = "c") IN
       CommentsFrom(F, i + 1, acc \o [k \in 1..Len(c) |-> c[k].val])
Comments(F) == CommentsFrom(F, 1, [k \in 1..Len(F.front) |-> F.front[k].val])

\* ---- helpers ------------------------------------------------------------------------------------
HName(o) == LowerSeq(o.sec) \o (IF o.hassub THEN <<DOT>> \o o.sub ELSE <<>>)
NewHName(o) == LowerSeq(o.nsec) \o (IF o.nhassub THEN <<DOT>> \o o.nsub ELSE <<>>)
Key(o) == LowerSeq(o.key)

\* index of the last section with that header, 0 if none
RECURSIVE LastSecFrom(_, _, _)
LastSecFrom(F, hn, i) == IF i = 0 THEN 0 ELSE IF F.secs[i].name = hn THEN i ELSE LastSecFrom(F, hn, i - 1)
LastSec(F, hn) == LastSecFrom(F, hn, Len(F.secs))

\* index of the last item of `items` that is the entry `key`, 0 if none
RECURSIVE LastKeyFrom(_, _, _)
LastKeyFrom(items, key, i) ==
  IF i = 0 THEN 0 ELSE IF items[i].t = "kv" /\ items[i].key = key THEN i ELSE LastKeyFrom(items, key, i - 1)
LastKey(items, key) == LastKeyFrom(items, key, Len(items))
RECURSIVE LastKvFrom(_, _)
LastKvFrom(items, i) == IF i = 0 THEN 0 ELSE IF items[i].t = "kv" THEN i ELSE LastKvFrom(items, i - 1)

RemoveAt(seq, i) == SubSeq(seq, 1, i - 1) \o SubSeq(seq, i + 1, Len(seq))
Unchanged(F) == [ok |-> FALSE, F |-> F]
Changed(F) == [ok |-> TRUE, F |-> F]

\* last section (searching backwards) with header hn that contains `key`; 0 if none
RECURSIVE LastSecWithKeyFrom(_, _, _, _)
LastSecWithKeyFrom(F, hn, key, i) ==
  IF i = 0 THEN 0
  ELSE IF F.secs[i].name = hn /\ LastKey(F.secs[i].items, key) > 0 THEN i
  ELSE LastSecWithKeyFrom(F, hn, key, i - 1)
LastSecWithKey(F, hn, key) == LastSecWithKeyFrom(F, hn, key, Len(F.secs))

\* all occurrences of hn.key in file order: <<section index, item index>>
Occurrences(F, hn, key) ==
  LET pairs == FlatSeq([i \in 1..Len(F.secs) |->
                 IF F.secs[i].name # hn THEN <<>>
                 ELSE LET idx == SelectSeq([k \in 1..Len(F.secs[i].items) |-> k],
                                           LAMBDA k : F.secs[i].items[k].t = "kv" /\ F.secs[i].items[k].key = key)
                      IN [k \in 1..Len(idx) |-> <<i, idx[k]>>]])
  IN pairs

SetIn(F, i, key, val) ==     \* SectionMut::set in section i
  LET k == LastKey(F.secs[i].items, key) IN
  IF k = 0 THEN [F EXCEPT !.secs[i].items = Append(@, KvItem(key, TRUE, val))]
  ELSE [F EXCEPT !.secs[i].items[k] = KvItem(key, TRUE, val)]

\* the comment push_with_comment writes: `#`, a blank unless the text starts with one, line feeds as blanks
PushedComment(c) ==
  LET t == [k \in 1..Len(c) |-> IF c[k] = NL THEN SP ELSE c[k]] IN
  <<HASH>> \o (IF c = <<>> \/ c[1] \in {SP, TAB, NL, CR, 12} THEN t ELSE <<SP>> \o t)

\* ---- the meaning of one API call ------------------------------------------------------------------
Apply(F, o) ==
  LET hn == HName(o)
      key == Key(o)
      i == LastSec(F, hn)
  IN
  CASE o.op = "set" ->
         IF i = 0 THEN Unchanged(F) ELSE Changed(SetIn(F, i, key, o.val))
    [] o.op = "push" ->
         IF i = 0 THEN Unchanged(F)
         ELSE Changed([F EXCEPT !.secs[i].items = Append(@, KvItem(key, o.hasval, IF o.hasval THEN o.val ELSE <<>>))])
    [] o.op = "pushc" ->
         IF i = 0 THEN Unchanged(F)
         ELSE Changed([F EXCEPT !.secs[i].items = @ \o <<KvItem(key, o.hasval, IF o.hasval THEN o.val ELSE <<>>),
                                                         CItem(PushedComment(o.cmt))>>])
    [] o.op = "remove" ->
         IF i = 0 THEN Unchanged(F)
         ELSE LET k == LastKey(F.secs[i].items, key) IN
              IF k = 0 THEN Unchanged(F) ELSE Changed([F EXCEPT !.secs[i].items = RemoveAt(@, k)])
    [] o.op = "pop" ->       \* the last entry of the section and what follows it inside the section
         IF i = 0 THEN Unchanged(F)
         ELSE LET k == LastKvFrom(F.secs[i].items, Len(F.secs[i].items)) IN
              IF k = 0 THEN Unchanged(F) ELSE Changed([F EXCEPT !.secs[i].items = SubSeq(@, 1, k - 1)])
    [] o.op = "set_raw" ->   \* creates section and key as needed, else overwrites the last value
         IF i = 0 THEN Changed([F EXCEPT !.secs = Append(@, [name |-> hn, items |-> <<KvItem(key, TRUE, o.val)>>])])
         ELSE Changed(SetIn(F, i, key, o.val))
    [] o.op = "set_existing" ->
         LET j == LastSecWithKey(F, hn, key) IN
         IF j = 0 THEN Unchanged(F) ELSE Changed(SetIn(F, j, key, o.val))
    [] o.op = "value_delete" ->
         LET j == LastSecWithKey(F, hn, key) IN
         IF j = 0 THEN Unchanged(F)
         ELSE Changed([F EXCEPT !.secs[j].items = RemoveAt(@, LastKey(F.secs[j].items, key))])
    [] o.op = "multi_set_all" ->
         LET occ == Occurrences(F, hn, key) IN
         IF occ = <<>> THEN Unchanged(F)
         ELSE Changed([F EXCEPT !.secs = [a \in 1..Len(F.secs) |->
                 [F.secs[a] EXCEPT !.items = [b \in 1..Len(F.secs[a].items) |->
                     IF \E m \in 1..Len(occ) : occ[m] = <<a, b>> THEN KvItem(key, TRUE, o.val) ELSE F.secs[a].items[b]]]]])
    [] o.op = "multi_delete" ->
         LET occ == Occurrences(F, hn, key) IN
         IF o.idx + 1 > Len(occ) THEN Unchanged(F)
         ELSE LET p == occ[o.idx + 1] IN Changed([F EXCEPT !.secs[p[1]].items = RemoveAt(@, p[2])])
    [] o.op = "new_section" ->
         Changed([F EXCEPT !.secs = Append(@, [name |-> hn, items |-> <<>>])])
    [] o.op = "remove_section" ->
         IF i = 0 THEN Unchanged(F) ELSE Changed([F EXCEPT !.secs = RemoveAt(@, i)])
    [] o.op = "rename_section" ->
         IF i = 0 THEN Unchanged(F) ELSE Changed([F EXCEPT !.secs[i].name = NewHName(o)])
    [] OTHER -> Unchanged(F)

\* ---- what "only the targeted keys change" means, as consequences of Apply (checked by TLC on
\*      every generated behaviour): entries whose name is not the targeted one keep their values and
\*      their relative order, comments survive unless their section is removed or popped over.
Targets(o) ==
  IF o.op \in {"remove_section", "pop"} THEN {}     \* judged by NotTouchedElsewhere only
  ELSE {HName(o) \o <<DOT>> \o Key(o)}
OthersOf(L, names) == SelectSeq(L, LAMBDA e : e.name \notin names)
OnlyTargetsChange(F, o) ==
  LET r == Apply(F, o) IN
  CASE o.op \in {"set", "push", "pushc", "remove", "set_raw", "set_existing", "value_delete", "multi_set_all", "multi_delete"} ->
         /\ OthersOf(Listing(r.F), Targets(o)) = OthersOf(Listing(F), Targets(o))
         /\ (o.op = "pushc" /\ r.ok => Len(Comments(r.F)) = Len(Comments(F)) + 1)
         /\ (o.op # "pushc" => Comments(r.F) = Comments(F))
    [] o.op = "new_section" -> Listing(r.F) = Listing(F) /\ Comments(r.F) = Comments(F)
    [] o.op = "rename_section" ->
         /\ Comments(r.F) = Comments(F)
         /\ Len(Listing(r.F)) = Len(Listing(F))
         /\ \A k \in 1..Len(Listing(F)) : Listing(r.F)[k].val = Listing(F)[k].val /\ KeyOf(Listing(r.F)[k].name) = KeyOf(Listing(F)[k].name)
    [] OTHER -> ~r.ok => r.F = F
=============================================================================
