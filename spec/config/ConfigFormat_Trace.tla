-------------------------- MODULE ConfigFormat_Trace --------------------------
(* Binding B for C26: observations of the real parser / writer judged by the   *)
(* specification.  One event per text:                                         *)
(*   [input, parse_ok, concat, skip_concat, file_ok, ser]                      *)
(* concat = bytes written by Event::write_to over all parse events of input,   *)
(* ser = File::to_bstring of the loaded file (both <<>> when not available).   *)
(* The text is judged for                                                      *)
(*   - events reproduce the input byte for byte, whenever gitoxide parses it;  *)
(*   - for files git accepts: the serialised file is again a file git accepts  *)
(*     and has the same sections, keys and values (Abstract).                  *)
(* With EVAL set (ConfigFormat_Eval.cfg) the module also prints the            *)
(* specification's listing of every input (used to audit the specification     *)
(* against git on the seeded random texts).                                    *)
EXTENDS ConfigFormat, TraceIO

VARIABLE l
Init == l = 1
Next == l <= NRec /\ l' = l + 1
Spec == Init /\ [][Next]_l

Judge(r) ==
  /\ (r.parse_ok /\ ~r.skip_concat => r.concat = r.input)   \* skip_concat: mismatch already reported by the driver
  /\ (r.file_ok /\ Valid(r.input) => Valid(r.ser) /\ Abstract(r.ser) = Abstract(r.input))

EventOk == l <= NRec => (Judge(Rec[l]) \/ PrintT(<<"REJECT", l>>))

EvalEmit == l <= NRec => LET p == Parse(Rec[l].input) IN
   PrintT(<<"CASE", ToJson([input |-> Rec[l].input, valid |-> p.ok,
                            indomain |-> (p.ok /\ InDomainList(p.list) /\ ~HasByte(Rec[l].input, 0)),
                            list |-> IF p.ok THEN p.list ELSE <<>>,
                            abs |-> IF p.ok THEN AbstractOf(p.list) ELSE <<>>])>>)
=============================================================================
