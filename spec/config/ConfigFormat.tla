---------------------------- MODULE ConfigFormat ----------------------------
(* C26 / C27 / C28.  The git-config file format over byte sequences:         *)
(* a transcription of git's reader (config.c: git_parse_source,             *)
(* get_next_char, get_base_var, get_extended_base_var, get_value,           *)
(* parse_value) and a canonical writer.                                     *)
(*                                                                          *)
(*   Parse(b)      = [ok, list]; list = sequence of entries                 *)
(*                   [name, hasval, val, wsd, legacy] in file order, what   *)
(*                   `git config -f F --list -z` prints (name, value):      *)
(*                   name = lower(section) [ "." subsection ] "." lower(key)*)
(*                   hasval = FALSE for `key` without `=` (implicit true);  *)
(*                   legacy = the entry lies below a `[sec.sub]` header.    *)
(*   Valid(b)      = Parse(b).ok            (git accepts the file)          *)
(*   Abstract(b)   = the structured listing [sec, hassub, sub, key, hasval, *)
(*                   val] (section = name up to the first dot, key = name   *)
(*                   after the last dot, as git's parse_config_key does).   *)
(*   Render(L)     = canonical text of a listing; RoundTrip law             *)
(*                   Abstract(Render(L)) = L   (model-level statement of    *)
(*                   "serialising and parsing back gives the same sections  *)
(*                   and values").                                          *)
(*                                                                          *)
(* Judged domain (InDomain): no NUL byte; every key lies inside a section   *)
(* (git itself lists a section-less `k=v` but cannot address it); no value  *)
(* contains unquoted inner whitespace other than the space character        *)
(* (flag wsd): the installed git 2.39 replaces such bytes by spaces, git    *)
(* >= 2.45 and gitoxide keep them verbatim.                                 *)
EXTENDS Bytes

NL == 10  CR == 13  TAB == 9  SP == 32  DQ == 34  BSL == 92  HASH == 35  SEMI == 59
LBR == 91  RBR == 93  EQ == 61  DOT == 46  DASH == 45
BOM == <<239, 187, 191>>

IsSpace(c) == c \in {SP, TAB, NL, CR}                 \* git's sane_ctype isspace
IsKeyChar(c) == IsAlnum(c) \/ c = DASH                \* iskeychar

\* get_next_char at index i: CRLF is one newline, end of file reads as newline (eof set)
Get(s, i) ==
  IF i > Len(s) THEN [c |-> NL, eof |-> TRUE, n |-> i]
  ELSE IF s[i] = CR /\ i < Len(s) /\ s[i + 1] = NL THEN [c |-> NL, eof |-> FALSE, n |-> i + 2]
  ELSE [c |-> s[i], eof |-> FALSE, n |-> i + 1]

Spaces(n) == [k \in 1..n |-> SP]
Fail == [ok |-> FALSE]

\* ---- parse_value: from index i (just after '=') to the end of the logical line
RECURSIVE PV(_, _, _, _, _, _, _, _)
\* cs = index of the `;` / `#` that started the trailing comment, 0 if none
PV(s, i, quote, comment, pend, val, wsd, cs) ==
  LET g == Get(s, i) IN
  IF g.c = NL THEN (IF quote THEN Fail
                    ELSE [ok |-> TRUE, val |-> val, n |-> g.n, wsd |-> wsd,
                          cmt |-> IF cs > 0 THEN SubSeq(s, cs, i - 1) ELSE <<>>])
  ELSE IF comment THEN PV(s, g.n, quote, TRUE, pend, val, wsd, cs)
  ELSE IF IsSpace(g.c) /\ ~quote
       THEN PV(s, g.n, quote, FALSE, IF val # <<>> THEN Append(pend, g.c) ELSE pend, val, wsd, cs)
  ELSE IF ~quote /\ g.c \in {SEMI, HASH} THEN PV(s, g.n, quote, TRUE, pend, val, wsd, i)
  ELSE
    LET v1 == val \o Spaces(Len(pend))                      \* git 2.39: pending blanks become spaces
        w1 == wsd \/ (\E k \in 1..Len(pend) : pend[k] # SP)
    IN IF g.c = BSL THEN
         LET h == Get(s, g.n) IN
         IF h.c = NL THEN PV(s, h.n, quote, FALSE, <<>>, v1, w1, cs)           \* continuation (also at EOF)
         ELSE IF h.c = 116 THEN PV(s, h.n, quote, FALSE, <<>>, Append(v1, TAB), w1, cs)   \* \t
         ELSE IF h.c = 98  THEN PV(s, h.n, quote, FALSE, <<>>, Append(v1, 8), w1, cs)     \* \b
         ELSE IF h.c = 110 THEN PV(s, h.n, quote, FALSE, <<>>, Append(v1, NL), w1, cs)    \* \n
         ELSE IF h.c \in {BSL, DQ} THEN PV(s, h.n, quote, FALSE, <<>>, Append(v1, h.c), w1, cs)
         ELSE Fail
       ELSE IF g.c = DQ THEN PV(s, g.n, ~quote, FALSE, <<>>, v1, w1, cs)
       ELSE PV(s, g.n, quote, FALSE, <<>>, Append(v1, g.c), w1, cs)

ParseValue(s, i) == PV(s, i, FALSE, FALSE, <<>>, <<>>, FALSE, 0)

\* ---- get_value: the first key character was consumed by the caller
RECURSIVE KeyChars(_, _, _)
KeyChars(s, i, acc) ==
  LET g == Get(s, i) IN
  IF g.eof \/ ~IsKeyChar(g.c) THEN [name |-> acc, c |-> g.c, n |-> g.n]
  ELSE KeyChars(s, g.n, Append(acc, ToLower(g.c)))

RECURSIVE SkipBlank(_, _, _)
SkipBlank(s, c, n) ==
  IF c \in {SP, TAB} THEN LET g == Get(s, n) IN SkipBlank(s, g.c, g.n) ELSE [c |-> c, n |-> n]

GetValue(s, i, name0, leg) ==
  LET k == KeyChars(s, i, name0)
      b == SkipBlank(s, k.c, k.n)
  IN IF b.c = NL THEN [ok |-> TRUE, n |-> b.n, cmt |-> <<>>,
                       entry |-> [name |-> k.name, hasval |-> FALSE, val |-> <<>>, wsd |-> FALSE, legacy |-> leg]]
     ELSE IF b.c # EQ THEN Fail
     ELSE LET v == ParseValue(s, b.n) IN
          IF ~v.ok THEN Fail
          ELSE [ok |-> TRUE, n |-> v.n, cmt |-> v.cmt,
                entry |-> [name |-> k.name, hasval |-> TRUE, val |-> v.val, wsd |-> v.wsd, legacy |-> leg]]

\* ---- get_extended_base_var: [section "sub"]
RECURSIVE ExtSkip(_, _, _)
\* do { if (c == '\n') fail; c = next; } while (isspace(c));   result: the first non-space char
ExtSkip(s, c, n) ==
  IF c = NL THEN Fail
  ELSE LET g == Get(s, n) IN
       IF IsSpace(g.c) THEN ExtSkip(s, g.c, g.n) ELSE [ok |-> TRUE, c |-> g.c, n |-> g.n]

RECURSIVE ExtName(_, _, _)
ExtName(s, i, acc) ==
  LET g == Get(s, i) IN
  IF g.c = NL THEN Fail
  ELSE IF g.c = DQ THEN
         LET h == Get(s, g.n) IN IF h.c = RBR /\ ~h.eof THEN [ok |-> TRUE, name |-> acc, n |-> h.n, legacy |-> FALSE] ELSE Fail
  ELSE IF g.c = BSL THEN
         LET h == Get(s, g.n) IN IF h.c = NL THEN Fail ELSE ExtName(s, h.n, Append(acc, h.c))
  ELSE ExtName(s, g.n, Append(acc, g.c))

\* ---- get_base_var: after '['
RECURSIVE BaseVar(_, _, _)
BaseVar(s, i, acc) ==
  LET g == Get(s, i) IN
  IF g.eof THEN Fail
  ELSE IF g.c = RBR THEN [ok |-> TRUE, name |-> acc, n |-> g.n, legacy |-> HasByte(acc, DOT)]
  ELSE IF IsSpace(g.c) THEN
         LET e == ExtSkip(s, g.c, g.n) IN
         IF ~e.ok THEN Fail
         ELSE IF e.c # DQ THEN Fail
         ELSE ExtName(s, e.n, Append(acc, DOT))
  ELSE IF ~IsKeyChar(g.c) /\ g.c # DOT THEN Fail
  ELSE BaseVar(s, g.n, Append(acc, ToLower(g.c)))

\* ---- git_parse_source main loop; base = current "section." prefix (<<>> before any header),
\*      leg = that header was of the legacy form [section.subsection], cs = start of the running
\*      comment.  acc collects the items of the file in order:
\*        [t |-> "h", name (the header, lower-cased as git reads it, without the final dot), legacy]
\*        [t |-> "kv", name, hasval, val, wsd, legacy]      [t |-> "c", text (from ; or # to the line end)]
Hdr(name, leg) == [t |-> "h", name |-> name, hasval |-> FALSE, val |-> <<>>, wsd |-> FALSE, legacy |-> leg]
Kv(e) == [t |-> "kv", name |-> e.name, hasval |-> e.hasval, val |-> e.val, wsd |-> e.wsd, legacy |-> e.legacy]
Cm(text) == [t |-> "c", name |-> <<>>, hasval |-> FALSE, val |-> text, wsd |-> FALSE, legacy |-> FALSE]
RECURSIVE Top(_, _, _, _, _, _, _)
Top(s, i, base, leg, comment, cs, acc) ==
  LET g == Get(s, i) IN
  IF g.c = NL THEN
       LET acc1 == IF comment THEN Append(acc, Cm(SubSeq(s, cs, i - 1))) ELSE acc IN
       (IF g.eof THEN [ok |-> TRUE, items |-> acc1] ELSE Top(s, g.n, base, leg, FALSE, 0, acc1))
  ELSE IF comment THEN Top(s, g.n, base, leg, TRUE, cs, acc)
  ELSE IF IsSpace(g.c) THEN Top(s, g.n, base, leg, FALSE, 0, acc)
  ELSE IF g.c \in {HASH, SEMI} THEN Top(s, g.n, base, leg, TRUE, i, acc)
  ELSE IF g.c = LBR THEN
         LET h == BaseVar(s, g.n, <<>>) IN
         IF ~h.ok THEN [ok |-> FALSE, items |-> acc]
         ELSE IF h.name = <<>> THEN [ok |-> FALSE, items |-> acc]
         ELSE Top(s, h.n, Append(h.name, DOT), h.legacy, FALSE, 0, Append(acc, Hdr(h.name, h.legacy)))
  ELSE IF ~IsAlpha(g.c) THEN [ok |-> FALSE, items |-> acc]
  ELSE LET v == GetValue(s, g.n, Append(base, ToLower(g.c)), leg) IN
       IF ~v.ok THEN [ok |-> FALSE, items |-> acc]
       ELSE Top(s, v.n, base, leg, FALSE, 0,
                IF v.cmt = <<>> THEN Append(acc, Kv(v.entry)) ELSE acc \o <<Kv(v.entry), Cm(v.cmt)>>)

\* a leading UTF-8 byte order mark is skipped, a partial one is an error
ParseItems(s) ==
  IF StartsWith(s, BOM) THEN Top(s, 4, <<>>, FALSE, FALSE, 0, <<>>)
  ELSE IF s # <<>> /\ s[1] = BOM[1] THEN [ok |-> FALSE, items |-> <<>>]
  ELSE Top(s, 1, <<>>, FALSE, FALSE, 0, <<>>)

EntryOf(it) == [name |-> it.name, hasval |-> it.hasval, val |-> it.val, wsd |-> it.wsd, legacy |-> it.legacy]
Parse(s) ==
  LET p == ParseItems(s)
      kv == SelectSeq(p.items, LAMBDA it : it.t = "kv")
  IN [ok |-> p.ok, list |-> [k \in 1..Len(kv) |-> EntryOf(kv[k])], items |-> p.items]

Valid(s) == Parse(s).ok

\* ---- structured view of an entry name (parse_config_key): section.key or section.sub.key
SecOf(name) == SubSeq(name, 1, FindByte(name, DOT) - 1)
KeyOf(name) == SubSeq(name, RFindByte(name, DOT) + 1, Len(name))
HasSub(name) == FindByte(name, DOT) # RFindByte(name, DOT)
SubOf(name) == IF HasSub(name) THEN SubSeq(name, FindByte(name, DOT) + 1, RFindByte(name, DOT) - 1) ELSE <<>>
Addressable(name) == FindByte(name, DOT) > 1           \* has a non-empty section part

Structured(e) == [sec |-> SecOf(e.name), hassub |-> HasSub(e.name), sub |-> SubOf(e.name),
                  key |-> KeyOf(e.name), hasval |-> e.hasval, val |-> e.val]
AbstractOf(list) == [k \in 1..Len(list) |-> Structured(list[k])]
Abstract(s) == AbstractOf(Parse(s).list)

InDomainList(list) == \A k \in 1..Len(list) : Addressable(list[k].name) /\ ~list[k].wsd
InDomain(s) == ~HasByte(s, 0) /\ Valid(s) /\ InDomainList(Parse(s).list)

\* ---- canonical writer --------------------------------------------------------------------
\* A value written between double quotes with \\ \" \n \t \b escaped reads back verbatim.
RECURSIVE EscValue(_, _, _)
EscValue(v, i, acc) ==
  IF i > Len(v) THEN acc
  ELSE LET c == v[i] IN
       EscValue(v, i + 1,
                IF c = BSL THEN acc \o <<BSL, BSL>>
                ELSE IF c = DQ THEN acc \o <<BSL, DQ>>
                ELSE IF c = NL THEN acc \o <<BSL, 110>>
                ELSE IF c = TAB THEN acc \o <<BSL, 116>>
                ELSE IF c = 8 THEN acc \o <<BSL, 98>>
                ELSE Append(acc, c))
QuoteValue(v) == <<DQ>> \o EscValue(v, 1, <<>>) \o <<DQ>>

RECURSIVE EscSub(_, _, _)
EscSub(v, i, acc) ==
  IF i > Len(v) THEN acc
  ELSE EscSub(v, i + 1, IF v[i] \in {BSL, DQ} THEN acc \o <<BSL, v[i]>> ELSE Append(acc, v[i]))

RenderHeader(e) ==
  <<LBR>> \o e.sec \o (IF e.hassub THEN <<SP, DQ>> \o EscSub(e.sub, 1, <<>>) \o <<DQ>> ELSE <<>>) \o <<RBR, NL>>
RenderEntry(e) ==
  <<TAB>> \o e.key \o (IF e.hasval THEN <<SP, EQ, SP>> \o QuoteValue(e.val) ELSE <<>>) \o <<NL>>

RECURSIVE RenderFrom(_, _, _)
RenderFrom(L, i, acc) ==
  IF i > Len(L) THEN acc
  ELSE LET same == i > 1 /\ L[i].sec = L[i-1].sec /\ L[i].hassub = L[i-1].hassub /\ L[i].sub = L[i-1].sub IN
       RenderFrom(L, i + 1, acc \o (IF same THEN <<>> ELSE RenderHeader(L[i])) \o RenderEntry(L[i]))
Render(L) == RenderFrom(L, 1, <<>>)

\* listings the writer is defined for: what a reader can produce (lower-case names, no newline or
\* NUL in a subsection, no NUL in a value)
RenderableEntry(e) ==
  /\ e.sec # <<>> /\ \A k \in 1..Len(e.sec) : IsKeyChar(e.sec[k]) /\ ~IsUpper(e.sec[k])
  /\ e.key # <<>> /\ IsAlpha(e.key[1]) /\ \A k \in 1..Len(e.key) : IsKeyChar(e.key[k]) /\ ~IsUpper(e.key[k])
  /\ ~HasByte(e.sub, NL) /\ ~HasByte(e.sub, 0) /\ (~e.hassub => e.sub = <<>>)
  /\ ~HasByte(e.val, 0) /\ (~e.hasval => e.val = <<>>)
RoundTrip(L) == (\A k \in 1..Len(L) : RenderableEntry(L[k])) => Abstract(Render(L)) = L /\ Valid(Render(L))
=============================================================================
