SPECIFICATION Spec
CONSTANTS
  MaxToks = 3
  Mode = "typed"
  Wide = FALSE
INVARIANTS
  TypedReadsBack
  Emit
CHECK_DEADLOCK FALSE
