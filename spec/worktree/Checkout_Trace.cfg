SPECIFICATION Spec
CONSTANTS
  Bug_FormerLeafNotRechecked = FALSE
INVARIANT EventOk
CHECK_DEADLOCK FALSE
