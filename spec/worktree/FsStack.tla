------------------------------- MODULE FsStack -------------------------------
(* C42.  The worktree path stack (gix_fs::Stack) and the directory push/pop   *)
(* notifications it sends to its delegate.                                    *)
(*                                                                            *)
(* A path is a sequence of components; a component is a model value/string.   *)
(* State:                                                                     *)
(*   cur        current path relative to the root (sequence of components)    *)
(*   isDir      whether the leaf of cur is known to be a directory            *)
(*   rootPushed whether the delegate has been told about the root directory   *)
(*   dirs       the delegate's view: directories pushed and not yet popped    *)
(*                                                                            *)
(* MakeCurrent is written step by step like make_relative_path_current:       *)
(* common-prefix reuse, pops, push_directory for a former leaf, then per      *)
(* component push + push_directory.  Both delegate calls may be rejected.     *)
(* Bug_* constants re-introduce the accounting slips of the implementation    *)
(* at the pinned commit; with all of them FALSE the module is the intended    *)
(* design and TLC proves Balanced for it.                                     *)
EXTENDS Naturals, Sequences, FiniteSets, TLC

CONSTANTS Bug_PushDirAfterRejectedPush,   \* push_directory is called although push failed
          Bug_RootPushedAgain,            \* root pushed whenever valid_components = 0
          Bug_LeafFlagAfterRollback       \* rolled-back leaf leaves its parent flagged "not a directory"

Take(s, n) == SubSeq(s, 1, n)
IsPrefix(a, b) == Len(a) <= Len(b) /\ Take(b, Len(a)) = a

RECURSIVE CommonLen(_, _, _)
CommonLen(a, b, i) == IF i < Len(a) /\ i < Len(b) /\ a[i + 1] = b[i + 1] THEN CommonLen(a, b, i + 1) ELSE i

St == [cur : Seq(STRING), isDir : BOOLEAN, rootPushed : BOOLEAN, dirs : Seq(Seq(STRING))]
InitSt == [cur |-> <<>>, isDir |-> TRUE, rootPushed |-> FALSE, dirs |-> <<>>]

\* the directories the delegate must know about, given the stack state
Chain(cur, isDir) ==
  LET n == IF isDir THEN Len(cur) ELSE Len(cur) - 1
  IN [i \in 1..(n + 1) |-> Take(cur, i - 1)]

Balanced(s) == s.rootPushed => s.dirs = Chain(s.cur, s.isDir \/ s.cur = <<>>)

\* pop k components
RECURSIVE PopN(_, _)
PopN(s, k) ==
  IF k = 0 THEN s
  ELSE PopN([s EXCEPT !.cur = Take(s.cur, Len(s.cur) - 1),
                      !.dirs = IF s.isDir THEN Take(s.dirs, Len(s.dirs) - 1) ELSE s.dirs,
                      !.isDir = TRUE], k - 1)

\* push components p[i..]; RP / RD = paths whose push / push_directory the delegate rejects.
\* Result: [ok, st]
RECURSIVE PushFrom(_, _, _, _, _)
PushFrom(s, p, i, RP, RD) ==
  IF i > Len(p) THEN [ok |-> TRUE, st |-> s]
  ELSE
    LET path == Take(p, i)
        last == (i = Len(p))
        rolledBack == [s EXCEPT !.isDir = IF Bug_LeafFlagAfterRollback THEN ~last ELSE TRUE]
    IN IF path \in RP
       THEN \* rejected by push: the component is removed again
            IF Bug_PushDirAfterRejectedPush /\ ~last /\ path \notin RD
            THEN [ok |-> FALSE, st |-> [rolledBack EXCEPT !.dirs = Append(s.dirs, path)]]
            ELSE [ok |-> FALSE, st |-> rolledBack]
       ELSE IF last
       THEN [ok |-> TRUE, st |-> [s EXCEPT !.cur = path, !.isDir = FALSE]]
       ELSE IF path \in RD
       THEN [ok |-> FALSE, st |-> rolledBack]
       ELSE PushFrom([s EXCEPT !.cur = path, !.isDir = TRUE, !.dirs = Append(s.dirs, path)], p, i + 1, RP, RD)

MakeCurrent(s0, p, RP, RD) ==
  LET needRoot == IF Bug_RootPushedAgain THEN s0.cur = <<>> ELSE ~s0.rootPushed IN
  IF needRoot /\ <<>> \in RD THEN [ok |-> FALSE, st |-> s0]
  ELSE
    LET s1 == IF needRoot THEN [s0 EXCEPT !.rootPushed = TRUE, !.dirs = Append(s0.dirs, <<>>)] ELSE s0
        m  == CommonLen(s1.cur, p, 0)
        s2 == PopN(s1, Len(s1.cur) - m)
    IN IF ~s2.isDir /\ m < Len(p)
       THEN \* the former leaf becomes a directory
            IF s2.cur \in RD THEN [ok |-> FALSE, st |-> s2]
            ELSE PushFrom([s2 EXCEPT !.isDir = TRUE, !.dirs = Append(s2.dirs, s2.cur)], p, m + 1, RP, RD)
       ELSE PushFrom(s2, p, m + 1, RP, RD)

\* What the property demands of ANY implementation after a call (used by the trace acceptor):
\*  success: the current path is the requested one; failure: some prefix of it or of the old path.
\*  always: the delegate's directory list is exactly the chain of the current path.
ChainOk(cur, dirs) ==
  \/ cur = <<>> /\ dirs = <<>>          \* the root itself was never accepted by the delegate
  \/ dirs = Chain(cur, TRUE)
  \/ cur # <<>> /\ dirs = Chain(cur, FALSE)
=============================================================================
