SPECIFICATION Spec
CONSTANTS
  Bug_FormerLeafNotRechecked = FALSE
  MaxEntries = 3
  Threads = {"t1", "t2"}
  Emitting = FALSE
INVARIANTS
  InvContained
  InvGitDir
  InvBenign
CHECK_DEADLOCK FALSE
