SPECIFICATION Spec
CONSTANTS
  MaxEntries = 3
  Variants = {1, 2, 3, 4}
INVARIANTS
  FlattenIsSubseqOfLeaves
  MembersMatchEntries
  Emit
CHECK_DEADLOCK FALSE
