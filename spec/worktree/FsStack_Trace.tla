---------------------------- MODULE FsStack_Trace ----------------------------
(* Binding B for C42: what the real gix_fs::Stack did, call by call, judged   *)
(* against what the property demands of any implementation.  One event per    *)
(* call: [path, ok, cur, dirs, abs_ok, underflow].  The delegate's directory  *)
(* list is observed completely, so no hidden state has to be inferred.        *)
EXTENDS FsStack, TraceIO

VARIABLE l
Init == l = 1
Next == l <= NRec /\ l' = l + 1
Spec == Init /\ [][Next]_l

Judge(r) ==
  /\ r.abs_ok                      \* current() = root() joined with current_relative()
  /\ ~r.underflow                  \* never more pops than pushes
  /\ (r.ok => r.cur = r.path)      \* success: the current path is the last path
  /\ ChainOk(r.cur, r.dirs)        \* notifications balanced: exactly the chain of the current path

EventOk == l <= NRec => (Judge(Rec[l]) \/ PrintT(<<"REJECT", l>>))
=============================================================================
