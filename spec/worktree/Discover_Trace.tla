--------------------------- MODULE Discover_Trace ---------------------------
(* Binding B (and the git audit of random worlds) for C50.  One event per     *)
(* world read back from disk:                                                 *)
(*   [fs : entries, queries : [cwd, start, ceil, found, gitdir, worktree]..]  *)
(* where (found, gitdir, worktree) is what Who reported (worktree = <<"?">>   *)
(* for none).  Who = "gix": gix_discover::upwards_opts must report what the   *)
(* specification demands of it; Who = "git": `git rev-parse` must report what *)
(* the specification says git does (transcription audit).                     *)
EXTENDS Discover, TraceIO
CONSTANTS Who,
          BugIncl, BugSkip, BugDotGit   \* judge against a named defective design (classification of rejections only)

Range(s) == { s[i] : i \in 1..Len(s) }

\* the file system of event l is held in a variable so that it is a fully evaluated function
VARIABLES l, fsv
FsAt(i) == IF i <= NRec THEN FsOf(Range(Rec[i].fs)) ELSE <<>>
Init == l = 1 /\ fsv = FsAt(1)
Next == l <= NRec /\ l' = l + 1 /\ fsv' = FsAt(l + 1)
Spec == Init /\ [][Next]_<<l, fsv>>

JudgeQ(fs, q) ==
  LET r == Discover(fs, q.cwd, q.start, q.ceil, [incl |-> BugIncl, skip |-> BugSkip, dotgit |-> BugDotGit]) IN
  /\ q.found = r.found
  /\ r.found => /\ q.gitdir = r.gitdir
                /\ q.worktree = (IF Who = "git" THEN GitWorktree(r) ELSE GixWorktree(fs, r))

Judge(e) == \A i \in 1..Len(e.queries) : JudgeQ(fsv, e.queries[i])

EventOk == l <= NRec => (Judge(Rec[l]) \/ PrintT(<<"REJECT", l>>))
=============================================================================
