SPECIFICATION Spec
CONSTANTS
  Wide = FALSE
INVARIANTS
  Emit
CHECK_DEADLOCK FALSE
