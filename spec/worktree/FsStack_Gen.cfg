SPECIFICATION Spec
CONSTANTS
  MaxCalls = 4
  PerCallRejects = FALSE
  Bug_PushDirAfterRejectedPush = FALSE
  Bug_RootPushedAgain = FALSE
  Bug_LeafFlagAfterRollback = FALSE
INVARIANTS
  InvBalanced
  InvSuccessSetsPath
  InvFailureKeepsPrefix
  Emit
CHECK_DEADLOCK FALSE
