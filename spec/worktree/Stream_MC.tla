----------------------------- MODULE Stream_MC -----------------------------
(* C55, the pipe protocol of gix-worktree-stream between the producer thread  *)
(* (from_tree::run: protocol::write_entry_header_and_path, write / write_stream) *)
(* and the consumer (Stream::next_entry, Entry::read), as a PlusCal algorithm. *)
(*                                                                            *)
(* Wire units (one unit per field; read_exact makes the byte-level split of a *)
(* field immaterial):  <<"pl",p>> path length, <<"sl",n>> stream length       *)
(* (-1 = usize::MAX = unknown), <<"mh",i>> mode+hash of entry i, <<"p",i,k>>  *)
(* path bytes, <<"d",i,k>> content bytes, <<"cl",m>> u16 chunk length.        *)
(* An entry of known length is header, path, n content units; a streamed one  *)
(* is header, path, chunks (cl m, m units) with 1 <= m <= ChunkMax chosen by  *)
(* the source's read sizes, then cl 0.                                        *)
(*                                                                            *)
(* The pipe is gix_features::io::pipe: a bounded channel of Cap writes; its   *)
(* Reader fills the whole buffer it is given unless the writer is gone.  With *)
(* Reread the consumer instead decodes Stream::from_read(into_read() bytes)   *)
(* over a source that returns arbitrarily short reads.  The caller adds the   *)
(* additional entries (indices nt+1..) while the producer already runs, then  *)
(* starts reading (dropping the sender ends the producer's wait for more).    *)
(* Entry::read is called with every buffer size of ReadSizes (and 0 when      *)
(* AllowZeroReads) until a read into a non-empty buffer returns 0.            *)
(*                                                                            *)
(* Checked: DecodedPrefix / AtEnd (decoded entries = the produced list, each  *)
(* once, path and content complete and in order, for EVERY interleaving and   *)
(* every split of reads), NoDesync, Terminates (no deadlock on the bounded    *)
(* pipe).  ZeroReadEnds = TRUE is Entry::read as written at the pinned commit *)
(* (any 0-byte read marks the entry depleted); with AllowZeroReads it breaks  *)
(* the invariants (self-test); ZeroReadEnds = FALSE is the proposed fix (an      *)
(* empty buffer returns Ok(0) before anything else is touched).               *)
EXTENDS Naturals, Integers, Sequences, FiniteSets, TLC

CONSTANTS MaxEntries, ChunkMax, ReadSizes, Cap, Reread, AllowZeroReads, ZeroReadEnds

Min(a, b) == IF a <= b THEN a ELSE b

Templates == { [p |-> 1, n |-> 0, streamed |-> FALSE], [p |-> 1, n |-> 2, streamed |-> FALSE],
               [p |-> 2, n |-> 0, streamed |-> TRUE],  [p |-> 1, n |-> 3, streamed |-> TRUE] }
RECURSIVE SeqsUpTo(_)
SeqsUpTo(k) == IF k = 0 THEN {<<>>}
               ELSE LET S == SeqsUpTo(k - 1) IN
                    S \cup {Append(s, t) : s \in {x \in S : Len(x) = k - 1}, t \in Templates}

PathUnits(i, e) == [k \in 1..e.p |-> <<"p", i, k>>]
DataUnits(i, from, m) == [k \in 1..m |-> <<"d", i, from + k>>]
Header(i, e) == << <<"pl", e.p>>, <<"sl", IF e.streamed THEN -1 ELSE e.n>>, <<"mh", i>> >>
Expected(es) == [i \in 1..Len(es) |-> [i |-> i, path |-> PathUnits(i, es[i]), data |-> DataUnits(i, 0, es[i].n)]]

(* --algorithm StreamPipe {
  variables entries \in SeqsUpTo(MaxEntries),
            nt \in 0..Len(entries),        \* the first nt entries come from the tree, the rest are added by the caller
            chan = <<>>, closed = FALSE,   \* the pipe: in-flight writes, writer dropped
            extraQ = <<>>, senderOpen = TRUE,
            rbuf = <<>>,                   \* pipe::Reader.buf
            ser = <<>>,                    \* Reread: the serialised stream not yet handed out
            res = <<>>,                    \* result of the last rd
            decoded = <<>>, desync = FALSE;

  macro send(chunk) { await Len(chan) < Cap; chan := Append(chan, chunk); }

  \* read up to k units into res.  pipe::Reader::read loops until the buffer is full or the writer is
  \* gone; the Reread source returns short reads, read_exact (exact) loops over them.
  procedure rd(k, exact)
  {
   r1: while (Len(res) < k) {
         if (Reread) {
           if (ser = <<>>) { goto r9 }
           else {
             with (m \in 1..Min(k - Len(res), Len(ser))) {
               res := res \o SubSeq(ser, 1, m);
               ser := SubSeq(ser, m + 1, Len(ser));
             };
             if (~exact) { goto r9 };
           }
         } else {
           if (rbuf = <<>>) {
             await chan # <<>> \/ closed;
             if (chan # <<>>) { rbuf := Head(chan); chan := Tail(chan) } else { goto r9 };
           } else {
             with (m = Min(Len(rbuf), k - Len(res))) {
               res := res \o SubSeq(rbuf, 1, m);
               rbuf := SubSeq(rbuf, m + 1, Len(rbuf));
             }
           }
         }
       };
   r9: return;
  }

  fair process (producer = 1)
    variables i = 1, rem = 0, cm = 0;
  {
   p0: if (i > nt) {
         \* `for entry in additional_entries`: blocks until one arrives or the sender is dropped
         await extraQ # <<>> \/ ~senderOpen;
         if (extraQ = <<>>) { goto pEnd } else { extraQ := Tail(extraQ) };
       };
   p1: send(Header(i, entries[i]));
   p2: send(PathUnits(i, entries[i]));
   p3: if (~entries[i].streamed) {
         send(DataUnits(i, 0, entries[i].n));            \* one write, possibly empty
         goto p7;
       } else { rem := entries[i].n };
   p4: if (rem > 0) {                                     \* write_stream: input.read(buf) = m
         with (m \in 1..Min(ChunkMax, rem)) { send(<< <<"cl", m>> >>); cm := m };
       } else { goto p6 };
   p5: send(DataUnits(i, entries[i].n - rem, cm));
       rem := rem - cm;
       goto p4;
   p6: send(<< <<"cl", 0>> >>);                           \* terminator
   p7: i := i + 1;
       goto p0;
   pEnd: closed := TRUE;                                  \* thread ends, Writer dropped
  }

  fair process (consumer = 2)
    variables j = 0, hdr = <<>>, remaining = 0, cur = <<>>, ebuf = <<>>, pos = 0, filled = 0, b = 0, got = 0, zeros = 0;
  {
   a0: j := nt + 1;
   a1: while (j <= Len(entries)) { extraQ := Append(extraQ, j); j := j + 1 };   \* add_entry
   a2: senderOpen := FALSE;                                                      \* extra_entries.take()
   a3: if (Reread) {
   a4:   while (~(chan = <<>> /\ closed)) {                                      \* copy(into_read(), vec)
           await chan # <<>> \/ closed;
           if (chan # <<>>) { ser := ser \o Head(chan); chan := Tail(chan) };
         }
       };
   n0: res := <<>>;                                       \* next_entry: read_entry_info
       call rd(3, TRUE);
   n1: if (Len(res) < 3) { goto fin }                     \* UnexpectedEof: the other side is done -> None
       else if (res[1][1] # "pl" \/ res[2][1] # "sl" \/ res[3][1] # "mh") { desync := TRUE; goto fin }
       else { hdr := res; res := <<>>; };
   n2: call rd(hdr[1][2], TRUE);
   n3: cur := [i |-> hdr[3][2], path |-> res, data |-> <<>>];
       remaining := hdr[2][2];
       pos := 0; filled := 0; ebuf := <<>>;
   e0: with (x \in ReadSizes \cup (IF AllowZeroReads /\ zeros < 1 THEN {0} ELSE {})) { b := x; zeros := IF x = 0 THEN zeros + 1 ELSE 0 };   \* Entry::read(buf), |buf| = b
       res := <<>>;
       if (b = 0 /\ ~ZeroReadEnds) { got := 0; goto e9 }               \* the fix: `if buf.is_empty() { return Ok(0) }`
       else if (remaining >= 0) { call rd(Min(b, remaining), FALSE); goto e1 }
       else if (pos >= filled) { call rd(1, TRUE); goto f1 }
       else { goto f3 };
   e1: got := Len(res);
       cur := [cur EXCEPT !.data = @ \o res];
       remaining := remaining - Len(res);
       goto e9;
   f1: if (Len(res) < 1 \/ res[1][1] # "cl") { desync := TRUE; goto fin }
       else if (res[1][2] # 0) { filled := res[1][2]; res := <<>>; call rd(filled, TRUE); goto f2 }
       else { filled := 0; pos := 0; ebuf := <<>>; goto f3 };
   f2: ebuf := res; filled := Len(res); pos := 0;
   f3: got := Min(filled - pos, b);
       cur := [cur EXCEPT !.data = @ \o SubSeq(ebuf, pos + 1, pos + Min(filled - pos, b))];
       pos := pos + Min(filled - pos, b);
   e9: if (got = 0 /\ (ZeroReadEnds \/ b # 0)) { remaining := 0 };
       \* the caller reads until a read into a non-empty buffer returns 0
       if (got = 0 /\ b # 0) { goto d0 } else { goto e0 };
   d0: if (remaining = 0) { decoded := Append(decoded, cur); goto n0 }   \* Drop: path_buf handed back
       else { desync := TRUE; goto fin };                                \* tainted: next_entry would panic
   fin: skip;
  }
} *)
\* BEGIN TRANSLATION
CONSTANT defaultInitValue
VARIABLES pc, entries, nt, chan, closed, extraQ, senderOpen, rbuf, ser, res, 
          decoded, desync, stack, k, exact, i, rem, cm, j, hdr, remaining, 
          cur, ebuf, pos, filled, b, got, zeros

vars == << pc, entries, nt, chan, closed, extraQ, senderOpen, rbuf, ser, res, 
           decoded, desync, stack, k, exact, i, rem, cm, j, hdr, remaining, 
           cur, ebuf, pos, filled, b, got, zeros >>

ProcSet == {1} \cup {2}

Init == (* Global variables *)
        /\ entries \in SeqsUpTo(MaxEntries)
        /\ nt \in 0..Len(entries)
        /\ chan = <<>>
        /\ closed = FALSE
        /\ extraQ = <<>>
        /\ senderOpen = TRUE
        /\ rbuf = <<>>
        /\ ser = <<>>
        /\ res = <<>>
        /\ decoded = <<>>
        /\ desync = FALSE
        (* Procedure rd *)
        /\ k = [ self \in ProcSet |-> defaultInitValue]
        /\ exact = [ self \in ProcSet |-> defaultInitValue]
        (* Process producer *)
        /\ i = 1
        /\ rem = 0
        /\ cm = 0
        (* Process consumer *)
        /\ j = 0
        /\ hdr = <<>>
        /\ remaining = 0
        /\ cur = <<>>
        /\ ebuf = <<>>
        /\ pos = 0
        /\ filled = 0
        /\ b = 0
        /\ got = 0
        /\ zeros = 0
        /\ stack = [self \in ProcSet |-> << >>]
        /\ pc = [self \in ProcSet |-> CASE self = 1 -> "p0"
                                        [] self = 2 -> "a0"]

r1(self) == /\ pc[self] = "r1"
            /\ IF Len(res) < k[self]
                  THEN /\ IF Reread
                             THEN /\ IF ser = <<>>
                                        THEN /\ pc' = [pc EXCEPT ![self] = "r9"]
                                             /\ UNCHANGED << ser, res >>
                                        ELSE /\ \E m \in 1..Min(k[self] - Len(res), Len(ser)):
                                                  /\ res' = res \o SubSeq(ser, 1, m)
                                                  /\ ser' = SubSeq(ser, m + 1, Len(ser))
                                             /\ IF ~exact[self]
                                                   THEN /\ pc' = [pc EXCEPT ![self] = "r9"]
                                                   ELSE /\ pc' = [pc EXCEPT ![self] = "r1"]
                                  /\ UNCHANGED << chan, rbuf >>
                             ELSE /\ IF rbuf = <<>>
                                        THEN /\ chan # <<>> \/ closed
                                             /\ IF chan # <<>>
                                                   THEN /\ rbuf' = Head(chan)
                                                        /\ chan' = Tail(chan)
                                                        /\ pc' = [pc EXCEPT ![self] = "r1"]
                                                   ELSE /\ pc' = [pc EXCEPT ![self] = "r9"]
                                                        /\ UNCHANGED << chan, 
                                                                        rbuf >>
                                             /\ res' = res
                                        ELSE /\ LET m == Min(Len(rbuf), k[self] - Len(res)) IN
                                                  /\ res' = res \o SubSeq(rbuf, 1, m)
                                                  /\ rbuf' = SubSeq(rbuf, m + 1, Len(rbuf))
                                             /\ pc' = [pc EXCEPT ![self] = "r1"]
                                             /\ chan' = chan
                                  /\ ser' = ser
                  ELSE /\ pc' = [pc EXCEPT ![self] = "r9"]
                       /\ UNCHANGED << chan, rbuf, ser, res >>
            /\ UNCHANGED << entries, nt, closed, extraQ, senderOpen, decoded, 
                            desync, stack, k, exact, i, rem, cm, j, hdr, 
                            remaining, cur, ebuf, pos, filled, b, got, zeros >>

r9(self) == /\ pc[self] = "r9"
            /\ pc' = [pc EXCEPT ![self] = Head(stack[self]).pc]
            /\ k' = [k EXCEPT ![self] = Head(stack[self]).k]
            /\ exact' = [exact EXCEPT ![self] = Head(stack[self]).exact]
            /\ stack' = [stack EXCEPT ![self] = Tail(stack[self])]
            /\ UNCHANGED << entries, nt, chan, closed, extraQ, senderOpen, 
                            rbuf, ser, res, decoded, desync, i, rem, cm, j, 
                            hdr, remaining, cur, ebuf, pos, filled, b, got, 
                            zeros >>

rd(self) == r1(self) \/ r9(self)

p0 == /\ pc[1] = "p0"
      /\ IF i > nt
            THEN /\ extraQ # <<>> \/ ~senderOpen
                 /\ IF extraQ = <<>>
                       THEN /\ pc' = [pc EXCEPT ![1] = "pEnd"]
                            /\ UNCHANGED extraQ
                       ELSE /\ extraQ' = Tail(extraQ)
                            /\ pc' = [pc EXCEPT ![1] = "p1"]
            ELSE /\ pc' = [pc EXCEPT ![1] = "p1"]
                 /\ UNCHANGED extraQ
      /\ UNCHANGED << entries, nt, chan, closed, senderOpen, rbuf, ser, res, 
                      decoded, desync, stack, k, exact, i, rem, cm, j, hdr, 
                      remaining, cur, ebuf, pos, filled, b, got, zeros >>

p1 == /\ pc[1] = "p1"
      /\ Len(chan) < Cap
      /\ chan' = Append(chan, (Header(i, entries[i])))
      /\ pc' = [pc EXCEPT ![1] = "p2"]
      /\ UNCHANGED << entries, nt, closed, extraQ, senderOpen, rbuf, ser, res, 
                      decoded, desync, stack, k, exact, i, rem, cm, j, hdr, 
                      remaining, cur, ebuf, pos, filled, b, got, zeros >>

p2 == /\ pc[1] = "p2"
      /\ Len(chan) < Cap
      /\ chan' = Append(chan, (PathUnits(i, entries[i])))
      /\ pc' = [pc EXCEPT ![1] = "p3"]
      /\ UNCHANGED << entries, nt, closed, extraQ, senderOpen, rbuf, ser, res, 
                      decoded, desync, stack, k, exact, i, rem, cm, j, hdr, 
                      remaining, cur, ebuf, pos, filled, b, got, zeros >>

p3 == /\ pc[1] = "p3"
      /\ IF ~entries[i].streamed
            THEN /\ Len(chan) < Cap
                 /\ chan' = Append(chan, (DataUnits(i, 0, entries[i].n)))
                 /\ pc' = [pc EXCEPT ![1] = "p7"]
                 /\ rem' = rem
            ELSE /\ rem' = entries[i].n
                 /\ pc' = [pc EXCEPT ![1] = "p4"]
                 /\ chan' = chan
      /\ UNCHANGED << entries, nt, closed, extraQ, senderOpen, rbuf, ser, res, 
                      decoded, desync, stack, k, exact, i, cm, j, hdr, 
                      remaining, cur, ebuf, pos, filled, b, got, zeros >>

p4 == /\ pc[1] = "p4"
      /\ IF rem > 0
            THEN /\ \E m \in 1..Min(ChunkMax, rem):
                      /\ Len(chan) < Cap
                      /\ chan' = Append(chan, (<< <<"cl", m>> >>))
                      /\ cm' = m
                 /\ pc' = [pc EXCEPT ![1] = "p5"]
            ELSE /\ pc' = [pc EXCEPT ![1] = "p6"]
                 /\ UNCHANGED << chan, cm >>
      /\ UNCHANGED << entries, nt, closed, extraQ, senderOpen, rbuf, ser, res, 
                      decoded, desync, stack, k, exact, i, rem, j, hdr, 
                      remaining, cur, ebuf, pos, filled, b, got, zeros >>

p5 == /\ pc[1] = "p5"
      /\ Len(chan) < Cap
      /\ chan' = Append(chan, (DataUnits(i, entries[i].n - rem, cm)))
      /\ rem' = rem - cm
      /\ pc' = [pc EXCEPT ![1] = "p4"]
      /\ UNCHANGED << entries, nt, closed, extraQ, senderOpen, rbuf, ser, res, 
                      decoded, desync, stack, k, exact, i, cm, j, hdr, 
                      remaining, cur, ebuf, pos, filled, b, got, zeros >>

p6 == /\ pc[1] = "p6"
      /\ Len(chan) < Cap
      /\ chan' = Append(chan, (<< <<"cl", 0>> >>))
      /\ pc' = [pc EXCEPT ![1] = "p7"]
      /\ UNCHANGED << entries, nt, closed, extraQ, senderOpen, rbuf, ser, res, 
                      decoded, desync, stack, k, exact, i, rem, cm, j, hdr, 
                      remaining, cur, ebuf, pos, filled, b, got, zeros >>

p7 == /\ pc[1] = "p7"
      /\ i' = i + 1
      /\ pc' = [pc EXCEPT ![1] = "p0"]
      /\ UNCHANGED << entries, nt, chan, closed, extraQ, senderOpen, rbuf, ser, 
                      res, decoded, desync, stack, k, exact, rem, cm, j, hdr, 
                      remaining, cur, ebuf, pos, filled, b, got, zeros >>

pEnd == /\ pc[1] = "pEnd"
        /\ closed' = TRUE
        /\ pc' = [pc EXCEPT ![1] = "Done"]
        /\ UNCHANGED << entries, nt, chan, extraQ, senderOpen, rbuf, ser, res, 
                        decoded, desync, stack, k, exact, i, rem, cm, j, hdr, 
                        remaining, cur, ebuf, pos, filled, b, got, zeros >>

producer == p0 \/ p1 \/ p2 \/ p3 \/ p4 \/ p5 \/ p6 \/ p7 \/ pEnd

a0 == /\ pc[2] = "a0"
      /\ j' = nt + 1
      /\ pc' = [pc EXCEPT ![2] = "a1"]
      /\ UNCHANGED << entries, nt, chan, closed, extraQ, senderOpen, rbuf, ser, 
                      res, decoded, desync, stack, k, exact, i, rem, cm, hdr, 
                      remaining, cur, ebuf, pos, filled, b, got, zeros >>

a1 == /\ pc[2] = "a1"
      /\ IF j <= Len(entries)
            THEN /\ extraQ' = Append(extraQ, j)
                 /\ j' = j + 1
                 /\ pc' = [pc EXCEPT ![2] = "a1"]
            ELSE /\ pc' = [pc EXCEPT ![2] = "a2"]
                 /\ UNCHANGED << extraQ, j >>
      /\ UNCHANGED << entries, nt, chan, closed, senderOpen, rbuf, ser, res, 
                      decoded, desync, stack, k, exact, i, rem, cm, hdr, 
                      remaining, cur, ebuf, pos, filled, b, got, zeros >>

a2 == /\ pc[2] = "a2"
      /\ senderOpen' = FALSE
      /\ pc' = [pc EXCEPT ![2] = "a3"]
      /\ UNCHANGED << entries, nt, chan, closed, extraQ, rbuf, ser, res, 
                      decoded, desync, stack, k, exact, i, rem, cm, j, hdr, 
                      remaining, cur, ebuf, pos, filled, b, got, zeros >>

a3 == /\ pc[2] = "a3"
      /\ IF Reread
            THEN /\ pc' = [pc EXCEPT ![2] = "a4"]
            ELSE /\ pc' = [pc EXCEPT ![2] = "n0"]
      /\ UNCHANGED << entries, nt, chan, closed, extraQ, senderOpen, rbuf, ser, 
                      res, decoded, desync, stack, k, exact, i, rem, cm, j, 
                      hdr, remaining, cur, ebuf, pos, filled, b, got, zeros >>

a4 == /\ pc[2] = "a4"
      /\ IF ~(chan = <<>> /\ closed)
            THEN /\ chan # <<>> \/ closed
                 /\ IF chan # <<>>
                       THEN /\ ser' = ser \o Head(chan)
                            /\ chan' = Tail(chan)
                       ELSE /\ TRUE
                            /\ UNCHANGED << chan, ser >>
                 /\ pc' = [pc EXCEPT ![2] = "a4"]
            ELSE /\ pc' = [pc EXCEPT ![2] = "n0"]
                 /\ UNCHANGED << chan, ser >>
      /\ UNCHANGED << entries, nt, closed, extraQ, senderOpen, rbuf, res, 
                      decoded, desync, stack, k, exact, i, rem, cm, j, hdr, 
                      remaining, cur, ebuf, pos, filled, b, got, zeros >>

n0 == /\ pc[2] = "n0"
      /\ res' = <<>>
      /\ /\ exact' = [exact EXCEPT ![2] = TRUE]
         /\ k' = [k EXCEPT ![2] = 3]
         /\ stack' = [stack EXCEPT ![2] = << [ procedure |->  "rd",
                                               pc        |->  "n1",
                                               k         |->  k[2],
                                               exact     |->  exact[2] ] >>
                                           \o stack[2]]
      /\ pc' = [pc EXCEPT ![2] = "r1"]
      /\ UNCHANGED << entries, nt, chan, closed, extraQ, senderOpen, rbuf, ser, 
                      decoded, desync, i, rem, cm, j, hdr, remaining, cur, 
                      ebuf, pos, filled, b, got, zeros >>

n1 == /\ pc[2] = "n1"
      /\ IF Len(res) < 3
            THEN /\ pc' = [pc EXCEPT ![2] = "fin"]
                 /\ UNCHANGED << res, desync, hdr >>
            ELSE /\ IF res[1][1] # "pl" \/ res[2][1] # "sl" \/ res[3][1] # "mh"
                       THEN /\ desync' = TRUE
                            /\ pc' = [pc EXCEPT ![2] = "fin"]
                            /\ UNCHANGED << res, hdr >>
                       ELSE /\ hdr' = res
                            /\ res' = <<>>
                            /\ pc' = [pc EXCEPT ![2] = "n2"]
                            /\ UNCHANGED desync
      /\ UNCHANGED << entries, nt, chan, closed, extraQ, senderOpen, rbuf, ser, 
                      decoded, stack, k, exact, i, rem, cm, j, remaining, cur, 
                      ebuf, pos, filled, b, got, zeros >>

n2 == /\ pc[2] = "n2"
      /\ /\ exact' = [exact EXCEPT ![2] = TRUE]
         /\ k' = [k EXCEPT ![2] = hdr[1][2]]
         /\ stack' = [stack EXCEPT ![2] = << [ procedure |->  "rd",
                                               pc        |->  "n3",
                                               k         |->  k[2],
                                               exact     |->  exact[2] ] >>
                                           \o stack[2]]
      /\ pc' = [pc EXCEPT ![2] = "r1"]
      /\ UNCHANGED << entries, nt, chan, closed, extraQ, senderOpen, rbuf, ser, 
                      res, decoded, desync, i, rem, cm, j, hdr, remaining, cur, 
                      ebuf, pos, filled, b, got, zeros >>

n3 == /\ pc[2] = "n3"
      /\ cur' = [i |-> hdr[3][2], path |-> res, data |-> <<>>]
      /\ remaining' = hdr[2][2]
      /\ pos' = 0
      /\ filled' = 0
      /\ ebuf' = <<>>
      /\ pc' = [pc EXCEPT ![2] = "e0"]
      /\ UNCHANGED << entries, nt, chan, closed, extraQ, senderOpen, rbuf, ser, 
                      res, decoded, desync, stack, k, exact, i, rem, cm, j, 
                      hdr, b, got, zeros >>

e0 == /\ pc[2] = "e0"
      /\ \E x \in ReadSizes \cup (IF AllowZeroReads /\ zeros < 1 THEN {0} ELSE {}):
           /\ b' = x
           /\ zeros' = (IF x = 0 THEN zeros + 1 ELSE 0)
      /\ res' = <<>>
      /\ IF b' = 0 /\ ~ZeroReadEnds
            THEN /\ got' = 0
                 /\ pc' = [pc EXCEPT ![2] = "e9"]
                 /\ UNCHANGED << stack, k, exact >>
            ELSE /\ IF remaining >= 0
                       THEN /\ /\ exact' = [exact EXCEPT ![2] = FALSE]
                               /\ k' = [k EXCEPT ![2] = Min(b', remaining)]
                               /\ stack' = [stack EXCEPT ![2] = << [ procedure |->  "rd",
                                                                     pc        |->  "e1",
                                                                     k         |->  k[2],
                                                                     exact     |->  exact[2] ] >>
                                                                 \o stack[2]]
                            /\ pc' = [pc EXCEPT ![2] = "r1"]
                       ELSE /\ IF pos >= filled
                                  THEN /\ /\ exact' = [exact EXCEPT ![2] = TRUE]
                                          /\ k' = [k EXCEPT ![2] = 1]
                                          /\ stack' = [stack EXCEPT ![2] = << [ procedure |->  "rd",
                                                                                pc        |->  "f1",
                                                                                k         |->  k[2],
                                                                                exact     |->  exact[2] ] >>
                                                                            \o stack[2]]
                                       /\ pc' = [pc EXCEPT ![2] = "r1"]
                                  ELSE /\ pc' = [pc EXCEPT ![2] = "f3"]
                                       /\ UNCHANGED << stack, k, exact >>
                 /\ got' = got
      /\ UNCHANGED << entries, nt, chan, closed, extraQ, senderOpen, rbuf, ser, 
                      decoded, desync, i, rem, cm, j, hdr, remaining, cur, 
                      ebuf, pos, filled >>

e1 == /\ pc[2] = "e1"
      /\ got' = Len(res)
      /\ cur' = [cur EXCEPT !.data = @ \o res]
      /\ remaining' = remaining - Len(res)
      /\ pc' = [pc EXCEPT ![2] = "e9"]
      /\ UNCHANGED << entries, nt, chan, closed, extraQ, senderOpen, rbuf, ser, 
                      res, decoded, desync, stack, k, exact, i, rem, cm, j, 
                      hdr, ebuf, pos, filled, b, zeros >>

f1 == /\ pc[2] = "f1"
      /\ IF Len(res) < 1 \/ res[1][1] # "cl"
            THEN /\ desync' = TRUE
                 /\ pc' = [pc EXCEPT ![2] = "fin"]
                 /\ UNCHANGED << res, stack, k, exact, ebuf, pos, filled >>
            ELSE /\ IF res[1][2] # 0
                       THEN /\ filled' = res[1][2]
                            /\ res' = <<>>
                            /\ /\ exact' = [exact EXCEPT ![2] = TRUE]
                               /\ k' = [k EXCEPT ![2] = filled']
                               /\ stack' = [stack EXCEPT ![2] = << [ procedure |->  "rd",
                                                                     pc        |->  "f2",
                                                                     k         |->  k[2],
                                                                     exact     |->  exact[2] ] >>
                                                                 \o stack[2]]
                            /\ pc' = [pc EXCEPT ![2] = "r1"]
                            /\ UNCHANGED << ebuf, pos >>
                       ELSE /\ filled' = 0
                            /\ pos' = 0
                            /\ ebuf' = <<>>
                            /\ pc' = [pc EXCEPT ![2] = "f3"]
                            /\ UNCHANGED << res, stack, k, exact >>
                 /\ UNCHANGED desync
      /\ UNCHANGED << entries, nt, chan, closed, extraQ, senderOpen, rbuf, ser, 
                      decoded, i, rem, cm, j, hdr, remaining, cur, b, got, 
                      zeros >>

f2 == /\ pc[2] = "f2"
      /\ ebuf' = res
      /\ filled' = Len(res)
      /\ pos' = 0
      /\ pc' = [pc EXCEPT ![2] = "f3"]
      /\ UNCHANGED << entries, nt, chan, closed, extraQ, senderOpen, rbuf, ser, 
                      res, decoded, desync, stack, k, exact, i, rem, cm, j, 
                      hdr, remaining, cur, b, got, zeros >>

f3 == /\ pc[2] = "f3"
      /\ got' = Min(filled - pos, b)
      /\ cur' = [cur EXCEPT !.data = @ \o SubSeq(ebuf, pos + 1, pos + Min(filled - pos, b))]
      /\ pos' = pos + Min(filled - pos, b)
      /\ pc' = [pc EXCEPT ![2] = "e9"]
      /\ UNCHANGED << entries, nt, chan, closed, extraQ, senderOpen, rbuf, ser, 
                      res, decoded, desync, stack, k, exact, i, rem, cm, j, 
                      hdr, remaining, ebuf, filled, b, zeros >>

e9 == /\ pc[2] = "e9"
      /\ IF got = 0 /\ (ZeroReadEnds \/ b # 0)
            THEN /\ remaining' = 0
            ELSE /\ TRUE
                 /\ UNCHANGED remaining
      /\ IF got = 0 /\ b # 0
            THEN /\ pc' = [pc EXCEPT ![2] = "d0"]
            ELSE /\ pc' = [pc EXCEPT ![2] = "e0"]
      /\ UNCHANGED << entries, nt, chan, closed, extraQ, senderOpen, rbuf, ser, 
                      res, decoded, desync, stack, k, exact, i, rem, cm, j, 
                      hdr, cur, ebuf, pos, filled, b, got, zeros >>

d0 == /\ pc[2] = "d0"
      /\ IF remaining = 0
            THEN /\ decoded' = Append(decoded, cur)
                 /\ pc' = [pc EXCEPT ![2] = "n0"]
                 /\ UNCHANGED desync
            ELSE /\ desync' = TRUE
                 /\ pc' = [pc EXCEPT ![2] = "fin"]
                 /\ UNCHANGED decoded
      /\ UNCHANGED << entries, nt, chan, closed, extraQ, senderOpen, rbuf, ser, 
                      res, stack, k, exact, i, rem, cm, j, hdr, remaining, cur, 
                      ebuf, pos, filled, b, got, zeros >>

fin == /\ pc[2] = "fin"
       /\ TRUE
       /\ pc' = [pc EXCEPT ![2] = "Done"]
       /\ UNCHANGED << entries, nt, chan, closed, extraQ, senderOpen, rbuf, 
                       ser, res, decoded, desync, stack, k, exact, i, rem, cm, 
                       j, hdr, remaining, cur, ebuf, pos, filled, b, got, 
                       zeros >>

consumer == a0 \/ a1 \/ a2 \/ a3 \/ a4 \/ n0 \/ n1 \/ n2 \/ n3 \/ e0 \/ e1
               \/ f1 \/ f2 \/ f3 \/ e9 \/ d0 \/ fin

(* Allow infinite stuttering to prevent deadlock on termination. *)
Terminating == /\ \A self \in ProcSet: pc[self] = "Done"
               /\ UNCHANGED vars

Next == producer \/ consumer
           \/ (\E self \in ProcSet: rd(self))
           \/ Terminating

Spec == /\ Init /\ [][Next]_vars
        /\ WF_vars(producer)
        /\ WF_vars(consumer) /\ WF_vars(rd(2))

Termination == <>(\A self \in ProcSet: pc[self] = "Done")

\* END TRANSLATION

NoDesync == ~desync
DecodedPrefix == /\ Len(decoded) <= Len(entries)
                 /\ \A q \in 1..Len(decoded) : decoded[q] = Expected(entries)[q]
AtEnd == pc[2] = "Done" => decoded = Expected(entries)
Terminates == <>(pc[1] = "Done" /\ pc[2] = "Done")
=============================================================================
