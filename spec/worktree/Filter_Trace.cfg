SPECIFICATION Spec
CONSTANTS
  Bug_NoEofRule = FALSE
  Bug_IdentNoSpace = FALSE
  Bug_IdentValue = FALSE
INVARIANT EventOk
CHECK_DEADLOCK FALSE
