----------------------------- MODULE Stream_Gen -----------------------------
(* Binding A for C55: TLC enumerates every tree made of <= MaxEntries leaves   *)
(* out of 13 slots (root: empty file, file, executable, symlink, submodule,    *)
(* 65535- and 65536-byte blobs; directory d: empty file, file, symlink,        *)
(* executable; directory d/n: file, symlink) x a variant of additional entries *)
(* and archive prefix, and prints what the specification expects: Leaves (for  *)
(* the `git ls-tree -r` audit), Flatten ++ extras (the stream), Members (tar   *)
(* and zip), GitFiles (for the `git archive` audit).  Contents are named by a  *)
(* content id (cN = N seeded bytes, tN = a link target of N bytes); the driver *)
(* materialises them and substitutes the git blob ids.                         *)
EXTENDS Stream, Json, TLC
CONSTANTS MaxEntries, Variants

L(name, kind, cid, len) == [name |-> name, kind |-> kind, oid |-> cid, len |-> len, sub |-> <<>>]
\* slots in git's tree order within each directory
RootA == << [k |-> 1, n |-> L("big", "blob", "c65535", 65535)], [k |-> 2, n |-> L("big2", "blob", "c65536", 65536)] >>
RootB == << [k |-> 3, n |-> L("e", "blob", "c0", 0)], [k |-> 4, n |-> L("f", "blob", "c5", 5)],
            [k |-> 5, n |-> L("l", "link", "t1", 1)], [k |-> 6, n |-> L("s", "commit", "sub", 0)],
            [k |-> 7, n |-> L("x", "exe", "c7", 7)] >>
DirA  == << [k |-> 8, n |-> L("e", "blob", "c0", 0)], [k |-> 9, n |-> L("f", "blob", "c9", 9)],
            [k |-> 10, n |-> L("l", "link", "t4", 4)] >>
DirB  == << [k |-> 11, n |-> L("x", "exe", "c7", 7)] >>
Sub   == << [k |-> 12, n |-> L("f", "blob", "c5", 5)], [k |-> 13, n |-> L("l", "link", "t1", 1)] >>
NSlots == 13

Pick(slots, S) == LET sel == SelectSeq(slots, LAMBDA s : s.k \in S) IN [i \in 1..Len(sel) |-> sel[i].n]
Dir(name, sub) == [name |-> name, kind |-> "tree", oid |-> "", len |-> 0, sub |-> sub]
TreeOf(S) ==
  LET n  == Pick(Sub, S)
      d  == Pick(DirA, S) \o (IF n = <<>> THEN <<>> ELSE << Dir("n", n) >>) \o Pick(DirB, S)
  IN Pick(RootA, S) \o (IF d = <<>> THEN <<>> ELSE << Dir("d", d) >>) \o Pick(RootB, S)

X(path, kind, cid, len, id, src) == [path |-> path, kind |-> kind, oid |-> cid, len |-> len, id |-> id, src |-> src]
Extras(v) ==
  CASE v = 1 -> <<>>
    [] v = 2 -> << X("extra/m", "exe", "c3", 3, "null", "mem"), X("xdir", "tree", "", 0, "null", "null") >>
    [] v = 3 -> << X("pf", "blob", "c65536", 65536, "null", "path"), X("xl", "link", "t2", 2, "oid", "mem"),
                   X("pe", "blob", "c0", 0, "null", "path") >>
    [] v = 4 -> << X("p1", "blob", "c65535", 65535, "oid", "path"), X("p2", "exe", "c70000", 70000, "null", "path"),
                   X("f2", "blob", "c3", 3, "null", "mem"), X("xs", "commit", "", 0, "null", "null") >>
    [] OTHER -> <<>>
Prefix(v) == IF v \in {2, 4} THEN "pre/" ELSE ""

VARIABLES chosen, last, var, done
vars == <<chosen, last, var, done>>
Init == chosen = {} /\ last = 0 /\ var = 0 /\ done = FALSE
Extend == /\ ~done /\ Cardinality(chosen) < MaxEntries
          /\ \E k \in (last + 1)..NSlots : chosen' = chosen \cup {k} /\ last' = k
          /\ UNCHANGED <<var, done>>
Finish == ~done /\ \E v \in Variants : var' = v /\ done' = TRUE /\ UNCHANGED <<chosen, last>>
Next == Extend \/ Finish
Spec == Init /\ [][Next]_vars

\* design-level statements on every enumerated tree
FlattenIsSubseqOfLeaves ==
  done => LET t == TreeOf(chosen) IN
          /\ Len(Flatten(t)) = Cardinality({k \in chosen : k # 6})
          /\ \A i \in 1..Len(Flatten(t)) : Count(Leaves(t, ""), Flatten(t)[i]) = 1     \* each exactly once
MembersMatchEntries ==
  done => Len(Members(TreeOf(chosen), Extras(var), Prefix(var))) = Len(Flatten(TreeOf(chosen))) + Len(Extras(var))

Emit == done =>
  LET t == TreeOf(chosen) IN
  PrintT(<<"CASE", ToJson([tree |-> t, extras |-> Extras(var), prefix |-> Prefix(var),
                           leaves |-> Leaves(t, ""), flat |-> Flatten(t),
                           members |-> Members(t, Extras(var), Prefix(var)),
                           gitfiles |-> GitFiles(t)])>>)
=============================================================================
