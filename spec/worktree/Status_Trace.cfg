SPECIFICATION Spec
CONSTANTS
  BugNoRacy = FALSE
  BugShowReplacing = FALSE
  BugHideIgnored = FALSE
  BugKeepDirs = FALSE
  BugDeleted = FALSE
INVARIANT EventOk
CHECK_DEADLOCK FALSE
