SPECIFICATION Spec
CONSTANTS
  Who = "gix"
  BugIncl = FALSE
  BugSkip = FALSE
INVARIANT EventOk
CHECK_DEADLOCK FALSE
