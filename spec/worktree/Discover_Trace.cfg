SPECIFICATION Spec
CONSTANTS
  Who = "gix"
  BugIncl = FALSE
  BugSkip = FALSE
  BugDotGit = FALSE
INVARIANT EventOk
CHECK_DEADLOCK FALSE
