--------------------------- MODULE FilterAttr_Gen ---------------------------
(* Binding A for C43, attribute/configuration resolution: every combination    *)
(* of the attribute states and configuration values below, each with a few     *)
(* probe contents that tell the resolved crlf actions apart.                   *)
EXTENDS Filter, Json, TLC
CONSTANTS Wide       \* TRUE: also the rarely used states (eol=<other>, -ident, crlf=<other>)

TextVals == {"unspec", "set", "unset", "auto", "input", "other"}
CrlfVals == IF Wide THEN TextVals ELSE {"unspec", "set", "unset", "auto", "input"}
EolVals == IF Wide THEN {"unspec", "lf", "crlf", "other", "set", "unset"} ELSE {"unspec", "lf", "crlf"}
IdentVals == IF Wide THEN {"unspec", "set", "unset", "other"} ELSE {"unspec", "set", "other"}
AutoCrlfVals == {"false", "true", "input"}
CoreEolVals == {"unset", "lf", "crlf"}

Probes == { <<97, CR, LF, 98, LF>>,                                  \* a CRLF b LF
            <<97, LF, DOLLAR>> \o ID \o <<DOLLAR, LF>>,              \* a LF $Id$ LF
            <<97, CR, LF, 0>>,                                       \* CRLF and NUL: binary for the auto actions
            <<97, CR, LF, DOLLAR>> \o ID \o <<COLON, SPACE, 120, SPACE, DOLLAR, CR, LF>> }   \* a CRLF $Id: x $ CRLF

VARIABLES at, cf, probe, done
vars == <<at, cf, probe, done>>

Init == /\ at \in [text : TextVals, crlf : CrlfVals, eol : EolVals, ident : IdentVals, binary : BOOLEAN]
        /\ (at.binary => at.text = "unspec")
        /\ cf \in [autocrlf : AutoCrlfVals, eol : CoreEolVals]
        /\ probe \in Probes
        /\ done = FALSE
Finish == ~done /\ done' = TRUE /\ UNCHANGED <<at, cf, probe>>
Spec == Init /\ [][Finish]_vars

Hex == [i \in 1..40 |-> 256]
NoIdx == [present |-> FALSE, data |-> <<>>]

\* design-level statement: the resolved action never is an intermediate value
InvResolved == Action(at, cf) \in {"BINARY", "TEXT_INPUT", "TEXT_CRLF", "AUTO", "AUTO_INPUT", "AUTO_CRLF"}

Emit == done =>
  PrintT(<<"CASE", ToJson([content |-> probe,
                           attrs   |-> at,
                           words   |-> AttrWords(at),
                           cfg     |-> cf,
                           idx     |-> NoIdx,
                           action  |-> Action(at, cf),
                           stats   |-> Stats(probe),
                           binary  |-> IsBinary(Stats(probe)),
                           to_git  |-> ToGit(probe, at, cf, NoIdx),
                           verdict |-> SafeCrlf(probe, Action(at, cf), cf, NoIdx),
                           to_wt   |-> ToWorktree(probe, at, cf, Hex, FALSE),
                           to_wt_git |-> ToWorktree(probe, at, cf, Hex, TRUE),
                           wt_dom  |-> SmudgeInDomain(probe, at, cf, Hex),
                           git_dom |-> GitSmudgeModelled(probe, at, cf)])>>)
=============================================================================
