------------------------------- MODULE Status -------------------------------
(* C49.  What `git status --porcelain=v2 [--ignored] --untracked-files=<m>`    *)
(* reports for the work tree against the index (read-cache.c: ie_match_stat,  *)
(* ie_modified, racy-git; dir.c / wt-status.c: untracked and ignored listing). *)
(*                                                                            *)
(* World W:                                                                   *)
(*   entries  set of index entries (stage 0) [path, mode "file"|"exec"|"link", oid,  *)
(*            ita, size, mtime, ctime, ino, emptyblob]                        *)
(*   nodes    work tree [path, t "file"|"link"|"dir", exec, oid, size, mtime, *)
(*            ctime, ino, ign]   (oid = blob id of the content / link target: *)
(*            SHA-1 is uninterpreted; ign = `git check-ignore` on the path:   *)
(*            the ignore rules themselves are C37's)                          *)
(*   trustctime, checkstat (core.checkStat = default), filemode, indexTs      *)
(*            (mtime of the index file, seconds)                              *)
(* A path is a sequence of names.  Report = set of [code, path, dir] with     *)
(* code M D T A (worktree column of a tracked path), "?" untracked, "!"       *)
(* ignored; dir = the path is a directory (printed with a trailing slash).    *)
EXTENDS Naturals, Integers, Sequences, FiniteSets, TLC

Range(s) == { s[i] : i \in 1..Len(s) }
IsProperPrefix(a, b) == Len(a) < Len(b) /\ SubSeq(b, 1, Len(a)) = a
Prefixes(p) == { SubSeq(p, 1, i) : i \in 1..(Len(p) - 1) }          \* proper, non-empty

\* entries and nodes are sets
Entries(W) == W.entries
Nodes(W) == W.nodes
HasEntry(W, p) == \E e \in Entries(W) : e.path = p
HasNode(W, p) == \E n \in Nodes(W) : n.path = p
NodeAt(W, p) == CHOOSE n \in Nodes(W) : n.path = p
TrackedBelow(W, d) == \E e \in Entries(W) : IsProperPrefix(d, e.path)
\* Bug_DeletedNotTracked: only index entries whose file still exists make a directory "tracked"
TrackedBelowB(W, d, bug) == \E e \in Entries(W) : IsProperPrefix(d, e.path) /\ (~bug \/ (\E n \in Nodes(W) : n.path = e.path))
FilesBelow(W, d) == { n \in Nodes(W) : n.t # "dir" /\ IsProperPrefix(d, n.path) }

\* ---- tracked paths -------------------------------------------------------------------------
\* ce_match_stat_basic (seconds only: git is built without USE_NSEC)
StatMatch(W, e, n) ==
  /\ e.size = n.size /\ e.mtime = n.mtime
  /\ (W.trustctime => e.ctime = n.ctime)
  /\ (W.checkstat => e.ino = n.ino)
\* an entry whose size was zeroed by an earlier racy write
Smudged(e) == e.size = 0 /\ ~e.emptyblob
\* racy-git: matching stat data is only believed when the file is older than the index file
\* Bug_NoRacyCheck: matching stat data is always believed
Clean(W, e, n, bugNoRacy) ==
  IF StatMatch(W, e, n) /\ ~Smudged(e) /\ (bugNoRacy \/ n.mtime < W.indexTs) THEN TRUE ELSE e.oid = n.oid

Code(W, e, bugNoRacy) ==
  IF ~HasNode(W, e.path) \/ NodeAt(W, e.path).t = "dir" THEN "D"
  ELSE LET n == NodeAt(W, e.path) IN
       IF e.ita THEN "A"
       ELSE IF (e.mode = "link") # (n.t = "link") THEN "T"
       ELSE IF W.filemode /\ n.t = "file" /\ (e.mode = "exec") # n.exec THEN "M"
       ELSE IF Clean(W, e, n, bugNoRacy) THEN "" ELSE "M"
Changes(W, bugNoRacy) == { [code |-> Code(W, e, bugNoRacy), path |-> e.path, dir |-> FALSE] : e \in { x \in Entries(W) : Code(W, x, bugNoRacy) # "" } }

\* ---- untracked and ignored paths -------------------------------------------------------------
Others(W) == { n \in Nodes(W) : n.t # "dir" /\ ~HasEntry(W, n.path) }
Untracked(W) == { n \in Others(W) : ~n.ign }
Ignored(W) == { n \in Others(W) : n.ign }

DirsAbove(W, n) == { d \in Prefixes(n.path) : HasNode(W, d) }
Shallowest(S) == CHOOSE d \in S : \A x \in S : Len(d) <= Len(x)

\* --untracked-files=normal: a directory without tracked content stands for everything in it ...
UntrackedDir(W, d, bugDel) == ~NodeAt(W, d).ign /\ ~TrackedBelowB(W, d, bugDel)
\* ... unless its name is that of an index entry (a tracked file replaced by a directory: wt-status.c
\* asks index_name_is_other for the name without its trailing slash)
\* Bug_ShowReplacingDir: it is listed nevertheless
UntrackedNormal(W, bugShowReplacing, bugDel) ==
  LET top(n) == { d \in DirsAbove(W, n) : UntrackedDir(W, d, bugDel) }
      files == { [code |-> "?", path |-> n.path, dir |-> FALSE] : n \in { x \in Untracked(W) : top(x) = {} } }
      dirs == { [code |-> "?", path |-> Shallowest(top(n)), dir |-> TRUE] : n \in { x \in Untracked(W) : top(x) # {} } }
  IN files \cup { r \in dirs : bugShowReplacing \/ ~HasEntry(W, r.path) }
UntrackedAll(W) == { [code |-> "?", path |-> n.path, dir |-> FALSE] : n \in Untracked(W) }

\* --ignored (traditional) with --untracked-files=normal: a directory without tracked content that is ignored
\* itself or in which every file is ignored stands for its content; other ignored files are listed
\* one by one, also below a directory that is itself listed as untracked
\* Bug_HideIgnoredInUntrackedDir: ignored files below a listed untracked directory are not reported
IgnoredDir(W, d, bugDel) == ~TrackedBelowB(W, d, bugDel) /\ (NodeAt(W, d).ign \/ \A f \in FilesBelow(W, d) : f.ign)
IgnoredNormal(W, bugHide, bugShowReplacing, bugDel) ==
  LET top(n) == { d \in DirsAbove(W, n) : IgnoredDir(W, d, bugDel) }
      utop(n) == { d \in DirsAbove(W, n) : UntrackedDir(W, d, bugDel) /\ \E f \in FilesBelow(W, d) : ~f.ign }
      files == { [code |-> "!", path |-> n.path, dir |-> FALSE] : n \in { x \in Ignored(W) : top(x) = {} /\ (~bugHide \/ utop(x) = {}) } }
      dirs == { [code |-> "!", path |-> Shallowest(top(n)), dir |-> TRUE] : n \in { x \in Ignored(W) : top(x) # {} } }
  IN files \cup { r \in dirs : bugShowReplacing \/ ~HasEntry(W, r.path) }      \* (the replaced-file rule applies here too)
\* with --untracked-files=all every ignored file is listed
\* Bug_KeepIgnoredDirs: directories matched by a pattern stay collapsed
IgnoredAll(W, bugKeepDirs) ==
  LET top(n) == { d \in DirsAbove(W, n) : NodeAt(W, d).ign }
  IN IF bugKeepDirs
     THEN { [code |-> "!", path |-> n.path, dir |-> FALSE] : n \in { x \in Ignored(W) : top(x) = {} } }
          \cup { [code |-> "!", path |-> Shallowest(top(n)), dir |-> TRUE] : n \in { x \in Ignored(W) : top(x) # {} } }
     ELSE { [code |-> "!", path |-> n.path, dir |-> FALSE] : n \in Ignored(W) }

NoBugs == [noracy |-> FALSE, showreplacing |-> FALSE, hideignored |-> FALSE, keepdirs |-> FALSE, deleted |-> FALSE]
\* the report for a query [untracked : "no" | "normal" | "all", ignored : BOOLEAN]
Report(W, q, b) ==
  Changes(W, b.noracy)
  \cup (IF q.untracked = "normal" THEN UntrackedNormal(W, b.showreplacing, b.deleted) ELSE IF q.untracked = "all" THEN UntrackedAll(W) ELSE {})
  \cup (IF ~q.ignored THEN {} ELSE IF q.untracked = "all" THEN IgnoredAll(W, b.keepdirs) ELSE IF q.untracked = "normal" THEN IgnoredNormal(W, b.hideignored, b.showreplacing, b.deleted) ELSE {})
=============================================================================
