----------------------------- MODULE Filter_Gen -----------------------------
(* Binding A for C43: every content of <= MaxToks tokens under every scenario *)
(* (attributes, configuration, blob in the index) of the chosen scenario set,  *)
(* with the specification's results.  hex digits of the blob id are the        *)
(* placeholder 256 (the driver substitutes the digits computed by hashlib).    *)
EXTENDS Filter, Json, TLC
CONSTANTS MaxToks, Scen

Tok == { <<97>>, <<LF>>, <<CR, LF>>, <<CR>>, <<0>>, <<26>>,
         <<DOLLAR>> \o ID \o <<DOLLAR>>,                                   \* $Id$
         <<DOLLAR>> \o ID \o <<COLON, SPACE, 120, SPACE, DOLLAR>> }        \* $Id: x $

A(t, c, e, i, b) == [text |-> t, crlf |-> c, eol |-> e, ident |-> i, binary |-> b]
C(a, e) == [autocrlf |-> a, eol |-> e]
NoIdx == [present |-> FALSE, data |-> <<>>]
Idx(d) == [present |-> TRUE, data |-> d]
S(a, c, x) == [attrs |-> a, cfg |-> c, idx |-> x]
U == "unspec"

Core == { S(A("set", U, "crlf", U, FALSE), C("false", "unset"), NoIdx),                     \* TEXT_CRLF
          S(A("auto", U, "crlf", U, FALSE), C("false", "unset"), NoIdx),                    \* AUTO_CRLF
          S(A("auto", U, "crlf", U, FALSE), C("false", "unset"), Idx(<<120, CR, LF>>)),     \* .. index has CRLF
          S(A(U, U, U, U, FALSE), C("input", "unset"), NoIdx),                              \* AUTO_INPUT by config
          S(A("set", U, "crlf", "set", FALSE), C("false", "unset"), NoIdx),                 \* TEXT_CRLF + ident
          S(A("auto", U, "crlf", "set", FALSE), C("false", "unset"), NoIdx) }               \* AUTO_CRLF + ident
More == { S(A(U, U, U, U, FALSE), C("false", "unset"), NoIdx),                              \* nothing
          S(A("set", U, "lf", U, FALSE), C("true", "unset"), NoIdx),                        \* TEXT_INPUT
          S(A("auto", U, U, U, FALSE), C("false", "unset"), NoIdx),                         \* AUTO, LF
          S(A("auto", U, U, U, FALSE), C("false", "crlf"), Idx(<<120, CR, LF>>)),           \* AUTO, CRLF, index has CRLF
          S(A("auto", U, U, U, FALSE), C("false", "crlf"), Idx(<<120, CR>>)),               \* .. index is "binary"
          S(A(U, U, U, U, FALSE), C("true", "unset"), NoIdx),                               \* AUTO_CRLF by config
          S(A(U, U, U, "set", FALSE), C("false", "unset"), NoIdx),                          \* ident only
          S(A("set", U, U, U, FALSE), C("false", "crlf"), NoIdx),                           \* text + core.eol
          S(A(U, U, U, "set", TRUE), C("true", "unset"), NoIdx) }                           \* binary ident
Scenarios == IF Scen = "core" THEN Core ELSE Core \cup More

VARIABLES toks, sc, done
vars == <<toks, sc, done>>

Init == toks = <<>> /\ done = FALSE /\ sc \in Scenarios
Extend == ~done /\ Len(toks) < MaxToks /\ \E t \in Tok : toks' = Append(toks, t) /\ UNCHANGED <<sc, done>>
Finish == ~done /\ done' = TRUE /\ UNCHANGED <<toks, sc>>
Next == Extend \/ Finish
Spec == Init /\ [][Next]_vars

Hex == [i \in 1..40 |-> 256]

\* design-level statements checked on every enumerated case
\*  a conversion to git never leaves a CRLF behind when it converted at all; ident collapse is idempotent
InvIdentIdempotent == done => LET c == FlatSeq(toks) IN IdentToGit(IdentToGit(c)) = IdentToGit(c)
\*  what checkout expands, add collapses again (on the stored form `$Id$` only)
InvIdentRoundTrip == done => LET c == FlatSeq(toks) IN
                       (IdentToGit(c) = c) => IdentToGit(IdentToWorktree(c, Hex, TRUE)) = c
\*  a safecrlf verdict "none" means add-then-checkout restores the line endings
InvSafeMeansRoundTrip ==
  done => LET c == FlatSeq(toks)
              act == Action(sc.attrs, sc.cfg) IN
          (SafeCrlf(c, act, sc.cfg, sc.idx) = "none" /\ ~ToGitSkipped(c, act))
             => LET g == CrlfToGit(c, act, sc.idx)
                    w == CrlfToWorktree(g, act, sc.cfg) IN
                (Stats(c).crlf > 0 => Stats(w).crlf > 0) /\ (Stats(c).lonelf > 0 => Stats(w).lonelf > 0)

Emit == done =>
  LET c == FlatSeq(toks) IN
  PrintT(<<"CASE", ToJson([content |-> c,
                           attrs   |-> sc.attrs,
                           words   |-> AttrWords(sc.attrs),
                           cfg     |-> sc.cfg,
                           idx     |-> sc.idx,
                           action  |-> Action(sc.attrs, sc.cfg),
                           stats   |-> Stats(c),
                           binary  |-> IsBinary(Stats(c)),
                           to_git  |-> ToGit(c, sc.attrs, sc.cfg, sc.idx),
                           verdict |-> SafeCrlf(c, Action(sc.attrs, sc.cfg), sc.cfg, sc.idx),
                           to_wt   |-> ToWorktree(c, sc.attrs, sc.cfg, Hex, FALSE),
                           to_wt_git |-> ToWorktree(c, sc.attrs, sc.cfg, Hex, TRUE),
                           wt_dom  |-> SmudgeInDomain(c, sc.attrs, sc.cfg, Hex),
                           git_dom |-> GitSmudgeModelled(c, sc.attrs, sc.cfg)])>>)
=============================================================================
