------------------------------- MODULE Filter -------------------------------
(* C43.  git's content conversion (convert.c of git 2.39) over byte strings:  *)
(* the text statistics, the crlf_action resolved from the attributes text /    *)
(* crlf / eol / binary and core.autocrlf / core.eol, CRLF->LF on the way into  *)
(* the object database (with the "index already has CRLF" rule and the         *)
(* core.safecrlf round-trip verdict), LF->CRLF on the way to the worktree,     *)
(* and the ident keyword ($Id$) collapse / expansion.  Pipeline order:         *)
(*   to git:      eol, then ident          to worktree: ident, then eol        *)
(* (external drivers and working-tree-encoding are not part of the property).  *)
(*                                                                             *)
(* Content elements are bytes 0..255; the value 256 may occur as an opaque     *)
(* printable placeholder (a hex digit of the blob id, which is uninterpreted   *)
(* here and supplied as data).                                                 *)
(*                                                                             *)
(* Bug_* switches re-introduce the three deviations of the implementation at the *)
(* pinned commit; with all FALSE the module is git.                               *)
EXTENDS Bytes

CONSTANTS Bug_NoEofRule,      \* a trailing ^Z (0x1a) is counted as non-printable
          Bug_IdentNoSpace,   \* `$Id: <hex>$` instead of git's `$Id: <hex> $`
          Bug_IdentValue      \* `ident=<value>` switches the ident filter on (git: only a plain `ident` does)

CR == 13  LF == 10  DOLLAR == 36  COLON == 58  SPACE == 32
ID == <<73, 100>>                  \* "Id"

-----------------------------------------------------------------------------
(* gather_stats / convert_is_binary *)
Stats(s) ==
  LET n == Len(s)
      nonp0 == Cardinality({i \in 1..n : s[i] = 127 \/ (s[i] < 32 /\ s[i] \notin {8, 9, 27, 12, CR, LF})})
  IN [ nul     |-> Cardinality({i \in 1..n : s[i] = 0}),
       lonecr  |-> Cardinality({i \in 1..n : s[i] = CR /\ ~(i < n /\ s[i + 1] = LF)}),
       lonelf  |-> Cardinality({i \in 1..n : s[i] = LF /\ ~(i > 1 /\ s[i - 1] = CR)}),
       crlf    |-> Cardinality({i \in 1..n : s[i] = CR /\ i < n /\ s[i + 1] = LF}),
       printable    |-> Cardinality({i \in 1..n : (s[i] >= 32 /\ s[i] # 127) \/ s[i] \in {8, 9, 27, 12}}),
       \* "If file ends with EOF then don't count this EOF as non-printable."
       nonprintable |-> IF ~Bug_NoEofRule /\ n >= 1 /\ s[n] = 26 THEN nonp0 - 1 ELSE nonp0 ]

IsBinary(st) == st.lonecr > 0 \/ st.nul > 0 \/ (st.printable \div 128) < st.nonprintable

-----------------------------------------------------------------------------
(* convert_attrs: attribute states are "unspec" | "set" | "unset" | a value.   *)
(* attrs = [text, crlf, eol, ident : state, binary : BOOLEAN]                  *)
(*   binary is the built-in macro (-diff -merge -text); it is only combined    *)
(*   with an unspecified `text` here (macro-vs-explicit precedence is C38's).  *)
(* cfg = [autocrlf : "false"|"true"|"input", eol : "unset"|"lf"|"crlf"]         *)
(* (core.eol unset/native is LF: the judged platform is not Windows.)          *)
CrlfOf(v) == CASE v = "set"   -> "TEXT"
               [] v = "unset" -> "BINARY"
               [] v = "input" -> "TEXT_INPUT"
               [] v = "auto"  -> "AUTO"
               [] OTHER       -> "UNDEFINED"

TextEolIsCrlf(cfg) == IF cfg.autocrlf = "true" THEN TRUE
                      ELSE IF cfg.autocrlf = "input" THEN FALSE
                      ELSE cfg.eol = "crlf"

AttrAction(a) ==
  LET a0 == CrlfOf(IF a.binary THEN "unset" ELSE a.text)
      a1 == IF a0 = "UNDEFINED" THEN CrlfOf(a.crlf) ELSE a0
  IN IF a1 = "BINARY" THEN a1
     ELSE IF a1 = "AUTO" /\ a.eol = "lf" THEN "AUTO_INPUT"
     ELSE IF a1 = "AUTO" /\ a.eol = "crlf" THEN "AUTO_CRLF"
     ELSE IF a.eol = "lf" THEN "TEXT_INPUT"
     ELSE IF a.eol = "crlf" THEN "TEXT_CRLF"
     ELSE a1

Action(a, cfg) ==
  LET x == AttrAction(a) IN
  IF x = "TEXT" THEN (IF TextEolIsCrlf(cfg) THEN "TEXT_CRLF" ELSE "TEXT_INPUT")
  ELSE IF x = "UNDEFINED"
       THEN (CASE cfg.autocrlf = "true" -> "AUTO_CRLF" [] cfg.autocrlf = "input" -> "AUTO_INPUT" [] OTHER -> "BINARY")
  ELSE x

\* git_path_check_ident: ATTR_TRUE only
IdentOn(a) == a.ident = "set" \/ (Bug_IdentValue /\ a.ident \notin {"unspec", "set", "unset"})

IsAuto(act) == act \in {"AUTO", "AUTO_INPUT", "AUTO_CRLF"}
OutEolCrlf(act, cfg) == CASE act \in {"TEXT_CRLF", "AUTO_CRLF"} -> TRUE
                          [] act = "AUTO" -> TextEolIsCrlf(cfg)
                          [] OTHER -> FALSE

\* the words of a .gitattributes line for the abstract record (data for the executors)
Word(name, v) == CASE v = "unspec" -> <<>>
                   [] v = "set"    -> <<name>>
                   [] v = "unset"  -> <<"-" \o name>>
                   [] v = "other"  -> <<name \o "=foo">>
                   [] OTHER        -> <<name \o "=" \o v>>
AttrWords(a) == (IF a.binary THEN <<"binary">> ELSE <<>>) \o Word("text", a.text) \o Word("crlf", a.crlf)
                \o Word("eol", a.eol) \o Word("ident", a.ident)

-----------------------------------------------------------------------------
(* will_convert_lf_to_crlf *)
WillLfToCrlf(st, act, cfg) ==
  /\ OutEolCrlf(act, cfg)
  /\ st.lonelf > 0
  /\ (IsAuto(act) => (st.lonecr = 0 /\ st.crlf = 0 /\ ~IsBinary(st)))

\* idx = [present : BOOLEAN, data : bytes]: the blob the index holds for the path
HasCrlfInIndex(idx) ==
  /\ idx.present
  /\ HasByte(idx.data, CR)
  /\ LET st == Stats(idx.data) IN ~IsBinary(st) /\ st.crlf > 0

\* crlf_to_git stops early: nothing converted and no round-trip verdict
ToGitSkipped(c, act) == act = "BINARY" \/ c = <<>> \/ (IsAuto(act) /\ IsBinary(Stats(c)))

ConvertCrlfToLf(c, act, idx) == Stats(c).crlf > 0 /\ ~(IsAuto(act) /\ HasCrlfInIndex(idx))

RECURSIVE Cat(_, _, _)
Cat(parts, i, acc) == IF i > Len(parts) THEN acc ELSE Cat(parts, i + 1, acc \o parts[i])

CrlfToGit(c, act, idx) ==
  IF ToGitSkipped(c, act) \/ ~ConvertCrlfToLf(c, act, idx) THEN c
  ELSE LET n == Len(c) IN
       IF IsAuto(act)
       THEN Cat([i \in 1..n |-> IF c[i] = CR THEN <<>> ELSE <<c[i]>>], 1, <<>>)
       ELSE Cat([i \in 1..n |-> IF c[i] = CR /\ i < n /\ c[i + 1] = LF THEN <<>> ELSE <<c[i]>>], 1, <<>>)

\* check_global_conv_flags_eol: what core.safecrlf = true dies of / warn warns about
SafeCrlf(c, act, cfg, idx) ==
  IF ToGitSkipped(c, act) THEN "none"
  ELSE LET st == Stats(c)
           s1 == IF ConvertCrlfToLf(c, act, idx) THEN [st EXCEPT !.lonelf = st.lonelf + st.crlf, !.crlf = 0] ELSE st
           s2 == IF WillLfToCrlf(s1, act, cfg) THEN [s1 EXCEPT !.crlf = s1.crlf + s1.lonelf, !.lonelf = 0] ELSE s1
       IN IF st.crlf > 0 /\ s2.crlf = 0 THEN "crlf_to_lf"
          ELSE IF st.lonelf > 0 /\ s2.lonelf = 0 THEN "lf_to_crlf"
          ELSE "none"

(* crlf_to_worktree *)
CrlfToWorktree(c, act, cfg) ==
  IF c = <<>> \/ ~OutEolCrlf(act, cfg) \/ ~WillLfToCrlf(Stats(c), act, cfg) THEN c
  ELSE Cat([i \in 1..Len(c) |-> IF c[i] = LF /\ ~(i > 1 /\ c[i - 1] = CR) THEN <<CR, LF>> ELSE <<c[i]>>], 1, <<>>)

-----------------------------------------------------------------------------
(* ident: count_ident, ident_to_git, ident_to_worktree (the in-memory code) *)
NextOf(s, set, i) == LET k == {j \in i..Len(s) : s[j] \in set} IN IF k = {} THEN 0 ELSE CHOOSE j \in k : \A j2 \in k : j <= j2

RECURSIVE CountIdent(_, _, _)
CountIdent(s, i, cnt) ==
  LET d == NextOf(s, {DOLLAR}, i) IN
  IF d = 0 THEN cnt
  ELSE IF Len(s) - d < 3 THEN cnt
  ELSE IF <<s[d + 1], s[d + 2]>> # ID THEN CountIdent(s, d + 1, cnt)
  ELSE LET ch == s[d + 3] IN
       IF ch = DOLLAR THEN CountIdent(s, d + 4, cnt + 1)
       ELSE IF ch # COLON THEN CountIdent(s, d + 4, cnt)
       ELSE LET e == NextOf(s, {DOLLAR, LF}, d + 4) IN
            IF e = 0 THEN cnt
            ELSE CountIdent(s, e + 1, IF s[e] = DOLLAR THEN cnt + 1 ELSE cnt)

HasLfBetween(s, from, to) == \E k \in from..to : s[k] = LF

RECURSIVE IdentCollapse(_, _, _)
IdentCollapse(s, i, acc) ==
  LET d == NextOf(s, {DOLLAR}, i) IN
  IF d = 0 THEN acc \o SubSeq(s, i, Len(s))
  ELSE LET acc1 == acc \o SubSeq(s, i, d)
           j == d + 1 IN
       IF Len(s) - d > 3 /\ SubSeq(s, j, j + 2) = ID \o <<COLON>>
       THEN LET d2 == NextOf(s, {DOLLAR}, j + 3) IN
            IF d2 = 0 THEN acc1 \o SubSeq(s, j, Len(s))
            ELSE IF HasLfBetween(s, j + 3, d2 - 1) THEN IdentCollapse(s, j, acc1)
            ELSE IdentCollapse(s, d2 + 1, acc1 \o ID \o <<DOLLAR>>)
       ELSE IdentCollapse(s, j, acc1)

IdentToGit(c) == IF CountIdent(c, 1, 0) = 0 THEN c ELSE IdentCollapse(c, 1, <<>>)

\* "Id: <hex> $" after the opening dollar
Expansion(hex) == ID \o <<COLON, SPACE>> \o hex \o (IF Bug_IdentNoSpace THEN <<DOLLAR>> ELSE <<SPACE, DOLLAR>>)

\* stray = TRUE: git also re-expands an already expanded `$Id: ...$` unless it looks foreign.
\* stray = FALSE: only `$Id$` is expanded - the documented deviation of gix-filter
\*   (ident::apply: "Git also tries to cleanup 'stray' substituted $Id: <hex>$, but we don't do that").
RECURSIVE IdentExpand(_, _, _, _, _)
IdentExpand(s, i, acc, rep, stray) ==
  LET d == NextOf(s, {DOLLAR}, i) IN
  IF d = 0 THEN acc \o SubSeq(s, i, Len(s))
  ELSE LET acc1 == acc \o SubSeq(s, i, d)
           j == d + 1 IN
       IF Len(s) - d < 3 \/ <<s[j], s[j + 1]>> # ID THEN IdentExpand(s, j, acc1, rep, stray)
       ELSE IF s[j + 2] = DOLLAR THEN IdentExpand(s, j + 3, acc1 \o rep, rep, stray)
       ELSE IF s[j + 2] = COLON /\ stray
       THEN LET d2 == NextOf(s, {DOLLAR}, j + 3) IN
            IF d2 = 0 THEN acc1 \o SubSeq(s, j, Len(s))
            ELSE IF HasLfBetween(s, j + 3, d2 - 1) THEN IdentExpand(s, j, acc1, rep, stray)
            ELSE IF \E k \in (j + 4)..(d2 - 2) : s[k] = SPACE      \* "spaces in unexpected places": foreign id
                 THEN IdentExpand(s, j, acc1, rep, stray)
            ELSE IdentExpand(s, d2 + 1, acc1 \o rep, rep, stray)
       ELSE IdentExpand(s, j, acc1, rep, stray)

IdentToWorktree(c, hex, stray) ==
  IF CountIdent(c, 1, 0) = 0 THEN c ELSE IdentExpand(c, 1, <<>>, Expansion(hex), stray)

\* every '$' of the content opens a literal `$Id$`: git's streaming ident filter (used by checkout
\* for the non-auto actions) and the in-memory code above provably coincide on such contents.
RECURSIVE StreamSafeFrom(_, _)
StreamSafeFrom(s, i) ==
  LET d == NextOf(s, {DOLLAR}, i) IN
  IF d = 0 THEN TRUE
  ELSE d + 3 <= Len(s) /\ SubSeq(s, d, d + 3) = <<DOLLAR>> \o ID \o <<DOLLAR>> /\ StreamSafeFrom(s, d + 4)
StreamSafe(c) == StreamSafeFrom(c, 1)

-----------------------------------------------------------------------------
(* the two conversions of the property *)
ToGit(c, a, cfg, idx) ==
  LET c1 == CrlfToGit(c, Action(a, cfg), idx) IN IF IdentOn(a) THEN IdentToGit(c1) ELSE c1

ToWorktree(c, a, cfg, hex, stray) ==
  CrlfToWorktree(IF IdentOn(a) THEN IdentToWorktree(c, hex, stray) ELSE c, Action(a, cfg), cfg)

\* where `git checkout` is known to run the in-memory ident code modelled above
GitSmudgeModelled(c, a, cfg) == ~IdentOn(a) \/ Action(a, cfg) \in {"AUTO", "AUTO_CRLF"} \/ StreamSafe(c)

\* judged domain of the worktree direction for the implementation: git's behaviour is modelled and
\* the documented deviation (no clean-up of stray expansions) does not change the result
SmudgeInDomain(c, a, cfg, hex) ==
  /\ GitSmudgeModelled(c, a, cfg)
  /\ ToWorktree(c, a, cfg, hex, TRUE) = ToWorktree(c, a, cfg, hex, FALSE)
=============================================================================
