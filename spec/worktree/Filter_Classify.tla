--------------------------- MODULE Filter_Classify ---------------------------
(* Labels events the strict specification rejected: which Bug_* switch of      *)
(* Filter.tla explains the observation (used only to name the class of a       *)
(* violation; the verdict itself always comes from the strict module).         *)
EXTENDS TraceIO, Json
Eof   == INSTANCE Filter WITH Bug_NoEofRule <- TRUE,  Bug_IdentNoSpace <- FALSE, Bug_IdentValue <- FALSE
Space == INSTANCE Filter WITH Bug_NoEofRule <- FALSE, Bug_IdentNoSpace <- TRUE,  Bug_IdentValue <- FALSE
Value == INSTANCE Filter WITH Bug_NoEofRule <- FALSE, Bug_IdentNoSpace <- FALSE, Bug_IdentValue <- TRUE
All   == INSTANCE Filter WITH Bug_NoEofRule <- TRUE,  Bug_IdentNoSpace <- TRUE,  Bug_IdentValue <- TRUE

VARIABLE l
Init == l = 1
Next == l <= NRec /\ l' = l + 1
Spec == Init /\ [][Next]_l

JEof(r) ==
  /\ r.to_git = Eof!ToGit(r.content, r.attrs, r.cfg, r.idx)
  /\ r.verdict = Eof!SafeCrlf(r.content, Eof!Action(r.attrs, r.cfg), r.cfg, r.idx)
  /\ (Eof!SmudgeInDomain(r.content, r.attrs, r.cfg, r.hex) => r.to_wt = Eof!ToWorktree(r.content, r.attrs, r.cfg, r.hex, FALSE))
JSpace(r) ==
  /\ r.to_git = Space!ToGit(r.content, r.attrs, r.cfg, r.idx)
  /\ r.verdict = Space!SafeCrlf(r.content, Space!Action(r.attrs, r.cfg), r.cfg, r.idx)
  /\ (Space!SmudgeInDomain(r.content, r.attrs, r.cfg, r.hex) => r.to_wt = Space!ToWorktree(r.content, r.attrs, r.cfg, r.hex, FALSE))
JValue(r) ==
  /\ r.to_git = Value!ToGit(r.content, r.attrs, r.cfg, r.idx)
  /\ r.verdict = Value!SafeCrlf(r.content, Value!Action(r.attrs, r.cfg), r.cfg, r.idx)
  /\ (Value!SmudgeInDomain(r.content, r.attrs, r.cfg, r.hex) => r.to_wt = Value!ToWorktree(r.content, r.attrs, r.cfg, r.hex, FALSE))
JAll(r) ==
  /\ r.to_git = All!ToGit(r.content, r.attrs, r.cfg, r.idx)
  /\ r.verdict = All!SafeCrlf(r.content, All!Action(r.attrs, r.cfg), r.cfg, r.idx)
  /\ (All!SmudgeInDomain(r.content, r.attrs, r.cfg, r.hex) => r.to_wt = All!ToWorktree(r.content, r.attrs, r.cfg, r.hex, FALSE))

Class(r) == IF JEof(r) THEN "eof-stat"
            ELSE IF JSpace(r) THEN "ident-space"
            ELSE IF JValue(r) THEN "ident-value"
            ELSE IF JAll(r) THEN "several-known"
            ELSE "other"

Emit == l <= NRec => PrintT(<<"CLASS", ToJson([i |-> l, class |-> Class(Rec[l])])>>)
=============================================================================
