SPECIFICATION Spec
CONSTANTS
  MaxEntries = 2
  ChunkMax = 2
  ReadSizes = {1, 2, 3}
  Cap = 2
  Reread = FALSE
  AllowZeroReads = FALSE
  ZeroReadEnds = TRUE
  defaultInitValue = defaultInitValue
INVARIANTS
  NoDesync
  DecodedPrefix
  AtEnd
PROPERTY Terminates
CHECK_DEADLOCK FALSE
