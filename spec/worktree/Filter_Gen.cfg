SPECIFICATION Spec
CONSTANTS
  MaxToks = 3
  Scen = "core"
  Bug_NoEofRule = FALSE
  Bug_IdentNoSpace = FALSE
  Bug_IdentValue = FALSE
INVARIANTS
  InvIdentIdempotent
  InvIdentRoundTrip
  InvSafeMeansRoundTrip
  Emit
CHECK_DEADLOCK FALSE
