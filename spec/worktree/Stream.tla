------------------------------- MODULE Stream -------------------------------
(* C55.  Worktree streams and archives contain exactly the tree.              *)
(*                                                                            *)
(* A tree is a sequence of nodes                                              *)
(*   [name, kind \in {"blob","exe","link","commit","tree"}, oid, len, sub]    *)
(* (`sub` = children of a "tree" node, <<>> otherwise).  Contents are not     *)
(* interpreted: a content is identified by its git blob id `oid` (SHA-1 is an *)
(* evaluator outside the spec) and its length.                                *)
(*                                                                            *)
(*   Leaves(tree)   every non-tree entry with its full path, in the order of  *)
(*                  `git ls-tree -r` (audited against it)                     *)
(*   Flatten(tree)  what a worktree stream must yield: the blobs, executables *)
(*                  and symlinks among them - submodule (commit) entries have *)
(*                  no content and are not streamed (from_tree docs)          *)
(*   StreamOk       the decoded entries are Flatten(tree), each exactly once  *)
(*                  (in any order - the traversal order is not promised),     *)
(*                  followed by the caller's additional entries in order of   *)
(*                  addition (documented for Stream::add_entry), each with    *)
(*                  path, mode, id and the content it was given               *)
(*   Members        an archive is a function of that entry list: one member   *)
(*                  per entry, named prefix ++ path, regular file / symlink / *)
(*                  directory, executable bit, content                        *)
(* The pipeline is the identity one (no attributes, no filters): "filtered    *)
(* content" = blob content.  The pipe protocol itself is Stream_MC.           *)
EXTENDS Naturals, Integers, Sequences, FiniteSets

JoinPath(dir, name) == IF dir = "" THEN name ELSE dir \o "/" \o name

RECURSIVE Leaves(_, _)
Leaves(nodes, dir) ==
  IF nodes = <<>> THEN <<>>
  ELSE LET n == Head(nodes)
           p == JoinPath(dir, n.name)
       IN (IF n.kind = "tree" THEN Leaves(n.sub, p)
           ELSE << [path |-> p, kind |-> n.kind, oid |-> n.oid, len |-> n.len] >>)
          \o Leaves(Tail(nodes), dir)

Streamed(kind) == kind \in {"blob", "exe", "link"}
Flatten(tree) == SelectSeq(Leaves(tree, ""), LAMBDA e : Streamed(e.kind))

Range(s) == {s[i] : i \in 1..Len(s)}
Count(s, x) == Cardinality({i \in 1..Len(s) : s[i] = x})
IsPerm(a, b) == Len(a) = Len(b) /\ \A x \in Range(a) \cup Range(b) : Count(a, x) = Count(b, x)

Proj(e) == [path |-> e.path, kind |-> e.kind, oid |-> e.oid, len |-> e.len]

\* extras: [path, kind, oid, len, id, src \in {"mem","path","null"}]
\* got:    [path, kind, id (as reported), oid (evaluator over the bytes read), len (bytes read),
\*          declared (bytes_remaining() before reading; -1 = None, i.e. streamed in chunks)]
StreamOk(tree, extras, got) ==
  LET want == Flatten(tree)
      nt   == Len(want)
  IN /\ Len(got) = nt + Len(extras)
     /\ IsPerm([i \in 1..nt |-> Proj(got[i])], want)
     /\ \A i \in 1..nt : got[i].id = got[i].oid /\ got[i].declared = got[i].len
     /\ \A j \in 1..Len(extras) :
          /\ Proj(got[nt + j]) = Proj(extras[j])
          /\ got[nt + j].id = extras[j].id
          /\ got[nt + j].declared = (IF extras[j].src = "path" THEN -1 ELSE extras[j].len)

MemberType(kind) == IF kind \in {"blob", "exe"} THEN "file" ELSE IF kind = "link" THEN "symlink" ELSE "dir"
Member(e, prefix) ==
  LET t == MemberType(e.kind) IN
  [name |-> prefix \o e.path, type |-> t, exec |-> (e.kind = "exe"),
   oid |-> (IF t = "dir" THEN "" ELSE e.oid), len |-> (IF t = "dir" THEN 0 ELSE e.len)]
Members(tree, extras, prefix) ==
  LET es == Flatten(tree) \o [j \in 1..Len(extras) |-> Proj(extras[j])]
  IN [i \in 1..Len(es) |-> Member(es[i], prefix)]

\* members read back from a tar / zip file: [name, type, exec, oid, len]
ArchiveOk(tree, extras, prefix, members) == IsPerm(members, Members(tree, extras, prefix))

\* what `git archive <tree>` extracts, restricted to files and symlinks
GitFiles(tree) == Members(tree, <<>>, "")
=============================================================================
