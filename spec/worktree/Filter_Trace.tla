---------------------------- MODULE Filter_Trace ----------------------------
(* Binding B for C43: TLC as reference interpreter.  One event per content     *)
(* converted by the real gix_filter::Pipeline:                                 *)
(*   [content, attrs, cfg, idx, hex : 40 hex digits of the blob id (hashlib),  *)
(*    to_git : bytes stored, verdict : round-trip check outcome,               *)
(*    to_wt : bytes written to the worktree]                                   *)
EXTENDS Filter, TraceIO

VARIABLE l
Init == l = 1
Next == l <= NRec /\ l' = l + 1
Spec == Init /\ [][Next]_l

Judge(r) ==
  LET act == Action(r.attrs, r.cfg) IN
  /\ r.to_git = ToGit(r.content, r.attrs, r.cfg, r.idx)
  /\ r.verdict = SafeCrlf(r.content, act, r.cfg, r.idx)
  /\ (SmudgeInDomain(r.content, r.attrs, r.cfg, r.hex)
        => r.to_wt = ToWorktree(r.content, r.attrs, r.cfg, r.hex, FALSE))

EventOk == l <= NRec => (Judge(Rec[l]) \/ PrintT(<<"REJECT", l>>))
=============================================================================
