--------------------------- MODULE Filter_GitTrace ---------------------------
(* Binding C for C43 on random contents: what the installed git stored, warned *)
(* about and checked out is judged by the same operators, so that the          *)
(* transcription is audited beyond the enumerated scope.  A rejected event     *)
(* here is a tool error (the specification is wrong), never a violation.       *)
EXTENDS Filter, TraceIO

VARIABLE l
Init == l = 1
Next == l <= NRec /\ l' = l + 1
Spec == Init /\ [][Next]_l

Judge(r) ==
  /\ r.to_git = ToGit(r.content, r.attrs, r.cfg, r.idx)
  /\ r.verdict = SafeCrlf(r.content, Action(r.attrs, r.cfg), r.cfg, r.idx)
  /\ (GitSmudgeModelled(r.content, r.attrs, r.cfg) => r.to_wt = ToWorktree(r.content, r.attrs, r.cfg, r.hex, TRUE))

EventOk == l <= NRec => (Judge(Rec[l]) \/ PrintT(<<"REJECT", l>>))
=============================================================================
