SPECIFICATION Spec
CONSTANTS
  Bug_FormerLeafNotRechecked = FALSE
  MaxEntries = 2
  Threads = {"t1"}
  Emitting = TRUE
INVARIANTS
  InvContained
  InvGitDir
  InvBenign
  Emit
CHECK_DEADLOCK FALSE
