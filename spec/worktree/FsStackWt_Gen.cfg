SPECIFICATION Spec
CONSTANTS
  MaxCalls = 3
  Bug_PushDirAfterRejectedPush = FALSE
  Bug_RootPushedAgain = FALSE
  Bug_LeafFlagAfterRollback = FALSE
INVARIANTS
  InvBalanced
  Emit
CHECK_DEADLOCK FALSE
