---------------------------- MODULE Checkout_Gen ----------------------------
(* Design check + binding A for C41.  Every index of <= MaxEntries entries    *)
(* from a hostile alphabet, every initial destination, overwrite on/off, and  *)
(* every schedule of the worker threads for regular files (symlinks are       *)
(* created afterwards, sequentially).  TLC checks containment in every state. *)
(*   Checkout_MC.cfg   two threads, all interleavings                         *)
(*   Checkout_Gen.cfg  one thread; prints each world with the model's final   *)
(*                     file system and per-entry outcome                      *)
EXTENDS Checkout, Json, SequencesExt

CONSTANTS MaxEntries, Threads, Emitting

Out == <<"out">>
\* index order = path order (bytewise on the joined path)
Alphabet == <<
  [path |-> <<".git", "hooks", "h">>, kind |-> "exec", c |-> "HOOK", to |-> <<>>],
  [path |-> <<"A">>,      kind |-> "file", c |-> "UP",  to |-> <<>>],
  [path |-> <<"a">>,      kind |-> "file", c |-> "A1",  to |-> <<>>],
  [path |-> <<"a", "b">>, kind |-> "exec", c |-> "AB",  to |-> <<>>],
  [path |-> <<"d">>,      kind |-> "file", c |-> "D1",  to |-> <<>>],
  [path |-> <<"d", "x">>, kind |-> "file", c |-> "DX",  to |-> <<>>],
  [path |-> <<"l">>,      kind |-> "link", c |-> "",    to |-> Out],
  [path |-> <<"l", "x">>, kind |-> "file", c |-> "LX",  to |-> <<>>],
  [path |-> <<"l", "z">>, kind |-> "link", c |-> "",    to |-> <<"dest", "a">>],
  [path |-> <<"s">>,      kind |-> "link", c |-> "",    to |-> <<"dest", "a">>]
>>

Base == (<<>> :> DirN) @@ (<<"out">> :> DirN) @@ (<<"out", "keep">> :> FileN("KEEP", FALSE)) @@ (Dest :> DirN)
        @@ (GitDir :> DirN) @@ (<<"dest", ".git", "config">> :> FileN("CFG", FALSE))
DestChoices == <<
  Base,                                                                   \* empty destination
  Base @@ (<<"dest", "l">> :> LinkN(Out)),                                \* a symlink to the outside is already there
  Base @@ (<<"dest", "d">> :> LinkN(Out)),
  Base @@ (<<"dest", "a">> :> DirN) @@ (<<"dest", "a", "b">> :> FileN("OLD", FALSE)),
  Base @@ (<<"dest", "a">> :> FileN("OLD", FALSE))
>>

VARIABLES fs, fs0, sel, opt, done, phase, prev, last, log
vars == <<fs, fs0, sel, opt, done, phase, prev, last, log>>

RECURSIVE Pick(_, _)
Pick(S, i) == IF i > Len(Alphabet) THEN <<>> ELSE (IF i \in S THEN <<Alphabet[i]>> ELSE <<>>) \o Pick(S, i + 1)
Index == Pick(sel, 1)

Init == /\ sel = {} /\ fs0 = Base /\ fs = Base /\ opt = [overwrite |-> FALSE, empty |-> TRUE]
        /\ done = {} /\ phase = "choose" /\ prev = [t \in Threads \cup {"links"} |-> <<>>] /\ last = [t \in Threads |-> 0] /\ log = <<>>

Choose == /\ phase = "choose" /\ phase' = "files"
          /\ sel' \in {S \in SUBSET (1..Len(Alphabet)) : Cardinality(S) >= 1 /\ Cardinality(S) <= MaxEntries}
          /\ \E d \in 1..Len(DestChoices), ow \in BOOLEAN :
               fs0' = DestChoices[d] /\ fs' = DestChoices[d] /\ opt' = [overwrite |-> ow, empty |-> d = 1]
          /\ UNCHANGED <<done, prev, last, log>>

Regular(i) == Index[i].kind # "link"
File(t, i) == /\ phase = "files" /\ i \in 1..Len(Index) /\ i \notin done /\ Regular(i) /\ i > last[t]
              /\ LET r == CheckoutEntry(fs, Index[i], opt, prev[t]) IN
                   /\ fs' = r.fs /\ prev' = [prev EXCEPT ![t] = r.prev]
                   /\ log' = Append(log, [i |-> i, ok |-> r.ok, err |-> r.err])
              /\ done' = done \cup {i} /\ last' = [last EXCEPT ![t] = i]
              /\ UNCHANGED <<fs0, sel, opt, phase>>
\* symlinks are created by the calling thread with a path stack of their own, also when a single worker wrote the files
\* (the stack that wrote them would still take a directory of the first pass for granted after a symlink replaced it)
LinksStack == "links"
ToLinks == /\ phase = "files" /\ \A i \in 1..Len(Index) : Regular(i) => i \in done
           /\ phase' = "links" /\ UNCHANGED <<fs, fs0, sel, opt, done, prev, last, log>>
Link == /\ phase = "links" /\ \E i \in 1..Len(Index) : i \notin done
        /\ LET i == CHOOSE i \in 1..Len(Index) : i \notin done /\ \A j \in 1..Len(Index) : j \notin done => i <= j
               r == CheckoutEntry(fs, Index[i], opt, prev[LinksStack])
           IN /\ fs' = r.fs /\ prev' = [prev EXCEPT ![LinksStack] = r.prev]
              /\ log' = Append(log, [i |-> i, ok |-> r.ok, err |-> r.err]) /\ done' = done \cup {i}
        /\ UNCHANGED <<fs0, sel, opt, phase, last>>
Finish == /\ phase = "links" /\ \A i \in 1..Len(Index) : i \in done
          /\ phase' = "done" /\ UNCHANGED <<fs, fs0, sel, opt, done, prev, last, log>>
Next == Choose \/ ToLinks \/ Link \/ Finish \/ \E t \in Threads, i \in 1..MaxEntries : File(t, i)
Spec == Init /\ [][Next]_vars

InvContained == Contained(fs0, fs)
InvGitDir == GitDirUntouched(fs0, fs)
InvBenign == phase = "done" => BenignPresent(Index, fs0, opt, fs)

FsSeq(f) == LET ps == SetToSeq(DOMAIN f) IN
  [k \in 1..Len(ps) |-> [path |-> ps[k], t |-> f[ps[k]].t,
                         c |-> IF f[ps[k]].t = "file" THEN f[ps[k]].c ELSE "",
                         x |-> IF f[ps[k]].t = "file" THEN f[ps[k]].x ELSE FALSE,
                         to |-> IF f[ps[k]].t = "link" THEN f[ps[k]].to ELSE <<>>]]
Emit == (Emitting /\ phase = "done") =>
  PrintT(<<"CASE", ToJson([index |-> Index, fs0 |-> FsSeq(fs0), overwrite |-> opt.overwrite, empty |-> opt.empty,
                           final |-> FsSeq(fs), log |-> log,
                           benign |-> [i \in 1..Len(Index) |-> Benign(Index, i, fs0, opt)]])>>)
=============================================================================
