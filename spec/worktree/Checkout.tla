------------------------------ MODULE Checkout ------------------------------
(* C41.  Checking an index out into a destination directory, on a POSIX file  *)
(* system with symbolic links.                                                *)
(*                                                                            *)
(* File system: a function from absolute paths (sequences of names; <<>> is   *)
(* the sandbox root) to nodes                                                 *)
(*    [t |-> "dir"] | [t |-> "file", c |-> content, x |-> executable]         *)
(*    | [t |-> "link", to |-> absolute path]                                  *)
(* The operating system resolves every leading component of a path through    *)
(* symbolic links (Walk); O_NOFOLLOW / lstat / symlink / unlink only refuse   *)
(* to follow the LAST component.  That is the whole danger: a checkout that   *)
(* hands the OS a path whose leading component is a symbolic link writes      *)
(* wherever the link points.                                                  *)
(*                                                                            *)
(* Index entry: [path (relative, sequence of names), kind "file"|"exec"|      *)
(* "link", c (content) / to (link target, absolute)].                         *)
(* The checkout of one entry (gix_worktree_state::checkout::entry +           *)
(* gix_worktree::stack::delegate::create_leading_directory):                  *)
(*   every component is validated (no `.git`), every leading directory is     *)
(*   looked at with lstat: absent -> mkdir, directory -> fine, anything else  *)
(*   (a symlink!) -> collision: removed and replaced by a directory when      *)
(*   overwriting, otherwise the entry fails.  The leaf is opened with         *)
(*   O_NOFOLLOW (exclusive in an initially empty destination), symlinks are   *)
(*   created last, sequentially.  The path stack remembers the leading        *)
(*   directories it has seen for the previous entry.                          *)
EXTENDS Naturals, Sequences, FiniteSets, TLC

CONSTANTS Bug_FormerLeafNotRechecked
          \* TRUE = gix_fs::Stack at the pinned commit: when the previous entry's path is a proper prefix of
          \* the next one ("the former leaf becomes a directory") that component is not pushed again, so it
          \* is neither validated nor looked at - although the previous entry may have made it a symlink

Dest == <<"dest">>
GitDir == <<"dest", ".git">>
Forbidden == {".git"}

PathPrefix(a, b) == Len(a) <= Len(b) /\ SubSeq(b, 1, Len(a)) = a
Under(p, d) == PathPrefix(d, p)
Parent(p) == SubSeq(p, 1, Len(p) - 1)
Leaf(p) == p[Len(p)]

DirN == [t |-> "dir"]
FileN(c, x) == [t |-> "file", c |-> c, x |-> x]
LinkN(to) == [t |-> "link", to |-> to]

Exists(fs, p) == p \in DOMAIN fs
Without(fs, S) == [p \in (DOMAIN fs \ S) |-> fs[p]]
With(fs, p, n) == [q \in (DOMAIN fs \cup {p}) |-> IF q = p THEN n ELSE fs[q]]
Subtree(fs, p) == {q \in DOMAIN fs : Under(q, p)}

---------------------------------------------------------------------------
(* the operating system *)

\* resolve `rest` starting at directory `cur`; the last component is followed only if followLast.
\* result: [ok, p]; ok = FALSE for ENOENT / ENOTDIR / ELOOP in a leading component
RECURSIVE Walk(_, _, _, _, _)
Walk(fs, cur, rest, followLast, fuel) ==
  IF rest = <<>> THEN [ok |-> TRUE, p |-> cur]
  ELSE IF fuel = 0 THEN [ok |-> FALSE, p |-> cur]
  ELSE LET next == Append(cur, Head(rest))
           last == Len(rest) = 1
       IN IF ~Exists(fs, next) THEN (IF last THEN [ok |-> TRUE, p |-> next] ELSE [ok |-> FALSE, p |-> next])
          ELSE IF fs[next].t = "link" /\ (~last \/ followLast)
          THEN Walk(fs, <<>>, fs[next].to \o Tail(rest), followLast, fuel - 1)
          ELSE IF fs[next].t = "file" /\ ~last THEN [ok |-> FALSE, p |-> next]
          ELSE Walk(fs, next, Tail(rest), followLast, fuel)

NoFollow(fs, p) == Walk(fs, <<>>, p, FALSE, 8)

\* each operation: [ok, fs, err]
Ok(fs) == [ok |-> TRUE, fs |-> fs, err |-> "none"]
Fail(fs, e) == [ok |-> FALSE, fs |-> fs, err |-> e]

Lstat(fs, p) == LET r == NoFollow(fs, p) IN
  IF ~r.ok THEN "error" ELSE IF ~Exists(fs, r.p) THEN "absent" ELSE fs[r.p].t

Mkdir(fs, p) == LET r == NoFollow(fs, p) IN
  IF ~r.ok THEN Fail(fs, "enoent") ELSE IF Exists(fs, r.p) THEN Fail(fs, "exists") ELSE Ok(With(fs, r.p, DirN))

\* unlink / remove_dir_all of the object the path names (never through a final symlink)
RemoveAt(fs, p) == LET r == NoFollow(fs, p) IN
  IF ~r.ok \/ ~Exists(fs, r.p) THEN Fail(fs, "enoent") ELSE Ok(Without(fs, Subtree(fs, r.p)))

\* open(O_CREAT | O_WRONLY | O_TRUNC | O_NOFOLLOW [| O_EXCL])
Create(fs, p, c, x, excl) == LET r == NoFollow(fs, p) IN
  IF ~r.ok THEN Fail(fs, "enoent")
  ELSE IF ~Exists(fs, r.p) THEN Ok(With(fs, r.p, FileN(c, x)))
  ELSE IF fs[r.p].t = "link" THEN Fail(fs, "collision")          \* ELOOP
  ELSE IF fs[r.p].t = "dir" THEN Fail(fs, "collision")           \* EISDIR
  ELSE IF excl THEN Fail(fs, "collision")                         \* EEXIST
  ELSE Ok(With(fs, r.p, FileN(c, x)))

Symlink(fs, p, to) == LET r == NoFollow(fs, p) IN
  IF ~r.ok THEN Fail(fs, "enoent") ELSE IF Exists(fs, r.p) THEN Fail(fs, "collision") ELSE Ok(With(fs, r.p, LinkN(to)))

---------------------------------------------------------------------------
(* the checkout of one entry.  opt = [overwrite, empty]; prev = the path the   *)
(* path stack handled last (<<>> initially).  Result [ok, fs, err].            *)

\* leading directories D/path[1..k], k = from..Len(path)-1
RECURSIVE Leading(_, _, _, _, _)
Leading(fs, path, k, opt, prev) ==
  IF k >= Len(path) THEN Ok(fs)
  ELSE LET comp == path[k]
           p == Dest \o SubSeq(path, 1, k)
           skipped == Bug_FormerLeafNotRechecked /\ SubSeq(path, 1, k) = prev
       IN IF skipped THEN Leading(fs, path, k + 1, opt, prev)
          ELSE IF comp \in Forbidden THEN Fail(fs, "invalid")
          ELSE LET st == Lstat(fs, p) IN
               IF st = "dir" THEN Leading(fs, path, k + 1, opt, prev)
               ELSE IF st = "absent"
               THEN LET m == Mkdir(fs, p) IN IF m.ok THEN Leading(m.fs, path, k + 1, opt, prev) ELSE m
               ELSE IF st = "error" THEN Fail(fs, "enoent")
               ELSE IF opt.overwrite
               THEN LET r == RemoveAt(fs, p)
                        m == Mkdir(r.fs, p)
                    IN IF r.ok /\ m.ok THEN Leading(m.fs, path, k + 1, opt, prev) ELSE Fail(fs, "io")
               ELSE Fail(fs, "collision")

WriteLeaf(fs, e, opt) ==
  LET p == Dest \o e.path
      op(f) == IF e.kind = "link" THEN Symlink(f, p, e.to)
               ELSE Create(f, p, e.c, e.kind = "exec", opt.empty /\ ~opt.overwrite)
      first == op(fs)
  IN IF first.ok \/ first.err # "collision" \/ ~opt.overwrite THEN first
     ELSE LET r == RemoveAt(fs, p) IN IF r.ok THEN op(r.fs) ELSE Fail(fs, "io")

\* the stack remembers the leading directories it created/checked for the previous path: the common
\* prefix of leading directories is not looked at again (they were real directories when seen)
RECURSIVE CommonDirs(_, _, _)
CommonDirs(path, prev, n) ==
  IF n + 1 <= Len(path) - 1 /\ n + 1 <= Len(prev) - 1 /\ path[n + 1] = prev[n + 1] THEN CommonDirs(path, prev, n + 1) ELSE n

\* result [ok, fs, err, prev]: prev = what the path stack holds afterwards
CheckoutEntry(fs, e, opt, prev) ==
  IF Leaf(e.path) \in Forbidden THEN [ok |-> FALSE, fs |-> fs, err |-> "invalid", prev |-> <<>>]
  ELSE LET l == Leading(fs, e.path, CommonDirs(e.path, prev, 0) + 1, opt, prev)
       IN IF ~l.ok THEN [ok |-> FALSE, fs |-> l.fs, err |-> l.err, prev |-> <<>>]
          ELSE LET w == WriteLeaf(l.fs, e, opt) IN [ok |-> w.ok, fs |-> w.fs, err |-> w.err, prev |-> e.path]

---------------------------------------------------------------------------
(* what the property demands *)

Outside(fs) == [p \in {q \in DOMAIN fs : ~Under(q, Dest)} |-> fs[p]]
Inside(fs, d) == [p \in {q \in DOMAIN fs : Under(q, d)} |-> fs[p]]

Contained(fs0, fs) == Outside(fs) = Outside(fs0)
GitDirUntouched(fs0, fs) == Inside(fs, GitDir) = Inside(fs0, GitDir)

NodeOf(e) == IF e.kind = "link" THEN LinkN(e.to) ELSE FileN(e.c, e.kind = "exec")

\* entries that cannot collide with anything: no other entry's path is a prefix of theirs or vice versa,
\* no component is forbidden, and (unless overwriting) nothing in the initial destination is in the way
Conflicts(a, b) == PathPrefix(a, b) \/ PathPrefix(b, a)
Benign(index, i, fs0, opt) ==
  LET e == index[i] IN
  /\ \A k \in 1..Len(e.path) : e.path[k] \notin Forbidden
  /\ \A j \in 1..Len(index) : j # i => ~Conflicts(index[j].path, e.path)
  /\ \A k \in 1..Len(e.path) :
       LET p == Dest \o SubSeq(e.path, 1, k) IN
       Exists(fs0, p) => (IF k < Len(e.path) THEN fs0[p].t = "dir" ELSE FALSE) \/ opt.overwrite
\* ... and are therefore checked out exactly
BenignPresent(index, fs0, opt, fs) ==
  \A i \in 1..Len(index) :
     Benign(index, i, fs0, opt) => (Exists(fs, Dest \o index[i].path) /\ fs[Dest \o index[i].path] = NodeOf(index[i]))
=============================================================================
