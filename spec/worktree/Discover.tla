------------------------------ MODULE Discover ------------------------------
(* C50.  Which repository git finds from a start directory (setup.c:          *)
(* setup_git_directory_gently_1, is_git_directory, read_gitfile_gently,       *)
(* canonicalize_ceiling_entry, path.c: longest_ancestor_length).              *)
(*                                                                            *)
(* The file system is a function from paths to entries                        *)
(*     [p : path, t : "dir" | "file" | "link", k : content class,             *)
(*      to : path, rel : BOOLEAN]                                             *)
(* where a path is a sequence of names counted from the abstract root <<>>    *)
(* (the nearest enclosing repository of the scratch area, or "/").  Content   *)
(* classes of the files discovery reads:                                      *)
(*   HEAD       k = "ref" (ref: refs/..), "oid" (hex id), "badref", "junk"    *)
(*   .git file  k = "gitdir" with the path in (to, rel), "junk", "nopath"     *)
(*   commondir, gitdir (of a linked worktree's private dir)   k = "path"      *)
(* `to` is absolute (from <<>>) or, if rel, relative to the file's directory  *)
(* and may contain "..".  Symbolic links have an absolute `to`.               *)
(*                                                                            *)
(* A start directory is given as text; its abstract form is                   *)
(*     [abs : BOOLEAN, comps : names incl. "." and ".."]   evaluated from cwd *)
(* the way chdir(2) does (physically).  The value of GIT_CEILING_DIRECTORIES  *)
(* is a sequence of items [k : "abs" | "rel" | "empty", comps, trail].        *)
EXTENDS Naturals, Integers, Sequences, FiniteSets, TLC

Parent(p) == SubSeq(p, 1, Len(p) - 1)
LastOf(p) == p[Len(p)]
IsPrefix(a, b) == Len(a) <= Len(b) /\ SubSeq(b, 1, Len(a)) = a
IsProperPrefix(a, b) == Len(a) < Len(b) /\ SubSeq(b, 1, Len(a)) = a

\* fs is a function from the existing paths to their entries (FsOf turns a set of entries into it)
FsOf(es) == TLCEval([p \in { e.p : e \in es } |-> CHOOSE e \in es : e.p = p])
At(fs, p) == fs[p]
Exists(fs, p) == p \in DOMAIN fs
IsDir(fs, p) == Exists(fs, p) /\ fs[p].t = "dir"
IsFile(fs, p) == Exists(fs, p) /\ fs[p].t = "file"
IsLink(fs, p) == Exists(fs, p) /\ fs[p].t = "link"

\* chdir / realpath: resolve comps one by one from the real directory `cur`; ".." is the parent
\* of the directory reached so far (after following links), names that do not exist are appended
RECURSIVE Walk(_, _, _)
Walk(fs, cur, comps) ==
  IF comps = <<>> THEN cur
  ELSE LET c == Head(comps) IN
       IF c = "." THEN Walk(fs, cur, Tail(comps))
       ELSE IF c = ".." THEN Walk(fs, Parent(cur), Tail(comps))
       ELSE LET n == Append(cur, c) IN
            IF IsLink(fs, n) THEN Walk(fs, At(fs, n).to, Tail(comps)) ELSE Walk(fs, n, Tail(comps))
Real(fs, p) == Walk(fs, <<>>, p)

\* the path a file of class "gitdir"/"path" names, resolved against its own directory
Target(fs, f) == LET e == At(fs, f) IN IF e.rel THEN Walk(fs, Parent(f), e.to) ELSE Real(fs, e.to)

\* ---- is_git_directory ------------------------------------------------------------------
HeadOk(fs, d) == LET h == Append(d, "HEAD") IN IsFile(fs, h) /\ At(fs, h).k \in {"ref", "oid"}
CommonDir(fs, d) == LET c == Append(d, "commondir") IN IF IsFile(fs, c) /\ At(fs, c).k = "path" THEN Target(fs, c) ELSE d
IsGitDir(fs, d) ==
  /\ IsDir(fs, d)
  /\ HeadOk(fs, d)
  /\ IsDir(fs, Append(CommonDir(fs, d), "objects"))
  /\ IsDir(fs, Append(CommonDir(fs, d), "refs"))

\* ---- GIT_CEILING_DIRECTORIES -------------------------------------------------------------
\* Entries are made canonical with realpath until an empty entry is met; later ones are compared
\* as written (so they only ever match when they spell a real path).  Relative entries are dropped.
\* One trailing slash is ignored.
RECURSIVE Ceilings(_, _, _, _)
Ceilings(fs, items, i, emptySeen) ==
  IF i > Len(items) THEN {}
  ELSE LET it == items[i] IN
       IF it.k = "empty" THEN Ceilings(fs, items, i + 1, TRUE)
       ELSE IF it.k = "rel" THEN Ceilings(fs, items, i + 1, emptySeen)
       ELSE (IF emptySeen THEN (IF Real(fs, it.comps) = it.comps THEN {it.comps} ELSE {})
             ELSE {Real(fs, it.comps)})
            \cup Ceilings(fs, items, i + 1, emptySeen)

\* longest_ancestor_length: the deepest ceiling that is a PROPER ancestor of the start; -1 if none
CeilLen(start, ceils) ==
  LET m == { Len(c) : c \in { x \in ceils : IsProperPrefix(x, start) } }
  IN IF m = {} THEN -1 ELSE CHOOSE x \in m : \A y \in m : y <= x

\* ---- the upward search -------------------------------------------------------------------
NoPath == <<"?">>
Res(found, fatal, how, gitdir, at) == [found |-> found, fatal |-> fatal, how |-> how, gitdir |-> gitdir, at |-> at]
NotFound == Res(FALSE, "", "", NoPath, NoPath)
Fatal(why, at) == Res(FALSE, why, "", NoPath, at)

\* Named defective designs (self-tests and classification of disagreements only; NoBugs is the rule):
\*   incl    the ceiling directory itself is still examined (off by one)
\*   skip    an unusable .git file is stepped over instead of ending the search
\*   dotgit  a start directory NAMED .git that is no git dir makes the search examine its parent only
\*           as a bare candidate and then continue two levels further up
NoBugs == [incl |-> FALSE, skip |-> FALSE, dotgit |-> FALSE]
RECURSIVE Search(_, _, _, _)
Search(fs, dir, cl, b) ==
  LET dg == Append(dir, ".git")
      up == IF dir = <<>> THEN NotFound
            ELSE IF (IF b.incl THEN Len(dir) - 1 < cl ELSE Len(dir) - 1 <= cl) THEN NotFound
            ELSE Search(fs, Parent(dir), cl, b)
      self == IF IsGitDir(fs, dir) THEN Res(TRUE, "", "self", dir, dir) ELSE up
  IN IF IsFile(fs, dg)
     THEN LET e == At(fs, dg) IN
          IF e.k = "gitdir" /\ IsGitDir(fs, Target(fs, dg)) THEN Res(TRUE, "", "gitfile", Target(fs, dg), dir)
          ELSE IF b.skip THEN self
          ELSE Fatal(IF e.k = "junk" THEN "invalid gitfile format" ELSE IF e.k = "nopath" THEN "no path in gitfile" ELSE "not a git repository", dir)
     ELSE IF IsGitDir(fs, dg) THEN Res(TRUE, "", "dotgit", dg, dir)
     ELSE self

SearchFrom(fs, s, cl, b) ==
  IF b.dotgit /\ Len(s) >= 3 /\ LastOf(s) = ".git" /\ ~IsGitDir(fs, s)
  THEN IF IsGitDir(fs, Parent(s)) THEN Res(TRUE, "", "self", Parent(s), Parent(s))
       ELSE Search(fs, Parent(Parent(Parent(s))), cl, b)
  ELSE Search(fs, s, cl, b)

\* what `git -C <start> rev-parse` works with: cwd = physical start directory
Discover(fs, cwd, start, ceil, b) ==
  LET s == Walk(fs, IF start.abs THEN <<>> ELSE cwd, start.comps)
  IN SearchFrom(fs, s, CeilLen(s, Ceilings(fs, ceil, 1, FALSE)), b)

\* lexical: the start directory and its parents are taken from the path text
\* (".." cancels the preceding name, links are not followed)
RECURSIVE Lexical(_, _)
Lexical(acc, comps) ==
  IF comps = <<>> THEN acc
  ELSE IF Head(comps) = "." THEN Lexical(acc, Tail(comps))
  ELSE IF Head(comps) = ".." THEN Lexical(Parent(acc), Tail(comps))
  ELSE Lexical(Append(acc, Head(comps)), Tail(comps))
DiscoverLexical(fs, cwd, start, ceil, b) ==
  LET s == Lexical(IF start.abs THEN <<>> ELSE cwd, start.comps)
  IN SearchFrom(fs, s, CeilLen(s, Ceilings(fs, ceil, 1, FALSE)), b)

\* `git rev-parse --show-toplevel`: the directory holding the .git entry; a git directory entered
\* directly (bare, or the cwd is inside .git) has no work tree for git
GitWorktree(r) == IF r.found /\ r.how \in {"dotgit", "gitfile"} THEN r.at ELSE NoPath

\* What gix_discover must report.  Same git directory, same work tree, with one documented
\* deviation (gix-discover: repository::Path docs and tests upwards::from_git_dir,
\* from_existing_worktree_inside_dot_git): a git directory found from INSIDE itself is returned
\* with the work tree it belongs to - the parent of a directory named .git, or the path recorded in
\* the `gitdir` file of a linked work tree's private directory - where git has no work tree because
\* the cwd is outside of it.
WithoutDotGit(p) == IF p # <<>> /\ LastOf(p) = ".git" THEN Parent(p) ELSE p
GixWorktree(fs, r) ==
  IF ~r.found THEN NoPath
  ELSE IF r.how # "self" THEN r.at
  ELSE IF LastOf(r.gitdir) = ".git" THEN Parent(r.gitdir)
  ELSE LET cd == Append(r.gitdir, "commondir")  gd == Append(r.gitdir, "gitdir") IN
       IF IsFile(fs, cd) /\ IsFile(fs, gd) THEN WithoutDotGit(At(fs, gd).to) ELSE NoPath
=============================================================================
