---------------------------- MODULE Stream_Trace ----------------------------
(* Binding B (and the evaluation side of binding C) for C55.  One event per   *)
(* materialised tree:                                                         *)
(*   tree, extras, prefix   the abstract world (oids = git blob ids)          *)
(*   got                    entries decoded from the real Stream              *)
(*   tar, zip               members read back from gix_archive's output       *)
(*   git_leaves, git_files  `git ls-tree -r` and the files/symlinks extracted *)
(*                          from `git archive` of the same tree               *)
(* Every run is recorded twice: mode "audit" judges the SPECIFICATION against  *)
(* git (a rejection is a tool error), mode "impl" judges the implementation.  *)
EXTENDS Stream, TraceIO

VARIABLE l
Init == l = 1
Next == l <= NRec /\ l' = l + 1
Spec == Init /\ [][Next]_l

Judge(r) ==
  /\ StreamOk(r.tree, r.extras, r.got)
  /\ ArchiveOk(r.tree, r.extras, r.prefix, r.tar)
  /\ ArchiveOk(r.tree, r.extras, r.prefix, r.zip)
Audit(r) ==
  /\ r.git_leaves = Leaves(r.tree, "")
  /\ r.git_files = GitFiles(r.tree)

Ok(r) == IF r.mode = "audit" THEN Audit(r) ELSE Judge(r)
EventOk == l <= NRec => (Ok(Rec[l]) \/ PrintT(<<"REJECT", l>>))
=============================================================================
