---------------------------- MODULE Discover_Gen ----------------------------
(* Binding A for C50.  Worlds: the skeleton  W/p/q/s, W/m, W/lnk -> W/p/q     *)
(* below the scratch base W, with one repository kind placed at p and one at  *)
(* q; m is always a main repository with a separate git dir m/sep and the     *)
(* private directories of linked work trees.  Per world TLC prints the file    *)
(* system (materialised with git and read back by the driver) and, for every  *)
(* start directory x start spelling x ceiling list, what git finds.           *)
EXTENDS Discover, Json
CONSTANTS TopIsRepo,   \* discovery from the abstract root finds an enclosing repository (<<".git">>)
          Wide         \* thorough alphabet

\* the scratch world below the abstract root; the driver maps <<"work">> to its scratch directory
\* and <<"work","w">> to the directory of the materialised world (names never matter to the rule)
Base == <<"work", "w">>

W == Base
P == W \o <<"p">>
Q == P \o <<"q">>
S == Q \o <<"s">>
M == W \o <<"m">>
LNK == W \o <<"lnk">>
SEP == M \o <<"sep">>

D(p) == [p |-> p, t |-> "dir", k |-> "", to |-> <<>>, rel |-> FALSE]
F(p, k) == [p |-> p, t |-> "file", k |-> k, to |-> <<>>, rel |-> FALSE]
FP(p, k, to, rel) == [p |-> p, t |-> "file", k |-> k, to |-> to, rel |-> rel]
L(p, to) == [p |-> p, t |-> "link", k |-> "", to |-> to, rel |-> FALSE]

GitDir(g, head) == { D(g), F(Append(g, "HEAD"), head), D(Append(g, "objects")), D(Append(g, "refs")) }
UpTo(X) == [i \in 1..(Len(X) - Len(W)) |-> ".."]
Private(n) == M \o <<".git", "worktrees", n>>

KindsQuick == { "plain", "work", "bare", "gitfile", "linked", "emptydir", "badfile", "headjunk" }
KindsWide == KindsQuick \cup { "workdet", "gitfilerel", "headbadref", "noobj", "norefs", "nopath", "dangling" }
Kinds == IF Wide THEN KindsWide ELSE KindsQuick

Place(X, kind, n) ==
  LET g == Append(X, ".git") IN
  CASE kind = "plain"      -> {}
    [] kind = "work"       -> GitDir(g, "ref")
    [] kind = "workdet"    -> GitDir(g, "oid")
    [] kind = "bare"       -> GitDir(X, "ref")
    [] kind = "gitfile"    -> { FP(g, "gitdir", SEP, FALSE) }
    [] kind = "gitfilerel" -> { FP(g, "gitdir", UpTo(X) \o <<"m", "sep">>, TRUE) }
    [] kind = "linked"     -> { FP(g, "gitdir", Private(n), FALSE), D(Private(n)), F(Append(Private(n), "HEAD"), "oid"),
                                FP(Append(Private(n), "commondir"), "path", <<"..", "..">>, TRUE),
                                FP(Append(Private(n), "gitdir"), "path", g, FALSE) }
    [] kind = "emptydir"   -> { D(g) }
    [] kind = "headjunk"   -> GitDir(g, "junk")
    [] kind = "headbadref" -> GitDir(g, "badref")
    [] kind = "noobj"      -> GitDir(g, "ref") \ { D(Append(g, "objects")) }
    [] kind = "norefs"     -> GitDir(g, "ref") \ { D(Append(g, "refs")) }
    [] kind = "badfile"    -> { F(g, "junk") }
    [] kind = "nopath"     -> { F(g, "nopath") }
    [] kind = "dangling"   -> { FP(g, "gitdir", W \o <<"nonexistent">>, FALSE) }
    [] OTHER               -> {}

Chain == { D(SubSeq(W, 1, i)) : i \in 0..Len(W) }
Outer == IF TopIsRepo THEN GitDir(<<".git">>, "ref") ELSE {}
World(kp, kq) ==
  Chain \cup Outer \cup { D(P), D(Q), D(S), D(M), L(LNK, Q) }
  \cup GitDir(Append(M, ".git"), "ref") \cup GitDir(SEP, "ref")
  \cup (IF "linked" \in {kp, kq} THEN { D(M \o <<".git", "worktrees">>) } ELSE {})
  \cup Place(P, kp, "p") \cup Place(Q, kq, "q")

\* ---- queries ---------------------------------------------------------------------------
Abs(p) == [abs |-> TRUE, comps |-> p]
Rel(c) == [abs |-> FALSE, comps |-> c]
A(p) == [k |-> "abs", comps |-> p, trail |-> FALSE]
AT(p) == [k |-> "abs", comps |-> p, trail |-> TRUE]
E == [k |-> "empty", comps |-> <<>>, trail |-> FALSE]
R(c) == [k |-> "rel", comps |-> c, trail |-> FALSE]

StartDirs(fs) == { p \in DOMAIN fs : fs[p].t = "dir" /\ IsPrefix(W, p) }
Children(fs, n) == { c \in StartDirs(fs) : Parent(c) = n }

\* spellings of start directory n: <<cwd, expression>>
Forms(fs, n) ==
  { <<W, Abs(n)>>, <<n, Rel(<<".">>)>> }
  \cup (IF n # W THEN { <<W, Rel(SubSeq(n, Len(W) + 1, Len(n)))>> } ELSE {})
  \cup { <<c, Rel(<<"..">>)>> : c \in Children(fs, n) }
  \cup (IF IsPrefix(Q, n) THEN { <<W, Abs(LNK \o SubSeq(n, Len(Q) + 1, Len(n)))>> } ELSE {})
  \cup (IF Wide THEN { <<W, Abs(Append(c, ".."))>> : c \in Children(fs, n) } ELSE {})
  \cup (IF n = P /\ Wide THEN { <<W, Abs(Append(LNK, ".."))>>, <<W, Rel(<<"lnk", "..">>)>> } ELSE {})

CeilLists ==
  { <<A(n)>> : n \in { Parent(W), W, P, Q } }
  \cup { <<AT(Q)>>, <<E, A(P)>>, <<E, AT(Q)>>, <<R(<<"p">>)>>, <<A(LNK)>>, <<E, A(LNK)>>, <<A(W), A(Q)>>, <<A(P), A(M)>> }
  \cup (IF Wide THEN { <<A(S)>>, <<A(M)>>, <<A(W \o <<"nonexistent">>)>>, <<AT(P)>>, <<E, A(Q)>>, <<A(Q), A(W)>>, <<A(LNK), E, A(P)>>,
                       <<AT(LNK)>>, <<A(P \o <<"q", "..">>)>>, <<E, A(P \o <<"q", "..">>)>>, <<R(<<"p">>), A(Q)>>,
                       <<E, R(<<"p">>), A(P)>>, <<A(<<>>)>> } ELSE {})

\* ceilings only matter below them: the lists are combined with the start directories below P
Queries(fs) ==
  UNION { { [cwd |-> f[1], start |-> f[2], ceil |-> <<>>] : f \in Forms(fs, n) }
          \cup (IF IsPrefix(P, n)
                THEN { [cwd |-> W, start |-> Abs(n), ceil |-> c] : c \in CeilLists }
                     \cup { [cwd |-> n, start |-> Rel(<<".">>), ceil |-> c] : c \in { <<A(P)>>, <<A(Q)>> } }
                ELSE { [cwd |-> W, start |-> Abs(n), ceil |-> c] : c \in { <<A(W)>> } \cup (IF Wide THEN { <<A(M)>>, <<A(P)>> } ELSE {}) })
        : n \in StartDirs(fs) }

B(i, s, d) == [incl |-> i, skip |-> s, dotgit |-> d]
Answer(fs, q) ==
  LET r == Discover(fs, q.cwd, q.start, q.ceil, NoBugs) IN
  [cwd |-> q.cwd, start |-> q.start, ceil |-> q.ceil,
   found |-> r.found, fatal |-> r.fatal, how |-> r.how, gitdir |-> r.gitdir,
   git_worktree |-> GitWorktree(r), gix_worktree |-> GixWorktree(fs, r),
   gitdir_ok |-> (r.found => IsGitDir(fs, r.gitdir)),
   noceil |-> Discover(fs, q.cwd, q.start, <<>>, NoBugs).gitdir,
   \* the answers of the named defective designs, for classifying a disagreement
   bugs |-> [ceiling_directory_examined |-> Discover(fs, q.cwd, q.start, q.ceil, B(TRUE, FALSE, FALSE)).gitdir,
             unusable_gitfile_skipped |-> Discover(fs, q.cwd, q.start, q.ceil, B(FALSE, TRUE, FALSE)).gitdir,
             ceiling_and_gitfile |-> Discover(fs, q.cwd, q.start, q.ceil, B(TRUE, TRUE, FALSE)).gitdir,
             dotgit_start_skips_level |-> Discover(fs, q.cwd, q.start, q.ceil, B(TRUE, TRUE, TRUE)).gitdir,
             lexical_start |-> DiscoverLexical(fs, q.cwd, q.start, q.ceil, B(TRUE, TRUE, FALSE)).gitdir]]

VARIABLES kp, kq, fsv, ans, done
vars == <<kp, kq, fsv, ans, done>>
Init == kp = "" /\ kq = "" /\ fsv = <<>> /\ ans = {} /\ done = FALSE
\* two steps, so that the file system is a fully evaluated function before the queries are run
Choose == kp = "" /\ \E a \in Kinds, b \in Kinds :
            kp' = a /\ kq' = b /\ fsv' = FsOf(World(a, b)) /\ UNCHANGED <<ans, done>>
Ask == kp # "" /\ ~done /\ done' = TRUE /\ ans' = { Answer(fsv, q) : q \in Queries(fsv) } /\ UNCHANGED <<kp, kq, fsv>>
Spec == Init /\ [][Choose \/ Ask]_vars

\* design-level statements checked on every enumerated world
InvFoundIsGitDir == \A a \in ans : a.gitdir_ok
\* a ceiling never changes which repository is found, it can only hide it
InvCeilingMonotone == \A a \in ans : a.found => a.noceil = a.gitdir

Emit == done => PrintT(<<"CASE", ToJson([kp |-> kp, kq |-> kq, fs |-> World(kp, kq), queries |-> ans])>>)
=============================================================================
