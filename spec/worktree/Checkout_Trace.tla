---------------------------- MODULE Checkout_Trace ----------------------------
(* Binding B for C41.  One event per real checkout in a sandbox directory:     *)
(*   [index : entries [path, kind, c, to] (c = the content the file must have  *)
(*            in the worktree: the blob, or for filtered files what git's      *)
(*            smudge makes of it - filters are uninterpreted here; to = the    *)
(*            symlink target),                                                 *)
(*    fs0, fs : snapshots of the WHOLE sandbox before / after, sequences of    *)
(*            [path, t, c, x, to, m] (m = modification time, opaque),          *)
(*    overwrite, empty : the options,  ok : the checkout call returned Ok,     *)
(*    exact : the destination was empty, so nothing but the index may appear]  *)
(* Judged: nothing outside the destination and nothing in destination/.git is  *)
(* created, changed (content, type, mode, mtime) or removed; if the call        *)
(* succeeded every entry that cannot collide is there with its content, mode    *)
(* and target; in an empty destination nothing else appears.                    *)
EXTENDS Checkout, TraceIO

VARIABLE l
Init == l = 1
Next == l <= NRec /\ l' = l + 1
Spec == Init /\ [][Next]_l

Proj(n) == IF n.t = "file" THEN FileN(n.c, n.x) ELSE IF n.t = "link" THEN LinkN(n.to) ELSE DirN
Paths(s) == {s[k].path : k \in 1..Len(s)}
At(s, p) == s[CHOOSE k \in 1..Len(s) : s[k].path = p]
FsFull(s) == [p \in Paths(s) |-> At(s, p)]
FsProj(s) == [p \in Paths(s) |-> Proj(At(s, p))]

ExactTree(index, fs) ==
  \A p \in DOMAIN fs :
     Under(p, Dest) =>
       \/ p = Dest \/ Under(p, GitDir)
       \/ \E i \in 1..Len(index) : PathPrefix(p, Dest \o index[i].path)

Judge(r) ==
  LET full0 == FsFull(r.fs0)
      full == FsFull(r.fs)
      proj0 == FsProj(r.fs0)
      proj == FsProj(r.fs)
      opt == [overwrite |-> r.overwrite, empty |-> r.empty]
  IN /\ Contained(full0, full)
     /\ GitDirUntouched(full0, full)
     /\ r.ok => BenignPresent(r.index, proj0, opt, proj)
     /\ (r.ok /\ r.exact) => ExactTree(r.index, proj)

EventOk == l <= NRec => (Judge(Rec[l]) \/ PrintT(<<"REJECT", l>>))
=============================================================================
