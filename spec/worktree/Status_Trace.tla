---------------------------- MODULE Status_Trace ----------------------------
(* Binding B (and the git audit on worlds read back from disk) for C49.  One   *)
(* event per world region:                                                     *)
(*   [entries, nodes : sequences as read back (index via ls-files --debug,     *)
(*    work tree via lstat / hash-object / check-ignore), trustctime, checkstat, *)
(*    filemode, indexTs, q : [untracked, ignored], report : [code, path, dir].. *)
(* report is what Who (gix status / git status) printed for the region.        *)
EXTENDS Status, TraceIO
CONSTANTS BugNoRacy, BugShowReplacing, BugHideIgnored, BugKeepDirs, BugDeleted   \* judge against a named defective design (classification only)

VARIABLE l
Init == l = 1
Next == l <= NRec /\ l' = l + 1
Spec == Init /\ [][Next]_l

Judge(e) ==
  LET W == [entries |-> Range(e.entries), nodes |-> Range(e.nodes), trustctime |-> e.trustctime, checkstat |-> e.checkstat,
            filemode |-> e.filemode, indexTs |-> e.indexTs]
  IN Range(e.report) = Report(W, e.q, [noracy |-> BugNoRacy, showreplacing |-> BugShowReplacing, hideignored |-> BugHideIgnored, keepdirs |-> BugKeepDirs, deleted |-> BugDeleted])

EventOk == l <= NRec => (Judge(Rec[l]) \/ PrintT(<<"REJECT", l>>))
=============================================================================
