SPECIFICATION Spec
CONSTANTS
  Wide = FALSE
  Bug_NoEofRule = FALSE
  Bug_IdentNoSpace = FALSE
  Bug_IdentValue = FALSE
INVARIANTS
  InvResolved
  Emit
CHECK_DEADLOCK FALSE
