---------------------------- MODULE FsStackWt_Gen ----------------------------
(* C42, composed with the per-directory attribute state of gix_worktree::Stack *)
(* in checkout mode.  Every directory D of the scratch worktree carries an     *)
(* attribute file assigning d=<D> to everything below it; the validating       *)
(* delegate rejects components named ".git".  If push/pop notifications get    *)
(* out of balance, a later path sees the attribute state of another directory. *)
(* Expected per call: ok (no rejected component among the newly pushed ones)   *)
(* and, when ok, the directory whose attribute file decides: the parent.       *)
EXTENDS FsStack, Json

CONSTANTS MaxCalls

Dirs == { <<"a">>, <<"a","b">>, <<"c">> }
Paths == { <<"a","x">>, <<"a","b","x">>, <<"a",".git","x">>, <<".git">>, <<"a","b",".git">>, <<"c","x">>,
           <<"x">>, <<"a","b","y">>, <<"a",".GIT">>, <<"c",".git","y","z">> }
IsDotGit(c) == c \in {".git", ".GIT"}
Prefixes == UNION { {Take(p, i) : i \in 1..Len(p)} : p \in Paths }
Rejected == { q \in Prefixes : IsDotGit(q[Len(q)]) }

VARIABLES st, hist, done
vars == <<st, hist, done>>
Init == st = InitSt /\ hist = <<>> /\ done = FALSE
Call == /\ ~done /\ Len(hist) < MaxCalls
        /\ \E p \in Paths :
             LET r == MakeCurrent(st, p, Rejected, {}) IN
             /\ st' = r.st
             /\ hist' = Append(hist, [path |-> p, ok |-> r.ok, dir |-> Take(p, Len(p) - 1)])
             /\ done' = FALSE
Finish == ~done /\ hist # <<>> /\ done' = TRUE /\ UNCHANGED <<st, hist>>
Next == Call \/ Finish
Spec == Init /\ [][Next]_vars
InvBalanced == Balanced(st)
Emit == done => PrintT(<<"CASE", ToJson([op |-> "wt", dirs |-> Dirs, calls |-> hist])>>)
=============================================================================
