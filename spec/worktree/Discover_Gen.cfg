SPECIFICATION Spec
CONSTANTS
  TopIsRepo = TRUE
  Wide = FALSE
INVARIANTS
  InvFoundIsGitDir
  InvCeilingMonotone
  Emit
CHECK_DEADLOCK FALSE
