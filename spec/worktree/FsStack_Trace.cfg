SPECIFICATION Spec
CONSTANTS
  Bug_PushDirAfterRejectedPush = FALSE
  Bug_RootPushedAgain = FALSE
  Bug_LeafFlagAfterRollback = FALSE
INVARIANT EventOk
CHECK_DEADLOCK FALSE
