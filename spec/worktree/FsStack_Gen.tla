----------------------------- MODULE FsStack_Gen -----------------------------
(* Design check + binding A for C42: every sequence of <= MaxCalls calls over  *)
(* Paths with every reject set; TLC checks Balanced after every call and       *)
(* prints each complete behaviour with the expected observable state.          *)
EXTENDS FsStack, Json

CONSTANTS MaxCalls,
          PerCallRejects   \* TRUE: the delegate's reject sets may change from call to call

Paths == { <<"a">>, <<"a","b">>, <<"a","b","c">>, <<"a","c">>, <<"b">>, <<"X","y">>, <<"a","X">>, <<"a","X","z">> }
\* push rejects everything ending in X (a validating delegate), or nothing
RejectPush == { {}, { <<"X">>, <<"a","X">> }, { <<"a","b","c">>, <<"a","c">> } }
\* push_directory rejects (I/O error while reading per-directory files)
RejectDir == { {}, { <<"a","b">> }, { <<>> } }

VARIABLES st, hist, done, rj
vars == <<st, hist, done, rj>>

Init == st = InitSt /\ hist = <<>> /\ done = FALSE /\ rj \in RejectPush \X RejectDir

Call == /\ ~done /\ Len(hist) < MaxCalls
        /\ UNCHANGED rj
        /\ \E p \in Paths, RP \in RejectPush, RD \in RejectDir :
             /\ (PerCallRejects \/ <<RP, RD>> = rj)
             /\ LET r == MakeCurrent(st, p, RP, RD) IN
                  /\ st' = r.st
                  /\ hist' = Append(hist, [path |-> p, rp |-> RP, rd |-> RD, ok |-> r.ok,
                                           cur |-> r.st.cur, dirs |-> r.st.dirs])
                  /\ done' = FALSE
Finish == ~done /\ hist # <<>> /\ done' = TRUE /\ UNCHANGED <<st, hist, rj>>
Next == Call \/ Finish
Spec == Init /\ [][Next]_vars

InvBalanced == Balanced(st)
InvSuccessSetsPath == \A i \in 1..Len(hist) : hist[i].ok => hist[i].cur = hist[i].path
InvFailureKeepsPrefix == \A i \in 1..Len(hist) : ~hist[i].ok => IsPrefix(hist[i].cur, hist[i].path)

Emit == done => PrintT(<<"CASE", ToJson([calls |-> hist])>>)
=============================================================================
