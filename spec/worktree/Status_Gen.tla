----------------------------- MODULE Status_Gen -----------------------------
(* Binding A for C49.  TLC enumerates scenarios - a directory S with a few     *)
(* paths, each with a state at `git add` time (before) and a state at status   *)
(* time (after) - and prints the recipe, the abstract world it stands for and  *)
(* the reports git gives for the five queries.  The driver packs all scenarios *)
(* side by side into one repository per family (S becomes s<i>).               *)
(*   family "stat":     one path f of every kind x mtime class, next to a      *)
(*                      clean tracked file; core.checkStat=minimal,            *)
(*                      core.trustCtime=false, so that stat data match exactly *)
(*                      when size and mtime (seconds) do.  Abstract clock:     *)
(*                      index file written at 100; old 50, racy 100, new 150.  *)
(*   family "collapse": S/{a,b} and S/<n|ig>/{c,d}, each absent, tracked,      *)
(*                      tracked-but-deleted, untracked or ignored (x.o, ig/);   *)
(*                      a may also be a tracked file replaced by a directory.  *)
EXTENDS Status, Json
CONSTANT Wide

TIDX == 100
Gone == [present |-> FALSE, t |-> "", exec |-> FALSE, tok |-> "", size |-> 0, mtime |-> 0]
St(t, exec, tok, size, mtime) == [present |-> TRUE, t |-> t, exec |-> exec, tok |-> tok, size |-> size, mtime |-> mtime]
\* how a path enters the index: "" not at all, "add", "ita" (git add -N), "force" (git add -f)
File(path, before, how, after, ign) == [path |-> path, before |-> before, how |-> how, after |-> after, ign |-> ign]

EntryOf(f) == [path |-> f.path, mode |-> IF f.before.t = "link" THEN "link" ELSE IF f.before.exec THEN "exec" ELSE "file",
               oid |-> IF f.how = "ita" THEN "" ELSE f.before.tok, ita |-> f.how = "ita",
               size |-> IF f.how = "ita" THEN 0 ELSE f.before.size, mtime |-> IF f.how = "ita" THEN 0 ELSE f.before.mtime,
               ctime |-> 0, ino |-> 0, emptyblob |-> f.how = "ita" \/ f.before.size = 0]
NodeOf(f) == [path |-> f.path, t |-> f.after.t, exec |-> f.after.exec, oid |-> f.after.tok, size |-> f.after.size,
              mtime |-> f.after.mtime, ctime |-> 0, ino |-> 0, ign |-> f.ign]
DirNode(p, ign) == [path |-> p, t |-> "dir", exec |-> FALSE, oid |-> "", size |-> 0, mtime |-> 0, ctime |-> 0, ino |-> 0, ign |-> ign]

WorldOf(files, dirs, minimal) ==
  [entries |-> { EntryOf(f) : f \in { x \in files : x.how # "" } },
   nodes |-> { NodeOf(f) : f \in { x \in files : x.after.present } } \cup dirs,
   trustctime |-> ~minimal, checkstat |-> ~minimal, filemode |-> TRUE, indexTs |-> TIDX]

S == <<"S">>
\* ---- family "stat" -----------------------------------------------------------------------------
Kinds1 == { "clean", "modsize", "modsame", "modsame_touched", "touch", "chmod", "exec_clean", "gone", "tolink", "link_clean",
            "link_retarget", "link_tofile", "todir", "ita", "ita_gone", "empty_clean", "untracked", "ignored" }
Times == { 50, 100, 150 }
F == S \o <<"f">>
Keep == File(S \o <<"keep">>, St("file", FALSE, "k", 3, 50), "add", St("file", FALSE, "k", 3, 50), FALSE)
StatFiles(k, mt) ==
  LET b == St("file", FALSE, "a", 4, mt) IN
  CASE k = "clean" -> { File(F, b, "add", b, FALSE) }
    [] k = "modsize" -> { File(F, b, "add", St("file", FALSE, "b", 6, 150), FALSE) }
    [] k = "modsame" -> { File(F, b, "add", St("file", FALSE, "b", 4, mt), FALSE) }
    [] k = "modsame_touched" -> { File(F, b, "add", St("file", FALSE, "b", 4, mt + 7), FALSE) }
    [] k = "touch" -> { File(F, b, "add", St("file", FALSE, "a", 4, mt + 7), FALSE) }
    [] k = "chmod" -> { File(F, b, "add", St("file", TRUE, "a", 4, mt), FALSE) }
    [] k = "exec_clean" -> { File(F, St("file", TRUE, "a", 4, mt), "add", St("file", TRUE, "a", 4, mt), FALSE) }
    [] k = "gone" -> { File(F, b, "add", Gone, FALSE) }
    [] k = "tolink" -> { File(F, b, "add", St("link", FALSE, "keep", 4, mt), FALSE) }
    [] k = "link_clean" -> { File(F, St("link", FALSE, "keep", 4, mt), "add", St("link", FALSE, "keep", 4, mt), FALSE) }
    [] k = "link_retarget" -> { File(F, St("link", FALSE, "keep", 4, mt), "add", St("link", FALSE, "kee2", 4, mt), FALSE) }
    [] k = "link_tofile" -> { File(F, St("link", FALSE, "keep", 4, mt), "add", St("file", FALSE, "keep", 4, mt), FALSE) }
    [] k = "todir" -> { File(F, b, "add", Gone, FALSE), File(F \o <<"y">>, Gone, "", St("file", FALSE, "y", 2, 150), FALSE) }
    [] k = "ita" -> { File(F, b, "ita", b, FALSE) }
    [] k = "ita_gone" -> { File(F, b, "ita", Gone, FALSE) }
    [] k = "empty_clean" -> { File(F, St("file", FALSE, "", 0, mt), "add", St("file", FALSE, "", 0, mt), FALSE) }
    [] k = "untracked" -> { File(F, Gone, "", b, FALSE) }
    [] k = "ignored" -> { File(S \o <<"f.o">>, Gone, "", b, TRUE) }
    [] OTHER -> {}
StatDirs(k) == { DirNode(S, FALSE) } \cup (IF k = "todir" THEN { DirNode(F, FALSE) } ELSE {})

\* ---- family "collapse" -------------------------------------------------------------------------
K5 == { "absent", "tracked", "gone", "untracked", "ignored" }
Plain == St("file", FALSE, "a", 2, 50)
Slot(dir, name, k, underIg) ==
  CASE k = "tracked" -> { File(dir \o <<name>>, Plain, IF underIg THEN "force" ELSE "add", Plain, underIg) }
    [] k = "gone" -> { File(dir \o <<name>>, Plain, IF underIg THEN "force" ELSE "add", Gone, FALSE) }
    [] k = "untracked" -> { File(dir \o <<name>>, Gone, "", Plain, underIg) }
    [] k = "ignored" -> { File(dir \o <<name \o ".o">>, Gone, "", Plain, TRUE) }
    [] k = "todir" -> { File(dir \o <<name>>, Plain, "add", Gone, FALSE), File(dir \o <<name, "y">>, Gone, "", Plain, FALSE) }
    [] k = "todirig" -> { File(dir \o <<name>>, Plain, "add", Gone, FALSE), File(dir \o <<name, "y.o">>, Gone, "", Plain, TRUE) }
    [] OTHER -> {}
CollapseFiles(ka, kb, sub, kc, kd) ==
  Slot(S, "a", ka, FALSE) \cup Slot(S, "b", kb, FALSE) \cup Slot(S \o <<sub>>, "c", kc, sub = "ig") \cup Slot(S \o <<sub>>, "d", kd, sub = "ig")
CollapseDirs(files, ka, sub) ==
  (IF \E f \in files : f.after.present THEN { DirNode(S, FALSE) } ELSE {})
  \cup (IF \E f \in files : f.after.present /\ IsProperPrefix(S \o <<sub>>, f.path) THEN { DirNode(S \o <<sub>>, sub = "ig") } ELSE {})
  \cup (IF ka \in {"todir", "todirig"} THEN { DirNode(S \o <<"a">>, FALSE) } ELSE {})

\* ---- enumeration -------------------------------------------------------------------------------
\* the selection is made in the initial states; the (costly) evaluation happens on their successors, in parallel
VARIABLES sel, done
vars == <<sel, done>>
StatSel == { [fam |-> "stat", k |-> k, mt |-> mt, ka |-> "", kb |-> "", sub |-> "", kc |-> "", kd |-> ""] : k \in Kinds1, mt \in Times }
CollapseSel == { [fam |-> "collapse", k |-> "", mt |-> 0, ka |-> ka, kb |-> kb, sub |-> sub, kc |-> kc, kd |-> kd] :
                 ka \in K5 \cup {"todir", "todirig"}, kb \in K5, sub \in {"n", "ig"}, kc \in K5, kd \in K5 }
Wanted(s) ==
  IF s.fam = "stat" THEN s.mt = 50 \/ Wide \/ s.k \in {"clean", "modsame", "touch", "link_retarget", "link_clean", "chmod", "empty_clean"}
  ELSE /\ ~(s.ka = "absent" /\ s.kb = "absent" /\ s.kc = "absent" /\ s.kd = "absent")
       /\ (Wide \/ s.kd \in {"absent", "ignored", "tracked"} \/ s.kc = "absent")
Init == sel \in { s \in StatSel \cup CollapseSel : Wanted(s) } /\ done = FALSE
Next == ~done /\ done' = TRUE /\ UNCHANGED sel
Spec == Init /\ [][Next]_vars

fam == sel.fam
files == IF fam = "stat" THEN StatFiles(sel.k, sel.mt) \cup {Keep} ELSE CollapseFiles(sel.ka, sel.kb, sel.sub, sel.kc, sel.kd)
dirs == IF fam = "stat" THEN StatDirs(sel.k) ELSE CollapseDirs(files, sel.ka, sel.sub)

Queries == { [untracked |-> "no", ignored |-> FALSE], [untracked |-> "normal", ignored |-> FALSE], [untracked |-> "all", ignored |-> FALSE],
             [untracked |-> "normal", ignored |-> TRUE], [untracked |-> "all", ignored |-> TRUE] }
B(a, b, c, d, e) == [noracy |-> a, showreplacing |-> b, hideignored |-> c, keepdirs |-> d, deleted |-> e]
Emit == done =>
  LET W == WorldOf(files, dirs, fam = "stat") IN
  PrintT(<<"CASE", ToJson([fam |-> fam, files |-> files, world |-> W,
     answers |-> { [q |-> q, report |-> Report(W, q, NoBugs),
                    \* the reports of the named defective designs, for classifying a disagreement
                    bugs |-> [no_racy_check |-> Report(W, q, B(TRUE, FALSE, FALSE, FALSE, FALSE)),
                              replacing_dir_listed |-> Report(W, q, B(FALSE, TRUE, FALSE, FALSE, FALSE)),
                              ignored_hidden_in_untracked_dir |-> Report(W, q, B(FALSE, FALSE, TRUE, FALSE, FALSE)),
                              ignored_dirs_stay_collapsed |-> Report(W, q, B(FALSE, FALSE, FALSE, TRUE, FALSE)),
                              deleted_entries_do_not_keep_dir |-> Report(W, q, B(FALSE, FALSE, FALSE, FALSE, TRUE)),
                              dirwalk_several |-> Report(W, q, B(FALSE, TRUE, TRUE, TRUE, TRUE))]] : q \in Queries }])>>)
=============================================================================
