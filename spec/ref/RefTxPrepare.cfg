SPECIFICATION Spec
CONSTANTS
  N = 4
  Bug_ParentWalk = FALSE
INVARIANT ReportsRoot
PROPERTY Terminates
CHECK_DEADLOCK FALSE
