----------------------------- MODULE RefStore_Gen -----------------------------
(* Design check + binding A for C16/C17/C20: every store of the instance x     *)
(* packed-refs mode x transaction (Plan 1: one edit, all stores; Plan 2: two    *)
(* edits, reduced stores).  TLC checks CasShape and CrashConsistent for each    *)
(* and prints the case with the outcome the name-to-value model predicts.       *)
EXTENDS RefStore, Json

CONSTANTS Plan

HEAD == "HEAD"  MAIN == "refs/heads/main"  DIRB == "refs/heads/dir/b"  TAG == "refs/tags/t"
NamesDef == {HEAD, MAIN, DIRB, TAG}
OidsDef == {"o1", "o2"}
Fn(h, m, d, t) == [n \in NamesDef |-> CASE n = HEAD -> h [] n = MAIN -> m [] n = DIRB -> d [] n = TAG -> t]

\* per name: <<loose, packed>> options
HeadOpts == { <<Sym(MAIN), NoT>>, <<Obj("o1"), NoT>> }
MainOptsAll == { <<NoT, NoT>>, <<Obj("o1"), NoT>>, <<NoT, Obj("o1")>>, <<Obj("o2"), Obj("o1")>>, <<Sym(DIRB), NoT>> }
MainOptsFew == { <<Obj("o1"), NoT>>, <<NoT, Obj("o1")>>, <<Obj("o2"), Obj("o1")>> }
DirbOptsAll == { <<NoT, NoT>>, <<NoT, Obj("o1")>>, <<Obj("o2"), NoT>> }
DirbOptsFew == { <<NoT, NoT>>, <<NoT, Obj("o1")>> }
TagOptsAll == { <<NoT, NoT>>, <<Obj("o1"), NoT>> }

Stores ==
  IF Plan = 1
  THEN { [loose |-> Fn(h[1], m[1], d[1], t[1]), packed |-> Fn(h[2], m[2], d[2], t[2])] :
           h \in HeadOpts, m \in MainOptsAll, d \in DirbOptsAll, t \in TagOptsAll }
  ELSE { [loose |-> Fn(h[1], m[1], d[1], NoT), packed |-> Fn(h[2], m[2], d[2], NoT)] :
           h \in {<<Sym(MAIN), NoT>>}, m \in MainOptsFew, d \in DirbOptsFew }

Modes == {"DeletionsOnly", "Updates", "UpdatesRemoveLoose"}

Upd(n, new, exp, expt, deref) == [name |-> n, op |-> "update", new |-> new, exp |-> exp, expt |-> expt, deref |-> deref]
Del(n, exp, expt, deref) == [name |-> n, op |-> "delete", new |-> NoT, exp |-> exp, expt |-> expt, deref |-> deref]

ExpAll == { <<"Any", NoT>>, <<"MustExist", NoT>>, <<"MustNotExist", NoT>>, <<"MustExistAndMatch", Obj("o1")>>,
            <<"MustExistAndMatch", Obj("o2")>>, <<"ExistingMustMatch", Obj("o1")>> }
ExpDel == { <<"Any", NoT>>, <<"MustExist", NoT>>, <<"MustExistAndMatch", Obj("o1")>>, <<"ExistingMustMatch", Obj("o1")>> }
EditsAll ==
  { Upd(n, new, x[1], x[2], dr) : n \in NamesDef, new \in {Obj("o1"), Obj("o2"), Sym(MAIN)}, x \in ExpAll, dr \in BOOLEAN }
  \cup { Del(n, x[1], x[2], dr) : n \in NamesDef, x \in ExpDel, dr \in BOOLEAN }
EditsFew ==
  { Upd(n, new, x[1], x[2], dr) : n \in NamesDef, new \in {Obj("o2")}, x \in { <<"Any", NoT>>, <<"MustExistAndMatch", Obj("o1")>> }, dr \in BOOLEAN }
  \cup { Upd(n, Sym(MAIN), "Any", NoT, FALSE) : n \in {HEAD, TAG} }
  \cup { Del(n, "Any", NoT, dr) : n \in NamesDef, dr \in BOOLEAN }

\* a symbolic ref pointing at itself is not a store git can produce
SaneEdit(e) == ~(e.op = "update" /\ IsSym(e.new) /\ e.new.v = e.name)

Txs == IF Plan = 1 THEN { <<e>> : e \in {x \in EditsAll : SaneEdit(x)} }
       ELSE { <<a, b>> : a \in {x \in EditsFew : SaneEdit(x)}, b \in {x \in EditsFew : SaneEdit(x)} }

VARIABLES S, mode, tx, stage
vars == <<S, mode, tx, stage>>
\* the choice is made in two steps so that TLC's workers share the enumeration
Init == S \in Stores /\ mode = "" /\ tx = <<>> /\ stage = 0
Pick == stage = 0 /\ mode' \in Modes /\ tx' \in Txs /\ stage' = 1 /\ UNCHANGED S
Finish == stage = 1 /\ stage' = 2 /\ UNCHANGED <<S, mode, tx>>
Next == Pick \/ Finish
Spec == Init /\ [][Next]_vars
done == stage = 2

InvCas == stage >= 1 => CasShape(S, tx, mode)
InvCrash == stage >= 1 => CrashConsistent(S, tx, mode)
Emit == done =>
  LET r == ApplyTx(S, tx, mode) IN
  PrintT(<<"CASE", ToJson([loose |-> S.loose, packed |-> S.packed, mode |-> mode, edits |-> tx,
                            verdict |-> r.verdict, before |-> View(S), after |-> View(r.S),
                            locks |-> PossibleLocks(S, tx),
                            nsteps |-> IF r.verdict = "err" THEN 0 ELSE Len(CommitSteps(S, r.edits, mode))])>>)
=============================================================================
