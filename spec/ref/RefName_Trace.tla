---------------------------- MODULE RefName_Trace ----------------------------
(* Binding B for C15: TLC is the reference interpreter for events recorded    *)
(* from the real validators on seeded random byte strings.  One event:        *)
(*   [input, partial, full, tag : BOOLEAN, sanitized : bytes]                 *)
(* The trace is accepted iff every event is what the specification says.      *)
EXTENDS RefName, TraceIO

VARIABLE l
Init == l = 1
Next == l <= NRec /\ l' = l + 1
Spec == Init /\ [][Next]_l

Judge(r) ==
  /\ r.partial = PartialOk(r.input)
  /\ r.tag = TagOk(r.input)
  /\ (FullInDomain(r.input) => r.full = FullOk(r.input))
  /\ PartialOk(r.sanitized)

\* a rejected event is reported and the run goes on, so one run lists every rejection
EventOk == l <= NRec => (Judge(Rec[l]) \/ PrintT(<<"REJECT", l>>))
=============================================================================
