SPECIFICATION Spec
CONSTANTS
  MaxRecs = 2
  Wide = FALSE
  WithDamage = TRUE
  CheckDesign = TRUE
  Bisect = "branchless"
  Bug_NoCaretSkip = FALSE
INVARIANTS
  Design
CHECK_DEADLOCK FALSE
