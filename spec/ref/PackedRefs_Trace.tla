--------------------------- MODULE PackedRefs_Trace ---------------------------
(* Binding B for C19: TLC reads each recorded buffer itself (linear scan) and  *)
(* judges what gix_ref::packed::Buffer reported.  One event:                   *)
(*   [buf : bytes, open_ok : BOOLEAN,                                          *)
(*    iter : Seq([ok, name, target, peeled]),          (Buffer::iter)          *)
(*    results : Seq([q, kind, name, target, peeled])]  (try_find per query)    *)
(* kind = "found" | "none" | "err".  Buffers outside InDomain (duplicate       *)
(* names, broken `sorted` promise, ids longer than 40 hex digits) and queries outside       *)
(* QueryInDomain are not judged.                                               *)
EXTENDS PackedRefs, TraceIO

VARIABLE l
Init == l = 1
Next == l <= NRec /\ l' = l + 1
Spec == Init /\ [][Next]_l

IterOk(want, got) ==
  /\ Len(want) = Len(got)
  /\ \A i \in 1..Len(want) :
       got[i].ok /\ got[i].name = want[i].name /\ got[i].target = want[i].target /\ got[i].peeled = want[i].peeled

Judge(r) ==
  LET b == r.buf
      its == Items(b)
      clean == CleanI(b, its)
      oe == OpenExpectI(b, its)
  IN InDomainI(b, its) =>
       /\ (oe = "ok" => r.open_ok)
       /\ (oe = "err" => ~r.open_ok)
       /\ r.open_ok =>
            /\ \A i \in 1..Len(r.results) :
                 QueryInDomain(r.results[i].q) => ResultOk(clean, its, r.results[i].q, r.results[i])
            /\ (clean => IterOk(IterExpectI(b, its), r.iter))

EventOk == l <= NRec => (Judge(Rec[l]) \/ PrintT(<<"REJECT", l>>))
=============================================================================
