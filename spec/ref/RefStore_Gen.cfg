SPECIFICATION Spec
CONSTANTS
  Plan = 1
  Names <- NamesDef
  Oids <- OidsDef
INVARIANTS
  InvCas
  InvCrash
  Emit
CHECK_DEADLOCK FALSE
