----------------------------- MODULE Reflog_Gen -----------------------------
(* C21: the reverse reader model-checked, and binding A.                      *)
(* Every file of <= MaxLines lines with content lengths 0..MaxLen, with and   *)
(* without final newline, is read with every buffer size 1..MaxB.  TLC checks *)
(*   InvSafe      every step keeps its indices inside buffer and file and the *)
(*                window equal to the file bytes it stands for                *)
(*   InvCorrect   inside the judged domain a finished run has yielded exactly *)
(*                the lines in reverse order, without "buffer too small"      *)
(*   Terminates   every run finishes (liveness, weak fairness of Next)        *)
(* and prints, for every finished run, the file, B, whether the pair is in    *)
(* the domain, the lines the property demands and what the model yielded.     *)
EXTENDS Reflog, Json, TLC

CONSTANTS MaxLines, MaxLen, MaxB,
          Wide      \* TRUE: claim the too generous domain (self-test: InvCorrect must fail)

LenSeqs == UNION { [1..k -> 0..MaxLen] : k \in 0..MaxLines }
Shapes == { <<lens, nl>> \in LenSeqs \X BOOLEAN :
              IF lens = <<>> THEN nl ELSE (nl \/ lens[Len(lens)] >= 1) }

VARIABLE r
Init == \E sh \in Shapes, B \in 1..MaxB : r = RInit(FileOf(sh[1], sh[2]), B)

ALoad       == CanLoad(r)       /\ r' = Load(r)
AYield      == CanYield(r)      /\ r' = Yield(r)
AYieldFirst == CanYieldFirst(r) /\ r' = YieldFirst(r)
ARefill     == CanRefill(r)     /\ r' = Refill(r)
ATooSmall   == CanTooSmall(r)   /\ r' = TooSmall(r)
ADeplete    == CanDeplete(r)    /\ r' = Deplete(r)
Next == ALoad \/ AYield \/ AYieldFirst \/ ARefill \/ ATooSmall \/ ADeplete
Spec == Init /\ [][Next]_r /\ WF_r(Next)

Dom(f, B) == IF Wide THEN WideDomain(f, B) ELSE InDomain(f, B)

InvSafe == StepSafe(r)
InvCorrect == (Terminated(r) /\ Dom(r.file, r.B)) => Correct(r)
\* outside the domain the reader may give up, but what it yielded before is still a suffix of the truth
InvPrefix == LET want == Reverse(Lines(r.file)) IN
             InDomain(r.file, r.B) => (Len(r.out) <= Len(want) /\ r.out = SubSeq(want, 1, Len(r.out)))
Terminates == <>Terminated(r)

Emit == Terminated(r) =>
  PrintT(<<"CASE", ToJson([file |-> r.file, B |-> r.B, indomain |-> InDomain(r.file, r.B),
                           lines |-> Lines(r.file), expect |-> Reverse(Lines(r.file)),
                           model_out |-> r.out, model_status |-> r.status])>>)
=============================================================================
