------------------------------- MODULE RefName -------------------------------
(* C15.  git's check_refname_format (refs.c), over byte sequences, and the   *)
(* contract of the sanitiser.                                                *)
(*                                                                           *)
(*   PartialOk(s)  <=>  `git check-ref-format --allow-onelevel s` succeeds   *)
(*   FullOk(s)     <=>  PartialOk(s) and, when s has no '/', s obeys the     *)
(*                      one-level rule (only A-Z and '_', e.g. HEAD)         *)
(*   TagOk(s)      <=>  PartialOk(s)  (a tag name is the part below          *)
(*                      refs/tags/, judged by the same component rules)      *)
(*   Sanitise contract: for EVERY byte string s the sanitiser returns r      *)
(*   with PartialOk(r).                                                      *)
EXTENDS Bytes

DOT == 46  SLASH == 47  AT == 64  LBRACE == 123  STAR == 42  DASH == 45  USCORE == 95
LOCK == <<46, 108, 111, 99, 107>>                      \* ".lock"

\* ctl, DEL, space ~ ^ : ? [ \   (refname_disposition 4) ; '*' is 5 (pattern only)
BadByte(b) == b < 32 \/ b = 127 \/ b \in {32, 126, 94, 58, 63, 91, 92}

Components(s) == Split(s, SLASH)

\* check_refname_component: returns length > 0, no leading '.', no ".lock" suffix
ComponentOk(c) ==
  /\ Len(c) > 0
  /\ c[1] # DOT
  /\ ~EndsWith(c, LOCK)
  /\ \A i \in 1..Len(c) :
       /\ ~BadByte(c[i])
       /\ c[i] # STAR
       /\ ~(i > 1 /\ c[i] = DOT /\ c[i-1] = DOT)
       /\ ~(i > 1 /\ c[i] = LBRACE /\ c[i-1] = AT)

\* check_refname_format(name, REFNAME_ALLOW_ONELEVEL) == 0
PartialOk(s) ==
  /\ Len(s) > 0
  /\ s # <<AT>>
  /\ \A i \in 1..Len(Components(s)) : ComponentOk(Components(s)[i])
  /\ s[Len(s)] # DOT

HasSlash(s) == HasByte(s, SLASH)
OneLevelOk(s) == \A i \in 1..Len(s) : IsUpper(s[i]) \/ s[i] = USCORE

\* `git check-ref-format s` (no --allow-onelevel) is PartialOk /\ HasSlash; the library's
\* "complete" validation additionally admits pseudo-refs such as HEAD, FETCH_HEAD.
GitFullOk(s) == PartialOk(s) /\ HasSlash(s)
FullOk(s) == PartialOk(s) /\ (HasSlash(s) \/ OneLevelOk(s))
TagOk(s) == PartialOk(s)

\* One-level names containing '-' are outside the judged domain of FullOk: git 2.39's
\* is_pseudoref_syntax admits '-', later versions and gitoxide do not.
FullInDomain(s) == HasSlash(s) \/ ~HasByte(s, DASH)

\* Design-level statement of the second sentence of C15 for a sanitiser *specification*:
\* SanitizeRef is one function meeting the contract (the implementation may differ from it;
\* only the contract is demanded of the code).  Model-checked by RefName_MC.
RECURSIVE StripLocks(_)
StripLocks(c) == IF EndsWith(c, LOCK) THEN StripLocks(SubSeq(c, 1, Len(c) - 5)) ELSE c

RECURSIVE FixBytes(_, _, _)
FixBytes(c, i, acc) ==
  IF i > Len(c) THEN acc
  ELSE LET b == c[i]
           prev == IF acc = <<>> THEN 0 ELSE acc[Len(acc)] IN
       IF BadByte(b) \/ b = STAR THEN FixBytes(c, i + 1, Append(acc, DASH))
       ELSE IF b = DOT /\ prev = DOT THEN FixBytes(c, i + 1, acc)
       ELSE IF b = LBRACE /\ prev = AT THEN FixBytes(c, i + 1, Append(acc, DASH))
       ELSE FixBytes(c, i + 1, Append(acc, b))

FixComponent(c) ==
  LET a == StripLocks(FixBytes(c, 1, <<>>))
      b == IF a # <<>> /\ a[1] = DOT THEN <<DASH>> \o Tail(a) ELSE a
  IN b

RECURSIVE NonEmpty(_)
NonEmpty(cs) == IF cs = <<>> THEN <<>>
                ELSE IF Head(cs) = <<>> THEN NonEmpty(Tail(cs))
                ELSE <<Head(cs)>> \o NonEmpty(Tail(cs))

SanitizeRef(s) ==
  LET cs == NonEmpty([i \in 1..Len(Components(s)) |-> FixComponent(Components(s)[i])])
      j  == Join(cs, <<SLASH>>)
      k  == IF j # <<>> /\ j[Len(j)] = DOT THEN SubSeq(j, 1, Len(j) - 1) \o <<DASH>> ELSE j
  IN IF k = <<>> \/ k = <<AT>> THEN <<DASH>> ELSE k
=============================================================================
