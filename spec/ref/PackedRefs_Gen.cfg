SPECIFICATION Spec
CONSTANTS
  MaxRecs = 3
  Wide = FALSE
  WithDamage = TRUE
  CheckDesign = FALSE
  Bisect = "branchless"
  Bug_NoCaretSkip = FALSE
INVARIANTS
  GenInDomain
  Design
  Emit
CHECK_DEADLOCK FALSE
