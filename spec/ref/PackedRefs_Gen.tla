--------------------------- MODULE PackedRefs_Gen ---------------------------
(* Binding A + design check for C19.  TLC enumerates packed-refs buffers:     *)
(*   header      none | with `sorted` | without `sorted`                      *)
(*   records     <= MaxRecs distinct names from Names (shared prefixes; '-'   *)
(*               '/' and letters around the separator), any order unless      *)
(*               `sorted` is promised; each with or without a peeled line     *)
(*   line ends   LF | CRLF                                                    *)
(*   damage      none, or one of Damage at the first / last record            *)
(* and prints, for a fixed list of queries (every name of the alphabet,       *)
(* neighbours by last byte, prefixes, short names), what a linear scan        *)
(* returns.  Invariants of the same run: the transcribed byte-wise bisection  *)
(* (both std variants, see Bisect) agrees with the scan on clean buffers and  *)
(* never returns a wrong record on damaged ones.                              *)
EXTENDS PackedRefs, Json, TLC
CONSTANTS MaxRecs, Wide, WithDamage,
          CheckDesign     \* also check the transcribed binary search against the scan (costly)

NamesQuick == << <<114,101,102,115,47,97>>,                              \* refs/a
                 <<114,101,102,115,47,104,101,97,100,115,47,97>>,        \* refs/heads/a
                 <<114,101,102,115,47,104,101,97,100,115,47,97,45,98>>,  \* refs/heads/a-b
                 <<114,101,102,115,47,104,101,97,100,115,47,97,47,98>>,  \* refs/heads/a/b
                 <<114,101,102,115,47,104,101,97,100,115,47,97,98>>,     \* refs/heads/ab
                 <<114,101,102,115,47,116,97,103,115,47,97>> >>          \* refs/tags/a
NamesWide == << <<114,101,102,115,47,97>>,                               \* refs/a
                <<114,101,102,115,47,104,101,97,100,115,47,97>>,         \* refs/heads/a
                <<114,101,102,115,47,104,101,97,100,115,47,97,45,98>>,   \* refs/heads/a-b
                <<114,101,102,115,47,104,101,97,100,115,47,97,47,98>>,   \* refs/heads/a/b
                <<114,101,102,115,47,104,101,97,100,115,47,97,98>>,      \* refs/heads/ab
                <<114,101,102,115,47,104,101,97,100,115,47,98>>,         \* refs/heads/b
                <<114,101,102,115,47,114,101,109,111,116,101,115,47,97>>,\* refs/remotes/a
                <<114,101,102,115,47,116,97,103,115,47,97>> >>           \* refs/tags/a
Names == IF Wide THEN NamesWide ELSE NamesQuick          \* listed in ascending byte order

ExtraQueries == << <<114,101,102,115,47,104,101,97,100,115,47,97,45>>,      \* refs/heads/a-
                   <<114,101,102,115,47,104,101,97,100,115,47,97,48>>,      \* refs/heads/a0
                   <<114,101,102,115,47,104,101,97,100,115>>,               \* refs/heads
                   <<114,101,102,115,47,104,101,97,100,115,47,97,45,97>>,   \* refs/heads/a-a
                   <<114,101,102,115,47,104,101,97,100,115,47,97,45,99>>,   \* refs/heads/a-c
                   <<114,101,102,115,47,104,101,97,100,115,47,98>>,         \* refs/heads/b
                   <<114,101,102,115,47,116,97,103,115,47,98>>,             \* refs/tags/b
                   <<114,101,102,115,47,48>>,                               \* refs/0
                   <<114,101,102,115,47,122>>,                              \* refs/z
                   <<114,101,102,115,47,114,101,109,111,116,101,115,47,97>>,\* refs/remotes/a
                   <<97>>, <<97,45,98>>, <<97,47,98>>, <<97,98>>, <<98>>,   \* a a-b a/b ab b
                   <<104,101,97,100,115,47,97>>,                            \* heads/a
                   <<116,97,103,115,47,97>>,                                \* tags/a
                   <<104,101,97,100,115,47,97,45,98>> >>                    \* heads/a-b
AllQueries == NamesQuick \o ExtraQueries
Queries == SelectSeq(AllQueries, QueryInDomain)

HdrSorted   == <<35,32,112,97,99,107,45,114,101,102,115,32,119,105,116,104,58,32,112,101,101,108,101,100,32,102,117,108,108,121,45,112,101,101,108,101,100,32,115,111,114,116,101,100,32>>
HdrUnsorted == <<35,32,112,97,99,107,45,114,101,102,115,32,119,105,116,104,58,32,112,101,101,108,101,100,32,102,117,108,108,121,45,112,101,101,108,101,100,32>>
HdrBad      == <<35,32,112,97,99,107,45,114,101,102,115,58,32,115,111,114,116,101,100>>      \* "# pack-refs: sorted"
Comment     == <<35,32,120>>                                                                \* "# x"

Damage == {"upperhex", "shorthex", "nospace", "badname", "lonepeel", "doublepeel", "noeol", "comment", "empty", "badheader"}

Id(d) == [i \in 1..40 |-> d]
Target(i) == Id(48 + i)           \* 1111.., 2222.., ...
Peel(i) == Id(96 + i)             \* aaaa.., bbbb.., ...

\* the lines (without line ends) of record number i under damage (ck, cp)
RecLines(recs, i, ck, cp) ==
  LET r == recs[i]
      hit == (ck # "none" /\ cp = i)
      tgt == IF hit /\ ck = "upperhex" THEN <<65>> \o Tail(Target(i))
             ELSE IF hit /\ ck = "shorthex" THEN Tail(Target(i))
             ELSE Target(i)
      sep == IF hit /\ ck = "nospace" THEN <<9>> ELSE <<SP>>
      nm == IF hit /\ ck = "badname" THEN Names[r.n] \o <<46, 46>> ELSE Names[r.n]
      main == <<tgt \o sep \o nm>>
      peel == IF r.p THEN << <<CARET>> \o Peel(i) >> ELSE <<>>
      peel2 == IF hit /\ ck = "doublepeel" THEN << <<CARET>> \o Peel(i), <<CARET>> \o Peel(i) >> ELSE peel
      pre == IF hit /\ ck = "lonepeel" THEN << <<CARET>> \o Peel(i) >> ELSE <<>>
      post == IF hit /\ ck = "comment" THEN <<Comment>> ELSE IF hit /\ ck = "empty" THEN << <<>> >> ELSE <<>>
  IN pre \o main \o peel2 \o post

RECURSIVE AllRecLines(_, _, _, _)
AllRecLines(recs, i, ck, cp) == IF i > Len(recs) THEN <<>> ELSE RecLines(recs, i, ck, cp) \o AllRecLines(recs, i + 1, ck, cp)

Render(hdr, recs, crlf, ck, cp) ==
  LET h == IF ck = "badheader" THEN <<HdrBad>>
           ELSE IF hdr = "sorted" THEN <<HdrSorted>> ELSE IF hdr = "unsorted" THEN <<HdrUnsorted>> ELSE <<>>
      ls == h \o AllRecLines(recs, 1, ck, cp)
      eol == IF crlf THEN <<CR, LF>> ELSE <<LF>>
      all == FlatSeq([i \in 1..Len(ls) |-> ls[i] \o eol])
  IN IF ck = "noeol" /\ all # <<>> THEN SubSeq(all, 1, Len(all) - Len(eol)) ELSE all

VARIABLES hdr, recs, crlf, ck, cp, done
vars == <<hdr, recs, crlf, ck, cp, done>>

Init == /\ hdr \in {"none", "sorted", "unsorted"} /\ recs = <<>> /\ crlf = FALSE /\ ck = "none" /\ cp = 0 /\ done = FALSE
Used == {recs[i].n : i \in 1..Len(recs)}
Extend ==
  /\ ~done /\ Len(recs) < MaxRecs /\ done' = FALSE /\ UNCHANGED <<hdr, crlf, ck, cp>>
  /\ \E n \in 1..Len(Names), p \in BOOLEAN :
       /\ n \notin Used
       /\ (hdr = "sorted" /\ recs # <<>> => n > recs[Len(recs)].n)
       /\ recs' = Append(recs, [n |-> n, p |-> p])
Finish ==
  /\ ~done /\ done' = TRUE /\ UNCHANGED <<hdr, recs>>
  /\ crlf' \in BOOLEAN
  /\ \/ ck' = "none" /\ cp' = 0
     \/ /\ WithDamage /\ recs # <<>>
        /\ ck' \in Damage /\ cp' \in {1, Len(recs)}
        /\ (~Wide => ~crlf' /\ \A i \in 1..Len(recs) : recs[i].p = (i % 2 = 1))   \* quick: one peel pattern under damage
        /\ (ck' \in {"noeol"} => cp' = Len(recs))
        /\ (ck' \in {"badheader", "lonepeel"} => cp' = 1)
        /\ (ck' = "badheader" => hdr # "none")
        /\ (~Wide /\ hdr = "unsorted" => ck' = "badheader")     \* quick: as without header, the reader must sort
Next == Extend \/ Finish
Spec == Init /\ [][Next]_vars

Buf == Render(hdr, recs, crlf, ck, cp)

(* ---- design-level statements about the transcribed implementation ---- *)
Matches(r, want) ==
  CASE r.kind = "found" -> want.found /\ r.name = want.name /\ r.target = want.target /\ r.peeled = want.peeled
    [] r.kind = "none"  -> ~want.found
    [] OTHER -> FALSE

\* full-name queries only: short names merely chain full-name lookups
FullQueries == SelectSeq(Queries, LooksFull)

Design == (done /\ CheckDesign) =>
  LET b == Buf
      its == Items(b)
      cx == SearchCtx(SearchBytes(b, its))
  IN /\ InDomainI(b, its)                                        \* the generator stays inside the judged domain
     /\ CleanI(b, its) =>                                        \* exact on clean buffers
           /\ ImplOpens(b, its)
           /\ \A i \in 1..Len(Queries) : Matches(ImplFind(cx, Queries[i]), FindItems(its, Queries[i]))
     /\ (~CleanI(b, its) /\ ImplOpens(b, its)) =>                \* never a wrong record on damaged ones
           \A i \in 1..Len(FullQueries) :
              LET r == ImplFind(cx, FullQueries[i]) IN r.kind = "err" \/ Matches(r, FindItems(its, FullQueries[i]))

\* the generator stays inside the judged domain
GenInDomain == done => InDomain(Buf)

Emit == done =>
  LET b == Buf
      its == Items(b)
      clean == CleanI(b, its)
  IN PrintT(<<"CASE", ToJson([buf     |-> b,
                              hdr     |-> hdr,
                              crlf    |-> crlf,
                              damage  |-> ck,
                              nrecs   |-> Len(recs),
                              clean   |-> clean,
                              open    |-> OpenExpectI(b, its),
                              iter    |-> IF clean THEN IterExpectI(b, its) ELSE <<>>,
                              queries |-> [i \in 1..Len(Queries) |->
                                             [q |-> Queries[i], want |-> FindItems(its, Queries[i])]]])>>)
=============================================================================
