---------------------------- MODULE Reflog_Trace ----------------------------
(* Binding B for C21: observations of the real reflog writer and readers on   *)
(* real reflog files (written by gitoxide transactions or by git), judged by  *)
(* the specification.  Events:                                                *)
(*  kind "wrote": [file : bytes, appended : Seq(entry)]                       *)
(*       a file appended entry by entry must be exactly the lines the grammar *)
(*       writes for the appended entries.                                     *)
(*  kind "file": [file : bytes, fwd : Seq(observed entry)]                    *)
(*       the forward iterator must yield the entries git's grammar reads from *)
(*       the lines of the file.                                               *)
(*  kind "rev":  [fileev : index of the file event, B, err : BOOLEAN,         *)
(*                fwd, rev : Seq(Nat)]                                        *)
(*       fwd / rev are the items of the forward / reverse iterator, each      *)
(*       replaced by a number such that equal items have equal numbers.       *)
(*       Inside the judged domain the reverse reading is the forward reading  *)
(*       reversed and no error is reported.                                   *)
(*  kind "line": [entry, written : bytes, parsed, parsed_nl : observed entry] *)
(*       Line::write_to and LineRef::from_bytes (with and without newline).   *)
EXTENDS Reflog, TraceIO

VARIABLE l
Init == l = 1
Next == l <= NRec /\ l' = l + 1
Spec == Init /\ [][Next]_l

\* an entry as the executor reports it: the time zone as sign byte and offset in seconds
Obs(e) == IF e.bad THEN [bad |-> TRUE]
          ELSE [bad |-> FALSE, old |-> e.old, new |-> e.new, name |-> e.name, email |-> e.email,
                secs |-> e.secs, sign |-> e.tz[1], offset |-> TzOffset(e.tz), msg |-> e.msg]

FileEvents == { k \in 1..NRec : Rec[k].kind = "file" }
\* evaluated once per run (constant level)
Longest == [k \in FileEvents |-> LongestLine(Rec[k].file)]
HasFinalNL == [k \in FileEvents |-> Rec[k].file = <<>> \/ EndsWithNL(Rec[k].file)]
InDom(k, B) == IF HasFinalNL[k] THEN B >= Max2(1, Longest[k]) ELSE B >= Longest[k] + 1

JudgeFile(r) ==
  LET want == Entries(r.file) IN
  /\ Len(r.fwd) = Len(want)
  /\ \A i \in 1..Len(want) : r.fwd[i] = Obs(want[i])

JudgeWrote(r) ==
  /\ \A i \in 1..Len(r.appended) : EntryOk(r.appended[i])
  /\ r.file = LogFile(r.appended)

JudgeRev(r) ==
  InDom(r.fileev, r.B) => (~r.err /\ r.rev = Reverse(r.fwd))

JudgeLine(r) ==
  EntryOk(r.entry) =>
    /\ r.written = FormatLine(r.entry, TRUE) \o <<NL>>
    /\ r.parsed = Obs(WithBad(r.entry))
    /\ r.parsed_nl = Obs(WithBad(r.entry))

Judge(r) == CASE r.kind = "file" -> JudgeFile(r)
              [] r.kind = "wrote" -> JudgeWrote(r)
              [] r.kind = "rev"  -> JudgeRev(r)
              [] r.kind = "line" -> JudgeLine(r)
              [] OTHER -> FALSE

EventOk == l <= NRec => (Judge(Rec[l]) \/ PrintT(<<"REJECT", l>>))
=============================================================================
