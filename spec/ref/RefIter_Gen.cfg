SPECIFICATION Spec
CONSTANTS
  Wide = FALSE
  Bug_DirOrder = FALSE
INVARIANTS
  InvMerge
  Emit
CHECK_DEADLOCK FALSE
