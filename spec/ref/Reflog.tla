------------------------------- MODULE Reflog -------------------------------
(* C21.  Reflog files: the line grammar, the forward reading (git's: one     *)
(* entry per newline-terminated line, oldest first) and the sliding-window   *)
(* reverse reader of gix_ref::file::log::iter::Reverse as a state machine.   *)
(*                                                                           *)
(* A file is a byte sequence.  The reverse reader only looks at where the    *)
(* newlines are, so the model-checked instances build files from a sequence  *)
(* of line (content) lengths: FileOf(lens, finalNL); every content byte of   *)
(* such a file is different (48 + offset), so that a window that is off by   *)
(* one byte anywhere cannot produce the right output by accident.            *)
(*                                                                           *)
(* Reader state (one record, the fields of `Reverse` + the model's output):  *)
(*   buf    the caller's buffer, B bytes (JUNK where never written)          *)
(*   end    last_nl_pos (0-based exclusive end of the unread window), NONE   *)
(*   pos    last_read_pos: file offset of buf[0], NONE once given up         *)
(*   out    the items yielded so far (raw line bytes)                        *)
(*   status "run" | "done" (returned None) | "toosmall" (yielded the error)  *)
(* Each match arm of Reverse::next is one action: Load, Yield, YieldFirst,   *)
(* Refill, TooSmall, Depleted.                                               *)
EXTENDS Bytes

NL == 10  TAB == 9  SP == 32  LT == 60  GT == 62  PLUS == 43  MINUS == 45
NONE == -1
JUNK == 0

-----------------------------------------------------------------------------
(* files and their lines *)

\* the raw lines of a file, oldest first, without their terminators; a trailing piece without
\* newline is a line if it is not empty (git: strbuf_getwholeline; bstr: lines())
RECURSIVE LinesFrom(_, _, _)
LinesFrom(f, i, acc) ==
  LET j == FindByteFrom(f, NL, i) IN
  IF i > Len(f) THEN acc
  ELSE IF j = 0 THEN Append(acc, SubSeq(f, i, Len(f)))
  ELSE LinesFrom(f, j + 1, Append(acc, SubSeq(f, i, j - 1)))
Lines(f) == LinesFrom(f, 1, <<>>)

Reverse(s) == [i \in 1..Len(s) |-> s[Len(s) + 1 - i]]

EndsWithNL(f) == f # <<>> /\ f[Len(f)] = NL

\* file from content lengths; the last line keeps its newline iff finalNL
RECURSIVE FileFrom(_, _, _, _)
FileFrom(lens, finalNL, k, acc) ==
  IF k > Len(lens) THEN acc
  ELSE LET content == [i \in 1..lens[k] |-> 48 + Len(acc) + i - 1]
           nl == IF k < Len(lens) \/ finalNL THEN <<NL>> ELSE <<>>
       IN FileFrom(lens, finalNL, k + 1, acc \o content \o nl)
FileOf(lens, finalNL) == FileFrom(lens, finalNL, 1, <<>>)

RECURSIVE MaxOf(_)
MaxOf(s) == IF s = <<>> THEN 0 ELSE Max2(Head(s), MaxOf(Tail(s)))

\* length of the longest line including its newline where it has one
LongestLine(f) ==
  LET ls == Lines(f)
      n  == Len(ls)
  IN MaxOf([i \in 1..n |-> Len(ls[i]) + (IF i < n \/ EndsWithNL(f) THEN 1 ELSE 0)])

\* The judged domain (DESIGN.md, C21): a well-formed reflog terminates every line and the
\* buffer holds its longest line including the newline; a file whose last line lacks the
\* newline is judged only with one more byte of room.
InDomain(f, B) ==
  IF f = <<>> \/ EndsWithNL(f) THEN B >= Max2(1, LongestLine(f))
  ELSE B >= LongestLine(f) + 1

\* a (too) generous domain claim, used by the self-test of the model: "any buffer as large as
\* the longest line", counting a last line without newline by its content only
WideDomain(f, B) == B >= Max2(1, LongestLine(f))

-----------------------------------------------------------------------------
(* the reverse reader *)

RInit(f, B) ==
  [file |-> f, B |-> B, buf |-> [i \in 1..B |-> JUNK], end |-> NONE, pos |-> Len(f),
   out |-> <<>>, status |-> "run"]

\* write bytes `data` at 0-based offset `at` of the buffer
Overwrite(buf, at, data) ==
  [i \in 1..Len(buf) |-> IF i > at /\ i <= at + Len(data) THEN data[i - at] ELSE buf[i]]

\* file bytes [from, from + n) (0-based offsets): seek + read_exact
ReadAt(f, from, n) == SubSeq(f, from + 1, from + n)

\* 1-based index of the last newline in buf[1..end], 0 if none  (buf[..end].rfind_byte(b'\n'))
LastNL(r) == RFindByteFrom(r.buf, NL, r.end)

CanLoad(r)       == r.status = "run" /\ r.end = NONE /\ r.pos # NONE
CanScan(r)       == r.status = "run" /\ r.end # NONE /\ r.pos # NONE
CanYield(r)      == CanScan(r) /\ LastNL(r) # 0
CanYieldFirst(r) == CanScan(r) /\ LastNL(r) = 0 /\ r.pos = 0
CanRefill(r)     == CanScan(r) /\ LastNL(r) = 0 /\ r.pos > 0 /\ r.B - r.end > 0
CanTooSmall(r)   == CanScan(r) /\ LastNL(r) = 0 /\ r.pos > 0 /\ r.B - r.end = 0
CanDeplete(r)    == r.status = "run" /\ r.end = NONE /\ r.pos = NONE

\* (None, Some((read, pos))): load the last block
Load(r) ==
  LET npos == Max2(0, r.pos - r.B)
      n    == r.pos - npos
  IN IF n = 0 THEN [r EXCEPT !.pos = NONE, !.status = "done"]
     ELSE LET b == Overwrite(r.buf, 0, ReadAt(r.file, npos, n)) IN
          [r EXCEPT !.buf = b, !.pos = npos, !.end = IF b[n] # NL THEN n ELSE n - 1]

\* Some(start): the line between the newline and the window end
Yield(r) ==
  LET s == LastNL(r) IN     \* 1-based, i.e. start = s - 1
  [r EXCEPT !.out = Append(r.out, SubSeq(r.buf, s + 1, r.end)), !.end = s - 1]

\* no newline left and the block starts at offset 0: the first line of the file
YieldFirst(r) ==
  [r EXCEPT !.out = Append(r.out, SubSeq(r.buf, 1, r.end)), !.end = NONE, !.pos = NONE]

\* no newline in the window: move it to the back of the buffer and read more in front of it
Refill(r) ==
  LET npos == Max2(0, r.pos - (r.B - r.end))
      n    == r.pos - npos
      kept == SubSeq(r.buf, 1, r.end)
      b1   == Overwrite(r.buf, n, kept)                     \* copy_within(0..end, n)
      b2   == Overwrite(b1, 0, ReadAt(r.file, npos, n))
  IN [r EXCEPT !.buf = b2, !.pos = npos, !.end = n + r.end]

TooSmall(r) == [r EXCEPT !.end = NONE, !.pos = NONE, !.status = "toosmall"]
Deplete(r)  == [r EXCEPT !.status = "done"]

\* design-level safety of every step: indices stay inside the buffer and the file
StepSafe(r) ==
  /\ r.end = NONE \/ (r.end >= 0 /\ r.end <= r.B)
  /\ r.pos = NONE \/ (r.pos >= 0 /\ r.pos <= Len(r.file))
  /\ (r.end # NONE /\ r.pos # NONE) =>
        \* the window buf[0..end) is exactly the file bytes [pos, pos + end)
        /\ r.pos + r.end <= Len(r.file)
        /\ SubSeq(r.buf, 1, r.end) = ReadAt(r.file, r.pos, r.end)

Terminated(r) == r.status # "run"

\* What the property demands of a finished run inside the domain
Correct(r) == r.status = "done" /\ r.out = Reverse(Lines(r.file))

-----------------------------------------------------------------------------
(* the line grammar:  <old> SP <new> SP <name> SP '<' <email> '>' SP <secs> SP <tz> [TAB <msg>] *)
(* An entry is a record [old, new, name, email, secs, tz, msg] of byte strings; secs is a   *)
(* decimal numeral (64-bit in the code, uninterpreted here), tz is sign + 4 digits.          *)

IsHex40(s) == Len(s) = 40 /\ \A i \in 1..40 : HexVal(s[i]) >= 0 /\ ~IsUpper(s[i])
NoneOf(s, set) == \A i \in 1..Len(s) : s[i] \notin set
IsDigits(s) == s # <<>> /\ \A i \in 1..Len(s) : IsDigit(s[i])

\* the entries this module speaks about: what git itself writes (identity without angle
\* brackets and without surrounding blanks, canonical numerals, single-line message)
EntryOk(e) ==
  /\ IsHex40(e.old) /\ IsHex40(e.new)
  /\ e.name # <<>> /\ NoneOf(e.name, {LT, GT, NL, TAB}) /\ e.name[1] # SP /\ Last(e.name) # SP
  /\ NoneOf(e.email, {LT, GT, NL, SP, TAB})
  /\ IsDigits(e.secs) /\ (Len(e.secs) > 1 => e.secs[1] # 48)
  /\ Len(e.tz) = 5 /\ e.tz[1] \in {PLUS, MINUS} /\ IsDigits(Tail(e.tz))
  /\ NoneOf(e.msg, {NL})

Head82(e) == e.old \o <<SP>> \o e.new \o <<SP>> \o e.name \o <<SP, LT>> \o e.email \o <<GT, SP>>
             \o e.secs \o <<SP>> \o e.tz

\* the line without terminator.  git and the transaction writer omit the TAB for an empty
\* message (tabAlways = FALSE); Line::write_to always writes it.
FormatLine(e, tabAlways) ==
  Head82(e) \o (IF e.msg = <<>> /\ ~tabAlways THEN <<>> ELSE <<TAB>> \o e.msg)

BadLine == [old |-> <<>>, new |-> <<>>, name |-> <<>>, email |-> <<>>, secs |-> <<>>, tz |-> <<>>, msg |-> <<>>, bad |-> TRUE]

\* reading one raw line (no terminator) back
ParseLine(l) ==
  LET tab  == FindByte(l, TAB)
      head == IF tab = 0 THEN l ELSE SubSeq(l, 1, tab - 1)
      msg  == IF tab = 0 THEN <<>> ELSE Drop(l, tab)
      lt   == FindByte(head, LT)
      gt   == RFindByte(head, GT)
      aft  == Drop(head, gt + 1)
      sp   == FindByte(aft, SP)
  IN IF Len(head) < 83 \/ head[41] # SP \/ head[82] # SP \/ lt < 85 \/ gt < lt \/ gt + 1 > Len(head)
        \/ head[lt - 1] # SP \/ head[gt + 1] # SP \/ sp = 0
     THEN BadLine
     ELSE [old |-> SubSeq(head, 1, 40), new |-> SubSeq(head, 42, 81), name |-> SubSeq(head, 83, lt - 2),
           email |-> SubSeq(head, lt + 1, gt - 1), secs |-> SubSeq(aft, 1, sp - 1), tz |-> Drop(aft, sp),
           msg |-> msg, bad |-> FALSE]

WithBad(e) == [old |-> e.old, new |-> e.new, name |-> e.name, email |-> e.email, secs |-> e.secs, tz |-> e.tz,
               msg |-> e.msg, bad |-> FALSE]

\* design-level law (checked by Reflog_Gen on every enumerated entry)
LineRoundTrip(e) == EntryOk(e) => /\ ParseLine(FormatLine(e, TRUE)) = WithBad(e)
                                  /\ ParseLine(FormatLine(e, FALSE)) = WithBad(e)

\* the forward reading of a whole file
Entries(f) == LET ls == Lines(f) IN [i \in 1..Len(ls) |-> ParseLine(ls[i])]

\* the file produced by appending entries (transaction writer / git)
RECURSIVE LogFile(_)
LogFile(es) == IF es = <<>> THEN <<>> ELSE FormatLine(Head(es), FALSE) \o <<NL>> \o LogFile(Tail(es))

\* offset in seconds east of UTC of a tz field "+HHMM"
TzOffset(tz) ==
  LET hh == (tz[2] - 48) * 10 + (tz[3] - 48)
      mm == (tz[4] - 48) * 10 + (tz[5] - 48)
  IN (IF tz[1] = MINUS THEN -1 ELSE 1) * (hh * 3600 + mm * 60)
=============================================================================
