----------------------------- MODULE RefTxPrepare -----------------------------
(* C17.  Control flow of Transaction::prepare over the (split) edits when lock  *)
(* files may already be held by another party, with Fail::Immediately: the only *)
(* loops are the walk over the edits and, on a failed lock, the walk up the     *)
(* parent chain that finds the name of the user-visible reference to report.    *)
(* Parent[i] = index of the edit i was split from (0 = none); Held = indices    *)
(* whose lock file exists.  Bug_ParentWalk = the loop as written at the pinned  *)
(* commit: reaching the root of the chain does not advance the cursor.          *)
EXTENDS Naturals, Sequences, FiniteSets, TLC

CONSTANTS N, Bug_ParentWalk
VARIABLES parent, held, i, phase, cursor, reported
vars == <<parent, held, i, phase, cursor, reported>>

\* every split forest: an edit can only be split from an earlier one
Forests == { f \in [1..N -> 0..N] : \A k \in 1..N : f[k] < k }

Init == /\ parent \in Forests /\ held \in SUBSET (1..N)
        /\ i = 1 /\ phase = "locking" /\ cursor = 0 /\ reported = 0

TryLock == /\ phase = "locking" /\ i <= N
           /\ IF i \in held
              THEN phase' = "walk" /\ cursor' = parent[i] /\ reported' = i /\ UNCHANGED i
              ELSE i' = i + 1 /\ UNCHANGED <<phase, cursor, reported>>
           /\ UNCHANGED <<parent, held>>
AllLocked == phase = "locking" /\ i > N /\ phase' = "prepared" /\ UNCHANGED <<parent, held, i, cursor, reported>>
Walk == /\ phase = "walk"
        /\ IF cursor = 0 THEN phase' = "failed" /\ UNCHANGED <<cursor, reported>>
           ELSE IF parent[cursor] = 0
                THEN reported' = cursor /\ cursor' = (IF Bug_ParentWalk THEN cursor ELSE 0) /\ UNCHANGED phase
                ELSE cursor' = parent[cursor] /\ UNCHANGED <<phase, reported>>
        /\ UNCHANGED <<parent, held, i>>
Next == TryLock \/ AllLocked \/ Walk
Spec == Init /\ [][Next]_vars /\ WF_vars(Next)

Terminates == <>(phase \in {"prepared", "failed"})
\* the reported reference is the root of the failing edit's chain
RECURSIVE Root(_, _)
Root(f, k) == IF f[k] = 0 THEN k ELSE Root(f, f[k])
ReportsRoot == phase = "failed" => reported = Root(parent, CHOOSE k \in held : \A m \in held : k <= m)
=============================================================================
