----------------------------- MODULE RefName_Gen -----------------------------
(* Binding A for C15: TLC enumerates every token string of <= MaxToks tokens  *)
(* and prints the specification's verdicts; the harness replays each line.    *)
(* The same run model-checks the design-level sanitiser contract.             *)
EXTENDS RefName, Json, TLC
CONSTANTS MaxToks, Wide

TokQuick == { <<97>>, <<65>>, <<46>>, <<47>>, <<64>>, <<123>>, <<42>>, <<126>>, <<1>>, <<45>>,
              <<95>>, <<195,169>>, LOCK }
\*             a       A       .       /       @       {        *       ~       ^A     -
\*             _       e-acute         .lock
TokWide == TokQuick \cup { <<58>>, <<32>>, <<127>>, <<92>>, <<91>>, <<63>>, <<94>>, <<0>>, <<255>>,
                           <<108,111,99,107>>, <<72,69,65,68>> }
\*                          :       space   DEL      \       [       ?       ^      NUL    0xff
\*                          lock                 HEAD
Tok == IF Wide THEN TokWide ELSE TokQuick

VARIABLES toks, done
vars == <<toks, done>>

Init == toks = <<>> /\ done = FALSE
Extend == ~done /\ Len(toks) < MaxToks /\ \E t \in Tok : toks' = Append(toks, t) /\ done' = FALSE
Finish == ~done /\ done' = TRUE /\ UNCHANGED toks
Next == Extend \/ Finish
Spec == Init /\ [][Next]_vars

Input == FlatSeq(toks)

\* design-level contract, checked on every enumerated string
SanitiserContract == done => PartialOk(SanitizeRef(Input))

Emit == done => PrintT(<<"CASE", ToJson([input   |-> Input,
                                          partial |-> PartialOk(Input),
                                          full    |-> FullOk(Input),
                                          fulldom |-> FullInDomain(Input),
                                          gitfull |-> GitFullOk(Input),
                                          tag     |-> TagOk(Input)])>>)
=============================================================================
