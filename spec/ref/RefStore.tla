------------------------------- MODULE RefStore -------------------------------
(* C16 / C17 / C20.  The file-based reference store and its transactions.      *)
(*                                                                             *)
(* Store state  S = [loose, packed]:                                           *)
(*   loose  : Name -> Target        (files under refs/, HEAD; NoT = no file)   *)
(*   packed : Name -> Target        (records of packed-refs; objects only)     *)
(* What every reader sees is  Resolve(S, n): the loose value shadows the       *)
(* packed one.  A transaction is a sequence of edits; ApplyTx gives the        *)
(* "simple name-to-value model" of the property: all-or-nothing.               *)
(* The module also spells out, as data, the ordered list of locks prepare      *)
(* takes (LockPlan) and the ordered list of file-system mutations commit       *)
(* performs (CommitSteps) - the two things C17 and C20 quantify over.          *)
EXTENDS Naturals, Sequences, FiniteSets, TLC

CONSTANTS Names, Oids

NoT == [k |-> "none", v |-> ""]
Obj(o) == [k |-> "obj", v |-> o]
Sym(n) == [k |-> "sym", v |-> n]
IsSym(t) == t.k = "sym"
IsObj(t) == t.k = "obj"
Targets == {NoT} \cup {Obj(o) : o \in Oids} \cup {Sym(n) : n \in Names}

Resolve(S, n) == IF S.loose[n] # NoT THEN S.loose[n] ELSE S.packed[n]
View(S) == [n \in Names |-> Resolve(S, n)]

\* ---------------------------------------------------------------- edits
\* user edit: [name, op \in {"update","delete"}, new, exp, expt, deref]
\*   exp \in {"Any","MustExist","MustNotExist","MustExistAndMatch","ExistingMustMatch"}, expt its target
\* internal edit: + logOnly (the edit only touches the reflog of a symbolic ref that was split),
\*                  parent (index of the edit it was split from, 0 if none)
Internal(e) == [name |-> e.name, op |-> e.op, new |-> e.new, exp |-> e.exp, expt |-> e.expt,
                deref |-> e.deref, logOnly |-> FALSE, parent |-> 0]

\* symbolic refs live in loose files only: the lookup used for splitting ignores packed-refs
SplitsAt(S, e) == e.deref /\ IsSym(S.loose[e.name])

\* one pass over edits[first..]: parents become log-only, children are collected in index order
RECURSIVE ChildrenFrom(_, _, _)
ChildrenFrom(S, edits, i) ==
  IF i > Len(edits) THEN <<>>
  ELSE IF SplitsAt(S, edits[i])
       THEN << [edits[i] EXCEPT !.name = S.loose[edits[i].name].v, !.deref = TRUE, !.logOnly = FALSE, !.parent = i] >>
            \o ChildrenFrom(S, edits, i + 1)
       ELSE ChildrenFrom(S, edits, i + 1)

\* the edit on the symbolic ref itself only touches its reflog; the expectation travels with the
\* change to the referent (as `git update-ref [-d] HEAD <new> <old>` checks <old> against the referent)
Parentify(e) == [e EXCEPT !.deref = FALSE, !.logOnly = TRUE, !.exp = "Any", !.expt = NoT]

RECURSIVE SplitRounds(_, _, _, _)
SplitRounds(S, edits, first, round) ==
  LET kids  == ChildrenFrom(S, edits, first)
      done  == [i \in 1..Len(edits) |->
                  IF i < first THEN edits[i]
                  ELSE IF SplitsAt(S, edits[i]) THEN Parentify(edits[i])
                  ELSE [edits[i] EXCEPT !.deref = FALSE]]
  IN IF kids = <<>> THEN [ok |-> TRUE, edits |-> done]
     ELSE IF round = 5 THEN [ok |-> FALSE, edits |-> done]      \* "assuming reference cycle"
     ELSE SplitRounds(S, done \o kids, Len(edits) + 1, round + 1)

Preprocess(S, userEdits) ==
  LET r == SplitRounds(S, [i \in 1..Len(userEdits) |-> Internal(userEdits[i])], 1, 1)
      dup == \E i, j \in 1..Len(r.edits) : i # j /\ r.edits[i].name = r.edits[j].name
  IN [ok |-> r.ok /\ ~dup, edits |-> r.edits]

\* ---------------------------------------------------------------- expectation checks
\* verdict: "ok", "err", or "either" (MustNotExist on a ref that already has the new value:
\* the documentation says it must fail, the code tolerates it; the store is unchanged either way)
CheckEdit(S, e) ==
  LET cur == Resolve(S, e.name) IN
  IF e.op = "update" THEN
    CASE e.exp = "Any" -> "ok"
      [] e.exp = "MustExist" -> IF cur # NoT THEN "ok" ELSE "err"
      [] e.exp = "MustNotExist" -> IF cur = NoT THEN "ok" ELSE IF cur = e.new THEN "either" ELSE "err"
      [] e.exp = "MustExistAndMatch" -> IF cur = e.expt THEN "ok" ELSE "err"
      [] e.exp = "ExistingMustMatch" -> IF cur = NoT \/ cur = e.expt THEN "ok" ELSE "err"
  ELSE
    CASE e.exp = "Any" -> "ok"
      [] e.exp = "MustExist" -> IF cur # NoT THEN "ok" ELSE "err"
      [] e.exp = "MustExistAndMatch" -> IF cur = e.expt THEN "ok" ELSE "err"
      [] e.exp = "ExistingMustMatch" -> IF cur = NoT \/ cur = e.expt THEN "ok" ELSE "err"

\* ---------------------------------------------------------------- the abstract transaction
\* mode \in {"DeletionsOnly", "Updates", "UpdatesRemoveLoose"} (the PackedRefs setting)
ApplyEdit(S, e, mode) ==
  IF e.logOnly THEN S
  ELSE IF e.op = "delete"
  THEN [loose |-> [S.loose EXCEPT ![e.name] = NoT], packed |-> [S.packed EXCEPT ![e.name] = NoT]]
  ELSE IF IsSym(e.new) \/ mode = "DeletionsOnly"
  THEN [S EXCEPT !.loose[e.name] = e.new]
  ELSE IF mode = "Updates"
  THEN [loose |-> [S.loose EXCEPT ![e.name] = e.new], packed |-> [S.packed EXCEPT ![e.name] = e.new]]
  ELSE [loose |-> [S.loose EXCEPT ![e.name] = NoT], packed |-> [S.packed EXCEPT ![e.name] = e.new]]

RECURSIVE ApplyAll(_, _, _, _)
ApplyAll(S, edits, i, mode) == IF i > Len(edits) THEN S ELSE ApplyAll(ApplyEdit(S, edits[i], mode), edits, i + 1, mode)

ApplyTx(S, userEdits, mode) ==
  LET p == Preprocess(S, userEdits)
      verdicts == [i \in 1..Len(p.edits) |-> CheckEdit(S, p.edits[i])]
      anyErr == \E i \in 1..Len(p.edits) : verdicts[i] = "err"
      anyEither == \E i \in 1..Len(p.edits) : verdicts[i] = "either"
  IN IF ~p.ok \/ anyErr THEN [verdict |-> "err", S |-> S, edits |-> p.edits]
     ELSE [verdict |-> IF anyEither THEN "either" ELSE "ok", S |-> ApplyAll(S, p.edits, 1, mode), edits |-> p.edits]

\* atomic compare-and-swap, as a property of ApplyTx itself (model-checked):
\* either nothing visible changes, or every non-log-only edit took effect and nothing else changed
CasShape(S, userEdits, mode) ==
  LET r == ApplyTx(S, userEdits, mode) IN
  \/ View(r.S) = View(S) /\ r.verdict = "err"
  \/ /\ r.verdict # "err"
     /\ \A n \in Names :
          LET es == { i \in 1..Len(r.edits) : r.edits[i].name = n /\ ~r.edits[i].logOnly } IN
          IF es = {} THEN Resolve(r.S, n) = Resolve(S, n)
          ELSE \A i \in es : Resolve(r.S, n) = (IF r.edits[i].op = "delete" THEN NoT ELSE r.edits[i].new)

\* ---------------------------------------------------------------- C20: commit as file-system mutations
\* The order commit_inner performs them in: (1) per update: reflog, then rename lock -> ref (unless the
\* loose source is to be removed); (2) per delete: remove reflog; (3) packed-refs rewritten by one rename
\* (or removed when empty); (4) per delete / removed loose source: unlink the loose file.
\* A step is [kind, name, val]; only "rename", "packed" and "unlink" change what readers resolve.
UpdateSteps(edits, i, mode) ==
  LET e == edits[i] IN
  IF e.op # "update" THEN <<>>
  ELSE << [kind |-> "reflog", name |-> e.name, val |-> NoT] >>
       \o IF e.logOnly \/ (mode = "UpdatesRemoveLoose" /\ IsObj(e.new)) THEN <<>>
          ELSE << [kind |-> "rename", name |-> e.name, val |-> e.new] >>
DeleteReflogSteps(edits, i) ==
  IF edits[i].op = "delete" THEN << [kind |-> "rmreflog", name |-> edits[i].name, val |-> NoT] >> ELSE <<>>
UnlinkSteps(edits, i, mode) ==
  LET e == edits[i] IN
  IF ~e.logOnly /\ (e.op = "delete" \/ (mode = "UpdatesRemoveLoose" /\ IsObj(e.new)))
  THEN << [kind |-> "unlink", name |-> e.name, val |-> NoT] >> ELSE <<>>

RECURSIVE AllUpdateSteps(_, _, _)
AllUpdateSteps(edits, i, mode) == IF i > Len(edits) THEN <<>> ELSE UpdateSteps(edits, i, mode) \o AllUpdateSteps(edits, i + 1, mode)
RECURSIVE AllDeleteReflogSteps(_, _)
AllDeleteReflogSteps(edits, i) == IF i > Len(edits) THEN <<>> ELSE DeleteReflogSteps(edits, i) \o AllDeleteReflogSteps(edits, i + 1)
RECURSIVE AllUnlinkSteps(_, _, _)
AllUnlinkSteps(edits, i, mode) == IF i > Len(edits) THEN <<>> ELSE UnlinkSteps(edits, i, mode) \o AllUnlinkSteps(edits, i + 1, mode)

PackedAfter(S, edits, mode) ==
  [n \in Names |->
     LET es == { i \in 1..Len(edits) : edits[i].name = n /\ ~edits[i].logOnly } IN
     IF es = {} THEN S.packed[n]
     ELSE LET e == edits[CHOOSE i \in es : TRUE] IN
          IF e.op = "delete" THEN NoT
          ELSE IF IsObj(e.new) /\ mode # "DeletionsOnly" THEN e.new
          ELSE S.packed[n]]

CommitSteps(S, edits, mode) ==
  AllUpdateSteps(edits, 1, mode) \o AllDeleteReflogSteps(edits, 1)
  \o (IF PackedAfter(S, edits, mode) # S.packed THEN << [kind |-> "packed", name |-> "", val |-> NoT] >> ELSE <<>>)
  \o AllUnlinkSteps(edits, 1, mode)

StepEffect(S, st, edits, mode) ==
  CASE st.kind = "rename" -> [S EXCEPT !.loose[st.name] = st.val]
    [] st.kind = "unlink" -> [S EXCEPT !.loose[st.name] = NoT]
    [] st.kind = "packed" -> [S EXCEPT !.packed = PackedAfter(S, edits, mode)]
    [] OTHER -> S

RECURSIVE AfterSteps(_, _, _, _, _)
AfterSteps(S, steps, k, edits, mode) ==
  IF k = 0 THEN S ELSE StepEffect(AfterSteps(S, steps, k - 1, edits, mode), steps[k], edits, mode)

\* Crash consistency of the *design*: after any prefix of the mutations every name resolves to its old
\* or its new value, packed-refs is the complete old or the complete new map, and the full sequence
\* reaches the state ApplyTx predicts.
CrashConsistent(S, userEdits, mode) ==
  LET r == ApplyTx(S, userEdits, mode)
      steps == CommitSteps(S, r.edits, mode)
  IN r.verdict = "err" \/
     /\ \A k \in 0..Len(steps) :
          LET Sk == AfterSteps(S, steps, k, r.edits, mode) IN
          /\ \A n \in Names : Resolve(Sk, n) \in {Resolve(S, n), Resolve(r.S, n)}
          /\ Sk.packed \in {S.packed, r.S.packed}
     /\ View(AfterSteps(S, steps, Len(steps), r.edits, mode)) = View(r.S)

\* ---------------------------------------------------------------- C17: locks
\* every lock file prepare may try to take: packed-refs.lock and one <ref>.lock per (split) edit
PossibleLocks(S, userEdits) == {"packed-refs"} \cup { Preprocess(S, userEdits).edits[i].name : i \in 1..Len(Preprocess(S, userEdits).edits) }
=============================================================================
