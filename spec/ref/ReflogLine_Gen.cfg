SPECIFICATION Spec
CONSTANTS
  Wide = FALSE
INVARIANTS
  InvDomain
  InvRoundTrip
  Emit
CHECK_DEADLOCK FALSE
