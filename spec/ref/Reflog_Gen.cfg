SPECIFICATION Spec
CONSTANTS
  MaxLines = 3
  MaxLen = 5
  MaxB = 20
  Wide = FALSE
INVARIANTS
  InvSafe
  InvCorrect
  InvPrefix
  Emit
PROPERTY Terminates
CHECK_DEADLOCK FALSE
