----------------------------- MODULE RefIter_Gen -----------------------------
(* Design check + binding A for C18: every placement of the name universe into *)
(* loose files / packed records (with stale shadowed packed values), no loose   *)
(* directory/file conflicts.  TLC checks that the stream merge equals the       *)
(* specification and prints the expected iteration and lookups.                 *)
EXTENDS RefIter, Json
CONSTANTS Wide, Bug_DirOrder

H(s) == HEADS \o s
APB == <<97,43,98>>   \* a+b: '+' (0x2b) sorts below '/' as well
A == <<97>>  AMB == <<97,45,98>>  ADB == <<97,46,98>>  ASB == <<97,47,98>>  A0 == <<97,48>>  ASBSC == <<97,47,98,47,99>>
\* per name: allowed placements  "-" absent, "L" loose, "P" packed, "B" both (packed value stale)
Universe == << <<H(A), {"-","L","P","B"}>>, <<H(AMB), {"-","L","P"}>>, <<H(ADB), {"-","L"}>>, <<H(APB), {"-","L","B"}>>, <<H(ASB), {"-","L","P","B"}>>,
               <<H(A0), {"-","P"} \cup (IF Wide THEN {"L"} ELSE {})>>, <<H(ASBSC), {"-","L","P"}>>, <<TAGS \o A, {"-","L","P"}>> >>
      \o (IF Wide THEN << <<REMOTES \o A \o SLASH_HEAD, {"-","L"}>>, <<REFS \o A, {"-","L"}>> >> ELSE <<>>)
Shorts == { A, AMB, ASB, A0, ASBSC, HEADS \o A, <<104,101,97,100,115,47>> \o A, <<116,97,103,115,47>> \o A, <<98>> }
IterPrefixes == { REFS, HEADS, TAGS }

VARIABLES place, done
vars == <<place, done>>
Init == place = <<>> /\ done = FALSE
Choose == ~done /\ Len(place) < Len(Universe) /\ \E c \in Universe[Len(place) + 1][2] : place' = Append(place, c) /\ done' = FALSE
Finish == ~done /\ Len(place) = Len(Universe) /\ done' = TRUE /\ UNCHANGED place
Next == Choose \/ Finish
Spec == Init /\ [][Next]_vars

Loose == { [name |-> Universe[i][1], val |-> "o1"] : i \in { j \in 1..Len(place) : place[j] \in {"L","B"} } }
Packed == { [name |-> Universe[i][1], val |-> IF place[i] = "B" THEN "o2" ELSE "o1"] : i \in { j \in 1..Len(place) : place[j] \in {"P","B"} } }
\* no name is a directory prefix of another one: git never creates such stores (loose or packed)
NoLooseDF == \A a, b \in NamesOf(Loose) \cup NamesOf(Packed) : a # b => ~StartsWith(b, a \o <<47>>)

InvMerge == (done /\ NoLooseDF) =>
              IF Bug_DirOrder THEN Merge(DirWalkOrder(Loose), AsSortedSeq(Packed)) = Iterate(Loose, Packed, <<>>)
              ELSE MergeIsIterate(Loose, Packed)
Emit == (done /\ NoLooseDF) =>
  PrintT(<<"CASE", ToJson([loose |-> Loose, packed |-> Packed,
                            all |-> Iterate(Loose, Packed, <<>>),
                            prefixed |-> { [prefix |-> p, items |-> Iterate(Loose, Packed, p)] : p \in IterPrefixes },
                            find |-> { [short |-> s, hit |-> Find(Loose, Packed, s)] : s \in Shorts }])>>)
=============================================================================
