SPECIFICATION Spec
CONSTANTS
  Bisect = "branchless"
  Bug_NoCaretSkip = FALSE
INVARIANT Emit
CHECK_DEADLOCK FALSE
