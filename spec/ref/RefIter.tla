------------------------------- MODULE RefIter -------------------------------
(* C18.  What readers of a mixed loose / packed reference store must see.      *)
(*   loose, packed : sets of [name, val]  (name = byte sequence; each name at   *)
(*   most once per set; packed may hold stale values shadowed by loose ones)    *)
(* Iteration: every name once, ascending in the byte order of FULL names,       *)
(* loose value wins - the list `git for-each-ref` prints.                       *)
(* Lookup of a short name follows git's rule list (refs.c ref_rev_parse_rules). *)
EXTENDS Bytes, SequencesExt

NamesOf(S) == { e.name : e \in S }
ValueIn(S, n) == (CHOOSE e \in S : e.name = n).val

Resolve(loose, packed, n) ==
  IF n \in NamesOf(loose) THEN ValueIn(loose, n)
  ELSE IF n \in NamesOf(packed) THEN ValueIn(packed, n)
  ELSE "none"

\* ascending byte order of full names ("a-b" < "a.b" < "a/b" < "a0": '/' is just a byte)
SortNames(S) == SetToSortSeq(S, LAMBDA a, b : Less(a, b))

Iterate(loose, packed, prefix) ==
  LET names == { n \in NamesOf(loose) \cup NamesOf(packed) : StartsWith(n, prefix) }
      sorted == SortNames(names)
  IN [i \in 1..Len(sorted) |-> [name |-> sorted[i], val |-> Resolve(loose, packed, sorted[i])]]

\* the merge of two sorted streams as the implementation performs it (peek both, emit the
\* smaller, on equal names emit loose and drop packed); model-checked equal to Iterate
RECURSIVE Merge(_, _)
Merge(ls, ps) ==
  IF ls = <<>> THEN ps
  ELSE IF ps = <<>> THEN ls
  ELSE IF Less(ls[1].name, ps[1].name) THEN <<ls[1]>> \o Merge(Tail(ls), ps)
  ELSE IF Less(ps[1].name, ls[1].name) THEN <<ps[1]>> \o Merge(ls, Tail(ps))
  ELSE <<ls[1]>> \o Merge(Tail(ls), Tail(ps))
AsSortedSeq(S) == LET s == SortNames(NamesOf(S)) IN [i \in 1..Len(s) |-> [name |-> s[i], val |-> ValueIn(S, s[i])]]
MergeIsIterate(loose, packed) == Merge(AsSortedSeq(loose), AsSortedSeq(packed)) = Iterate(loose, packed, <<>>)

\* Bug_DirOrder: the loose stream in per-directory file-name order (a directory sorts as its bare
\* name, so "a/b" comes before "a-b"), as produced by a sorted directory walk
DirKey(n) == [i \in 1..Len(n) |-> IF n[i] = 47 THEN 0 ELSE n[i]]
DirWalkOrder(S) == LET s == SetToSortSeq(NamesOf(S), LAMBDA a, b : Less(DirKey(a), DirKey(b)))
                   IN [i \in 1..Len(s) |-> [name |-> s[i], val |-> ValueIn(S, s[i])]]

\* ---- short-name lookup
REFS == <<114,101,102,115,47>>                       \* "refs/"
TAGS == REFS \o <<116,97,103,115,47>>                \* "refs/tags/"
HEADS == REFS \o <<104,101,97,100,115,47>>           \* "refs/heads/"
REMOTES == REFS \o <<114,101,109,111,116,101,115,47>>  \* "refs/remotes/"
SLASH_HEAD == <<47,72,69,65,68>>                     \* "/HEAD"
Candidates(s) == << s, REFS \o s, TAGS \o s, HEADS \o s, REMOTES \o s, REMOTES \o s \o SLASH_HEAD >>

RECURSIVE FirstHit(_, _, _, _)
FirstHit(loose, packed, cands, i) ==
  IF i > Len(cands) THEN [name |-> <<>>, val |-> "none"]
  ELSE IF Resolve(loose, packed, cands[i]) # "none" THEN [name |-> cands[i], val |-> Resolve(loose, packed, cands[i])]
  ELSE FirstHit(loose, packed, cands, i + 1)
Find(loose, packed, short) == FirstHit(loose, packed, Candidates(short), 1)
=============================================================================
