SPECIFICATION Spec
CONSTANTS
  MaxToks = 4
  Wide = FALSE
INVARIANTS
  SanitiserContract
  Emit
CHECK_DEADLOCK FALSE
