SPECIFICATION Spec
CONSTANTS
  Bisect = "branchless"
  Bug_NoCaretSkip = FALSE
INVARIANT EventOk
CHECK_DEADLOCK FALSE
