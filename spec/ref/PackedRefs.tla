----------------------------- MODULE PackedRefs -----------------------------
(* C19.  The packed-refs file format at byte level, the linear scan that      *)
(* defines what a lookup must return, and (design level) a transcription of   *)
(* gix_ref::packed::Buffer's byte-wise binary search, which TLC checks        *)
(* against the scan in PackedRefs_Gen.                                        *)
(*                                                                            *)
(* Format (git refs/packed-backend.c; gitoxide additionally accepts CRLF line *)
(* ends, a documented leniency of its parser - git treats the CR as part of   *)
(* the name and ignores the ref as broken):                                   *)
(*   [ "# pack-refs with: " traits EOL ]                                      *)
(*   { hex SP refname EOL [ "^" hex EOL ] }          hex = 40 x [0-9a-f]      *)
(* (SHA-1 only: gix-hash at the pinned commit has no other hash kind, so a    *)
(* 64-digit id is unparseable for it; lines with more than 40 hex digits are  *)
(* outside the judged domain.)                                                *)
(* The trait `sorted` promises records ordered by refname bytes; without it   *)
(* the reader sorts.                                                          *)
EXTENDS RefName

LF == 10
CR == 13
SP == 32
CARET == 94
HASH == 35
HeaderPrefix == <<35,32,112,97,99,107,45,114,101,102,115,32,119,105,116,104,58,32>>   \* "# pack-refs with: "
SortedTrait == <<115,111,114,116,101,100>>                                            \* "sorted"
RefsSlash == <<114,101,102,115,47>>                                                   \* "refs/"
TagsSlash == <<116,97,103,115,47>>
HeadsSlash == <<104,101,97,100,115,47>>
RemotesSlash == <<114,101,109,111,116,101,115,47>>
WorktreeSlash == <<119,111,114,107,116,114,101,101,47>>                               \* "worktree/"
MainWorktreeSlash == <<109,97,105,110,45,119,111,114,107,116,114,101,101,47>>         \* "main-worktree/"
WorktreesSlash == <<119,111,114,107,116,114,101,101,115,47>>                          \* "worktrees/"

SX == INSTANCE SequencesExt        \* SelectInSeq / SelectLastInSeq are evaluated natively by TLC

IsHexLc(b) == IsDigit(b) \/ (b >= 97 /\ b <= 102)
HexLenOk(n) == n = 40

\* number of lower-case hex digits of l from index i on
HexRunFrom(l, i) ==
  LET r == SX!SelectInSeq(SubSeq(l, i, Len(l)), LAMBDA b : ~IsHexLc(b)) IN IF r = 0 THEN Len(l) - i + 1 ELSE r - 1

StripCR(l) == IF l # <<>> /\ l[Len(l)] = CR THEN SubSeq(l, 1, Len(l) - 1) ELSE l

NoRec == [ok |-> FALSE, name |-> <<>>, target |-> <<>>, peeled |-> <<>>]

\* a record line without its line end (CR already stripped)
RecLine(l) ==
  LET h == HexRunFrom(l, 1) IN
  IF HexLenOk(h) /\ Len(l) > h /\ l[h + 1] = SP /\ FullOk(SubSeq(l, h + 2, Len(l)))
  THEN [ok |-> TRUE, name |-> SubSeq(l, h + 2, Len(l)), target |-> SubSeq(l, 1, h), peeled |-> <<>>]
  ELSE NoRec

PeelLine(l) == l # <<>> /\ l[1] = CARET /\ HexLenOk(Len(l) - 1) /\ HexRunFrom(l, 2) = Len(l) - 1

\* the judged format has no hex run of more than 40 digits (a build with SHA-256 would read 41..64)
HexLenInDomain(l) ==
  LET h == HexRunFrom(l, IF l # <<>> /\ l[1] = CARET THEN 2 ELSE 1) IN h <= 40

(* ---------------------------------------------------------------- parsing *)
\* index of the first LF at or after i, 0 if none; of the last LF before i, 0 if none
NextLF(a, i) == LET r == SX!SelectInSeq(SubSeq(a, i, Len(a)), LAMBDA b : b = LF) IN IF r = 0 THEN 0 ELSE i - 1 + r
PrevLF(a, i) == SX!SelectLastInSeq(SubSeq(a, 1, i - 1), LAMBDA b : b = LF)

\* [lines: the LF-terminated lines from index i on, without LF and one trailing CR; rem: what follows the last LF]
RECURSIVE LinesFrom(_, _, _)
LinesFrom(a, i, acc) ==
  IF i > Len(a) THEN [lines |-> acc, rem |-> <<>>]
  ELSE LET e == NextLF(a, i) IN
       IF e = 0 THEN [lines |-> acc, rem |-> SubSeq(a, i, Len(a))]
       ELSE LinesFrom(a, e + 1, Append(acc, StripCR(SubSeq(a, i, e - 1))))

HasHeader(buf) == buf # <<>> /\ buf[1] = HASH
\* the first line when it is LF-terminated (CR stripped)
HeaderLine(buf) == StripCR(SubSeq(buf, 1, NextLF(buf, 1) - 1))
HeaderOk(buf) == /\ NextLF(buf, 1) # 0
                 /\ StartsWith(HeaderLine(buf), HeaderPrefix)
                 /\ ~HasByte(HeaderLine(buf), CR)
Traits(buf) == Split(Drop(HeaderLine(buf), Len(HeaderPrefix)), SP)
ClaimsSorted(buf) == HasHeader(buf) /\ HeaderOk(buf) /\ (LET t == Traits(buf) IN \E i \in 1..Len(t) : t[i] = SortedTrait)
HeaderFine(buf) == HasHeader(buf) => HeaderOk(buf)
\* the bytes after the header line
Body(buf) == IF HasHeader(buf) /\ HeaderOk(buf) THEN Drop(buf, NextLF(buf, 1)) ELSE buf
BodyLines(buf) == LinesFrom(Body(buf), 1, <<>>)

BadItem == [kind |-> "bad", name |-> <<>>, target |-> <<>>, peeled |-> <<>>]

RECURSIVE ItemsFrom(_, _, _)
ItemsFrom(ls, i, acc) ==
  IF i > Len(ls) THEN acc
  ELSE LET r == RecLine(ls[i]) IN
       IF r.ok
       THEN IF i < Len(ls) /\ PeelLine(ls[i + 1])
            THEN ItemsFrom(ls, i + 2, Append(acc, [kind |-> "rec", name |-> r.name, target |-> r.target,
                                                    peeled |-> Tail(ls[i + 1])]))
            ELSE ItemsFrom(ls, i + 1, Append(acc, [kind |-> "rec", name |-> r.name, target |-> r.target,
                                                    peeled |-> <<>>]))
       ELSE ItemsFrom(ls, i + 1, Append(acc, BadItem))

\* items of the body: records and unparseable lines, in file order (an unterminated last line is unparseable)
ItemsOf(bl) == LET its == ItemsFrom(bl.lines, 1, <<>>) IN IF bl.rem # <<>> THEN Append(its, BadItem) ELSE its
Items(buf) == ItemsOf(BodyLines(buf))

(* ------------------------------------------------------- the linear scan *)
NotFound == [found |-> FALSE, name |-> <<>>, target |-> <<>>, peeled |-> <<>>]
RECURSIVE ScanFrom(_, _, _)
ScanFrom(its, name, i) ==
  IF i > Len(its) THEN NotFound
  ELSE IF its[i].kind = "rec" /\ its[i].name = name
       THEN [found |-> TRUE, name |-> name, target |-> its[i].target, peeled |-> its[i].peeled]
       ELSE ScanFrom(its, name, i + 1)
ScanItems(its, name) == ScanFrom(its, name, 1)
Scan(buf, name) == ScanItems(Items(buf), name)

\* short names are tried as refs/<n>, refs/tags/<n>, refs/heads/<n>, refs/remotes/<n> (git's rev-parse rules)
LooksFull(n) == StartsWith(n, RefsSlash)
Candidates(n) == IF LooksFull(n) THEN <<n>>
                 ELSE <<RefsSlash \o n, RefsSlash \o TagsSlash \o n, RefsSlash \o HeadsSlash \o n, RefsSlash \o RemotesSlash \o n>>
RECURSIVE FirstHit(_, _, _)
FirstHit(its, cands, i) ==
  IF i > Len(cands) THEN NotFound
  ELSE LET r == ScanItems(its, cands[i]) IN IF r.found THEN r ELSE FirstHit(its, cands, i + 1)
FindItems(its, n) == FirstHit(its, Candidates(n), 1)
Find(buf, n) == FindItems(Items(buf), n)

\* queries the lookup is judged on: valid names; full names below refs/ except the per-worktree
\* refs/worktree/ (never looked up in packed-refs); short names that cannot be taken for full or pseudo refs
QueryInDomain(n) ==
  IF LooksFull(n) THEN FullOk(n) /\ ~StartsWith(n, RefsSlash \o WorktreeSlash)
  ELSE /\ PartialOk(n) /\ (\E i \in 1..Len(n) : IsLower(n[i]))
       /\ ~StartsWith(n, MainWorktreeSlash) /\ ~StartsWith(n, WorktreesSlash)

(* ---------------------------------------------------- judged domain, cleanliness *)
RecItems(its) == SelectSeq(its, LAMBDA x : x.kind = "rec")
StrictlyAscending(rs) == \A i \in 1..(Len(rs) - 1) : Less(rs[i].name, rs[i + 1].name)
UniqueNames(rs) == \A i, j \in 1..Len(rs) : i # j => rs[i].name # rs[j].name

NoBad(its) == \A i \in 1..Len(its) : its[i].kind = "rec"
CleanI(buf, its) == HeaderFine(buf) /\ NoBad(its)
Clean(buf) == CleanI(buf, Items(buf))
\* outside: duplicate names, a `sorted` promise that is broken, ids longer than 40 hex digits
InDomainI(buf, its) ==
  /\ LET ls == BodyLines(buf).lines IN \A i \in 1..Len(ls) : HexLenInDomain(ls[i])
  /\ (HeaderFine(buf) =>
        /\ UniqueNames(RecItems(its))
        /\ (ClaimsSorted(buf) => StrictlyAscending(RecItems(its))))
InDomain(buf) == InDomainI(buf, Items(buf))

\* What the property demands.  open: "ok" | "err" | "any";  per query: the scan's answer, exactly
\* ("exact") or possibly replaced by an error because the content is unparseable ("or_error").
OpenExpectI(buf, its) ==
  IF ~HeaderFine(buf) THEN "err"
  ELSE IF CleanI(buf, its) THEN "ok"
  ELSE IF ClaimsSorted(buf) THEN "any"        \* a sorted file is not read completely when opened
  ELSE "err"                                  \* the reader has to sort: it sees every line
OpenExpect(buf) == OpenExpectI(buf, Items(buf))

\* Judgement of one observed lookup result r = [kind : "found"|"none"|"err", name, target, peeled]
ResultOk(clean, its, q, r) ==
  LET want == FindItems(its, q) IN
  CASE r.kind = "found" -> want.found /\ r.name = want.name /\ r.target = want.target /\ r.peeled = want.peeled
    [] r.kind = "none"  -> ~want.found
    [] r.kind = "err"   -> ~clean
    [] OTHER -> FALSE

(* ------------------------------------------------ order of iteration (clean buffers) *)
RECURSIVE InsertByName(_, _)
InsertByName(sorted, x) ==
  IF sorted = <<>> THEN <<x>>
  ELSE IF Less(x.name, sorted[1].name) THEN <<x>> \o sorted
  ELSE <<sorted[1]>> \o InsertByName(Tail(sorted), x)
RECURSIVE SortByNameFrom(_, _, _)
SortByNameFrom(rs, i, acc) == IF i > Len(rs) THEN acc ELSE SortByNameFrom(rs, i + 1, InsertByName(acc, rs[i]))
\* stable for equal names is irrelevant: names are unique in the domain
IterExpectI(buf, its) == IF ClaimsSorted(buf) THEN RecItems(its) ELSE SortByNameFrom(RecItems(its), 1, <<>>)

(* ========================================================================= *)
(* Design level: transcription of Buffer::binary_search_by / try_find_full_name *)
(* over the byte array `a` (the body, or the re-serialised sorted records).   *)
(* Indices are 1-based here, 0-based in the Rust source.                      *)
CONSTANT Bisect,         \* "classic" (std before 1.82) | "branchless" (std since 1.82)
         Bug_NoCaretSkip \* self-test: the record start of a byte in a peeled line is that line itself

Serialize(rs) ==
  FlatSeq([i \in 1..Len(rs) |-> rs[i].target \o <<SP>> \o rs[i].name \o <<LF>> \o
                                 (IF rs[i].peeled = <<>> THEN <<>> ELSE <<CARET>> \o rs[i].peeled \o <<LF>>)])

\* last LF position before index i, from the set lfs of all LF positions of the buffer (0 if none)
PrevLFIn(lfs, i) == LET S == {k \in lfs : k < i} IN IF S = {} THEN 0 ELSE CHOOSE m \in S : \A k \in S : k <= m
LFSet(a) == {k \in 1..Len(a) : a[k] = LF}

\* search_start_of_record(ofs): start of the record whose bytes include index ofs
RecStart(a, lfs, ofs) ==
  LET pos == PrevLFIn(lfs, ofs) IN
  IF pos = 0 THEN 1
  ELSE IF pos + 1 > Len(a) THEN 1                                \* a.get(candidate) = None -> unwrap_or(0)
  ELSE IF a[pos + 1] = CARET /\ ~Bug_NoCaretSkip
       THEN (LET p2 == PrevLFIn(lfs, pos) IN IF p2 = 0 THEN 1 ELSE p2 + 1)
       ELSE pos + 1

\* decode::reference at index s
ParseAt(a, s) ==
  LET e == IF s > Len(a) THEN 0 ELSE NextLF(a, s) IN
  IF e = 0 THEN NoRec
  ELSE LET r == RecLine(StripCR(SubSeq(a, s, e - 1)))
           e2 == IF e + 1 > Len(a) THEN 0 ELSE NextLF(a, e + 1)
       IN IF ~r.ok THEN NoRec
          ELSE IF e2 # 0 /\ PeelLine(StripCR(SubSeq(a, e + 1, e2 - 1)))
               THEN [r EXCEPT !.peeled = Tail(StripCR(SubSeq(a, e + 1, e2 - 1)))]
               ELSE r

\* everything the search needs about the bytes it runs on, computed once per buffer:
\* the bytes, the LF positions, and line start -> ParseAt (every record parse the search can ask for)
SearchCtx(a) == LET lfs == LFSet(a) IN
  [a |-> a, lfs |-> lfs, pt |-> [s \in {1} \cup {k + 1 : k \in lfs} |-> ParseAt(a, s)]]

\* the record parse the binary search sees at byte i: its key is the record's name, or "" when it does not parse
Probe(cx, i) == cx.pt[RecStart(cx.a, cx.lfs, i)]

\* lexicographic byte comparison (= Bytes!Cmp) through the first differing index
CmpKey(x, y) ==
  LET n == Min2(Len(x), Len(y))
      d == SX!SelectInSeq([i \in 1..n |-> i], LAMBDA i : x[i] # y[i])
  IN IF d # 0 THEN (IF x[d] < y[d] THEN -1 ELSE 1)
     ELSE IF Len(x) < Len(y) THEN -1 ELSE IF Len(x) > Len(y) THEN 1 ELSE 0

\* state of the bisection: [res: "ok"|"err", pos, fail]
RECURSIVE Classic(_, _, _, _, _)
Classic(cx, key, left, right, fail) ==
  IF left >= right THEN [res |-> "err", pos |-> left, fail |-> fail]
  ELSE LET mid == left + (right - left) \div 2          \* 0-based index; byte a[mid + 1]
           r == Probe(cx, mid + 1)
           c == CmpKey(IF r.ok THEN r.name ELSE <<>>, key)
           f == fail \/ ~r.ok
       IN IF c < 0 THEN Classic(cx, key, mid + 1, right, f)
          ELSE IF c > 0 THEN Classic(cx, key, left, mid, f)
          ELSE [res |-> "ok", pos |-> mid, fail |-> f]

RECURSIVE Branchless(_, _, _, _, _)
Branchless(cx, key, base, size, fail) ==
  IF size > 1
  THEN LET half == size \div 2
           mid == base + half
           r == Probe(cx, mid + 1)
           c == CmpKey(IF r.ok THEN r.name ELSE <<>>, key)
       IN Branchless(cx, key, IF c > 0 THEN base ELSE mid, size - half, fail \/ ~r.ok)
  ELSE LET r == Probe(cx, base + 1)
           c == CmpKey(IF r.ok THEN r.name ELSE <<>>, key)
           f == fail \/ ~r.ok
       IN IF c = 0 THEN [res |-> "ok", pos |-> base, fail |-> f]
          ELSE [res |-> "err", pos |-> base + (IF c < 0 THEN 1 ELSE 0), fail |-> f]

BinSearch(cx, key) ==
  IF cx.a = <<>> THEN [res |-> "err", pos |-> 0, fail |-> FALSE]
  ELSE IF Bisect = "classic" THEN Classic(cx, key, 0, Len(cx.a), FALSE)
  ELSE Branchless(cx, key, 0, Len(cx.a), FALSE)

ImplErr == [kind |-> "err", name |-> <<>>, target |-> <<>>, peeled |-> <<>>]
ImplNone == [kind |-> "none", name |-> <<>>, target |-> <<>>, peeled |-> <<>>]

\* try_find_full_name
ImplFindFull(cx, key) ==
  LET b == BinSearch(cx, key) IN
  IF b.res = "ok"
  THEN LET r == Probe(cx, b.pos + 1) IN
       IF r.ok THEN [kind |-> "found", name |-> r.name, target |-> r.target, peeled |-> r.peeled] ELSE ImplErr
  ELSE IF b.fail THEN ImplErr ELSE ImplNone

\* try_find: the candidates in turn, the first answer other than "none" wins
RECURSIVE ImplFirst(_, _, _)
ImplFirst(cx, cands, i) ==
  IF i > Len(cands) THEN ImplNone
  ELSE LET r == ImplFindFull(cx, cands[i]) IN IF r.kind = "none" THEN ImplFirst(cx, cands, i + 1) ELSE r
ImplFind(cx, q) == ImplFirst(cx, Candidates(q), 1)

\* the bytes the search runs on: the body as it is when `sorted` is promised, else the sorted re-serialisation
SearchBytes(buf, its) == IF ClaimsSorted(buf) THEN Body(buf) ELSE Serialize(SortByNameFrom(RecItems(its), 1, <<>>))
ImplOpens(buf, its) == HeaderFine(buf) /\ (ClaimsSorted(buf) \/ NoBad(its))
=============================================================================
