--------------------------- MODULE ReflogLine_Gen ---------------------------
(* C21, first sentence, binding A: entries from small alphabets of every      *)
(* field; the specification prints the line git's grammar demands for each    *)
(* (with the TAB always written, as Line::write_to does, and without it for   *)
(* an empty message, as git and the transaction writer do).  The same run     *)
(* checks the design-level round-trip law of the grammar on every entry.      *)
EXTENDS Reflog, Json, TLC
CONSTANT Wide

Zeros == [i \in 1..40 |-> 48]
Hex(a) == [i \in 1..40 |-> HexDigit((a + i * 7) % 16)]
Oids == {Zeros, Hex(1)}
Names == { <<65>>, <<65, 32, 66>>, <<195, 169, 46>> } \cup (IF Wide THEN { <<34, 120, 32, 32, 66, 46>> } ELSE {})
Emails == { <<>>, <<97, 64, 120>> }
Secs == { <<48>>, <<57, 57, 57, 57, 57, 57, 57, 57, 57, 57, 57>> } \cup (IF Wide THEN {} ELSE { <<49, 55, 48, 48, 48, 48, 48, 48, 48, 48>> })
Tzs == { <<43, 48, 48, 48, 48>>, <<45, 48, 48, 48, 48>>, <<43, 48, 49, 51, 48>>, <<45, 49, 50, 48, 48>> }
\*        +0000                     -0000                     +0130                     -1200
MsgTok == { <<109>>, <<32>>, <<9>>, <<58, 32>>, <<13>>, <<255>> } \cup (IF Wide THEN { <<62>>, <<60>>, <<195, 169>> } ELSE {})
\*           m        SP      TAB    ": "        CR      0xff                         >       <       e-acute
MaxMsg == IF Wide THEN 3 ELSE 2

VARIABLES e, toks, done
vars == <<e, toks, done>>
Init == /\ e \in [old : Oids, new : {Hex(5)}, name : Names, email : Emails, secs : Secs, tz : Tzs]
        /\ toks = <<>> /\ done = FALSE
Extend == ~done /\ Len(toks) < MaxMsg /\ \E t \in MsgTok : toks' = Append(toks, t) /\ UNCHANGED <<e, done>>
Finish == ~done /\ done' = TRUE /\ UNCHANGED <<e, toks>>
Next == Extend \/ Finish
Spec == Init /\ [][Next]_vars

Entry == [old |-> e.old, new |-> e.new, name |-> e.name, email |-> e.email, secs |-> e.secs, tz |-> e.tz,
          msg |-> FlatSeq(toks)]

InvDomain == done => EntryOk(Entry)
InvRoundTrip == done => LineRoundTrip(Entry)
Emit == done => PrintT(<<"CASE", ToJson([entry |-> Entry, offset |-> TzOffset(Entry.tz),
                                          line_tab |-> FormatLine(Entry, TRUE) \o <<NL>>,
                                          line |-> FormatLine(Entry, FALSE) \o <<NL>>])>>)
=============================================================================
