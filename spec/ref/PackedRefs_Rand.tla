--------------------------- MODULE PackedRefs_Rand ---------------------------
(* The specification as reference reader of buffers supplied by the driver    *)
(* (seeded random buffers, files written by `git pack-refs`): for each line   *)
(* [buf, queries] of the file named by TRACE it prints what a linear scan     *)
(* finds, to be compared with gitoxide (binding A) and with git (binding C).  *)
EXTENDS PackedRefs, TraceIO

VARIABLE l
Init == l = 1
Next == l <= NRec /\ l' = l + 1
Spec == Init /\ [][Next]_l

Emit == l <= NRec =>
  LET b == Rec[l].buf
      qs == Rec[l].queries
      its == Items(b)
      clean == CleanI(b, its)
  IN PrintT(<<"CASE", ToJson([n        |-> l,
                              indomain |-> InDomainI(b, its),
                              clean    |-> clean,
                              sorted   |-> ClaimsSorted(b),
                              open     |-> OpenExpectI(b, its),
                              nitems   |-> Len(its),
                              iter     |-> IF clean THEN IterExpectI(b, its) ELSE <<>>,
                              queries  |-> [i \in 1..Len(qs) |->
                                              [q |-> qs[i].q, indomain |-> QueryInDomain(qs[i].q),
                                               want |-> FindItems(its, qs[i].q)]]])>>)
=============================================================================
