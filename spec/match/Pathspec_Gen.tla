----------------------------- MODULE Pathspec_Gen -----------------------------
(* Binding A for C39.                                                          *)
(*  Mode "select": every list of <= MaxSpecs pathspecs from the token alphabet *)
(*   against each of the two worlds (index path sets that are free of          *)
(*   directory/file conflicts, with attribute states); prints which paths      *)
(*   `git ls-files -- <specs>` selects according to the specification.         *)
(*  Mode "parse": every string of <= MaxToks parse tokens with git's verdict   *)
(*   and the parsed fields.                                                    *)
EXTENDS Pathspec, Json, TLC
CONSTANTS Mode, MaxSpecs, MaxToks, Wide

X == <<120>>   \* attribute name "x"
V == <<118>>   \* value "v"
St(kind, val) == << [name |-> X, kind |-> kind, val |-> val] >>
P(path, st) == [path |-> path, attrs |-> st]

\* world 1: "a" is a file; world 2: "a" is a directory
World1 == << P(<<65>>, <<>>), P(<<97>>, St("set", <<>>)), P(<<97,98>>, St("value", V)), P(<<98>>, <<>>),
             P(<<100,47,97>>, St("set", <<>>)), P(<<100,47,97,98>>, St("unset", <<>>)) >>
\*           A               a (x)                   ab (x=v)                       b
\*           d/a (x)                                 d/ab (-x)
World2 == << P(<<65>>, <<>>), P(<<97,47,66>>, <<>>), P(<<97,47,98>>, St("unset", <<>>)), P(<<97,47,98,99>>, St("set", <<>>)),
             P(<<97,98>>, St("value", V)), P(<<100,47,97>>, St("set", <<>>)) >>
\*           A               a/B               a/b (-x)                        a/bc (x)
\*           ab (x=v)                          d/a (x)
Worlds == << World1, World2 >>

SpecQuick == {
  <<97>>,                                              \* a
  <<97,47>>,                                           \* a/
  <<97,47,98>>,                                        \* a/b
  <<97,42>>,                                           \* a*
  <<42,98>>,                                           \* *b
  <<58,40,103,108,111,98,41,97,42>>,                   \* :(glob)a*
  <<58,40,103,108,111,98,41,42,42,47,97>>,             \* :(glob)**/a
  <<58,40,108,105,116,101,114,97,108,41,97,42>>,       \* :(literal)a*
  <<58,40,105,99,97,115,101,41,65>>,                   \* :(icase)A
  <<58,40,105,99,97,115,101,41,97,47,66>>,             \* :(icase)a/B
  <<58,33,97,47,98>>,                                  \* :!a/b
  <<58,94,97,42>>,                                     \* :^a*
  <<58,47,97>>,                                        \* :/a
  <<58,40,97,116,116,114,58,120,41>>,                  \* :(attr:x)
  <<58,40,97,116,116,114,58,45,120,41,97>>,            \* :(attr:-x)a
  <<63>>,                                              \* ?
  <<100>>,                                             \* d
  <<97,47,98,47>>,                                     \* a/b/
  <<58,40,103,108,111,98,41,97,47,42>>,                \* :(glob)a/*
  <<58,40,101,120,99,108,117,100,101,41>>,             \* :(exclude)
  <<58,40,105,99,97,115,101,41,97,42>>,                \* :(icase)a*
  <<58,40,97,116,116,114,58,33,120,41>>                \* :(attr:!x)
}
SpecWide == SpecQuick \cup {
  <<91,97,98,93>>,                                     \* [ab]
  <<42>>,                                              \* *
  <<58,40,97,116,116,114,58,120,61,118,41>>,           \* :(attr:x=v)
  <<58,40,116,111,112,44,101,120,99,108,117,100,101,44,105,99,97,115,101,41,65,66>>,   \* :(top,exclude,icase)AB
  <<97,47,42>>,                                        \* a/*
  <<58,40,101,120,99,108,117,100,101,44,103,108,111,98,41,42,47,98>>,                  \* :(exclude,glob)*/b
  <<97,47,42,42>>,                                     \* a/**
  <<58,40,103,108,111,98,41,97,47,42,42>>,             \* :(glob)a/**
  <<58>>,                                              \* :
  <<97,63>>,                                           \* a?
  <<58,40,108,105,116,101,114,97,108,44,105,99,97,115,101,41,65,47,66>>,               \* :(literal,icase)A/B
  <<92,97>>,                                           \* \a
  <<58,33,40,108,105,116,101,114,97,108,41,97>>,       \* :!(literal)a
  <<58,40,103,108,111,98,41,42,42>>                    \* :(glob)**
}
SpecTok == IF Wide THEN SpecWide ELSE SpecQuick

ParseTokQuick == { <<58>>, <<40>>, <<41>>, <<44>>, <<33>>, <<94>>, <<47>>, KwTop, KwGlob, KwLiteral, KwIcase, KwExclude,
                   KwAttrColon \o X, <<97>>, <<42>> }
\*                  :       (       )       ,       !       ^       /
ParseTokWide == ParseTokQuick \cup { <<45>>, KwAttr, <<64>>, <<32>>, <<61>>, X }
ParseTok == IF Wide THEN ParseTokWide ELSE ParseTokQuick

VARIABLES specs, w, done
vars == <<specs, w, done>>

Init == specs = <<>> /\ done = FALSE /\ w \in (IF Mode = "select" THEN 1..Len(Worlds) ELSE {0})
Extend == /\ ~done
          /\ Len(specs) < (IF Mode = "select" THEN MaxSpecs ELSE MaxToks)
          /\ \E t \in (IF Mode = "select" THEN SpecTok ELSE ParseTok) : specs' = Append(specs, t)
          /\ UNCHANGED <<w, done>>
Finish == ~done /\ specs # <<>> /\ done' = TRUE /\ UNCHANGED <<specs, w>>
Next == Extend \/ Finish
Spec == Init /\ [][Next]_vars

\* every selection token is valid for git and inside the judged domain
TokensValid == Mode = "select" => \A t \in SpecTok : Parse(t).ok /\ SpecInDomain(t)

\* design-level statements about selection
ExcludeOnlyShrinks == (done /\ Mode = "select") =>
  LET items == ParseAll(specs)
      pos == SelectSeq(items, LAMBDA it : ~it.m.exclude) IN
  \A k \in 1..Len(Worlds[w]) :
     Selected(items, Worlds[w][k].path, Worlds[w][k].attrs) =>
        (pos = <<>> \/ Selected(pos, Worlds[w][k].path, Worlds[w][k].attrs))
OrderIrrelevant == (done /\ Mode = "select" /\ Len(specs) = 2) =>
  \A k \in 1..Len(Worlds[w]) :
     Selected(ParseAll(specs), Worlds[w][k].path, Worlds[w][k].attrs)
       = Selected(ParseAll(<<specs[2], specs[1]>>), Worlds[w][k].path, Worlds[w][k].attrs)

MagicJson(p) == [top |-> p.m.top, icase |-> p.m.icase, exclude |-> p.m.exclude, literal |-> p.m.literal, glob |-> p.m.glob,
                 attrs |-> p.m.attrs, match |-> p.match]

Emit == done =>
  IF Mode = "select"
  THEN LET items == ParseAll(specs)
           W == Worlds[w] IN
       PrintT(<<"CASE", ToJson([op |-> "select", specs |-> specs, world |-> w,
                                paths |-> [k \in 1..Len(W) |-> W[k].path],
                                attrs |-> [k \in 1..Len(W) |-> W[k].attrs],
                                selected |-> [k \in 1..Len(W) |-> Selected(items, W[k].path, W[k].attrs)],
                                defined |-> GitWellDefined(items),
                                shapes |-> Shapes(specs, <<>>)])>>)
  ELSE LET s == FlatSeq(specs)
           p == Parse(s) IN
       PrintT(<<"CASE", ToJson([op |-> "parse", input |-> s, gitok |-> p.ok, indomain |-> SpecInDomain(s),
                                parsed |-> MagicJson(p)])>>)
=============================================================================
