------------------------------ MODULE Attr_Trace ------------------------------
(* Bindings B and C for C38.  One event = one world, one case mode, all queries: *)
(*   [k, srcs, queries : <<[p, d]>>, icase, r : << <<[n, st, v]>> >>]             *)
(*   r[q] lists the attributes of query q that are not unspecified, any order.  *)
(*   k = "gix": what gix_worktree::Stack answered (judged inside the domain)     *)
(*   k = "git": what `git check-attr -a` answered on the materialised world     *)
(*              (must equal the specification, otherwise: tool error)            *)
EXTENDS Attr, TraceIO

VARIABLE l
Init == l = 1
Next == l <= NRec /\ l' = l + 1
Spec == Init /\ [][Next]_l

AsSet(s) == { [n |-> s[i].n, st |-> s[i].st, v |-> s[i].v] : i \in 1..Len(s) }
NoDup(s) == \A i, j \in 1..Len(s) : s[i].n = s[j].n => i = j

Judge(e) ==
  LET pl == ParsedAttrFiles(e.srcs) IN
  \A q \in 1..Len(e.queries) :
    (e.k = "gix" => InDomainA(e.srcs, e.queries[q].p)) =>
      /\ NoDup(e.r[q])
      /\ AsSet(e.r[q]) = AttrsOfP(e.srcs, pl, e.queries[q].p, e.queries[q].d, e.icase)

EventOk == l <= NRec => (Judge(Rec[l]) \/ PrintT(<<"REJECT", l>>))
=============================================================================
