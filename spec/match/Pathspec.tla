------------------------------- MODULE Pathspec -------------------------------
(* C39.  git's pathspecs: parsing of one element (pathspec.c: parse_element_magic, *)
(* parse_short_magic, parse_long_magic, init_pathspec_item) and the selection of *)
(* index paths by a pathspec list (dir.c: match_pathspec_item, git_fnmatch,      *)
(* do_match_pathspec, match_pathspec_with_flags; parse_pathspec's implicit       *)
(* match-all item when every element is an exclusion), as `git ls-files --       *)
(* <pathspec>...` run from the top of the worktree applies them to files.        *)
(* wildmatch itself is module Wildmatch (same directory).                        *)
(*                                                                             *)
(* The attribute state of a path (for the `attr:` magic) is data of the world:   *)
(* a sequence of [name, kind, val] with kind "set", "unset" or "value" (absent   *)
(* name: "unspecified"), as `git check-attr` reports it.                        *)
EXTENDS Bytes
WM == INSTANCE Wildmatch       \* namespaced, so that the two modules can evolve independently

STAR == 42  SLASH == 47  BANG == 33  CARET == 94  DASH == 45  COLON == 58
IsGlobSpecial(c) == WM!IsGlobSpecial(c)                  \* * ? [ \
WildMatch(p, t, pathname, casefold) == WM!WildMatch(p, t, pathname, casefold)

LPAR == 40  RPAR == 41  COMMA == 44  EQUALS == 61  SPACE == 32

\* GIT_PATHSPEC_MAGIC of git's ctype table:  ! " # % & ' , - / : ; < = > @ _ ` ~
IsMagicByte(c) == c \in {33, 34, 35, 37, 38, 39, 44, 45, 47, 58, 59, 60, 61, 62, 64, 95, 96, 126}

KwTop     == <<116,111,112>>
KwLiteral == <<108,105,116,101,114,97,108>>
KwGlob    == <<103,108,111,98>>
KwIcase   == <<105,99,97,115,101>>
KwExclude == <<101,120,99,108,117,100,101>>
KwAttr    == <<97,116,116,114>>
KwAttrColon == <<97,116,116,114,58>>

NoMagic == [top |-> FALSE, icase |-> FALSE, exclude |-> FALSE, literal |-> FALSE, glob |-> FALSE,
            attrs |-> <<>>, nattr |-> 0]
Bad == [ok |-> FALSE, m |-> NoMagic, rest |-> <<>>]

\* one requirement of attr:..., from a blank-separated word
AttrReq(w) ==
  IF w[1] = BANG THEN [name |-> Tail(w), kind |-> "unspecified", val |-> <<>>]
  ELSE IF w[1] = DASH THEN [name |-> Tail(w), kind |-> "unset", val |-> <<>>]
  ELSE IF HasByte(w, EQUALS)
       THEN [name |-> SubSeq(w, 1, FindByte(w, EQUALS) - 1), kind |-> "value", val |-> Drop(w, FindByte(w, EQUALS))]
  ELSE [name |-> w, kind |-> "set", val |-> <<>>]
RECURSIVE NonEmptyWords(_)
NonEmptyWords(ws) == IF ws = <<>> THEN <<>>
                     ELSE (IF Head(ws) = <<>> THEN <<>> ELSE <<Head(ws)>>) \o NonEmptyWords(Tail(ws))
AttrReqs(v) == LET ws == NonEmptyWords(Split(v, SPACE)) IN [i \in 1..Len(ws) |-> AttrReq(ws[i])]
\* attribute names git accepts here: letters, digits, '_', '-', '.', not starting with '-'
AttrNameOk(n) == n # <<>> /\ n[1] # DASH /\ \A i \in 1..Len(n) : IsAlnum(n[i]) \/ n[i] \in {95, 45, 46}
AttrValueOk(v) == \A i \in 1..Len(v) : IsAlnum(v[i]) \/ v[i] \in {95, 45, 44}

\* parse_long_magic on the keywords between ":(" and ")" (no backslash escapes in the judged domain)
RECURSIVE LongFrom(_, _, _)
LongFrom(kws, i, m) ==
  IF i > Len(kws) THEN [ok |-> TRUE, m |-> m]
  ELSE LET k == kws[i] IN
    IF k = <<>> THEN LongFrom(kws, i + 1, m)
    ELSE IF k = KwTop THEN LongFrom(kws, i + 1, [m EXCEPT !.top = TRUE])
    ELSE IF k = KwLiteral THEN LongFrom(kws, i + 1, [m EXCEPT !.literal = TRUE])
    ELSE IF k = KwGlob THEN LongFrom(kws, i + 1, [m EXCEPT !.glob = TRUE])
    ELSE IF k = KwIcase THEN LongFrom(kws, i + 1, [m EXCEPT !.icase = TRUE])
    ELSE IF k = KwExclude THEN LongFrom(kws, i + 1, [m EXCEPT !.exclude = TRUE])
    ELSE IF StartsWith(k, KwAttrColon)
         THEN LET rs == AttrReqs(Drop(k, 5)) IN
              IF m.nattr > 0 \/ rs = <<>>
                 \/ \E j \in 1..Len(rs) : ~AttrNameOk(rs[j].name) \/ ~AttrValueOk(rs[j].val)
                                          \/ (rs[j].kind = "value" /\ rs[j].val = <<>>)
              THEN [ok |-> FALSE, m |-> m]
              ELSE LongFrom(kws, i + 1, [m EXCEPT !.attrs = rs, !.nattr = 1])
    ELSE [ok |-> FALSE, m |-> m]

\* parse_short_magic: position after the magic, or 0 for "Unimplemented pathspec magic"
RECURSIVE ShortFrom(_, _, _)
ShortFrom(s, pos, m) ==
  IF pos > Len(s) THEN [ok |-> TRUE, m |-> m, rest |-> <<>>]
  ELSE LET ch == s[pos] IN
    IF ch = COLON THEN [ok |-> TRUE, m |-> m, rest |-> Drop(s, pos)]
    ELSE IF ch = CARET THEN ShortFrom(s, pos + 1, [m EXCEPT !.exclude = TRUE])
    ELSE IF ~IsMagicByte(ch) THEN [ok |-> TRUE, m |-> m, rest |-> Drop(s, pos - 1)]
    ELSE IF ch = SLASH THEN ShortFrom(s, pos + 1, [m EXCEPT !.top = TRUE])
    ELSE IF ch = BANG THEN ShortFrom(s, pos + 1, [m EXCEPT !.exclude = TRUE])
    ELSE Bad

Magic(s) ==
  IF s = <<>> \/ s[1] # COLON THEN [ok |-> TRUE, m |-> NoMagic, rest |-> s]
  ELSE IF Len(s) >= 2 /\ s[2] = LPAR
    THEN LET close == FindByte(s, RPAR) IN
         IF close = 0 THEN Bad
         ELSE LET r == LongFrom(Split(SubSeq(s, 3, close - 1), COMMA), 1, NoMagic) IN
              IF r.ok THEN [ok |-> TRUE, m |-> r.m, rest |-> Drop(s, close)] ELSE Bad
  ELSE ShortFrom(s, 2, NoMagic)

\* first glob special of the match string (simple_length), Len + 1 if none
RECURSIVE FirstSpecialFrom(_, _)
FirstSpecialFrom(s, i) == IF i > Len(s) THEN i ELSE IF IsGlobSpecial(s[i]) THEN i ELSE FirstSpecialFrom(s, i + 1)
NoWildcard(s) == FirstSpecialFrom(s, 1) > Len(s)

(* init_pathspec_item for one element, run from the top of the worktree (empty prefix, the element *)
(* is already normalised: no "./", "../", "//").  nwl = nowildcard_len.                           *)
Parse(s) ==
  LET mg == Magic(s) IN
  IF s = <<>> \/ ~mg.ok \/ (mg.m.literal /\ mg.m.glob) THEN [ok |-> FALSE, m |-> NoMagic, match |-> <<>>, nwl |-> 0, onestar |-> FALSE]
  ELSE LET match == mg.rest
           nwl == IF mg.m.literal THEN Len(match) ELSE FirstSpecialFrom(match, 1) - 1 IN
       [ok |-> TRUE, m |-> mg.m, match |-> match, nwl |-> nwl,
        onestar |-> ~mg.m.glob /\ nwl < Len(match) /\ match[nwl + 1] = STAR /\ NoWildcard(Drop(match, nwl + 1))]

\* the text judged: elements whose path part needs no normalisation and no escapes inside the magic
RECURSIVE NoDotComponent(_)
NoDotComponent(cs) == cs = <<>> \/ (Head(cs) \notin {<<46>>, <<46, 46>>} /\ NoDotComponent(Tail(cs)))
Normalised(match) ==
  /\ (match # <<>> => match[1] # SLASH)
  /\ ~Contains(match, <<SLASH, SLASH>>)
  /\ NoDotComponent(Split(match, SLASH))
SpecInDomain(s) == ~HasByte(s, 0) /\ (Parse(s).ok => Normalised(Parse(s).match))

---------------------------------------------------------------------------
(* Matching one item against one path (a file: flags = 0, prefix = 0).        *)
\* ps_strncmp(item, a, b, n) == 0 on the first n bytes of C strings a and b
PsPrefixEq(icase, a, b, n) ==
  /\ Len(a) >= n /\ Len(b) >= n
  /\ IF icase THEN LowerSeq(SubSeq(a, 1, n)) = LowerSeq(SubSeq(b, 1, n)) ELSE SubSeq(a, 1, n) = SubSeq(b, 1, n)

\* match_pathspec_attrs: every requirement holds of the path's attribute states
AttrOk(reqs, st) ==
  \A i \in 1..Len(reqs) :
    LET S == {j \in 1..Len(st) : st[j].name = reqs[i].name}
        have == IF S = {} THEN [kind |-> "unspecified", val |-> <<>>]
                ELSE LET j == CHOOSE j \in S : TRUE IN [kind |-> st[j].kind, val |-> st[j].val] IN
    have.kind = reqs[i].kind /\ (have.kind = "value" => have.val = reqs[i].val)

\* git_fnmatch(item, match, name, nowildcard_len) == 0
FnMatch(it, name) ==
  /\ PsPrefixEq(it.m.icase, it.match, name, it.nwl)
  /\ LET pat == Drop(it.match, it.nwl)
         str == Drop(name, it.nwl) IN
     IF it.onestar
     THEN LET suf == Tail(pat) IN
          Len(str) >= Len(suf) /\ PsPrefixEq(it.m.icase, suf, Drop(str, Len(str) - Len(suf)), Len(suf))
     ELSE WildMatch(pat, str, it.m.glob, it.m.icase)

ItemMatches(it, name, st) ==
  /\ AttrOk(it.m.attrs, st)
  /\ \/ it.match = <<>>                                                  \* "the match was just the prefix"
     \/ /\ Len(it.match) <= Len(name)
        /\ PsPrefixEq(it.m.icase, it.match, name, Len(it.match))
        /\ \/ Len(it.match) = Len(name)                                  \* MATCHED_EXACTLY
           \/ it.match[Len(it.match)] = SLASH \/ name[Len(it.match) + 1] = SLASH   \* MATCHED_RECURSIVELY
     \/ it.nwl < Len(it.match) /\ FnMatch(it, name)                       \* MATCHED_FNMATCH

(* match_pathspec: some non-excluding item matches and no excluding item does; when every element   *)
(* of the list is an exclusion, parse_pathspec adds an item that matches everything.                *)
Selected(items, name, st) ==
  LET pos == {i \in 1..Len(items) : ~items[i].m.exclude}
      neg == {i \in 1..Len(items) : items[i].m.exclude} IN
  /\ (pos = {} \/ \E i \in pos : ItemMatches(items[i], name, st))
  /\ ~\E i \in neg : ItemMatches(items[i], name, st)

(* `git ls-files` skips the common leading directory of the non-excluding items (dir.c:               *)
(* common_prefix_len) in the path AND in every item without checking that an excluding item has it:  *)
(* `git ls-files -- a/b ':!d/b'` lists nothing, `... a/b ':(exclude)'` lists a/b (git 2.39.5).        *)
(* Lists with an excluding item that does not start with that directory are outside the judged       *)
(* domain: git's answer there is an artefact of reading the item at the wrong offset.                *)
RECURSIVE CpScan(_, _, _, _, _, _)
CpScan(it, first, limit, bounded, i, len) ==         \* the while loop of common_prefix_len; i counts from 0
  IF i < limit /\ (~bounded.on \/ i < bounded.max)
     /\ i + 1 <= Len(it.match) /\ i + 1 <= Len(first.match) /\ it.match[i + 1] = first.match[i + 1]
  THEN CpScan(it, first, limit, bounded, i + 1, IF it.match[i + 1] = SLASH THEN i + 1 ELSE len)
  ELSE len
RECURSIVE CpFrom(_, _, _)
CpFrom(items, n, max) ==
  IF n > Len(items) THEN max
  ELSE IF items[n].m.exclude THEN CpFrom(items, n + 1, max)
  ELSE LET limit == IF items[n].m.icase THEN 0 ELSE items[n].nwl
           len == CpScan(items[n], items[1], limit, [on |-> n # 1, max |-> max], 0, 0) IN
       IF n = 1 \/ len < max THEN (IF len = 0 THEN 0 ELSE CpFrom(items, n + 1, len))
       ELSE CpFrom(items, n + 1, max)
CommonPrefixLen(items) == IF items = <<>> THEN 0 ELSE CpFrom(items, 1, 0)
(* git 2.39 also looks the attributes of `attr:` items up under the path with that directory cut off   *)
(* (`git ls-files -- ':(attr:x)d/'` lists nothing although d/a has x, `':(attr:x)d'` lists it): lists  *)
(* with an attr item and a non-empty common directory are outside the judged domain as well.          *)
GitWellDefined(items) ==
  LET cp == CommonPrefixLen(items) IN
  /\ \A k \in 1..Len(items) :
       items[k].m.exclude => Len(items[k].match) >= cp /\ SubSeq(items[k].match, 1, cp) = SubSeq(items[1].match, 1, cp)
  /\ (cp > 0 => \A k \in 1..Len(items) : items[k].m.attrs = <<>>)

ParseAll(specs) == [k \in 1..Len(specs) |-> Parse(specs[k])]
AllOk(specs) == /\ \A k \in 1..Len(specs) : Parse(specs[k]).ok /\ SpecInDomain(specs[k])
                /\ GitWellDefined(ParseAll(specs))

---------------------------------------------------------------------------
(* Shapes of inputs, used to label cases (never to decide them).             *)
Shapes(specs, name) ==
  LET ps == ParseAll(specs) IN
  [ exclude  |-> \E k \in 1..Len(ps) : ps[k].m.exclude,
    icase    |-> \E k \in 1..Len(ps) : ps[k].m.icase,
    attr     |-> \E k \in 1..Len(ps) : ps[k].m.attrs # <<>>,
    attrunspecified |-> \E k \in 1..Len(ps) : \E j \in 1..Len(ps[k].m.attrs) : ps[k].m.attrs[j].kind = "unspecified",
    wildcard |-> \E k \in 1..Len(ps) : ps[k].nwl < Len(ps[k].match),
    literal  |-> \E k \in 1..Len(ps) : ps[k].m.literal,
    glob     |-> \E k \in 1..Len(ps) : ps[k].m.glob,
    dirslash |-> \E k \in 1..Len(ps) : ps[k].match # <<>> /\ ps[k].match[Len(ps[k].match)] = SLASH,
    multi    |-> Len(ps) > 1,
    \* short magic directly followed by '(' : git takes "(..." as the path
    shortparen |-> \E k \in 1..Len(specs) :
                     /\ Len(specs[k]) >= 3 /\ specs[k][1] = COLON /\ specs[k][2] # LPAR
                     /\ ps[k].ok /\ ps[k].match # <<>> /\ ps[k].match[1] = LPAR ]
=============================================================================
