--------------------------- MODULE Wildmatch_Trace ---------------------------
(* Bindings B and C for C36: TLC is the reference interpreter.                 *)
(* One event: [k, p, t : bytes, r : sequence of 0/1]                           *)
(*   k = "wm"  observation of gitoxide: r = <<r00, r01, r10, r11>>,            *)
(*             r<pn><cf> = gix_glob::wildmatch(p, t, mode) (or Pattern::matches *)
(*             of the parsed pattern text p).  Judged inside InDomain only.    *)
(*   k = "gb"  observation of the installed git: `git check-ignore` with the   *)
(*             single basename pattern line p, path t (no '/' in either):      *)
(*             r = <<cf=0, cf=1>> (core.ignoreCase off / on).  dir.c           *)
(*             match_basename calls wildmatch(p, t, 0 | WM_CASEFOLD).          *)
(*   k = "gx"  observation of git: single pattern line [x]/p, path x/t,        *)
(*             r = <<cf=0, cf=1>>.  dir.c match_pathname calls                 *)
(*             wildmatch(.., WM_PATHNAME | WM_CASEFOLD) after asking the same  *)
(*             for every leading directory of the path (IgnoredUnderX).        *)
(* A rejected "wm" event is a disagreement of gitoxide with the specification, *)
(* a rejected "gb"/"gx" event means the transcription is wrong (tool error).   *)
EXTENDS Wildmatch, TraceIO

VARIABLE l
Init == l = 1
Next == l <= NRec /\ l' = l + 1
Spec == Init /\ [][Next]_l

B(x) == IF x THEN 1 ELSE 0

\* What `git check-ignore --no-index x/<t>` answers when the only pattern line is [x]/<p>:
\* dir.c asks for every leading directory of the path, top down, and then for the path itself,
\* whether the pattern matches it; the first hit decides.  The [x]/ head keeps the pattern free
\* of a literal prefix (which dir.c would compare and cut off before calling wildmatch) and
\* leaves the rest of the pattern "after a slash", as at the start of a pattern.
XPat(p) == <<91, 120, 93, 47>> \o p
XPath(t) == <<120, 47>> \o t
Boundaries(s) == {i \in 1..Len(s) : s[i] # SLASH /\ (i = Len(s) \/ s[i + 1] = SLASH)}
IgnoredUnderX(p, t, cf) == \E i \in Boundaries(XPath(t)) : WildMatch(XPat(p), SubSeq(XPath(t), 1, i), TRUE, cf)

Judge(e) ==
  CASE e.k = "wm" -> InDomain(e.p, e.t) =>
                       e.r = <<B(WildMatch(e.p, e.t, FALSE, FALSE)), B(WildMatch(e.p, e.t, FALSE, TRUE)),
                               B(WildMatch(e.p, e.t, TRUE, FALSE)), B(WildMatch(e.p, e.t, TRUE, TRUE))>>
    [] e.k = "gb" -> e.r = <<B(WildMatch(e.p, e.t, FALSE, FALSE)), B(WildMatch(e.p, e.t, FALSE, TRUE))>>
    [] e.k = "gx" -> e.r = <<B(IgnoredUnderX(e.p, e.t, FALSE)), B(IgnoredUnderX(e.p, e.t, TRUE))>>
    [] OTHER -> FALSE

EventOk == l <= NRec => (Judge(Rec[l]) \/ PrintT(<<"REJECT", l>>))
=============================================================================
