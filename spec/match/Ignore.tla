------------------------------- MODULE Ignore -------------------------------
(* C37.  How git decides whether a path is ignored, and by which pattern:      *)
(* dir.c  add_patterns_from_buffer / trim_trailing_spaces / parse_path_pattern *)
(* (reading), match_basename / match_pathname (one pattern),                   *)
(* last_matching_pattern_from_list(s) (one list, all lists),                   *)
(* prep_exclude + last_matching_pattern (directory walk), on Wildmatch.        *)
(*                                                                             *)
(* World:                                                                      *)
(*   srcs  : sequence of sources [kind, base, content]                         *)
(*           kind "dir": the .gitignore of directory `base` (bytes, no         *)
(*                       trailing slash, <<>> for the root of the worktree)    *)
(*           kind "info": $GIT_DIR/info/exclude, "global": core.excludesFile   *)
(*           (base <<>>); content = the file's bytes                           *)
(*   path  : worktree-relative path (components separated by '/'), isDir       *)
(*   icase : core.ignoreCase                                                   *)
(* Result of Check: [m, src, line]: m = 0 no pattern decides, 1 ignored,       *)
(*   2 a negative pattern decides (not ignored); src = index into srcs of the  *)
(*   deciding file, line = its line number there (0, 0 when m = 0).            *)
(* This is what `git check-ignore -v [--no-index]` prints.                      *)
EXTENDS Wildmatch

LF == 10  CR == 13  SPACE == 32  HASH == 35  DOLLAR == 36
Bom == <<239, 187, 191>>

\* ---- reading a file ---------------------------------------------------------
SkipBom(c) == IF Len(c) >= 3 /\ SubSeq(c, 1, 3) = Bom THEN Drop(c, 3) ELSE c

\* trim_trailing_spaces: unescaped trailing spaces go; "\ " stays; a trailing lone backslash stops the scan
RECURSIVE TrimScan(_, _, _)
TrimScan(l, i, last) ==
  IF i > Len(l) THEN (IF last = 0 THEN l ELSE SubSeq(l, 1, last - 1))
  ELSE IF l[i] = SPACE THEN TrimScan(l, i + 1, IF last = 0 THEN i ELSE last)
  ELSE IF l[i] = BSL THEN (IF i + 1 > Len(l) THEN l ELSE TrimScan(l, i + 2, 0))
  ELSE TrimScan(l, i + 1, 0)
TrimTrailingSpaces(l) == TrimScan(l, 1, 0)

\* simple_length: length of the prefix without glob specials
RECURSIVE SimpleLengthFrom(_, _)
SimpleLengthFrom(p, i) == IF i > Len(p) \/ IsGlobSpecial(p[i]) THEN i - 1 ELSE SimpleLengthFrom(p, i + 1)
SimpleLength(p) == SimpleLengthFrom(p, 1)
NoWildcard(p) == SimpleLength(p) = Len(p)

\* parse_path_pattern on one (trimmed) line
ParsePattern(s) ==
  LET neg  == s # <<>> /\ s[1] = BANG
      p    == IF neg THEN Tail(s) ELSE s
      must == p # <<>> /\ p[Len(p)] = SLASH
      pat  == IF must THEN Front(p) ELSE p                      \* the first patternlen bytes
  IN [neg |-> neg, mustdir |-> must, pat |-> pat,
      nodir |-> ~HasByte(pat, SLASH),
      nowild |-> Min2(SimpleLength(p), Len(pat)),
      endswith |-> p # <<>> /\ p[1] = STAR /\ NoWildcard(Tail(p))]

\* the lines of a file that become patterns: [no |-> line number, pr |-> parsed pattern]
\* (a line is dropped when it is empty or starts with '#'; one CR before the LF is cut)
RawLines(c) == Split(SkipBom(c), LF)
CutCr(l) == IF l # <<>> /\ l[Len(l)] = CR THEN Front(l) ELSE l
IsPatternLine(l) == l # <<>> /\ l[1] # HASH
RECURSIVE PatternsFrom(_, _)
PatternsFrom(ls, i) ==
  IF i > Len(ls) THEN <<>>
  ELSE IF IsPatternLine(ls[i])
       THEN <<[no |-> i, pr |-> ParsePattern(TrimTrailingSpaces(CutCr(ls[i])))]>> \o PatternsFrom(ls, i + 1)
       ELSE PatternsFrom(ls, i + 1)
Patterns(c) == PatternsFrom(RawLines(c), 1)

\* ---- one pattern against one path -------------------------------------------------
\* fspathncmp(..) == 0 on equally long strings
FsEq(x, y, icase) == IF icase THEN LowerSeq(x) = LowerSeq(y) ELSE x = y

\* match_basename
MatchBasename(b, pr, icase) ==
  IF pr.nowild = Len(pr.pat) THEN Len(pr.pat) = Len(b) /\ FsEq(pr.pat, b, icase)
  ELSE IF pr.endswith THEN
    /\ Len(pr.pat) - 1 <= Len(b)
    /\ FsEq(Tail(pr.pat), SubSeq(b, Len(b) - (Len(pr.pat) - 1) + 1, Len(b)), icase)
  ELSE WildMatch(pr.pat, b, FALSE, icase)

\* match_pathname; base has no trailing slash (<<>> = top)
MatchPathname(path, base, pr, icase) ==
  LET lead    == pr.pat # <<>> /\ pr.pat[1] = SLASH
      pattern == IF lead THEN Tail(pr.pat) ELSE pr.pat
      prefix  == IF lead THEN pr.nowild - 1 ELSE pr.nowild
      bl      == Len(base)
  IN
  IF Len(path) < bl + 1 \/ (bl > 0 /\ path[bl + 1] # SLASH) \/ ~FsEq(SubSeq(path, 1, bl), base, icase) THEN FALSE
  ELSE
    LET name == IF bl > 0 THEN Drop(path, bl + 1) ELSE path IN
    IF prefix > 0 THEN
      IF prefix > Len(name) THEN FALSE
      ELSE IF ~FsEq(SubSeq(pattern, 1, prefix), SubSeq(name, 1, prefix), icase) THEN FALSE
      ELSE IF Len(pattern) = prefix /\ Len(name) = prefix THEN TRUE
      \* NB: the literal prefix is cut off before wildmatch sees the pattern, so a "**" right
      \* after it counts as standing at the pattern's start
      ELSE WildMatch(Drop(pattern, prefix), Drop(name, prefix), TRUE, icase)
    ELSE WildMatch(pattern, name, TRUE, icase)

Basename(path) == LET k == RFindByte(path, SLASH) IN IF k = 0 THEN path ELSE Drop(path, k)

PatternMatches(pr, base, path, isDir, icase) ==
  IF pr.mustdir /\ ~isDir THEN FALSE
  ELSE IF pr.nodir THEN MatchBasename(Basename(path), pr, icase)
  ELSE MatchPathname(path, base, pr, icase)

\* last_matching_pattern_from_list: the last pattern of the list that matches; 0 if none
RECURSIVE LastInList(_, _, _, _, _, _)
LastInList(pats, i, base, path, isDir, icase) ==
  IF i < 1 THEN 0
  ELSE IF PatternMatches(pats[i].pr, base, path, isDir, icase) THEN i
  ELSE LastInList(pats, i - 1, base, path, isDir, icase)

\* ---- all lists ---------------------------------------------------------------------
Undecided == [m |-> 0, src |-> 0, line |-> 0]

\* is x (a directory, no trailing slash) the base of a per-directory file that is in scope for
\* paths below directory `dir`: x = dir or x is a proper ancestor of dir
IsAncestorOrSelf(x, dir) == x = dir \/ x = <<>> \/ (Len(x) < Len(dir) /\ SubSeq(dir, 1, Len(x)) = x /\ dir[Len(x) + 1] = SLASH)

\* precedence: per-directory files, deepest first; then info/exclude; then core.excludesFile
Rank(s) == IF s.kind = "dir" THEN 1000 + Len(s.base) ELSE IF s.kind = "info" THEN 2 ELSE 1

\* last_matching_pattern_from_lists with the per-directory files of `dir` and its ancestors pushed;
\* pl[k] = Patterns(srcs[k].content)
FromLists(srcs, pl, dir, path, isDir, icase) ==
  LET InScope(k) == srcs[k].kind # "dir" \/ IsAncestorOrSelf(srcs[k].base, dir)
      hit == [k \in 1..Len(srcs) |-> IF InScope(k) THEN LastInList(pl[k], Len(pl[k]), srcs[k].base, path, isDir, icase) ELSE 0]
      Cands == {k \in 1..Len(srcs) : hit[k] # 0}
  IN IF Cands = {} THEN Undecided
     ELSE LET k == CHOOSE k \in Cands : \A j \in Cands : Rank(srcs[j]) <= Rank(srcs[k])
          IN [m |-> IF pl[k][hit[k]].pr.neg THEN 2 ELSE 1, src |-> k, line |-> pl[k][hit[k]].no]

\* prep_exclude + last_matching_pattern: every leading directory, top down, is asked first (as a
\* directory, with the files of ITS ancestors in scope); a positive hit there decides for everything
\* below it, a negative hit there is dropped.  Then the path itself.
ParentDir(p) == LET k == RFindByte(p, SLASH) IN IF k = 0 THEN <<>> ELSE SubSeq(p, 1, k - 1)
RECURSIVE Walk(_, _, _, _, _, _)
Walk(srcs, pl, path, isDir, icase, from) ==
  \* from = index in path where the next component starts
  LET s == FindByteFrom(path, SLASH, from) IN
  IF s = 0 THEN FromLists(srcs, pl, ParentDir(path), path, isDir, icase)
  ELSE LET d == SubSeq(path, 1, s - 1)
           r == FromLists(srcs, pl, ParentDir(d), d, TRUE, icase)
       IN IF r.m = 1 THEN r ELSE Walk(srcs, pl, path, isDir, icase, s + 1)

ParsedLists(srcs) == [k \in 1..Len(srcs) |-> Patterns(srcs[k].content)]
CheckP(srcs, pl, path, isDir, icase) == Walk(srcs, pl, path, isDir, icase, 1)
Check(srcs, path, isDir, icase) == CheckP(srcs, ParsedLists(srcs), path, isDir, icase)
IsIgnored(srcs, path, isDir, icase) == Check(srcs, path, isDir, icase).m = 1

\* ---- judged domain -------------------------------------------------------------------
\* gitoxide extension (gix-ignore docs, `Kind::Precious`): a line starting with `$` marks precious
\* files, `\$` escapes it, `!$` is rejected.  Such lines mean something else in git: outside the domain.
PreciousSyntax(l) == \/ (Len(l) >= 1 /\ l[1] = DOLLAR)
                     \/ (Len(l) >= 2 /\ l[1] \in {BANG, BSL} /\ l[2] = DOLLAR)
WellFormedPath(p) == /\ p # <<>> /\ ~HasByte(p, 0) /\ p[1] # SLASH /\ p[Len(p)] # SLASH
                     /\ \A i \in 1..(Len(p) - 1) : ~(p[i] = SLASH /\ p[i + 1] = SLASH)
InDomainW(srcs, path) ==
  /\ WellFormedPath(path)
  /\ \A k \in 1..Len(srcs) :
       /\ ~HasByte(srcs[k].content, 0)
       /\ \A i \in 1..Len(RawLines(srcs[k].content)) : ~PreciousSyntax(RawLines(srcs[k].content)[i])
=============================================================================
