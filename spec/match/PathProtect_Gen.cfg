SPECIFICATION Spec
CONSTANTS
  SMax = 2
  Wide = FALSE
INVARIANTS
  Laws
  Emit
CHECK_DEADLOCK FALSE
