-------------------------- MODULE PathProtect_Trace --------------------------
(* Bindings B and C for C40.  One event: [k, comp : bytes, role, r, s]          *)
(*   k = "gix"  what gix_validate::path::component did with comp:               *)
(*              r = refusals with mode None, s = refusals with Mode::Symlink,   *)
(*              8 entries each, index 1 + windows*4 + ntfs*2 + hfs, 1 = refused *)
(*              Judged one way only: what git refuses must be refused, for both *)
(*              values of gitoxide's extra protect_windows switch.              *)
(*   k = "git"  what the installed git did (update-index, verify_path) with     *)
(*              comp in role `role`: r = <<r00, r01, r10, r11>> (ntfs, hfs),    *)
(*              1 = refused; must EQUAL the specification (else tool error).    *)
EXTENDS PathProtect, TraceIO

VARIABLE l
Init == l = 1
Next == l <= NRec /\ l' = l + 1
Spec == Init /\ [][Next]_l

B(x) == IF x THEN 1 ELSE 0
Idx(w, n, h) == 1 + B(w) * 4 + B(n) * 2 + B(h)

Judge(e) ==
  CASE e.k = "gix" ->
         InDomain(e.comp) =>
           \A w, n, h \in BOOLEAN :
             /\ (Refused(e.comp, "file", n, h) \/ Refused(e.comp, "dir", n, h)) => e.r[Idx(w, n, h)] = 1
             /\ Refused(e.comp, "symlink", n, h) => e.s[Idx(w, n, h)] = 1
    [] e.k = "git" ->
         LET v == VerdictVec(e.comp, e.role) IN e.r = <<B(v[1]), B(v[2]), B(v[3]), B(v[4])>>
    [] OTHER -> FALSE

EventOk == l <= NRec => (Judge(Rec[l]) \/ PrintT(<<"REJECT", l>>))
=============================================================================
