---------------------------- MODULE Wildmatch_Gen ----------------------------
(* Binding A for C36: TLC enumerates every pattern of <= PMax pattern tokens   *)
(* and evaluates the specification on every text of <= TMax text tokens, for   *)
(* all four flag combinations.  One CASE per pattern:                          *)
(*   pattern : bytes                                                           *)
(*   res     : one entry per text of Texts (same order), <<r00, r01, r10, r11>>*)
(*             r<pn><cf> = 1 iff wildmatch(pattern, text, flags) == WM_MATCH   *)
(*   texts   : the text list itself, printed with the empty pattern only       *)
(* The design-level laws of Wildmatch.tla are invariants of the same run.      *)
EXTENDS Wildmatch, Json, TLC
CONSTANTS PMax, TMax, Alpha      \* Alpha \in {"glob", "wide", "bracket"}: the token alphabets

\* "glob":  a  B  *  **  ?  /  [a-c]  [!a]  [[:space:]]  [[:blank:]]  \*  [
PTokGlob == << <<97>>, <<66>>, <<42>>, <<42,42>>, <<63>>, <<47>>, <<91,97,45,99,93>>, <<91,33,97,93>>,
               <<91,91,58,115,112,97,99,101,58,93,93>>, <<91,91,58,98,108,97,110,107,58,93,93>>,
               <<92,42>>, <<91>> >>
\* "wide" adds:  [[:punct:]]  []a]  [a-]  [[:x:]]  [A-b]  \B  [^/]  ]
PTokWide == PTokGlob \o << <<91,91,58,112,117,110,99,116,58,93,93>>, <<91,93,97,93>>, <<91,97,45,93>>,
                           <<91,91,58,120,58,93,93>>, <<91,65,45,98,93>>, <<92,66>>, <<91,94,47,93>>, <<93>> >>
\* "bracket" (pieces of bracket expressions):  [  ]  [^  b-Y  Y-b  \Y  -  [:upper:]  [:x:-  y
PTokBracket == << <<91>>, <<93>>, <<91,94>>, <<98,45,89>>, <<89,45,98>>, <<92,89>>, <<45>>,
                  <<91,58,117,112,112,101,114,58,93>>, <<91,58,120,58,45>>, <<121>> >>
\* texts "glob":  a  b  B  /  SPACE  TAB  *  FF      "wide" adds:  -  ]  VT  [  CR
TTokGlob == << <<97>>, <<98>>, <<66>>, <<47>>, <<32>>, <<9>>, <<42>>, <<12>> >>
TTokWide == TTokGlob \o << <<45>>, <<93>>, <<11>>, <<91>>, <<13>> >>
\* texts "bracket":  y  Y  b  a  -  [  ]  :  x  ^  Z
TTokBracket == << <<121>>, <<89>>, <<98>>, <<97>>, <<45>>, <<91>>, <<93>>, <<58>>, <<120>>, <<94>>, <<90>> >>
\* "deep": `**/` in front of a single star that is followed by `?` or a bracket expression, against texts
\* two directories deep (where only a restart of `**` at a deeper directory matches)
PTokDeep == << <<42,42,47>>, <<42>>, <<63>>, <<91,97,45,99,93>>, <<97>>, <<47>> >>
TTokDeep == << <<97,47>>, <<98,47>>, <<97>>, <<99>>, <<98>> >>
PTok == CASE Alpha = "glob" -> PTokGlob [] Alpha = "wide" -> PTokWide [] Alpha = "bracket" -> PTokBracket [] Alpha = "deep" -> PTokDeep
TTok == CASE Alpha = "glob" -> TTokGlob [] Alpha = "wide" -> TTokWide [] Alpha = "bracket" -> TTokBracket [] Alpha = "deep" -> TTokDeep

\* all concatenations of exactly n tokens, in a fixed order
RECURSIVE Strings(_, _)
Strings(toks, n) ==
  IF n = 0 THEN << <<>> >>
  ELSE LET shorter == Strings(toks, n - 1) IN
       FlatSeq([i \in 1..Len(shorter) |-> [k \in 1..Len(toks) |-> shorter[i] \o toks[k]]])
RECURSIVE UpTo(_, _)
UpTo(toks, n) == IF n = 0 THEN Strings(toks, 0) ELSE UpTo(toks, n - 1) \o Strings(toks, n)
Texts == UpTo(TTok, TMax)

VARIABLES toks, done
vars == <<toks, done>>
Init == toks = <<>> /\ done = FALSE
Extend == ~done /\ Len(toks) < PMax /\ \E k \in 1..Len(PTok) : toks' = Append(toks, PTok[k]) /\ done' = FALSE
Finish == ~done /\ done' = TRUE /\ UNCHANGED toks
Next == Extend \/ Finish
Spec == Init /\ [][Next]_vars

Pattern == FlatSeq(toks)
B(x) == IF x THEN 1 ELSE 0

Laws == done => \A k \in 1..Len(Texts) : LiteralLaw(Pattern, Texts[k]) /\ SlashFreeLaw(Pattern, Texts[k])
AllInDomain == done => \A k \in 1..Len(Texts) : InDomain(Pattern, Texts[k])

Emit == done => PrintT(<<"CASE", ToJson([
          pattern |-> Pattern,
          res   |-> [k \in 1..Len(Texts) |-> <<B(WildMatch(Pattern, Texts[k], FALSE, FALSE)), B(WildMatch(Pattern, Texts[k], FALSE, TRUE)),
                                               B(WildMatch(Pattern, Texts[k], TRUE, FALSE)), B(WildMatch(Pattern, Texts[k], TRUE, TRUE))>>],
          texts |-> IF toks = <<>> THEN Texts ELSE <<>>])>>)
=============================================================================
