------------------------------ MODULE Wildmatch ------------------------------
(* C36.  git's wildmatch (wildmatch.c: dowild), transcribed clause by clause   *)
(* over byte sequences.  A C string is a byte sequence without NUL; reading    *)
(* one past its end yields 0 (At).                                             *)
(*                                                                             *)
(*   WildMatch(p, t, pn, cf)  <=>  wildmatch(p, t, flags) == WM_MATCH          *)
(*        pn = WM_PATHNAME is set, cf = WM_CASEFOLD is set                     *)
(*                                                                             *)
(* DoWild returns one of "M" (WM_MATCH), "N" (WM_NOMATCH), "AA"                *)
(* (WM_ABORT_ALL), "AS" (WM_ABORT_TO_STARSTAR), exactly as dowild does; `st`   *)
(* is the index at which the pattern of the current dowild invocation starts   *)
(* (the C variable `pattern`), `pi`/`ti` are the positions of `p`/`text`.      *)
(*                                                                             *)
(* Character classes are git's own sane_ctype tables (git-compat-util.h /      *)
(* ctype.c), which are ASCII-only and differ from the C locale in one place:   *)
(* isspace is {TAB, LF, CR, SPACE} (no VT, FF).  isblank is {SPACE, TAB}.      *)
(* Audited against the installed git on every run (binding C).                 *)
EXTENDS Bytes

STAR == 42  QM == 63  LBR == 91  RBR == 93  BSL == 92  SLASH == 47
BANG == 33  CARET == 94  DASH == 45  COLON == 58

At(s, i) == IF i >= 1 /\ i <= Len(s) THEN s[i] ELSE 0

\* ---- git's sane_ctype ------------------------------------------------------
GIsSpace(c)  == c \in {9, 10, 13, 32}
GIsBlank(c)  == c \in {9, 32}
GIsDigit(c)  == c >= 48 /\ c <= 57
GIsUpper(c)  == c >= 65 /\ c <= 90
GIsLower(c)  == c >= 97 /\ c <= 122
GIsAlpha(c)  == GIsUpper(c) \/ GIsLower(c)
GIsAlnum(c)  == GIsAlpha(c) \/ GIsDigit(c)
GIsPrint(c)  == c >= 32 /\ c <= 126
GIsGraph(c)  == c >= 33 /\ c <= 126
GIsCntrl(c)  == c < 32 \/ c = 127
GIsPunct(c)  == GIsGraph(c) /\ ~GIsAlnum(c)
GIsXdigit(c) == GIsDigit(c) \/ (c >= 65 /\ c <= 70) \/ (c >= 97 /\ c <= 102)
\* is_glob_special: * ? [ \
IsGlobSpecial(c) == c \in {STAR, QM, LBR, BSL}

ClsAlnum  == <<97, 108, 110, 117, 109>>
ClsAlpha  == <<97, 108, 112, 104, 97>>
ClsBlank  == <<98, 108, 97, 110, 107>>
ClsCntrl  == <<99, 110, 116, 114, 108>>
ClsDigit  == <<100, 105, 103, 105, 116>>
ClsGraph  == <<103, 114, 97, 112, 104>>
ClsLower  == <<108, 111, 119, 101, 114>>
ClsPrint  == <<112, 114, 105, 110, 116>>
ClsPunct  == <<112, 117, 110, 99, 116>>
ClsSpace  == <<115, 112, 97, 99, 101>>
ClsUpper  == <<117, 112, 112, 101, 114>>
ClsXdigit == <<120, 100, 105, 103, 105, 116>>
KnownClass(n) == n \in {ClsAlnum, ClsAlpha, ClsBlank, ClsCntrl, ClsDigit, ClsGraph, ClsLower,
                        ClsPrint, ClsPunct, ClsSpace, ClsUpper, ClsXdigit}
\* membership of the (already case-folded) text byte c in class n
ClassHas(n, c, cf) ==
  CASE n = ClsAlnum  -> GIsAlnum(c)
    [] n = ClsAlpha  -> GIsAlpha(c)
    [] n = ClsBlank  -> GIsBlank(c)
    [] n = ClsCntrl  -> GIsCntrl(c)
    [] n = ClsDigit  -> GIsDigit(c)
    [] n = ClsGraph  -> GIsGraph(c)
    [] n = ClsLower  -> GIsLower(c)
    [] n = ClsPrint  -> GIsPrint(c)
    [] n = ClsPunct  -> GIsPunct(c)
    [] n = ClsSpace  -> GIsSpace(c)
    [] n = ClsUpper  -> GIsUpper(c) \/ (cf /\ GIsLower(c))
    [] n = ClsXdigit -> GIsXdigit(c)
    [] OTHER -> FALSE

\* if ((flags & WM_CASEFOLD) && ISUPPER(c)) c = tolower(c);
Fold(cf, c) == IF cf /\ GIsUpper(c) THEN c + 32 ELSE c

RECURSIVE SkipStars(_, _)
SkipStars(p, i) == IF At(p, i) = STAR THEN SkipStars(p, i + 1) ELSE i

\* first index k >= i with At(p, k) \in {0, ']'}
RECURSIVE CloseOrEnd(_, _)
CloseOrEnd(p, i) == IF At(p, i) = 0 \/ At(p, i) = RBR THEN i ELSE CloseOrEnd(p, i + 1)

\* the "advance faster" scan of the star loop: first k >= i where the text ends, or (when '*'
\* may not cross '/') a slash stands, or the folded text byte equals pc
RECURSIVE ScanLit(_, _, _, _, _)
ScanLit(t, cf, pc, ms, i) ==
  LET c == At(t, i) IN
  IF c = 0 \/ (~ms /\ c = SLASH) \/ Fold(cf, c) = pc THEN i ELSE ScanLit(t, cf, pc, ms, i + 1)

RECURSIVE DoWild(_, _, _, _, _, _, _), StarLoop(_, _, _, _, _, _, _, _), Bracket(_, _, _, _, _, _, _, _, _, _, _, _)

\* one iteration of `for ( ; (p_ch = *p) != '\0'; text++, p++)`
DoWild(p, t, pn, cf, st, pi, ti) ==
  LET pc0 == At(p, pi)
      tc0 == At(t, ti)
  IN
  IF pc0 = 0 THEN (IF tc0 # 0 THEN "N" ELSE "M")
  ELSE IF tc0 = 0 /\ pc0 # STAR THEN "AA"
  ELSE
    LET tc == Fold(cf, tc0)
        pc == Fold(cf, pc0)
    IN
    CASE pc = BSL ->
           \* literal match with the following byte, which is NOT case-folded
           IF tc # At(p, pi + 1) THEN "N" ELSE DoWild(p, t, pn, cf, st, pi + 2, ti + 1)
      [] pc = QM ->
           IF pn /\ tc = SLASH THEN "N" ELSE DoWild(p, t, pn, cf, st, pi + 1, ti + 1)
      [] pc = STAR ->
           LET two == At(p, pi + 1) = STAR
               q   == IF two THEN SkipStars(p, pi + 2) ELSE pi + 1       \* p after the stars
               \* "**" delimited by the pattern start or '/' on the left and by the end, '/' or "\/" on the right
               dd  == /\ two /\ pn
                      /\ (pi - 1 < st \/ p[pi - 1] = SLASH)
                      /\ (At(p, q) = 0 \/ At(p, q) = SLASH \/ (At(p, q) = BSL /\ At(p, q + 1) = SLASH))
               ms  == IF ~pn THEN TRUE ELSE IF two THEN dd ELSE FALSE     \* match_slash
           IN
           IF dd /\ At(p, q) = SLASH /\ DoWild(p, t, pn, cf, q + 1, q + 1, ti) = "M" THEN "M"
           ELSE IF At(p, q) = 0 THEN
                  (IF ~ms /\ FindByteFrom(t, SLASH, Max2(ti, 1)) # 0 THEN "N" ELSE "M")
           ELSE IF ~ms /\ At(p, q) = SLASH THEN
                  \* one asterisk followed by a slash matches up to the next slash of the text
                  LET s == FindByteFrom(t, SLASH, ti) IN
                  IF s = 0 THEN "N" ELSE DoWild(p, t, pn, cf, st, q + 1, s + 1)
           ELSE StarLoop(p, t, pn, cf, q, ti, tc, ms)
      [] pc = LBR ->
           LET c1  == At(p, pi + 1)
               neg == c1 = BANG \/ c1 = CARET
               j   == IF neg THEN pi + 2 ELSE pi + 1
           IN Bracket(p, t, pn, cf, st, ti, tc, neg, j, At(p, j), 0, FALSE)
      [] OTHER ->
           IF tc # pc THEN "N" ELSE DoWild(p, t, pn, cf, st, pi + 1, ti + 1)

\* `while (1)` of the '*' case; q = p (fixed), tc = t_ch as left by the previous iteration
StarLoop(p, t, pn, cf, q, ti, tc, ms) ==
  IF tc = 0 THEN "AA"
  ELSE
    LET lit == ~IsGlobSpecial(p[q])
        pc  == Fold(cf, p[q])
        ti2 == IF lit THEN ScanLit(t, cf, pc, ms, ti) ELSE ti
        tc2 == IF lit THEN Fold(cf, At(t, ti2)) ELSE tc
    IN
    IF lit /\ tc2 # pc THEN "N"
    ELSE
      LET r == DoWild(p, t, pn, cf, q, q, ti2) IN
      IF r # "N" /\ (~ms \/ r # "AS") THEN r
      ELSE IF r = "N" /\ ~ms /\ tc2 = SLASH THEN "AS"
      ELSE StarLoop(p, t, pn, cf, q, ti2 + 1, At(t, ti2 + 1), ms)

\* body of the `do { .. } while (prev_ch = p_ch, (p_ch = *++p) != ']')` of the '[' case.
\* j = p, pc = p_ch, prev = prev_ch, m = matched; tc = the (folded) text byte under test.
Bracket(p, t, pn, cf, st, ti, tc, neg, j, pc, prev, m) ==
  LET \* the loop condition, after the body left p at jj with p_ch = pcur and matched = mm
      Cond(jj, pcur, mm) ==
        IF At(p, jj + 1) # RBR
        THEN Bracket(p, t, pn, cf, st, ti, tc, neg, jj + 1, At(p, jj + 1), pcur, mm)
        ELSE IF mm = neg \/ (pn /\ tc = SLASH) THEN "N"
        ELSE DoWild(p, t, pn, cf, st, jj + 2, ti + 1)
  IN
  IF pc = 0 THEN "AA"
  ELSE IF pc = BSL THEN
    LET e == At(p, j + 1) IN
    IF e = 0 THEN "AA" ELSE Cond(j + 1, e, m \/ tc = e)
  ELSE IF pc = DASH /\ prev # 0 /\ At(p, j + 1) # 0 /\ At(p, j + 1) # RBR THEN
    LET esc == At(p, j + 1) = BSL
        hi  == IF esc THEN At(p, j + 2) ELSE At(p, j + 1)
        jn  == IF esc THEN j + 2 ELSE j + 1
    IN
    IF hi = 0 THEN "AA"
    ELSE Cond(jn, 0, \/ m
                     \/ (tc <= hi /\ tc >= prev)
                     \/ (cf /\ GIsLower(tc) /\ tc - 32 <= hi /\ tc - 32 >= prev))
  ELSE IF pc = LBR /\ At(p, j + 1) = COLON THEN
    LET s == j + 2
        k == CloseOrEnd(p, s)
        i == k - s - 1
    IN
    IF At(p, k) = 0 THEN "AA"
    ELSE IF i < 0 \/ p[k - 1] # COLON THEN
      \* no ":]" found: '[' is an ordinary member of the set
      Cond(j, LBR, m \/ tc = LBR)
    ELSE
      LET cls == SubSeq(p, s, s + i - 1) IN
      IF ~KnownClass(cls) THEN "AA" ELSE Cond(k, 0, m \/ ClassHas(cls, tc, cf))
  ELSE Cond(j, pc, m \/ tc = pc)

WildResult(p, t, pn, cf) == DoWild(p, t, pn, cf, 1, 1, 1)
WildMatch(p, t, pn, cf) == WildResult(p, t, pn, cf) = "M"

\* ---- judged domain ---------------------------------------------------------
\* C strings (no NUL) and fewer '*' than gitoxide's documented recursion bound (64).
RECURSIVE CountByteFrom(_, _, _)
CountByteFrom(s, b, i) == IF i > Len(s) THEN 0 ELSE (IF s[i] = b THEN 1 ELSE 0) + CountByteFrom(s, b, i + 1)
RecursionBound == 64
InDomain(p, t) == ~HasByte(p, 0) /\ ~HasByte(t, 0) /\ CountByteFrom(p, STAR, 1) < RecursionBound

\* ---- design-level statements (checked by Wildmatch_Gen on every enumerated case) ----
NoGlob(p) == \A i \in 1..Len(p) : ~IsGlobSpecial(p[i])
\* a pattern without glob specials matches exactly itself
LiteralLaw(p, t) == NoGlob(p) => \A pn \in BOOLEAN : WildMatch(p, t, pn, FALSE) = (p = t)
\* when neither side holds a '/', WM_PATHNAME is irrelevant (this is why basename matching of
\* ignore/attribute patterns may call wildmatch without it)
SlashFreeLaw(p, t) == (~HasByte(p, SLASH) /\ ~HasByte(t, SLASH)) =>
                        \A cf \in BOOLEAN : WildMatch(p, t, TRUE, cf) = WildMatch(p, t, FALSE, cf)
=============================================================================
