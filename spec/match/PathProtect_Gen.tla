--------------------------- MODULE PathProtect_Gen ---------------------------
(* Binding A for C40: every component  lead \o core \o suffix*  with at most   *)
(* SMax suffix tokens; one CASE per component with the specification's verdict *)
(* for the three roles and the four (protectNTFS, protectHFS) combinations:    *)
(*   refused : [file |-> <<r00, r01, r10, r11>>, symlink |-> .., dir |-> ..]   *)
(*             r<ntfs><hfs> = 1 iff git refuses the component in that role     *)
EXTENDS PathProtect, Json, TLC
CONSTANTS SMax, Wide

ZWNJ == <<226, 128, 140>>     \* U+200C
ZWJ  == <<226, 128, 141>>     \* U+200D
BOM  == <<239, 187, 191>>     \* U+FEFF

\* leads:  ""   a\   \   U+FEFF
LeadQuick == { <<>>, <<97, 92>>, <<92>>, BOM }
LeadWide == LeadQuick \cup { <<97>>, <<32>>, <<46, 92>> }
\* cores
CoreQuick == {
  <<>>, <<46>>, <<46, 46>>, <<97>>,
  <<46, 103, 105, 116>>,                                   \* .git
  <<46, 71, 105, 84>>,                                     \* .GiT
  <<103, 105, 116, 126, 49>>,                              \* git~1
  <<71, 73, 84, 126, 49>>,                                 \* GIT~1
  <<103, 105, 116, 126, 50>>,                              \* git~2
  <<46, 103>> \o ZWNJ \o <<105, 116>>,                     \* .g<U+200C>it
  <<46, 103, 105, 116, 109, 111, 100, 117, 108, 101, 115>>,            \* .gitmodules
  <<46, 103, 105, 116, 77, 79, 68, 117, 108, 101, 115>>,               \* .gitMODules
  <<46, 103, 105, 116>> \o ZWJ \o <<109, 111, 100, 117, 108, 101, 115>>, \* .git<U+200D>modules
  <<103, 105, 116, 109, 111, 100, 126, 49>>,               \* gitmod~1
  <<71, 73, 84, 77, 79, 68, 126, 52>>,                     \* GITMOD~4
  <<103, 105, 116, 109, 111, 100, 126, 53>>,               \* gitmod~5
  <<103, 105, 55, 101, 98, 97, 126, 49>>,                  \* gi7eba~1
  <<103, 105, 55, 101, 98, 126, 49, 50>>,                  \* gi7eb~12
  <<71, 73, 55, 126, 49, 50, 51, 52>>,                     \* GI7~1234
  <<103, 105, 55, 101, 98, 97, 126, 48>>                   \* gi7eba~0
}
CoreWide == CoreQuick \cup {
  <<46, 103, 105, 116, 109, 111, 100, 117, 108, 101>>,     \* .gitmodule
  <<103, 105, 116, 109, 111, 126, 49>>,                    \* gitmo~1
  <<126, 49, 50, 51, 52, 53, 54, 55>>,                     \* ~1234567
  <<103, 105, 55, 101, 98, 97, 97, 126>>,                  \* gi7ebaa~
  <<46, 103, 105, 116, 105, 103, 110, 111, 114, 101>>,     \* .gitignore
  <<99, 111, 110>>, <<65, 85, 88>>, <<67, 79, 77, 49>>     \* con AUX COM1 (refused by git on Windows only)
}
\* suffix tokens:  SPACE  .  :x  \  U+200D  0xFF  x
SufQuick == { <<32>>, <<46>>, <<58, 120>>, <<92>>, ZWJ, <<255>>, <<120>> }
SufWide == SufQuick \cup { <<126>>, <<49>>, <<58>>, <<192, 175>>, <<237, 160, 128>>, <<92, 46, 103, 105, 116>>, <<239, 191, 190>> }
\*                          ~       1       :      overlong '/'   surrogate         \.git                      U+FFFE
Lead == IF Wide THEN LeadWide ELSE LeadQuick
Core == IF Wide THEN CoreWide ELSE CoreQuick
Suf  == IF Wide THEN SufWide ELSE SufQuick

VARIABLES lead, core, sufs, done
vars == <<lead, core, sufs, done>>
Init == lead \in Lead /\ core \in Core /\ sufs = <<>> /\ done = FALSE
Extend == ~done /\ Len(sufs) < SMax /\ \E t \in Suf : sufs' = Append(sufs, t) /\ UNCHANGED <<lead, core, done>>
Finish == ~done /\ done' = TRUE /\ UNCHANGED <<lead, core, sufs>>
Next == Extend \/ Finish
Spec == Init /\ [][Next]_vars

Comp == lead \o core \o FlatSeq(sufs)
B(x) == IF x THEN 1 ELSE 0
Bits(v) == [k \in 1..4 |-> B(v[k])]
VFile == VerdictVec(Comp, "file")
VSym  == VerdictVec(Comp, "symlink")
VDir  == VerdictVec(Comp, "dir")

Laws == done => (InDomain(Comp) /\ MonotoneVec(VFile) /\ MonotoneVec(VSym) /\ MonotoneVec(VDir) /\ StricterVec(VFile, VSym))
Emit == done => PrintT(<<"CASE", ToJson([comp |-> Comp,
                                          refused |-> [file |-> Bits(VFile), symlink |-> Bits(VSym), dir |-> Bits(VDir)]])>>)
=============================================================================
