SPECIFICATION Spec
CONSTANTS
  PMax = 3
  TMax = 2
  Alpha = "glob"
INVARIANTS
  Laws
  AllInDomain
  Emit
CHECK_DEADLOCK FALSE
