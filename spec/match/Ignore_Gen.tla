------------------------------ MODULE Ignore_Gen ------------------------------
(* Binding A for C37: every world of <= LMax pattern lines, each placed in one  *)
(* of the files of the family, over a fixed little tree; one CASE per world     *)
(* with the specification's decision for every query path, case-sensitively    *)
(* and with core.ignoreCase.                                                   *)
(*   Family "dirs":   .gitignore, a/.gitignore, a/b/.gitignore                 *)
(*   Family "global": .gitignore, $GIT_DIR/info/exclude, core.excludesFile     *)
(* Tree (fixed):  a/  b/  c  a/b/  a/c  a/b/c  a/b/b/     (dirs end in /)      *)
(*   lines : <<[f |-> file index, t |-> line bytes]>> in the order written     *)
(*   srcs  : the resulting files [kind, base, content]                         *)
(*   res   : <<case-sensitive, ignoreCase>>, each one [m, src, line] per query *)
EXTENDS Ignore, Json, TLC
CONSTANTS LMax, Family, Small      \* Small: the reduced token set (for LMax = 3)

A == 97  Bb == 98  C == 99
FilesDirs == << [kind |-> "dir", base |-> <<>>], [kind |-> "dir", base |-> <<A>>], [kind |-> "dir", base |-> <<A, SLASH, Bb>>] >>
FilesGlobal == << [kind |-> "dir", base |-> <<>>], [kind |-> "info", base |-> <<>>], [kind |-> "global", base |-> <<>>],
                 [kind |-> "dir", base |-> <<A>>] >>
Files == IF Family = "dirs" THEN FilesDirs ELSE FilesGlobal

\* line tokens:  a  /a  b/  c  a/b  *  !c  !a/b  a/*  **/c  /c  !b  C  a/**  b/c  *c  a**/c
TokDirs == { <<A>>, <<SLASH, A>>, <<Bb, SLASH>>, <<C>>, <<A, SLASH, Bb>>, <<STAR>>, <<BANG, C>>, <<BANG, A, SLASH, Bb>>,
             <<A, SLASH, STAR>>, <<STAR, STAR, SLASH, C>>, <<SLASH, C>>, <<BANG, Bb>>, <<67>>, <<A, SLASH, STAR, STAR>>,
             <<Bb, SLASH, C>>, <<STAR, C>>, <<A, STAR, STAR, SLASH, C>> }
\* line tokens "global":  a  /c  b/  !c  a/b  *  !a/b  C
TokGlobal == { <<A>>, <<SLASH, C>>, <<Bb, SLASH>>, <<BANG, C>>, <<A, SLASH, Bb>>, <<STAR>>, <<BANG, A, SLASH, Bb>>, <<67>> }
\* reduced set:  a  b/  c  !c  !b  *  a/b  !a/b
TokSmall == { <<A>>, <<Bb, SLASH>>, <<C>>, <<BANG, C>>, <<BANG, Bb>>, <<STAR>>, <<A, SLASH, Bb>>, <<BANG, A, SLASH, Bb>> }
\* reduced set "global":  a  !c  *  !a/b  b/
TokGlobalSmall == { <<A>>, <<BANG, C>>, <<STAR>>, <<BANG, A, SLASH, Bb>>, <<Bb, SLASH>> }
Tok == IF Small THEN (IF Family = "dirs" THEN TokSmall ELSE TokGlobalSmall) ELSE IF Family = "dirs" THEN TokDirs ELSE TokGlobal

Queries == << [p |-> <<A>>, d |-> TRUE], [p |-> <<Bb>>, d |-> TRUE], [p |-> <<C>>, d |-> FALSE],
              [p |-> <<A, SLASH, Bb>>, d |-> TRUE], [p |-> <<A, SLASH, C>>, d |-> FALSE],
              [p |-> <<A, SLASH, Bb, SLASH, C>>, d |-> FALSE], [p |-> <<A, SLASH, Bb, SLASH, Bb>>, d |-> TRUE] >>

VARIABLES lines, done
vars == <<lines, done>>
Init == lines = <<>> /\ done = FALSE
Extend == /\ ~done /\ Len(lines) < LMax
          /\ \E f \in 1..Len(Files), t \in Tok : lines' = Append(lines, [f |-> f, t |-> t])
          /\ done' = FALSE
Finish == ~done /\ done' = TRUE /\ UNCHANGED lines
Next == Extend \/ Finish
Spec == Init /\ [][Next]_vars

RECURSIVE ContentOf(_, _)
ContentOf(f, i) == IF i > Len(lines) THEN <<>>
                   ELSE (IF lines[i].f = f THEN lines[i].t \o <<LF>> ELSE <<>>) \o ContentOf(f, i + 1)
Srcs == [f \in 1..Len(Files) |-> [kind |-> Files[f].kind, base |-> Files[f].base, content |-> ContentOf(f, 1)]]

Results(icase) == LET pl == ParsedLists(Srcs) IN
                  [q \in 1..Len(Queries) |-> CheckP(Srcs, pl, Queries[q].p, Queries[q].d, icase)]

\* design-level statements: a decision names a real line of a file in scope; an ignored directory
\* makes everything below it ignored by the same line
Sound(r) == \A q \in 1..Len(Queries) :
              r[q].m # 0 => /\ r[q].src \in 1..Len(Files)
                            /\ r[q].line \in 1..Len(RawLines(Srcs[r[q].src].content))
Inherit(r) == \A q1, q2 \in 1..Len(Queries) :
                (Queries[q1].d /\ r[q1].m = 1 /\ IsAncestorOrSelf(Queries[q1].p, ParentDir(Queries[q2].p))
                 /\ Queries[q1].p # <<>>) => r[q2].m = 1
Laws == done => LET r0 == Results(FALSE) r1 == Results(TRUE) IN
                  Sound(r0) /\ Sound(r1) /\ Inherit(r0) /\ Inherit(r1)
                  /\ \A q \in 1..Len(Queries) : InDomainW(Srcs, Queries[q].p)

Emit == done => PrintT(<<"CASE", ToJson([lines |-> lines, srcs |-> Srcs,
                                          queries |-> Queries,
                                          res |-> <<Results(FALSE), Results(TRUE)>>])>>)
=============================================================================
