-------------------------------- MODULE Attr --------------------------------
(* C38.  Which value git assigns to every attribute of a path: attr.c          *)
(* (parse_attr_line / parse_attr / attr_name_valid, the attribute stack and    *)
(* its precedence, determine_macros, fill / fill_one / macroexpand_one,        *)
(* path_matches) on top of the pattern functions it shares with the ignore     *)
(* machinery (dir.c parse_path_pattern, match_basename, match_pathname: module *)
(* Ignore) and Wildmatch.                                                      *)
(*                                                                             *)
(* World: srcs : sequence of [kind, base, content]                             *)
(*          kind "dir"    the .gitattributes of directory `base` (<<>> = top)  *)
(*          kind "info"   $GIT_DIR/info/attributes                             *)
(*          kind "global" core.attributesFile                                  *)
(*        (the built-in `[attr]binary -diff -merge -text` is always there)     *)
(* Query: path (no trailing slash), isDir (git: the path was given with a      *)
(*        trailing slash), icase (core.ignoreCase).                            *)
(* Result: AttrsOf = the set of [n |-> name, st |-> "set"|"unset"|"value",     *)
(*         v |-> value bytes] that `git check-attr -a` prints (attributes left *)
(*         or forced unspecified are not listed).                              *)
EXTENDS Ignore

TAB == 9  EQ == 61  DQUOTE == 34
IsBlank(c) == c \in {SPACE, TAB, CR, LF}
MacroPrefix == <<91, 97, 116, 116, 114, 93>>        \* "[attr]"
BuiltinLine == <<91, 97, 116, 116, 114, 93, 98, 105, 110, 97, 114, 121, 32, 45, 100, 105, 102, 102, 32, 45, 109, 101, 114, 103, 101,
                 32, 45, 116, 101, 120, 116>>       \* "[attr]binary -diff -merge -text"

\* ---- one line ------------------------------------------------------------------
RECURSIVE SkipBlanks(_, _), TokenEnd(_, _)
SkipBlanks(l, i) == IF i <= Len(l) /\ IsBlank(l[i]) THEN SkipBlanks(l, i + 1) ELSE i
TokenEnd(l, i) == IF i <= Len(l) /\ ~IsBlank(l[i]) THEN TokenEnd(l, i + 1) ELSE i     \* first index after the token

\* attr_name_valid
NameValid(n) == /\ n # <<>> /\ n[1] # DASH
                /\ \A i \in 1..Len(n) : n[i] \in {DASH, 46, 95} \/ IsAlnum(n[i])

\* parse_attr on one blank-delimited token: [ok, n, st, v]
ParseAttrToken(t) ==
  LET eq   == FindByte(t, EQ)
      len  == IF eq = 0 THEN Len(t) ELSE eq - 1
      pre  == t # <<>> /\ (t[1] = DASH \/ t[1] = BANG)
      name == IF pre THEN SubSeq(t, 2, len) ELSE SubSeq(t, 1, len)
  IN [ok |-> NameValid(name), n |-> name,
      st |-> IF pre THEN (IF t[1] = DASH THEN "unset" ELSE "unspec") ELSE IF eq = 0 THEN "set" ELSE "value",
      v  |-> IF ~pre /\ eq # 0 THEN SubSeq(t, eq + 1, Len(t)) ELSE <<>>]

\* the attribute tokens of a line from index i on, in order
RECURSIVE AttrTokens(_, _)
AttrTokens(l, i) ==
  LET s == SkipBlanks(l, i) IN
  IF s > Len(l) THEN <<>>
  ELSE LET e == TokenEnd(l, s) IN <<ParseAttrToken(SubSeq(l, s, e - 1))>> \o AttrTokens(l, e)

\* parse_attr_line: [kind |-> "skip" | "pat" | "macro", pr (pattern), name (macro), attrs]
ParseAttrLine(l, macroOk) ==
  LET s == SkipBlanks(l, 1) IN
  IF s > Len(l) \/ l[s] = HASH THEN [kind |-> "skip"]
  ELSE
    LET e     == TokenEnd(l, s)
        name  == SubSeq(l, s, e - 1)
        attrs == AttrTokens(l, e)
        allok == \A i \in 1..Len(attrs) : attrs[i].ok
        isMac == Len(name) > Len(MacroPrefix) /\ StartsWith(name, MacroPrefix)
    IN
    IF isMac THEN
      IF ~macroOk \/ ~NameValid(Drop(name, Len(MacroPrefix))) \/ ~allok THEN [kind |-> "skip"]
      ELSE [kind |-> "macro", name |-> Drop(name, Len(MacroPrefix)), attrs |-> attrs]
    ELSE
      LET pr == ParsePattern(name) IN
      IF ~allok \/ pr.neg THEN [kind |-> "skip"]          \* negative patterns are ignored in attributes
      ELSE [kind |-> "pat", pr |-> pr, attrs |-> attrs]

\* a file: the sequence of its parsed lines (strbuf_getline: LF or CRLF ends a line; BOM skipped)
AttrLines(c, macroOk) ==
  LET ls == RawLines(c) IN [i \in 1..Len(ls) |-> ParseAttrLine(CutCr(ls[i]), macroOk)]

\* ---- the stack for one path --------------------------------------------------------
\* macros may be defined in the built-in list, core.attributesFile, the top-level .gitattributes and info/attributes
MacroOk(s) == s.kind # "dir" \/ s.base = <<>>
\* precedence: info/attributes, per-directory files deepest first, core.attributesFile, (built-in)
ARank(s) == IF s.kind = "info" THEN 100000 ELSE IF s.kind = "dir" THEN 1000 + Len(s.base) ELSE 1

\* indices of the sources in scope for a path whose directory is `dir`, highest precedence first
RECURSIVE OrderedBy(_, _)
OrderedBy(S, srcs) == IF S = {} THEN <<>>
                      ELSE LET k == CHOOSE k \in S : \A j \in S : ARank(srcs[j]) <= ARank(srcs[k])
                           IN <<k>> \o OrderedBy(S \ {k}, srcs)
InScopeA(srcs, dir) == OrderedBy({k \in 1..Len(srcs) : srcs[k].kind # "dir" \/ IsAncestorOrSelf(srcs[k].base, dir)}, srcs)

\* the stack: parsed files in precedence order, the built-in last; each [base, lines]
\* pl[k] = the parsed lines of srcs[k]
ParsedAttrFiles(srcs) == [k \in 1..Len(srcs) |-> AttrLines(srcs[k].content, MacroOk(srcs[k]))]
StackForP(srcs, pl, dir) ==
  LET ord == InScopeA(srcs, dir) IN
  [i \in 1..Len(ord) |-> [base |-> srcs[ord[i]].base, lines |-> pl[ord[i]]]]
    \o << [base |-> <<>>, lines |-> <<ParseAttrLine(BuiltinLine, TRUE)>>] >>
StackFor(srcs, dir) == StackForP(srcs, ParsedAttrFiles(srcs), dir)

\* determine_macros: the definition found first when walking the stack from the top, each file from its last line
RECURSIVE MacroInFile(_, _, _), MacroInStack(_, _, _)
MacroInFile(lines, i, n) ==
  IF i < 1 THEN <<>>
  ELSE IF lines[i].kind = "macro" /\ lines[i].name = n THEN <<lines[i].attrs>>
  ELSE MacroInFile(lines, i - 1, n)
MacroInStack(stack, f, n) ==          \* << attrs >> of the macro named n, or << >>
  IF f > Len(stack) THEN <<>>
  ELSE LET m == MacroInFile(stack[f].lines, Len(stack[f].lines), n) IN
       IF m # <<>> THEN m ELSE MacroInStack(stack, f + 1, n)

\* vals: sequence of [n, st, v] decided so far (an attribute appears at most once)
Known(vals, n) == \E i \in 1..Len(vals) : vals[i].n = n

\* fill_one + macroexpand_one: the assignments of one line, LAST first; an attribute that is already
\* decided keeps its value; a macro attribute that has just been SET expands on the spot
RECURSIVE FillOne(_, _, _, _)
FillOne(stack, attrs, i, vals) ==
  IF i < 1 THEN vals
  ELSE LET a == attrs[i] IN
       IF Known(vals, a.n) THEN FillOne(stack, attrs, i - 1, vals)
       ELSE LET v1 == Append(vals, [n |-> a.n, st |-> a.st, v |-> a.v])
                m  == IF a.st = "set" THEN MacroInStack(stack, 1, a.n) ELSE <<>>
                v2 == IF m # <<>> THEN FillOne(stack, m[1], Len(m[1]), v1) ELSE v1
            IN FillOne(stack, attrs, i - 1, v2)

\* fill: every file of the stack from the top, every line from the last
RECURSIVE FillLines(_, _, _, _, _, _, _), FillStack(_, _, _, _, _, _)
FillLines(stack, f, i, path, isDir, icase, vals) ==
  IF i < 1 THEN vals
  ELSE LET ln == stack[f].lines[i] IN
       IF ln.kind = "pat" /\ PatternMatches(ln.pr, stack[f].base, path, isDir, icase)
       THEN FillLines(stack, f, i - 1, path, isDir, icase, FillOne(stack, ln.attrs, Len(ln.attrs), vals))
       ELSE FillLines(stack, f, i - 1, path, isDir, icase, vals)
FillStack(stack, f, path, isDir, icase, vals) ==
  IF f > Len(stack) THEN vals
  ELSE FillStack(stack, f + 1, path, isDir, icase,
                 FillLines(stack, f, Len(stack[f].lines), path, isDir, icase, vals))

DecidedP(srcs, pl, path, isDir, icase) ==
  LET stack == StackForP(srcs, pl, ParentDir(path)) IN FillStack(stack, 1, path, isDir, icase, <<>>)
Decided(srcs, path, isDir, icase) == DecidedP(srcs, ParsedAttrFiles(srcs), path, isDir, icase)

\* what `git check-attr -a` lists
AttrsOfP(srcs, pl, path, isDir, icase) ==
  LET d == DecidedP(srcs, pl, path, isDir, icase) IN
  { [n |-> d[i].n, st |-> d[i].st, v |-> d[i].v] : i \in {j \in 1..Len(d) : d[j].st # "unspec"} }
AttrsOf(srcs, path, isDir, icase) == AttrsOfP(srcs, ParsedAttrFiles(srcs), path, isDir, icase)

\* ---- judged domain -------------------------------------------------------------------
\* no NUL; no line whose pattern is C-quoted (quoting is C57's subject); well-formed query path
QuotedLine(l) == LET s == SkipBlanks(l, 1) IN s <= Len(l) /\ l[s] = DQUOTE
InDomainA(srcs, path) ==
  /\ WellFormedPath(path)
  /\ \A k \in 1..Len(srcs) :
       /\ ~HasByte(srcs[k].content, 0)
       /\ \A i \in 1..Len(RawLines(srcs[k].content)) : ~QuotedLine(RawLines(srcs[k].content)[i])
=============================================================================
