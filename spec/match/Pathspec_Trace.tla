---------------------------- MODULE Pathspec_Trace ----------------------------
(* Binding B (and the git audit of random cases) for C39.  One event per       *)
(* (pathspec list, index path):                                                *)
(*  who = "gix": [specs, path, attrs, parse : seq of BOOLEAN, ran, matched,    *)
(*               excluded, dirs] - gix_pathspec::parse per element,            *)
(*               Search::pattern_matching_relative_path(path, Some(false)) and *)
(*               whether every leading directory passed can_match_relative_path*)
(*  who = "git": [specs, path, attrs, valid, selected] - `git ls-files --      *)
(*               <specs>` accepted the list / listed the path                  *)
(*  who = "probe": [specs, shape] labels a rejected input.                     *)
(* attrs is the attribute state of the path as `git check-attr` reports it.    *)
EXTENDS Pathspec, TraceIO

VARIABLE l
Init == l = 1
Next == l <= NRec /\ l' = l + 1
Spec == Init /\ [][Next]_l

JudgeGix(r) ==
  AllOk(r.specs) =>
    LET sel == Selected(ParseAll(r.specs), r.path, r.attrs) IN
    /\ \A k \in 1..Len(r.specs) : r.parse[k]
    /\ r.ran
    /\ (r.matched /\ ~r.excluded) = sel
    /\ (sel => r.dirs)                 \* a traversal that prunes with can_match_relative_path still reaches the path

JudgeGit(r) ==
  /\ (\A k \in 1..Len(r.specs) : SpecInDomain(r.specs[k])) => (r.valid = \A k \in 1..Len(r.specs) : Parse(r.specs[k]).ok)
  /\ (AllOk(r.specs) /\ r.valid) => r.selected = Selected(ParseAll(r.specs), r.path, r.attrs)

Judge(r) == IF r.who = "gix" THEN JudgeGix(r)
            ELSE IF r.who = "git" THEN JudgeGit(r)
            ELSE ~(AllOk(r.specs) /\ Shapes(r.specs, <<>>)[r.shape])

EventOk == l <= NRec => (Judge(Rec[l]) \/ PrintT(<<"REJECT", l>>))
=============================================================================
