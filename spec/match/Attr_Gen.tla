------------------------------- MODULE Attr_Gen -------------------------------
(* Binding A for C38: every world of <= LMax attribute lines, each placed in one *)
(* of the files of the family, over the fixed little tree of Ignore_Gen; one    *)
(* CASE per world with the attributes of every query path, case-sensitively and *)
(* with core.ignoreCase.                                                        *)
(*   Family "dirs":   .gitattributes, a/.gitattributes, a/b/.gitattributes      *)
(*   Family "global": .gitattributes, info/attributes, core.attributesFile, a/.gitattributes *)
(*   res : <<case-sensitive, ignoreCase>>, each one set of [n, st, v] per query  *)
EXTENDS Attr, Json, TLC
CONSTANTS LMax, Family, Small

A == 97  Bb == 98  C == 99
FilesDirs == << [kind |-> "dir", base |-> <<>>], [kind |-> "dir", base |-> <<A>>], [kind |-> "dir", base |-> <<A, SLASH, Bb>>] >>
FilesGlobal == << [kind |-> "dir", base |-> <<>>], [kind |-> "info", base |-> <<>>], [kind |-> "global", base |-> <<>>],
                 [kind |-> "dir", base |-> <<A>>] >>
Files == IF Family = "dirs" THEN FilesDirs ELSE FilesGlobal

\* lines (written out as bytes below):
\*   "* text"  "* -text"  "c !text"  "c eol=lf"  "* binary"  "[attr]m text -diff"  "c m"  "c -m"  "b/ text"
\*   "a/b -text"  "/c x"  "c -binary"  "C text"  "c text -text"  "!c text"  "c m=x"  "[attr]m eol=crlf"  "a/** y"
L1  == <<42, 32, 116, 101, 120, 116>>
L2  == <<42, 32, 45, 116, 101, 120, 116>>
L3  == <<99, 32, 33, 116, 101, 120, 116>>
L4  == <<99, 32, 101, 111, 108, 61, 108, 102>>
L5  == <<42, 32, 98, 105, 110, 97, 114, 121>>
L6  == <<91, 97, 116, 116, 114, 93, 109, 32, 116, 101, 120, 116, 32, 45, 100, 105, 102, 102>>
L7  == <<99, 32, 109>>
L8  == <<99, 32, 45, 109>>
L9  == <<98, 47, 32, 116, 101, 120, 116>>
L10 == <<97, 47, 98, 32, 45, 116, 101, 120, 116>>
L11 == <<47, 99, 32, 120>>
L12 == <<99, 32, 45, 98, 105, 110, 97, 114, 121>>
L13 == <<67, 32, 116, 101, 120, 116>>
L14 == <<99, 32, 116, 101, 120, 116, 32, 45, 116, 101, 120, 116>>
L15 == <<33, 99, 32, 116, 101, 120, 116>>
L16 == <<99, 32, 109, 61, 120>>
L17 == <<91, 97, 116, 116, 114, 93, 109, 32, 101, 111, 108, 61, 99, 114, 108, 102>>
L18 == <<97, 47, 42, 42, 32, 121>>
TokAll == {L1, L2, L3, L4, L5, L6, L7, L8, L9, L10, L11, L12, L13, L14, L15, L16, L17, L18}
TokSmall == {L1, L3, L5, L6, L7, L10, L12, L17}
TokGlobal == {L1, L2, L3, L5, L6, L7, L8, L12, L16, L17}
TokGlobalSmall == {L1, L5, L6, L7, L12}
Tok == IF Small THEN (IF Family = "dirs" THEN TokSmall ELSE TokGlobalSmall) ELSE IF Family = "dirs" THEN TokAll ELSE TokGlobal

Queries == << [p |-> <<A>>, d |-> TRUE], [p |-> <<Bb>>, d |-> TRUE], [p |-> <<C>>, d |-> FALSE],
              [p |-> <<A, SLASH, Bb>>, d |-> TRUE], [p |-> <<A, SLASH, C>>, d |-> FALSE],
              [p |-> <<A, SLASH, Bb, SLASH, C>>, d |-> FALSE], [p |-> <<A, SLASH, Bb, SLASH, Bb>>, d |-> TRUE] >>

VARIABLES lines, done
vars == <<lines, done>>
Init == lines = <<>> /\ done = FALSE
Extend == /\ ~done /\ Len(lines) < LMax
          /\ \E f \in 1..Len(Files), t \in Tok : lines' = Append(lines, [f |-> f, t |-> t])
          /\ done' = FALSE
Finish == ~done /\ done' = TRUE /\ UNCHANGED lines
Next == Extend \/ Finish
Spec == Init /\ [][Next]_vars

RECURSIVE ContentOf(_, _)
ContentOf(f, i) == IF i > Len(lines) THEN <<>>
                   ELSE (IF lines[i].f = f THEN lines[i].t \o <<LF>> ELSE <<>>) \o ContentOf(f, i + 1)
Srcs == [f \in 1..Len(Files) |-> [kind |-> Files[f].kind, base |-> Files[f].base, content |-> ContentOf(f, 1)]]

Results(icase) == LET pl == ParsedAttrFiles(Srcs) IN
                  [q \in 1..Len(Queries) |-> AttrsOfP(Srcs, pl, Queries[q].p, Queries[q].d, icase)]

\* design-level statements: an attribute is listed once; a listed value is never "unspec";
\* whoever has `binary` set has text, diff and merge decided
Bin == <<98, 105, 110, 97, 114, 121>>
Sound(r) == \A q \in 1..Len(Queries) :
              /\ \A x, y \in r[q] : x.n = y.n => x = y
              /\ \A x \in r[q] : x.st \in {"set", "unset", "value"}
              /\ (\E x \in r[q] : x.n = Bin /\ x.st = "set") =>
                    \A n \in { <<116, 101, 120, 116>>, <<100, 105, 102, 102>>, <<109, 101, 114, 103, 101>> } :
                       Known(Decided(Srcs, Queries[q].p, Queries[q].d, FALSE), n)
Laws == done => (Sound(Results(FALSE)) /\ \A q \in 1..Len(Queries) : InDomainA(Srcs, Queries[q].p))

Emit == done => PrintT(<<"CASE", ToJson([lines |-> lines, srcs |-> Srcs, queries |-> Queries,
                                          res |-> <<Results(FALSE), Results(TRUE)>>])>>)
=============================================================================
