----------------------------- MODULE PathProtect -----------------------------
(* C40.  Which tree / index path names git refuses to write: read-cache.c      *)
(* verify_path + verify_dotfile, path.c is_ntfs_dotgit / is_ntfs_dot_generic,  *)
(* utf8.c is_hfs_dot_generic / next_hfs_char / pick_one_utf8_char, transcribed *)
(* for a non-Windows build of git (is_dir_sep(c) <=> c = '/', no DOS drive     *)
(* prefix, is_valid_path always true), over byte sequences.                    *)
(*                                                                             *)
(*   VerifyPath(path, sym, ntfs, hfs)  <=>  verify_path(path, mode) != 0       *)
(*        sym  = S_ISLNK(mode); ntfs = core.protectNTFS; hfs = core.protectHFS *)
(*                                                                             *)
(* The property speaks about one path COMPONENT c (no '/') in one of three     *)
(* roles: leaf that is a regular file, leaf that is a symlink, directory above *)
(* a regular file:                                                             *)
(*   Refused(c, role, ntfs, hfs) <=> git refuses the path c  (c/x for "dir")   *)
(* and demands only:  Refused(c, ..) => gitoxide refuses c.                    *)
EXTENDS Bytes

At(s, i) == IF i >= 1 /\ i <= Len(s) THEN s[i] ELSE 0

SLASH == 47  BSLASH == 92  DOT == 46  COLON == 58  SPACE == 32  TILDE == 126
IsDirSep(c) == c = SLASH                     \* is_dir_sep on this platform
IsXSep(c) == c = SLASH \/ c = BSLASH         \* is_xplatform_dir_sep

\* !strncasecmp(s + i, needle, Len(needle)) for a lower-case ASCII needle
IPrefixAt(s, i, needle) == \A k \in 1..Len(needle) : ToLower(At(s, i + k - 1)) = needle[k]

Git == <<103, 105, 116>>                                            \* "git"
Modules == <<109, 111, 100, 117, 108, 101, 115>>                    \* "modules"
GitModules == Git \o Modules                                        \* "gitmodules"
GitModulesShort == <<103, 105, 55, 101, 98, 97>>                    \* "gi7eba"

\* ---- NTFS -------------------------------------------------------------------
\* tail of is_ntfs_dotgit: only spaces and periods up to the end, a separator or ':'
RECURSIVE NtfsTailX(_, _)
NtfsTailX(s, j) ==
  LET c == At(s, j) IN
  IF c = 0 \/ IsXSep(c) \/ c = COLON THEN TRUE
  ELSE IF c = DOT \/ c = SPACE THEN NtfsTailX(s, j + 1) ELSE FALSE

\* is_ntfs_dotgit(s + i - 1):  .git  or  git~1 , case-insensitively, then NtfsTailX
NtfsDotGit(s, i) ==
  LET c == At(s, i) IN
  IF c = DOT THEN (IPrefixAt(s, i + 1, Git) /\ NtfsTailX(s, i + 4))
  ELSE IF ToLower(c) = 103 THEN
         (IPrefixAt(s, i + 1, <<105, 116>>) /\ At(s, i + 3) = TILDE /\ At(s, i + 4) = 49 /\ NtfsTailX(s, i + 5))
  ELSE FALSE

\* label only_spaces_and_periods of is_ntfs_dot_generic (no separator here)
RECURSIVE NtfsTail(_, _)
NtfsTail(s, j) ==
  LET c == At(s, j) IN
  IF c = 0 \/ c = COLON THEN TRUE
  ELSE IF c = DOT \/ c = SPACE THEN NtfsTail(s, j + 1) ELSE FALSE

\* the fall-back short name loop: `for (i = 0, saw_tilde = 0; i < 8; i++)`
RECURSIVE NtfsFallback(_, _, _, _, _)
NtfsFallback(s, i, short, k, saw) ==
  IF k >= 8 THEN NtfsTail(s, i + k)
  ELSE LET c == At(s, i + k) IN
    IF c = 0 THEN FALSE
    ELSE IF saw THEN (IF ~IsDigit(c) THEN FALSE ELSE NtfsFallback(s, i, short, k + 1, TRUE))
    ELSE IF c = TILDE THEN
      LET d == At(s, i + k + 1) IN
      IF d < 49 \/ d > 57 THEN FALSE ELSE NtfsFallback(s, i, short, k + 2, TRUE)
    ELSE IF k >= 6 THEN FALSE
    ELSE IF c >= 128 THEN FALSE
    ELSE IF ToLower(c) # short[k + 1] THEN FALSE
    ELSE NtfsFallback(s, i, short, k + 1, FALSE)

\* is_ntfs_dot_generic(s + i - 1, name, Len(name), short)
NtfsDotGeneric(s, i, name, short) ==
  IF At(s, i) = DOT /\ IPrefixAt(s, i + 1, name) THEN NtfsTail(s, i + 1 + Len(name))
  ELSE IF IPrefixAt(s, i, SubSeq(name, 1, 6)) /\ At(s, i + 6) = TILDE /\ At(s, i + 7) >= 49 /\ At(s, i + 7) <= 52
       THEN NtfsTail(s, i + 8)
  ELSE NtfsFallback(s, i, short, 0, FALSE)
NtfsDotGitmodules(s, i) == NtfsDotGeneric(s, i, GitModules, GitModulesShort)

\* ---- HFS+ -------------------------------------------------------------------
Cont(b) == b >= 128 /\ b <= 191              \* (b & 0xc0) == 0x80
Invalid == [c |-> 0, n |-> 0]
\* pick_one_utf8_char on a NUL-terminated string: code point and next index; n = 0 <=> *start = NULL
Utf8At(s, i) ==
  LET b0 == At(s, i)  b1 == At(s, i + 1)  b2 == At(s, i + 2)  b3 == At(s, i + 3) IN
  IF b0 < 128 THEN [c |-> b0, n |-> i + 1]
  ELSE IF b0 >= 192 /\ b0 <= 223 THEN
    IF ~Cont(b1) \/ b0 = 192 \/ b0 = 193 THEN Invalid
    ELSE [c |-> (b0 % 32) * 64 + (b1 % 64), n |-> i + 2]
  ELSE IF b0 >= 224 /\ b0 <= 239 THEN
    IF \/ ~Cont(b1) \/ ~Cont(b2)
       \/ (b0 = 224 /\ b1 <= 159)                       \* overlong
       \/ (b0 = 237 /\ b1 >= 160)                       \* surrogate
       \/ (b0 = 239 /\ b1 = 191 /\ b2 >= 190)           \* U+FFFE, U+FFFF
    THEN Invalid
    ELSE [c |-> (b0 % 16) * 4096 + (b1 % 64) * 64 + (b2 % 64), n |-> i + 3]
  ELSE IF b0 >= 240 /\ b0 <= 247 THEN
    IF \/ ~Cont(b1) \/ ~Cont(b2) \/ ~Cont(b3)
       \/ (b0 = 240 /\ b1 <= 143)                       \* overlong
       \/ (b0 = 244 /\ b1 > 143) \/ b0 > 244            \* > U+10FFFF
    THEN Invalid
    ELSE [c |-> (b0 % 8) * 262144 + (b1 % 64) * 4096 + (b2 % 64) * 64 + (b3 % 64), n |-> i + 4]
  ELSE Invalid

\* code points HFS+ ignores when comparing names
HfsIgnorable == {8204, 8205, 8206, 8207, 8234, 8235, 8236, 8237, 8238, 8298, 8299, 8300, 8301, 8302, 8303, 65279}
\*               200c  200d  200e  200f  202a  202b  202c  202d  202e  206a  206b  206c  206d  206e  206f  feff

\* next_hfs_char: malformed UTF-8 yields 0, like the end of the string
RECURSIVE NextHfs(_, _)
NextHfs(s, i) ==
  LET d == Utf8At(s, i) IN
  IF d.n = 0 THEN Invalid
  ELSE IF d.c \in HfsIgnorable THEN NextHfs(s, d.n)
  ELSE d

RECURSIVE HfsNeedle(_, _, _, _)
HfsNeedle(s, j, needle, k) ==
  LET d == NextHfs(s, j) IN
  IF k > Len(needle) THEN ~(d.c # 0 /\ ~IsDirSep(d.c))
  ELSE IF d.c > 127 \/ ToLower(d.c) # needle[k] THEN FALSE
  ELSE HfsNeedle(s, d.n, needle, k + 1)

\* is_hfs_dot_generic(s + i - 1, needle, Len(needle))
HfsDotGeneric(s, i, needle) ==
  LET d == NextHfs(s, i) IN
  IF d.c # DOT THEN FALSE ELSE HfsNeedle(s, d.n, needle, 1)
HfsDotGit(s, i) == HfsDotGeneric(s, i, Git)
HfsDotGitmodules(s, i) == HfsDotGeneric(s, i, GitModules)

\* ---- verify_dotfile(rest = s + r - 1, mode) -----------------------------------
VerifyDotfile(s, r, sym) ==
  LET c == At(s, r) IN
  IF c = 0 \/ IsDirSep(c) THEN FALSE                                  \* "."
  ELSE IF ToLower(c) = 103 THEN
    IF ToLower(At(s, r + 1)) # 105 THEN TRUE
    ELSE IF ToLower(At(s, r + 2)) # 116 THEN TRUE
    ELSE IF At(s, r + 3) = 0 \/ IsDirSep(At(s, r + 3)) THEN FALSE     \* ".git"
    ELSE IF sym /\ IPrefixAt(s, r + 3, Modules) /\ (At(s, r + 10) = 0 \/ IsDirSep(At(s, r + 10))) THEN FALSE
    ELSE TRUE
  ELSE IF c = DOT THEN ~(At(s, r + 1) = 0 \/ IsDirSep(At(s, r + 1)))    \* ".."
  ELSE TRUE

\* ---- verify_path ----------------------------------------------------------------
RECURSIVE AtComponent(_, _, _, _, _), Along(_, _, _, _, _)
\* label `inside`: i is the first byte of a component
AtComponent(s, i, sym, ntfs, hfs) ==
  IF hfs /\ (HfsDotGit(s, i) \/ (sym /\ HfsDotGitmodules(s, i))) THEN FALSE
  ELSE IF ntfs /\ (NtfsDotGit(s, i) \/ (sym /\ NtfsDotGitmodules(s, i))) THEN FALSE
  ELSE LET c == At(s, i) IN
       IF (c = DOT /\ ~VerifyDotfile(s, i + 1, sym)) \/ IsDirSep(c) THEN FALSE
       ELSE IF c = 0 THEN FALSE               \* empty path / trailing slash: S_ISDIR(mode) is false here
       ELSE Along(s, i + 1, sym, ntfs, hfs)
\* top of `for (;;)` with c = s[j]
Along(s, j, sym, ntfs, hfs) ==
  LET c == At(s, j) IN
  IF c = 0 THEN TRUE
  ELSE IF IsDirSep(c) THEN AtComponent(s, j + 1, sym, ntfs, hfs)
  ELSE IF c = BSLASH /\ ntfs /\ (NtfsDotGit(s, j + 1) \/ (sym /\ NtfsDotGitmodules(s, j + 1))) THEN FALSE
  ELSE Along(s, j + 1, sym, ntfs, hfs)

VerifyPath(s, sym, ntfs, hfs) == AtComponent(s, 1, sym, ntfs, hfs)

\* ---- the property's view: one component in a role ----------------------------------
Roles == {"file", "symlink", "dir"}
InDomain(c) == ~HasByte(c, 0) /\ ~HasByte(c, SLASH)
PathOf(c, role) == IF role = "dir" THEN c \o <<SLASH, 120>> ELSE c
Refused(c, role, ntfs, hfs) == ~VerifyPath(PathOf(c, role), role = "symlink", ntfs, hfs)

\* ---- design-level statements (checked by PathProtect_Gen on every enumerated component) ----
\* verdicts for (ntfs, hfs) = (F,F), (F,T), (T,F), (T,T)
VerdictVec(c, role) == <<Refused(c, role, FALSE, FALSE), Refused(c, role, FALSE, TRUE),
                         Refused(c, role, TRUE, FALSE), Refused(c, role, TRUE, TRUE)>>
\* protections only ever add refusals
MonotoneVec(v) == (v[1] => v[2]) /\ (v[1] => v[3]) /\ (v[2] => v[4]) /\ (v[3] => v[4])
\* whatever is refused as a regular file is refused as a symlink
StricterVec(f, s) == \A k \in 1..4 : f[k] => s[k]
=============================================================================
