SPECIFICATION Spec
CONSTANTS
  LMax = 2
  Family = "dirs"
  Small = FALSE
INVARIANTS
  Laws
  Emit
CHECK_DEADLOCK FALSE
