SPECIFICATION Spec
CONSTANTS
  Mode = "select"
  MaxSpecs = 2
  MaxToks = 4
  Wide = FALSE
INVARIANTS
  TokensValid
  ExcludeOnlyShrinks
  OrderIrrelevant
  Emit
CHECK_DEADLOCK FALSE
