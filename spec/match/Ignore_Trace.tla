----------------------------- MODULE Ignore_Trace -----------------------------
(* Bindings B and C for C37.  One event = one world, one case mode, all queries: *)
(*   [k, srcs, queries : <<[p, d]>>, icase, r : <<[m, src, line]>>]              *)
(*   k = "gix": what gix_worktree::Stack answered (judged inside the domain)     *)
(*   k = "git": what `git check-ignore -v -n --no-index` answered on the same    *)
(*              world materialised on disk (must equal the specification,        *)
(*              otherwise the transcription is wrong: tool error)                *)
EXTENDS Ignore, TraceIO

VARIABLE l
Init == l = 1
Next == l <= NRec /\ l' = l + 1
Spec == Init /\ [][Next]_l

Judge(e) ==
  LET pl == ParsedLists(e.srcs) IN
  \A q \in 1..Len(e.queries) :
    (e.k = "gix" => InDomainW(e.srcs, e.queries[q].p)) =>
      LET want == CheckP(e.srcs, pl, e.queries[q].p, e.queries[q].d, e.icase) IN
      e.r[q] = <<want.m, want.src, want.line>>

EventOk == l <= NRec => (Judge(Rec[l]) \/ PrintT(<<"REJECT", l>>))
=============================================================================
