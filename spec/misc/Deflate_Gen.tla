----------------------------- MODULE Deflate_Gen -----------------------------
(* Binding A for C56: TLC enumerates every sequence of <= MaxWrites write     *)
(* sizes over a token alphabet placed around the writer's 32 KiB buffer and   *)
(* prints what the specification expects of the run: the value each `write`   *)
(* returns (AllConsumed of Deflate_MC: the length offered), the total the     *)
(* finished stream must inflate to, and the loose-object header the object id *)
(* is computed over for each kind.  The data bytes are chosen by the driver   *)
(* (they are immaterial to the rule); Inflate/SHA-1 are evaluated outside.    *)
EXTENDS Deflate, Json, TLC
CONSTANTS MaxWrites, Wide

B == 32768
TokQuick == {0, 1, B - 1, B, B + 1}
TokWide  == TokQuick \cup {2, 65535, 65536, 65537, 100000}
Tok == IF Wide THEN TokWide ELSE TokQuick

VARIABLES sizes, done
vars == <<sizes, done>>
Init == sizes = <<>> /\ done = FALSE
Extend == ~done /\ Len(sizes) < MaxWrites /\ \E t \in Tok : sizes' = Append(sizes, t) /\ done' = FALSE
Finish == ~done /\ done' = TRUE /\ UNCHANGED sizes
Next == Extend \/ Finish
Spec == Init /\ [][Next]_vars

\* design-level: the run the specification expects satisfies its own run-level rule
Expect == [sizes |-> sizes, rets |-> sizes, total |-> Sum(sizes)]
SelfConsistent == done => \A i \in 1..Len(sizes) : WriteOk(sizes[i], Expect.rets[i], <<>>, B)

Emit == done => PrintT(<<"CASE", ToJson([sizes |-> sizes, rets |-> Expect.rets, total |-> Expect.total,
                                          hdr_blob   |-> LooseHeader("blob", Expect.total),
                                          hdr_tree   |-> LooseHeader("tree", Expect.total),
                                          hdr_commit |-> LooseHeader("commit", Expect.total),
                                          hdr_tag    |-> LooseHeader("tag", Expect.total)])>>)
=============================================================================
