SPECIFICATION Spec
CONSTANTS
  MaxToks = 3
  Wide = FALSE
INVARIANTS
  RoundTrip
  Emit
CHECK_DEADLOCK FALSE
