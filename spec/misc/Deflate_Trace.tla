---------------------------- MODULE Deflate_Trace ----------------------------
(* Binding B for C56: one event per recorded run of the real code.            *)
(*   streams : per stream written through one deflate::Write (flush + reset   *)
(*             between them)  [sizes, rets, chunks, fchunks, fok]             *)
(*   ev      : per stream, the evaluator's (Python zlib/hashlib) reading of    *)
(*             the sink bytes  [len, eof, infl_len, infl_sha, in_sha]         *)
(*   unused  : bytes left in the sink after the last stream                   *)
(*   ginfl   : per stream, what gix's own stream::inflate::read produced from *)
(*             the sink when fed in other chunk sizes  [len, sha]             *)
(*   hash    : the digests (see Deflate!HashOk)                               *)
(* TLC judges each event with the run-level rules of Deflate.tla.             *)
EXTENDS Deflate, TraceIO

BufSize == 32768      \* deflate::BUF_SIZE

VARIABLE l
Init == l = 1
Next == l <= NRec /\ l' = l + 1
Spec == Init /\ [][Next]_l

Judge(r) ==
  /\ Len(r.ev) = Len(r.streams) /\ Len(r.ginfl) = Len(r.streams)
  /\ \A i \in 1..Len(r.streams) :
        /\ StreamOk(r.streams[i], r.ev[i], BufSize)
        /\ r.ginfl[i].len = Sum(r.streams[i].sizes)
        /\ r.ginfl[i].sha = r.ev[i].in_sha
  /\ r.unused = 0
  /\ r.hash.len = Sum([i \in 1..Len(r.streams) |-> Sum(r.streams[i].sizes)])
  /\ HashOk(r.hash)

EventOk == l <= NRec => (Judge(Rec[l]) \/ PrintT(<<"REJECT", l>>))
=============================================================================
