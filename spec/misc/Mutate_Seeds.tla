---------------------------- MODULE Mutate_Seeds ----------------------------
(* Seeds for the two entry points of C06 that have no format module of their  *)
(* own elsewhere: EWAH bitmaps (rendered by Mutate!Ewah) and revision specs   *)
(* (token strings of <= MaxToks tokens over the operators of gitrevisions).   *)
EXTENDS Mutate, Json, TLC
CONSTANTS MaxToks

RevTok == { <<72,69,65,68>>, <<64>>, <<94>>, <<126>>, <<123>>, <<125>>, <<58>>, <<46,46>>, <<46,46,46>>, <<45>>, <<49>>,
            <<47>>, <<33>>, <<116,114,101,101>>, <<99,111,109,109,105,116>>, <<109,97,105,110>>, <<48>>, <<94,123>>,
            <<64,123>>, <<117>>, <<112,117,115,104>>, <<58,47>>, <<97,98,99,100,101,102>>, <<94,33>>, <<94,64>>, <<32>>,
            <<50,48,50,48,45,48,49,45,48,49>> }
\*           HEAD @ ^ ~ { } : .. ... - 1 / ! tree commit main 0 ^{ @{ u push :/ abcdef ^! ^@ space 2020-01-01

VARIABLES toks, kind, done
vars == <<toks, kind, done>>
Init == toks = <<>> /\ kind \in {"revspec", "ewah"} /\ done = FALSE
Extend == ~done /\ kind = "revspec" /\ Len(toks) < MaxToks /\ \E t \in RevTok : toks' = Append(toks, t) /\ UNCHANGED <<kind, done>>
PickEwah == ~done /\ kind = "ewah" /\ toks = <<>> /\ \E e \in EwahSeeds : toks' = <<e>> /\ done' = TRUE /\ UNCHANGED kind
Finish == ~done /\ kind = "revspec" /\ done' = TRUE /\ UNCHANGED <<toks, kind>>
Next == Extend \/ PickEwah \/ Finish
Spec == Init /\ [][Next]_vars

Emit == done => PrintT(<<"CASE", ToJson([ep |-> kind, bytes |-> FlatSeq(toks)])>>)
=============================================================================
