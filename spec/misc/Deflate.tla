------------------------------- MODULE Deflate -------------------------------
(* C56.  Streaming compression and hashing do not depend on chunking.         *)
(*                                                                            *)
(* Part 1 - the abstract compressor.  zlib itself is NOT modelled: a          *)
(* compressor is any object honouring zlib's deflate() contract:              *)
(*   * a call takes a prefix (k bytes) of the offered input and emits at most *)
(*     `cap` bytes of what it owes (m units), in order, nothing twice;        *)
(*   * it makes progress (k + m > 0) whenever input is offered and there is   *)
(*     output room; with Finish it makes progress while it still owes output; *)
(*   * StreamEnd is reported only for Finish, when all input was taken and    *)
(*     everything owed (including the trailer) has been emitted;              *)
(*   * without progress the status is BufError; Ok otherwise.                 *)
(* What it owes is abstract: the stream is  HDR, one unit per accepted input  *)
(* byte, TRL  (the units stand for "the compressed form of that byte"; real   *)
(* compression changes the sizes, not the order/exactly-once structure the    *)
(* writer loop depends on).  Inflate is the inverse on well-formed streams.   *)
(* How much is taken/held back/emitted per call is nondeterministic, so the   *)
(* loop (Deflate_MC, PlusCal) is checked against EVERY such compressor.       *)
(*                                                                            *)
(* Part 2 - what one recorded run of the real writer must look like (used by  *)
(* Deflate_Gen / Deflate_Trace).  These are the statements TLC proves for the *)
(* loop in Deflate_MC, lifted to the observable interface: the value returned *)
(* by every `write`, the chunks the inner sink receives, the finished stream. *)
(* Inflate and SHA-1 are uninterpreted: their values arrive as data from an   *)
(* evaluator (Python zlib / hashlib); digests are opaque strings.             *)
EXTENDS Bytes

HDR == 0
TRL == -1

CInit == [pending |-> <<HDR>>, trailer |-> FALSE, ended |-> FALSE, tin |-> 0, tout |-> 0]

\* what the compressor owes after taking k bytes of inp
Queue(c, inp, flush, k) ==
  LET p == c.pending \o SubSeq(inp, 1, k) IN
  IF flush = "Finish" /\ k = Len(inp) /\ ~c.trailer THEN Append(p, TRL) ELSE p

Allowed(c, inp, flush, cap, k, m) ==
  LET q == Queue(c, inp, flush, k) IN
  /\ ~c.ended
  /\ m <= Len(q) /\ m <= cap
  /\ (Len(inp) > 0 /\ cap > 0) => k + m > 0
  /\ (flush = "Finish" /\ cap > 0 /\ q # <<>>) => k + m > 0

Outcomes1(c, inp, flush, k, m) ==
  LET q    == Queue(c, inp, flush, k)
      tr   == c.trailer \/ (flush = "Finish" /\ k = Len(inp))
      rest == SubSeq(q, m + 1, Len(q))
      done == flush = "Finish" /\ tr /\ rest = <<>>
      sts  == IF done THEN (IF k + m > 0 THEN {"StreamEnd", "Ok"} ELSE {"StreamEnd"})
              ELSE IF k + m > 0 THEN {"Ok"} ELSE {"BufError"}
  IN { [c |-> [pending |-> rest, trailer |-> tr, ended |-> (st = "StreamEnd"),
               tin |-> c.tin + k, tout |-> c.tout + m],
        out |-> SubSeq(q, 1, m), status |-> st] : st \in sts }

\* every result of compress(inp, out[..cap], flush) the contract admits
CompressOutcomes(c, inp, flush, cap) ==
  UNION { Outcomes1(c, inp, flush, km[1], km[2]) :
          km \in { x \in (0..Len(inp)) \X (0..cap) : Allowed(c, inp, flush, cap, x[1], x[2]) } }

\* a finished abstract stream and its inverse
Stream(data) == <<HDR>> \o data \o <<TRL>>
WellFormed(s) == Len(s) >= 2 /\ s[1] = HDR /\ s[Len(s)] = TRL
AbsInflate(s) == SubSeq(s, 2, Len(s) - 1)

\* ---------------------------------------------------------------- run-level rules
RECURSIVE SumFrom(_, _, _)
SumFrom(s, i, acc) == IF i > Len(s) THEN acc ELSE SumFrom(s, i + 1, acc + s[i])
Sum(s) == SumFrom(s, 1, 0)

\* one call  write(buf) / flush(): everything offered is taken (so write_all never sees a short or
\* zero write), and the inner sink is handed non-empty pieces no larger than the writer's buffer
ChunksOk(chunks, B) == \A i \in 1..Len(chunks) : chunks[i] >= 1 /\ chunks[i] <= B
WriteOk(len, ret, chunks, B) == ret = len /\ ChunksOk(chunks, B)

\* one stream: w = [sizes, rets, chunks (one sequence per write), fchunks (flush), fok]
\*             e = the evaluator's view of the bytes the sink received for this stream:
\*                 [len (compressed bytes), eof (stream complete), infl_len, infl_sha, in_sha]
StreamOk(w, e, B) ==
  /\ Len(w.rets) = Len(w.sizes) /\ Len(w.chunks) = Len(w.sizes)
  /\ \A i \in 1..Len(w.sizes) : WriteOk(w.sizes[i], w.rets[i], w.chunks[i], B)
  /\ w.fok /\ ChunksOk(w.fchunks, B)
  /\ e.len = Sum([i \in 1..Len(w.chunks) |-> Sum(w.chunks[i])]) + Sum(w.fchunks)   \* sink = emitted
  /\ e.eof                                          \* StreamEnd reached: the trailer is there
  /\ e.infl_len = Sum(w.sizes)                      \* Inflate(sink) = Concat(inputs) ...
  /\ e.infl_sha = e.in_sha                          \* ... (equality via the evaluator's digests)

\* ---------------------------------------------------------------- hashing
KindName(k) == CASE k = "blob"   -> <<98,108,111,98>>
                 [] k = "tree"   -> <<116,114,101,101>>
                 [] k = "commit" -> <<99,111,109,109,105,116>>
                 [] k = "tag"    -> <<116,97,103>>
                 [] OTHER        -> <<>>
\* the loose-object header git hashes in front of the data
LooseHeader(kind, n) == KindName(kind) \o <<32>> \o DecNat(n) \o <<0>>

\* h = [kind, len, hdr,                 what the evaluator hashed: H(data), H(hdr \o data)
\*      h_data, h_obj,
\*      hw (hash::Write over the chunked data), hw_sink (H of what its inner writer received),
\*      ch (compute_hash), sh (compute_stream_hash over a chunked reader),
\*      pipe (hash::Write over deflate::Write fed hdr \o data in chunks),
\*      pipe_infl (H of the inflated sink of that pipeline), pipe_eof]
HashOk(h) ==
  /\ h.hdr = LooseHeader(h.kind, h.len)
  /\ h.hw = h.h_data /\ h.hw_sink = h.h_data
  /\ h.ch = h.h_obj /\ h.sh = h.h_obj
  /\ h.pipe = h.h_obj /\ h.pipe_infl = h.h_obj /\ h.pipe_eof
=============================================================================
