----------------------------- MODULE Mailmap_Gen -----------------------------
(* Binding A for C53: every mailmap of <= MaxLines lines from the line         *)
(* alphabet, resolved for every identity of the identity alphabet.             *)
EXTENDS Mailmap, Json, TLC
CONSTANTS MaxLines, Wide

LineQuick == {
  <<78,32,60,97,64,120,62>>,                                   \* N <a@x>
  <<60,110,64,121,62,32,60,97,64,120,62>>,                     \* <n@y> <a@x>
  <<78,32,60,110,64,121,62,32,60,97,64,120,62>>,               \* N <n@y> <a@x>
  <<77,32,60,109,64,121,62,32,65,32,60,97,64,120,62>>,         \* M <m@y> A <a@x>
  <<60,109,64,121,62,32,65,32,60,97,64,120,62>>,               \* <m@y> A <a@x>
  <<75,32,60,65,64,88,62>>,                                    \* K <A@X>
  <<76,32,60,108,64,121,62,32,97,32,60,65,64,120,62>>,         \* L <l@y> a <A@x>
  <<35,32,99,32,60,97,64,120,62>>,                             \* # c <a@x>
  <<78,32,60,97,64,120,62,32,35,32,99>>,                       \* N <a@x> # c
  <<78,32,60,110,64,121,62,32,66,32,60,97,64,120,62,32,106>>,  \* N <n@y> B <a@x> j
  <<74,32,60,98,64,120,62>>,                                   \* J <b@x>
  <<32,9,80,32,32,60,112,64,121,62,32,32,60,98,64,120,62,32>>  \* " \tP  <p@y>  <b@x> "
}
LineWide == LineQuick \cup {
  <<78,32,60,32,97,64,120,32,62>>,                             \* N < a@x >
  <<78,32,60,110,64,121,62,32,60,62>>,                         \* N <n@y> <>
  <<78,12,32,60,97,64,120,62>>,                                \* N\f <a@x>
  <<60,97,64,120,62>>,                                         \* <a@x>
  <<78,32,60,97,64,120>>,                                      \* N <a@x          (no '>')
  <<>>,                                                        \* (empty line)
  <<195,137,32,60,195,169,64,120,62,32,60,97,64,120,62>>,      \* É <é@x> <a@x>
  <<78,32,60,97,64,120,62,13>>                                 \* N <a@x>\r
}
Line == IF Wide THEN LineWide ELSE LineQuick

Names == << <<65>>, <<97>>, <<66>> >>                             \* A a B
Emails == << <<97,64,120>>, <<65,64,88>>, <<98,64,120>> >> \o (IF Wide THEN << <<>> >> ELSE <<>>)  \* a@x A@X b@x (empty)

ReadTok == [t \in Line |-> ReadLine(t)]      \* constant-level: evaluated once

VARIABLES lines, es, done                    \* es = Entries(File), carried along
vars == <<lines, es, done>>
Init == lines = <<>> /\ es = <<>> /\ done = FALSE
Extend == ~done /\ Len(lines) < MaxLines /\ \E t \in Line :
            /\ lines' = Append(lines, t)
            /\ es' = es \o (IF ReadTok[t].has THEN <<ReadTok[t]>> ELSE <<>>)
            /\ done' = FALSE
Finish == ~done /\ done' = TRUE /\ UNCHANGED <<lines, es>>
Next == Extend \/ Finish
Spec == Init /\ [][Next]_vars

RECURSIVE JoinLF(_)
JoinLF(ls) == IF ls = <<>> THEN <<>> ELSE Head(ls) \o <<LF>> \o JoinLF(Tail(ls))
File == JoinLF(lines)

Ids == [k \in 1..(Len(Names) * Len(Emails)) |->
          [name |-> Names[((k - 1) \div Len(Emails)) + 1], email |-> Emails[((k - 1) % Len(Emails)) + 1]]]

\* design-level statements
EsIsEntries == done => es = Entries(File)
\* an identity whose e-mail no line mentions is never changed
Untouched == done => \A k \in DOMAIN Ids :
  ForEmail(es, Ids[k].email) = {} =>
     ResolveE(es, Ids[k].name, Ids[k].email) = [name |-> Ids[k].name, email |-> Ids[k].email]
\* resolution ignores the case of the identity
CaseBlind == done => \A k \in DOMAIN Ids, j \in DOMAIN Ids :
  (SameNoCase(Ids[k].name, Ids[j].name) /\ SameNoCase(Ids[k].email, Ids[j].email)) =>
     LET a == ResolveE(es, Ids[k].name, Ids[k].email)
         b == ResolveE(es, Ids[j].name, Ids[j].email) IN
     /\ (a.name # Ids[k].name => a.name = b.name)
     /\ (a.email # Ids[k].email => a.email = b.email)
\* the documented deviation only ever changes the spelling of the e-mail
DeviationIsSpellingOnly == done => \A k \in DOMAIN Ids :
  LET a == ResolveE(es, Ids[k].name, Ids[k].email)
      b == ResolveNormalisingCaseE(es, Ids[k].name, Ids[k].email) IN
  a.name = b.name /\ SameNoCase(a.email, b.email)

Emit == done =>
  PrintT(<<"CASE", ToJson([mailmap |-> File, ids |-> Ids,
                           git |-> [k \in DOMAIN Ids |-> ResolveE(es, Ids[k].name, Ids[k].email)],
                           gix |-> [k \in DOMAIN Ids |-> ResolveNormalisingCaseE(es, Ids[k].name, Ids[k].email)],
                           entries |-> Len(es),
                           shapes |-> Shapes(File)])>>)
=============================================================================
