SPECIFICATION Spec
CONSTANTS
  MaxWrites = 4
  Wide = FALSE
INVARIANTS
  SelfConsistent
  Emit
CHECK_DEADLOCK FALSE
