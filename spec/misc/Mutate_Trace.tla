---------------------------- MODULE Mutate_Trace ----------------------------
(* Binding B for C06: outcomes recorded for seeded random byte strings and    *)
(* random mutation chains, one event per call  [ep, outcome].  The only       *)
(* outcomes the specification admits are those of Mutate!Allowed.             *)
(* (Reference-name events are additionally judged by ref/RefName_Trace: the   *)
(* verdicts and the sanitiser contract.)                                      *)
EXTENDS Mutate, TraceIO

VARIABLE l
Init == l = 1
Next == l <= NRec /\ l' = l + 1
Spec == Init /\ [][Next]_l

Judge(r) == r.outcome \in SeqRange(Allowed)
EventOk == l <= NRec => (Judge(Rec[l]) \/ PrintT(<<"REJECT", l>>))
=============================================================================
