----------------------------- MODULE CQuote_Gen -----------------------------
(* Binding A for C57.  Two input families:                                    *)
(*   tok : every string of <= MaxToks tokens over Tok (byte classes of the    *)
(*         quoting rule, plus digits/letters that could be mistaken for the   *)
(*         continuation of an escape)                                         *)
(*   byte: every single byte 0..255, alone and followed by '0' / 'n'          *)
(* each x core.quotePath x forced-quotes x trailing text.  TLC prints the     *)
(* text git would print and what unquoting it must return; the same run       *)
(* model-checks the round-trip law of the specification itself.               *)
EXTENDS CQuote, Json, TLC
CONSTANTS MaxToks, Wide

TokQuick == { <<97>>, <<32>>, <<34>>, <<92>>, <<7>>, <<10>>, <<13>>, <<0>>, <<1>>, <<27>>, <<127>>,
              <<128>>, <<255>>, <<195, 169>>, <<48>>, <<110>> }
\*             a       space   "       \       BEL    LF      CR      NUL    ^A     ESC     DEL
\*             0x80     0xff     e-acute       0       n
TokWide == TokQuick \cup { <<8>>, <<9>>, <<11>>, <<12>>, <<31>>, <<55>>, <<56>>, <<116>>, <<47>>, <<126>>, <<191>>, <<64>> }
\*                          BS     TAB    VT      FF      US      7       8       t        /       ~        0xbf     @
Tok == IF Wide THEN TokWide ELSE TokQuick

TailsQuick == { <<>>, <<32, 120>>, <<34>> }
Tails == IF Wide THEN TailsQuick \cup { <<92, 110>>, <<34, 97, 34>> } ELSE TailsQuick
\*        ""    " x"    "\""                       "\\n"       "\"a\""

VARIABLES fam, toks, qp, forced, tail, done
vars == <<fam, toks, qp, forced, tail, done>>

Init == /\ fam \in {"tok", "byte"} /\ toks = <<>> /\ done = FALSE
        /\ qp = TRUE /\ forced = FALSE /\ tail = <<>>
Extend ==
  /\ ~done /\ done' = FALSE /\ UNCHANGED <<fam, qp, forced, tail>>
  /\ \/ fam = "tok" /\ Len(toks) < MaxToks /\ \E t \in Tok : toks' = Append(toks, t)
     \/ fam = "byte" /\ toks = <<>> /\ \E b \in Byte : toks' = << <<b>> >>
     \/ fam = "byte" /\ Len(toks) = 1 /\ \E t \in { <<48>>, <<110>> } : toks' = Append(toks, t)
Finish ==
  /\ ~done /\ done' = TRUE /\ UNCHANGED <<fam, toks>>
  /\ (fam = "byte" => toks # <<>>)
  /\ qp' \in BOOLEAN /\ tail' \in Tails
  /\ forced' \in (IF NeedsQuoting(FlatSeq(toks), qp') THEN {FALSE} ELSE BOOLEAN)   \* forcing is moot otherwise
Next == Extend \/ Finish
Spec == Init /\ [][Next]_vars

Input == FlatSeq(toks)
Text == TextOf(Input, qp, forced, tail)
Quoted == forced \/ NeedsQuoting(Input, qp)
\* judged domain: a quoted form, or text that does not look quoted
InDomain == Quoted \/ Text = <<>> \/ Text[1] # DQ

\* design-level statement: the specification's Undo inverts the specification's Quote
RoundTrip == done => LawHolds(Input, qp, forced, tail)

Emit == (done /\ InDomain) =>
  PrintT(<<"CASE", ToJson([input    |-> Input,
                           qp       |-> qp,
                           forced   |-> forced,
                           quoted   |-> Quoted,
                           tail     |-> tail,
                           text     |-> Text,
                           printed  |-> Quote(Input, qp),
                           bytes    |-> Undo(Text).bytes,
                           consumed |-> Undo(Text).consumed])>>)
=============================================================================
