------------------------------- MODULE Mutate -------------------------------
(* C06.  Untrusted bytes never crash a parser.                                *)
(*                                                                            *)
(* The property quantifies over "arbitrary and structure-aware mutated byte   *)
(* strings (mutations of valid encodings: flipped bytes, truncations, extreme *)
(* length prefixes, empty components)".  This module defines those mutations  *)
(* as operators on byte sequences; Mutate_Gen applies them (TLC) to seeds that *)
(* the format modules of the other properties render (ObjFormat, PackedRefs,   *)
(* PktLine, Url, Refspec, CQuote, CredCtx, Mailmap, DateFmt, RefName,          *)
(* Pathspec, Reflog, ConfigFormat, ...) and to git-made files.                 *)
(*                                                                            *)
(* The rule itself is one line:  Allowed = {"value", "error"}  for every entry *)
(* point and every input; "panic", "hang" and an abort of the process are not  *)
(* outcomes a parser may have.  The last sentence of the property (sanitising  *)
(* any string yields a valid reference name) is judged on the same inputs by   *)
(* ref/RefName_Trace (C15's transcription of git's check_refname_format).      *)
EXTENDS Bytes

Allowed == <<"value", "error">>

\* ---------------------------------------------------------------- byte-level operators
Flip(s, i, v) == [s EXCEPT ![i] = v]
FlipHigh(b) == (b + 128) % 256
FlipLow(b) == IF b % 2 = 0 THEN b + 1 ELSE b - 1
FlipValues(b) == {0, 255, FlipHigh(b), FlipLow(b), 10, 48} \ {b}

Truncate(s, n) == SubSeq(s, 1, n)

\* overwrite Len(f) bytes at pos with f (the sequence keeps its length unless f runs past the end)
Overwrite(s, pos, f) == SubSeq(s, 1, pos - 1) \o f \o SubSeq(s, pos + Len(f), Len(s))

Splice(a, b, i, j) == SubSeq(a, 1, i) \o SubSeq(b, j + 1, Len(b))

\* ---------------------------------------------------------------- extreme length prefixes
\* 4 hex digits (packet lines): around the maximum, below the minimum, non-hex
ExtremeHex4 == << <<102,102,102,102>>, <<102,102,102,49>>, <<102,102,102,48>>, <<102,102,101,102>>,    \* ffff fff1 fff0 ffef
                  <<48,48,48,48>>, <<48,48,48,49>>, <<48,48,48,50>>, <<48,48,48,51>>, <<48,48,48,52>>,  \* 0000 .. 0004
                  <<48,48,48,53>>, <<70,70,70,70>>, <<48,48,48,103>>, <<45,48,48,49>> >>                \* 0005 FFFF 000g -001
\* big-endian 32-bit counts / offsets / sizes
ExtremeBe32 == << <<0,0,0,0>>, <<0,0,0,1>>, <<127,255,255,255>>, <<128,0,0,0>>, <<255,255,255,255>>,
                  <<255,255,255,254>>, <<0,1,0,0>>, <<1,0,0,0>> >>
\* decimal numbers (object sizes, timestamps, counts)
ExtremeDec == << <<48>>, <<45,49>>,                                                          \* 0  -1
                 <<57,57,57,57,57,57,57,57,57,57,57,57,57,57,57,57,57,57,57,57>>,            \* 20 nines
                 <<49,56,52,52,54,55,52,52,48,55,51,55,48,57,53,53,49,54,49,54>>,            \* 2^64
                 <<49,56,52,52,54,55,52,52,48,55,51,55,48,57,53,53,49,54,49,53>>,            \* 2^64 - 1
                 <<57,50,50,51,51,55,50,48,51,54,56,53,52,55,55,53,56,48,56>>,               \* 2^63
                 <<52,50,57,52,57,54,55,50,57,54>>,                                          \* 2^32
                 <<48,48,48,48,48,48,48,48,48,48,49>>, <<>> >>                               \* zero padded, empty

\* start positions of the maximal digit runs of s
DigitRunStarts(s) == SelectSeq([i \in 1..Len(s) |-> i], LAMBDA i : IsDigit(s[i]) /\ (i = 1 \/ ~IsDigit(s[i - 1])))
RECURSIVE RunEnd(_, _)
RunEnd(s, i) == IF i < Len(s) /\ IsDigit(s[i + 1]) THEN RunEnd(s, i + 1) ELSE i
\* replace the digit run starting at pos by f
ReplaceRun(s, pos, f) == SubSeq(s, 1, pos - 1) \o f \o SubSeq(s, RunEnd(s, pos) + 1, Len(s))

\* packet-line framing: start offsets of the frames of a well-formed prefix of s
Hex4At(s, i) ==
  IF i + 3 > Len(s) THEN -1
  ELSE LET a == HexVal(s[i]) b == HexVal(s[i + 1]) c == HexVal(s[i + 2]) d == HexVal(s[i + 3]) IN
       IF a < 0 \/ b < 0 \/ c < 0 \/ d < 0 THEN -1 ELSE ((a * 16 + b) * 16 + c) * 16 + d
RECURSIVE PktStarts(_, _, _)
PktStarts(s, i, acc) ==
  LET n == Hex4At(s, i) IN
  IF n < 0 \/ Len(acc) >= 12 THEN acc
  ELSE PktStarts(s, i + (IF n < 4 THEN 4 ELSE n), Append(acc, i))

\* ---------------------------------------------------------------- components
Comps(s, sep) == Split(s, sep)
Without(cs, k) == SubSeq(cs, 1, k - 1) \o SubSeq(cs, k + 1, Len(cs))
DropComponent(s, sep, k) == Join(Without(Comps(s, sep), k), <<sep>>)
DupComponent(s, sep, k) ==
  LET cs == Comps(s, sep) IN Join(SubSeq(cs, 1, k) \o SubSeq(cs, k, Len(cs)), <<sep>>)
EmptyComponent(s, sep, k) == Join([Comps(s, sep) EXCEPT ![k] = <<>>], <<sep>>)
SwapComponents(s, sep, k) ==
  LET cs == Comps(s, sep) IN Join([cs EXCEPT ![k] = cs[k + 1], ![k + 1] = cs[k]], <<sep>>)

\* ---------------------------------------------------------------- positions worth touching
\* head, tail and an even stride over the middle: binary formats keep their counts in the head,
\* their trailing extensions / bitmaps / checksums in the tail
Positions(s, head, tail, strides) ==
  LET n == Len(s) step == Max2(1, n \div strides) IN
  {i \in 1..n : i <= head \/ i > n - tail \/ i % step = 0}

\* ---------------------------------------------------------------- EWAH bitmaps (gix-bitmap), seeds
Be32Small(n) == <<0, 0, (n \div 256) % 256, n % 256>>                 \* n < 65536
\* one 64-bit running-length word: bit 0 run bit, bits 1..32 running length, bits 33.. literal-word count
Rlw(runbit, runlen, literals) == <<0, 0, 0, 2 * literals, 0, 0, 0, 2 * runlen + runbit>>     \* both < 128
Lit(b) == <<0, 0, 0, 0, 0, 0, 0, b>>
Ewah(numBits, words, rlwPos) == Be32Small(numBits) \o Be32Small(Len(words)) \o FlatSeq(words) \o Be32Small(rlwPos)
EwahSeeds == { Ewah(0, <<>>, 0),
               Ewah(64, <<Rlw(0, 0, 1), Lit(5)>>, 0),
               Ewah(128, <<Rlw(1, 1, 1), Lit(129)>>, 0),
               Ewah(256, <<Rlw(0, 2, 1), Lit(1), Rlw(1, 1, 0)>>, 2),
               Ewah(192, <<Rlw(0, 0, 2), Lit(255), Lit(3), Rlw(1, 1, 0)>>, 3) }

\* ---------------------------------------------------------------- mutation chains (binding B)
\* a step is [op, a, b, v] with naturals chosen by the driver; they are reduced modulo what the
\* current sequence offers, so every step is applicable to every sequence
Step(s, st, other) ==
  LET n == Len(s) IN
  IF n = 0 THEN (IF st.op = "splice" THEN other ELSE s)
  ELSE CASE st.op = "flip"   -> Flip(s, 1 + (st.a % n), st.v % 256)
         [] st.op = "trunc"  -> Truncate(s, st.a % (n + 1))
         [] st.op = "be32"   -> Overwrite(s, 1 + (st.a % n), ExtremeBe32[1 + (st.v % Len(ExtremeBe32))])
         [] st.op = "hex4"   -> Overwrite(s, 1 + (st.a % n), ExtremeHex4[1 + (st.v % Len(ExtremeHex4))])
         [] st.op = "dec"    -> LET rs == DigitRunStarts(s) IN
                                IF rs = <<>> THEN s ELSE ReplaceRun(s, rs[1 + (st.a % Len(rs))], ExtremeDec[1 + (st.v % Len(ExtremeDec))])
         [] st.op = "drop"   -> LET k == Len(Comps(s, st.b)) IN DropComponent(s, st.b, 1 + (st.a % k))
         [] st.op = "dup"    -> LET k == Len(Comps(s, st.b)) IN DupComponent(s, st.b, 1 + (st.a % k))
         [] st.op = "empty"  -> LET k == Len(Comps(s, st.b)) IN EmptyComponent(s, st.b, 1 + (st.a % k))
         [] st.op = "splice" -> Splice(s, other, st.a % (n + 1), st.v % (Len(other) + 1))
         [] OTHER            -> s
RECURSIVE ApplyChain(_, _, _, _)
ApplyChain(s, chain, i, other) == IF i > Len(chain) THEN s ELSE ApplyChain(Step(s, chain[i], other), chain, i + 1, other)
=============================================================================
