SPECIFICATION Spec
INVARIANT EventOk
CHECK_DEADLOCK FALSE
