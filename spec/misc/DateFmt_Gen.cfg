SPECIFICATION Spec
CONSTANTS
  Mode = "format"
  Wide = FALSE
INVARIANTS
  RoundTripLaw
  CalendarLaw
  Emit
CHECK_DEADLOCK FALSE
