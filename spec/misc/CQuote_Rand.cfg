SPECIFICATION Spec
INVARIANTS
  RoundTrip
  Emit
CHECK_DEADLOCK FALSE
