------------------------------- MODULE CQuote -------------------------------
(* C57.  git's C-style path quoting (quote.c: quote_c_style / cq_lookup) and  *)
(* its inverse (unquote_c_style), over byte sequences.                        *)
(*                                                                            *)
(*   Quote(s, qp)      what git prints for the path s; qp = core.quotePath    *)
(*                     (default TRUE: bytes >= 0x80 are quoted too).  A path  *)
(*                     without a byte that must be quoted is printed as is.   *)
(*   QuoteForced(s,qp) the form with the surrounding double quotes whether or *)
(*                     not a byte needs it (git prints it for the second name *)
(*                     of a pair when the first one needs quoting).           *)
(*   Undo(t)           [ok, bytes, consumed]: text not starting with '"' is   *)
(*                     returned unchanged and consumed entirely; otherwise    *)
(*                     the quoted form is interpreted up to and including the *)
(*                     closing '"' and `consumed` is its length in t.         *)
(*                     ok = FALSE: not a quoted form (unterminated, unknown   *)
(*                     escape, bad octal) - outside the judged domain.        *)
(*   Law (C57):  Undo(QuoteForced(s, qp) \o tail) = [TRUE, s, Len(QuoteForced)]*)
(*               Undo(u) = [TRUE, u, Len(u)] for u not starting with '"'.     *)
EXTENDS Bytes

DQ == 34
BS == 92

\* letter of the two-byte escape of b, 0 if there is none
EscLetter(b) ==
  CASE b = 7  -> 97     \* \a
    [] b = 8  -> 98     \* \b
    [] b = 9  -> 116    \* \t
    [] b = 10 -> 110    \* \n
    [] b = 11 -> 118    \* \v
    [] b = 12 -> 102    \* \f
    [] b = 13 -> 114    \* \r
    [] b = DQ -> DQ
    [] b = BS -> BS
    [] OTHER  -> 0

\* value of the escape letter c, -1 if c is not one
UnescLetter(c) ==
  CASE c = 97  -> 7
    [] c = 98  -> 8
    [] c = 116 -> 9
    [] c = 110 -> 10
    [] c = 118 -> 11
    [] c = 102 -> 12
    [] c = 114 -> 13
    [] c = DQ  -> DQ
    [] c = BS  -> BS
    [] OTHER   -> -1

\* cq_must_quote: control bytes, '"', '\', DEL; bytes >= 0x80 only with core.quotePath
MustQuote(b, qp) == b < 32 \/ b = DQ \/ b = BS \/ b = 127 \/ (qp /\ b >= 128)

Octal(b) == <<BS, 48 + (b \div 64), 48 + ((b \div 8) % 8), 48 + (b % 8)>>

EscByte(b, qp) ==
  IF ~MustQuote(b, qp) THEN <<b>>
  ELSE IF EscLetter(b) # 0 THEN <<BS, EscLetter(b)>>
  ELSE Octal(b)

NeedsQuoting(s, qp) == \E i \in 1..Len(s) : MustQuote(s[i], qp)

RECURSIVE BodyFrom(_, _, _, _)
BodyFrom(s, qp, i, acc) == IF i > Len(s) THEN acc ELSE BodyFrom(s, qp, i + 1, acc \o EscByte(s[i], qp))
Body(s, qp) == BodyFrom(s, qp, 1, <<>>)

QuoteForced(s, qp) == <<DQ>> \o Body(s, qp) \o <<DQ>>
Quote(s, qp) == IF NeedsQuoting(s, qp) THEN QuoteForced(s, qp) ELSE s

IsOct(c) == c >= 48 /\ c <= 55
Fail == [ok |-> FALSE, bytes |-> <<>>, consumed |-> 0]

\* unquote_c_style from index i (the byte after the opening quote)
RECURSIVE UnqFrom(_, _, _)
UnqFrom(t, i, acc) ==
  IF i > Len(t) THEN Fail                                           \* no closing quote
  ELSE IF t[i] = DQ THEN [ok |-> TRUE, bytes |-> acc, consumed |-> i]
  ELSE IF t[i] # BS THEN UnqFrom(t, i + 1, Append(acc, t[i]))
  ELSE IF i + 1 > Len(t) THEN Fail
  ELSE LET c == t[i + 1] IN
       IF UnescLetter(c) # -1 THEN UnqFrom(t, i + 2, Append(acc, UnescLetter(c)))
       ELSE IF c >= 48 /\ c <= 51
       THEN IF i + 3 <= Len(t) /\ IsOct(t[i + 2]) /\ IsOct(t[i + 3])
            THEN UnqFrom(t, i + 4, Append(acc, (c - 48) * 64 + (t[i + 2] - 48) * 8 + (t[i + 3] - 48)))
            ELSE Fail
       ELSE Fail

Undo(t) ==
  IF t = <<>> \/ t[1] # DQ THEN [ok |-> TRUE, bytes |-> t, consumed |-> Len(t)]
  ELSE UnqFrom(t, 2, <<>>)

\* the text of a case: the (possibly forced) quoted form of s followed by trailing text
TextOf(s, qp, forced, tail) == (IF forced THEN QuoteForced(s, qp) ELSE Quote(s, qp)) \o tail

\* the C57 law for one (s, qp, forced, tail)
LawHolds(s, qp, forced, tail) ==
  LET quoted == forced \/ NeedsQuoting(s, qp)
      t == TextOf(s, qp, forced, tail)
      u == Undo(t)
  IN IF quoted
     THEN u = [ok |-> TRUE, bytes |-> s, consumed |-> Len(QuoteForced(s, qp))]
     ELSE (t = <<>> \/ t[1] # DQ) => u = [ok |-> TRUE, bytes |-> t, consumed |-> Len(t)]
=============================================================================
