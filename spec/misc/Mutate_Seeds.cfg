SPECIFICATION Spec
CONSTANTS
  MaxToks = 2
INVARIANT Emit
CHECK_DEADLOCK FALSE
