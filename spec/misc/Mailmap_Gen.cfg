SPECIFICATION Spec
CONSTANTS
  MaxLines = 3
  Wide = FALSE
INVARIANTS
  EsIsEntries
  Untouched
  CaseBlind
  DeviationIsSpellingOnly
  Emit
CHECK_DEADLOCK FALSE
