----------------------------- MODULE DateFmt_Gen -----------------------------
(* Binding A for C52.                                                          *)
(*  Mode "format": instants x offsets x formats; prints the text the format    *)
(*   must produce and the time it must read back as; TLC checks the round-trip *)
(*   law of the specification on every one of them.                            *)
(*  Mode "parse": texts laid out in each grammar from field tokens (valid and  *)
(*   invalid dates / times / zones, wrong weekday, one-digit day) with the     *)
(*   specification's reading of them.                                         *)
EXTENDS DateFmt, Json, TLC
CONSTANTS Mode, Wide

DayQuick == { 0, 1, -1, 58, 59, 789, 790, 1157, 1158, 10956, 10957, 11016, 11017, 19221, 24855, 24856,
              47540, 47541, 47481, DaysFromCivil(9999, 12, 29), DaysFromCivil(1, 1, 2), DaysFromCivil(1600, 2, 29) }
\* 1970-01-01/02, 1969-12-31, 1970-02-28/03-01, 1972-02-29/03-01, 100000000 s, 1999-12-31, 2000-01-01, 2000-02-29/03-01,
\* 2022-08-17, 2038-01-19/20 (2^31), 2100-02-28/03-01, 2099-12-31, range ends, a leap century
DayWide == DayQuick \cup { 365, 366, 730, 1095, 1096, 1460, 1461, 11322, 11323, 16070, 16071, 36524, -36525, -141427,
                           DaysFromCivil(2400, 2, 29), DaysFromCivil(4, 2, 29), DaysFromCivil(100, 3, 1) }
Days == IF Wide THEN DayWide ELSE DayQuick
Sods == IF Wide THEN {0, 1, 59, 60, 3599, 3600, 11647, 11648, 43200, 86399} ELSE {0, 1, 11647, 43200, 86399}
\* [minutes, negz]
OffQuick == { <<0, FALSE>>, <<0, TRUE>>, <<330, FALSE>>, <<-720, FALSE>>, <<840, FALSE>>, <<-1, FALSE>> }
OffWide == OffQuick \cup { <<1, FALSE>>, <<-570, FALSE>>, <<1559, FALSE>>, <<-1559, FALSE>>, <<765, FALSE>> }
Offs == IF Wide THEN OffWide ELSE OffQuick

\* ---- parse mode: fields -> text in a layout
DateTok == { <<2022, 8, 17>>, <<2022, 8, 7>>, <<2000, 2, 29>>, <<2022, 2, 30>>, <<2100, 2, 29>>, <<1971, 1, 1>>,
             <<2098, 12, 31>>, <<2022, 13, 1>>, <<2022, 4, 31>>, <<2022, 1, 0>> }
TimeTok == { <<0, 0, 0>>, <<23, 59, 59>>, <<23, 59, 60>>, <<24, 0, 0>>, <<12, 60, 0>>, <<3, 14, 7>> }
ZoneTok == { <<PLUS, 0, 0>>, <<DASH, 0, 0>>, <<PLUS, 5, 30>>, <<DASH, 12, 0>>, <<PLUS, 14, 0>>, <<PLUS, 2, 60>> }
Layouts == {"SHORT", "RFC2822", "ISO8601", "ISO8601_STRICT", "GITOXIDE", "DEFAULT"}

Render(lay, dt, tm, zn, wd, oneDigit) ==
  LET Y == Pad(dt[1], 4)  M == Pad(dt[2], 2)  D2 == Pad(dt[3], 2)
      D1 == IF oneDigit THEN DecNat(dt[3]) ELSE D2
      mon == MONTHS[IF dt[2] \in 1..12 THEN dt[2] ELSE 12]
      hms == Pad(tm[1], 2) \o <<COLON>> \o Pad(tm[2], 2) \o <<COLON>> \o Pad(tm[3], 2)
      z == <<zn[1]>> \o Pad(zn[2], 2) \o Pad(zn[3], 2)
      zc == <<zn[1]>> \o Pad(zn[2], 2) \o <<COLON>> \o Pad(zn[3], 2)
      w == WDAYS[wd + 1]
      sp == <<SP>>
  IN CASE lay = "SHORT"          -> Y \o <<DASH>> \o M \o <<DASH>> \o D2
       [] lay = "RFC2822"        -> w \o <<COMMA, SP>> \o D1 \o sp \o mon \o sp \o Y \o sp \o hms \o sp \o z
       [] lay = "ISO8601"        -> Y \o <<DASH>> \o M \o <<DASH>> \o D2 \o sp \o hms \o sp \o z
       [] lay = "ISO8601_STRICT" -> Y \o <<DASH>> \o M \o <<DASH>> \o D2 \o <<TEE>> \o hms \o zc
       [] lay = "GITOXIDE"       -> w \o sp \o mon \o sp \o D2 \o sp \o Y \o sp \o hms \o sp \o z
       [] OTHER                  -> w \o sp \o mon \o sp \o D1 \o sp \o hms \o sp \o Y \o sp \o z

\* two steps, so that the second level of the search is spread over TLC's workers
VARIABLES pre, c, done
vars == <<pre, c, done>>
Init == pre = <<>> /\ c = <<>> /\ done = FALSE
Pre == pre = <<>> /\ ~done /\ UNCHANGED <<c, done>> /\
         IF Mode = "format" THEN \E o \in Offs, f \in Formats : pre' = <<f, o>>
         ELSE \E lay \in Layouts, zn \in ZoneTok : pre' = <<lay, zn>>
PickFormat == \E d \in Days, s \in Sods :
                 LET f == pre[1]  o == pre[2] IN
                 /\ Representable(Time(d, s, o[1], o[2]))
                 /\ c' = [f |-> f, t |-> Time(d, s, o[1], o[2])]
PickParse == \E dt \in DateTok, tm \in TimeTok, wd \in {1, 4}, one \in BOOLEAN :
                 LET lay == pre[1]  zn == pre[2] IN
                 /\ (lay = "SHORT" => tm = <<0, 0, 0>> /\ zn = <<PLUS, 0, 0>> /\ wd = 1)
                 /\ (lay \in {"SHORT", "ISO8601", "ISO8601_STRICT"} => wd = 1)
                 /\ (one => lay \in {"RFC2822", "DEFAULT"} /\ dt[3] < 10)
                 /\ c' = [txt |-> Render(lay, dt, tm, zn, wd, one)]
Pick == pre # <<>> /\ ~done /\ done' = TRUE /\ UNCHANGED pre /\ (IF Mode = "format" THEN PickFormat ELSE PickParse)
Next == Pre \/ Pick
Spec == Init /\ [][Next]_vars

\* design-level: the first sentence of C52 holds of the specification itself
RoundTripLaw == (done /\ Mode = "format") => RoundTrip(c.f, c.t)
\* the two calendar functions are inverse, the decimal codec is bijective
CalendarLaw == (done /\ Mode = "format") =>
  /\ LET cv == CivilFromDays(c.t.D) IN DaysFromCivil(cv.y, cv.m, cv.d) = c.t.D /\ cv.d <= DaysInMonth(cv.y, cv.m)
  /\ LET sd == SecsOfDec(DecSecs(c.t.D, c.t.S)) IN sd.ok /\ sd.D = c.t.D /\ sd.S = c.t.S

TimeJson(t) == [secs |-> DecSecs(t.D, t.S), offset |-> t.off * 60, negz |-> t.negz]
ParseJson(txt) == LET p == ParseText(txt) IN
  [form |-> p.form, must |-> MustAccept(txt), git |-> GitComparable(txt), leap |-> LeapSecond(txt), t |-> TimeJson(p.t)]

Emit == done =>
  IF Mode = "format"
  THEN PrintT(<<"CASE", ToJson([op |-> "format", fmt |-> c.f, secs |-> DecSecs(c.t.D, c.t.S), offset |-> c.t.off * 60,
                                 negz |-> c.t.negz, raw |-> FormatText("RAW", c.t), text |-> FormatText(c.f, c.t), back |-> TimeJson(Project(c.f, c.t)),
                                 git |-> GitComparable(FormatText(c.f, c.t))])>>)
  ELSE PrintT(<<"CASE", ToJson([op |-> "parse", text |-> c.txt, want |-> ParseJson(c.txt)])>>)
=============================================================================
