---------------------------- MODULE Mailmap_Trace ----------------------------
(* Binding B (and the git audit of random cases) for C53.  One event per       *)
(* (mailmap, identity) observation:                                            *)
(*   [who, mailmap, name, email, rname, remail]                                *)
(* who = "gix": Snapshot::from_bytes(mailmap).resolve(name, email) gave        *)
(*              (rname, remail) - judged against the specification with the    *)
(*              documented e-mail spelling deviation;                          *)
(* who = "git": `git check-mailmap` printed (rname, remail) - judged against   *)
(*              Resolve;                                                       *)
(* who = "probe": [mailmap, shape] labels a rejected input.                    *)
EXTENDS Mailmap, TraceIO

VARIABLE l
Init == l = 1
Next == l <= NRec /\ l' = l + 1
Spec == Init /\ [][Next]_l

InDomain(r) == TextOk(r.mailmap) /\ TextOk(r.name) /\ TextOk(r.email)

Judge(r) ==
  IF r.who = "probe" THEN ~Shapes(r.mailmap)[r.shape]
  ELSE InDomain(r) =>
    LET want == IF r.who = "gix" THEN ResolveNormalisingCase(r.mailmap, r.name, r.email)
                ELSE Resolve(r.mailmap, r.name, r.email) IN
    r.rname = want.name /\ r.remail = want.email

EventOk == l <= NRec => (Judge(Rec[l]) \/ PrintT(<<"REJECT", l>>))
=============================================================================
