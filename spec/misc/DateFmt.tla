------------------------------- MODULE DateFmt -------------------------------
(* C52.  The date formats of gix-date (gix-date/src/time/format.rs) and the    *)
(* absolute grammars gix_date::parse accepts, over the proleptic Gregorian     *)
(* calendar, with git's reading of the same texts (date.c: parse_date_basic,   *)
(* match_multi_number, match_digit, match_tz, tm_to_time_t).                   *)
(*                                                                            *)
(* TLC integers are 32 bit, so an instant is a pair: D = days since            *)
(* 1970-01-01 (may be negative) and S = second of the day, 0..86399.  The      *)
(* decimal text of D * 86400 + S is computed digit-wise.  An offset is a       *)
(* number of minutes east of UTC; negz marks the "-0000" spelling of zero.     *)
EXTENDS Bytes

SP == 32  DASH == 45  PLUS == 43  COLON == 58  COMMA == 44  TEE == 84

Time(D, S, off, negz) == [D |-> D, S |-> S, off |-> off, negz |-> negz]

---------------------------------------------------------------------------
(* Calendar arithmetic (days_from_civil / civil_from_days; \div is floor).   *)
DaysFromCivil(y, m, d) ==
  LET yy  == IF m <= 2 THEN y - 1 ELSE y
      era == yy \div 400
      yoe == yy - era * 400
      mp  == IF m > 2 THEN m - 3 ELSE m + 9
      doy == (153 * mp + 2) \div 5 + d - 1
      doe == yoe * 365 + yoe \div 4 - yoe \div 100 + doy
  IN era * 146097 + doe - 719468

CivilFromDays(z0) ==
  LET z   == z0 + 719468
      era == z \div 146097
      doe == z - era * 146097
      yoe == (doe - doe \div 1460 + doe \div 36524 - doe \div 146096) \div 365
      doy == doe - (365 * yoe + yoe \div 4 - yoe \div 100)
      mp  == (5 * doy + 2) \div 153
      d   == doy - (153 * mp + 2) \div 5 + 1
      m   == IF mp < 10 THEN mp + 3 ELSE mp - 9
      y   == yoe + era * 400 + (IF m <= 2 THEN 1 ELSE 0)
  IN [y |-> y, m |-> m, d |-> d]

IsLeap(y) == (y % 4 = 0 /\ y % 100 # 0) \/ y % 400 = 0
DaysInMonth(y, m) == IF m = 2 THEN (IF IsLeap(y) THEN 29 ELSE 28)
                     ELSE IF m \in {4, 6, 9, 11} THEN 30 ELSE 31
\* 0 = Sunday .. 6 = Saturday; 1970-01-01 was a Thursday
Weekday(D) == (D + 4) % 7

WDAYS == << <<83,117,110>>, <<77,111,110>>, <<84,117,101>>, <<87,101,100>>, <<84,104,117>>, <<70,114,105>>, <<83,97,116>> >>
\*           Sun            Mon            Tue            Wed            Thu            Fri           Sat
MONTHS == << <<74,97,110>>, <<70,101,98>>, <<77,97,114>>, <<65,112,114>>, <<77,97,121>>, <<74,117,110>>,
             <<74,117,108>>, <<65,117,103>>, <<83,101,112>>, <<79,99,116>>, <<78,111,118>>, <<68,101,99>> >>

\* the local (wall clock) day and second of an instant seen at offset `off` minutes
Local(t) ==
  LET s == t.S + t.off * 60 IN
  [D |-> t.D + s \div 86400, S |-> s % 86400]

---------------------------------------------------------------------------
(* Decimal text of D * 86400 + S, two limbs of 10^6.                          *)
Pad(n, w) == LET ds == DecNat(n) IN [i \in 1..(w - Len(ds)) |-> 48] \o ds
Limbs(a, s) ==      \* a >= 0 days, plus s seconds (s may be negative, result > 0 or = 0)
  LET hi0 == (a \div 1000) * 86
      lo0 == (a \div 1000) * 400000 + (a % 1000) * 86400 + s
  IN [hi |-> hi0 + lo0 \div 1000000, lo |-> lo0 % 1000000]
DecLimbs(l) == IF l.hi > 0 THEN DecNat(l.hi) \o Pad(l.lo, 6) ELSE DecNat(l.lo)
DecSecs(D, S) == IF D >= 0 THEN DecLimbs(Limbs(D, S))
                 ELSE <<DASH>> \o DecLimbs(Limbs(-D, -S))

\* inverse: decimal digits (optional leading '-') -> [ok, D, S]; at most 12 digits
RECURSIVE DivFrom(_, _, _, _)
DivFrom(ds, i, q, r) ==
  IF i > Len(ds) THEN [q |-> q, r |-> r]
  ELSE LET r2 == r * 10 + (ds[i] - 48) IN DivFrom(ds, i + 1, q * 10 + r2 \div 86400, r2 % 86400)
AllDigits(ds) == ds # <<>> /\ \A i \in 1..Len(ds) : IsDigit(ds[i])
SecsOfDec(txt) ==
  LET neg == txt # <<>> /\ txt[1] = DASH
      ds  == IF neg THEN Tail(txt) ELSE txt IN
  IF ~AllDigits(ds) \/ Len(ds) > 12 THEN [ok |-> FALSE, D |-> 0, S |-> 0]
  ELSE LET qr == DivFrom(ds, 1, 0, 0) IN
       IF ~neg THEN [ok |-> TRUE, D |-> qr.q, S |-> qr.r]
       ELSE IF qr.r = 0 THEN [ok |-> TRUE, D |-> -qr.q, S |-> 0]
       ELSE [ok |-> TRUE, D |-> -qr.q - 1, S |-> 86400 - qr.r]

---------------------------------------------------------------------------
(* Formatting.                                                                *)
Formats == {"SHORT", "RFC2822", "GIT_RFC2822", "ISO8601", "ISO8601_STRICT", "GITOXIDE", "DEFAULT", "UNIX", "RAW"}

Abs(n) == IF n < 0 THEN -n ELSE n
TzSign(t) == IF t.off < 0 \/ (t.off = 0 /\ t.negz) THEN <<DASH>> ELSE <<PLUS>>
\* strftime %z / %:z of a zone: the sign of zero is always '+'
ZoneZ(off) == (IF off < 0 THEN <<DASH>> ELSE <<PLUS>>) \o Pad(Abs(off) \div 60, 2) \o Pad(Abs(off) % 60, 2)
ZoneColon(off) == (IF off < 0 THEN <<DASH>> ELSE <<PLUS>>) \o Pad(Abs(off) \div 60, 2) \o <<COLON>> \o Pad(Abs(off) % 60, 2)
\* the raw format keeps the sign field of the time
ZoneRaw(t) == TzSign(t) \o Pad(Abs(t.off) \div 60, 2) \o Pad(Abs(t.off) % 60, 2)

HMS(s) == Pad(s \div 3600, 2) \o <<COLON>> \o Pad((s % 3600) \div 60, 2) \o <<COLON>> \o Pad(s % 60, 2)

FormatText(f, t) ==
  LET l   == Local(t)
      c   == CivilFromDays(l.D)
      Y   == Pad(c.y, 4)
      M   == Pad(c.m, 2)
      D2  == Pad(c.d, 2)
      D1  == DecNat(c.d)
      wd  == WDAYS[Weekday(l.D) + 1]
      mon == MONTHS[c.m]
      hms == HMS(l.S)
      z   == ZoneZ(t.off)
      sp  == <<SP>>
  IN CASE f = "SHORT"          -> Y \o <<DASH>> \o M \o <<DASH>> \o D2
       [] f = "RFC2822"        -> wd \o <<COMMA, SP>> \o D2 \o sp \o mon \o sp \o Y \o sp \o hms \o sp \o z
       [] f = "GIT_RFC2822"    -> wd \o <<COMMA, SP>> \o D1 \o sp \o mon \o sp \o Y \o sp \o hms \o sp \o z
       [] f = "ISO8601"        -> Y \o <<DASH>> \o M \o <<DASH>> \o D2 \o sp \o hms \o sp \o z
       [] f = "ISO8601_STRICT" -> Y \o <<DASH>> \o M \o <<DASH>> \o D2 \o <<TEE>> \o hms \o ZoneColon(t.off)
       [] f = "GITOXIDE"       -> wd \o sp \o mon \o sp \o D2 \o sp \o Y \o sp \o hms \o sp \o z
       [] f = "DEFAULT"        -> wd \o sp \o mon \o sp \o D1 \o sp \o hms \o sp \o Y \o sp \o z
       [] f = "UNIX"           -> DecSecs(t.D, t.S)
       [] f = "RAW"            -> DecSecs(t.D, t.S) \o sp \o ZoneRaw(t)
       [] OTHER                -> <<>>

\* what a format carries: SHORT keeps the local date only (read back as midnight UTC), UNIX drops the
\* offset, the strftime formats drop the spelling of a zero offset, RAW keeps everything
Project(f, t) ==
  CASE f = "SHORT" -> Time(Local(t).D, 0, 0, FALSE)
    [] f = "UNIX"  -> Time(t.D, t.S, 0, FALSE)
    [] f = "RAW"   -> t
    [] OTHER       -> Time(t.D, t.S, t.off, FALSE)

(* The judged domain of formatting ("representable"): civil years 1..9999 both in UTC and on the    *)
(* wall clock (jiff's timestamp range ends on 9999-12-30T22:00:00Z; negative years do not read      *)
(* back), offsets of whole minutes below 26 hours (jiff's offset range; git's offsets are [+-]HHMM). *)
Representable(t) ==
  /\ t.S \in 0..86399
  /\ t.D >= DaysFromCivil(1, 1, 2) /\ t.D <= DaysFromCivil(9999, 12, 29)
  /\ Abs(t.off) <= 25 * 60 + 59
  /\ Local(t).D >= DaysFromCivil(1, 1, 1) /\ Local(t).D <= DaysFromCivil(9999, 12, 30)   \* its UTC midnight is a timestamp too
  /\ (t.negz => t.off = 0)

---------------------------------------------------------------------------
(* Parsing: the canonical grammars, i.e. the texts FormatText produces, with  *)
(* any weekday / month name, one- or two-digit day where the format prints    *)
(* %-d, and arbitrary field values.  A pattern is a sequence of items:        *)
(*  "Y" 4 digits, "M" "D" "h" "m" "s" 2 digits, "d" 1-2 digits, "W" weekday   *)
(*  name, "B" month name, "z" [+-]HHMM, "Z" [+-]HH:MM, or a literal byte.     *)
\* item codes (literal bytes are 0..255)
IY == 1001  IM == 1002  ID == 1003  Ih == 1004  Im == 1005  Is == 1006  Id == 1007  IW == 1008  IB == 1009
Iz == 1010  IZ == 1011
NoFields == [y |-> -1, mo |-> -1, d |-> -1, h |-> -1, mi |-> -1, s |-> -1, off |-> 0, negz |-> FALSE, wd |-> -1]

Num2(txt, i) == (txt[i] - 48) * 10 + (txt[i + 1] - 48)
DigitsAt(txt, i, n) == i + n - 1 <= Len(txt) /\ \A k \in i..(i + n - 1) : IsDigit(txt[k])
NameIndex(names, txt, i) ==
  IF i + 2 > Len(txt) THEN 0
  ELSE LET S == {k \in 1..Len(names) : names[k] = SubSeq(txt, i, i + 2)} IN
       IF S = {} THEN 0 ELSE CHOOSE k \in S : TRUE

RECURSIVE MatchFrom(_, _, _, _, _)
\* -> [ok, f] ; all of txt must be consumed
MatchFrom(pat, p, txt, i, f) ==
  IF p > Len(pat) THEN [ok |-> i = Len(txt) + 1, f |-> f]
  ELSE LET it == pat[p]
           fail == [ok |-> FALSE, f |-> f] IN
    CASE it = IY -> IF DigitsAt(txt, i, 4)
                     THEN MatchFrom(pat, p + 1, txt, i + 4, [f EXCEPT !.y = Num2(txt, i) * 100 + Num2(txt, i + 2)]) ELSE fail
      [] it \in {IM, ID, Ih, Im, Is} ->
           IF DigitsAt(txt, i, 2)
           THEN LET v == Num2(txt, i) IN
                MatchFrom(pat, p + 1, txt, i + 2,
                          CASE it = IM -> [f EXCEPT !.mo = v] [] it = ID -> [f EXCEPT !.d = v]
                            [] it = Ih -> [f EXCEPT !.h = v]  [] it = Im -> [f EXCEPT !.mi = v]
                            [] OTHER -> [f EXCEPT !.s = v])
           ELSE fail
      [] it = Id -> IF DigitsAt(txt, i, 2) THEN MatchFrom(pat, p + 1, txt, i + 2, [f EXCEPT !.d = Num2(txt, i)])
                     ELSE IF DigitsAt(txt, i, 1) THEN MatchFrom(pat, p + 1, txt, i + 1, [f EXCEPT !.d = txt[i] - 48])
                     ELSE fail
      [] it = IW -> IF NameIndex(WDAYS, txt, i) # 0
                     THEN MatchFrom(pat, p + 1, txt, i + 3, [f EXCEPT !.wd = NameIndex(WDAYS, txt, i) - 1]) ELSE fail
      [] it = IB -> IF NameIndex(MONTHS, txt, i) # 0
                     THEN MatchFrom(pat, p + 1, txt, i + 3, [f EXCEPT !.mo = NameIndex(MONTHS, txt, i)]) ELSE fail
      [] it = Iz -> IF i + 4 <= Len(txt) /\ txt[i] \in {PLUS, DASH} /\ DigitsAt(txt, i + 1, 4)
                     THEN LET mins == Num2(txt, i + 1) * 60 + Num2(txt, i + 3) IN
                          IF Num2(txt, i + 3) > 59 THEN fail
                          ELSE MatchFrom(pat, p + 1, txt, i + 5,
                                         [f EXCEPT !.off = IF txt[i] = DASH THEN -mins ELSE mins,
                                                   !.negz = (txt[i] = DASH /\ mins = 0)])
                     ELSE fail
      [] it = IZ -> IF i + 5 <= Len(txt) /\ txt[i] \in {PLUS, DASH} /\ DigitsAt(txt, i + 1, 2) /\ txt[i + 3] = COLON
                        /\ DigitsAt(txt, i + 4, 2)
                     THEN LET mins == Num2(txt, i + 1) * 60 + Num2(txt, i + 4) IN
                          IF Num2(txt, i + 4) > 59 THEN fail
                          ELSE MatchFrom(pat, p + 1, txt, i + 6,
                                         [f EXCEPT !.off = IF txt[i] = DASH THEN -mins ELSE mins,
                                                   !.negz = (txt[i] = DASH /\ mins = 0)])
                     ELSE fail
      [] OTHER -> IF i <= Len(txt) /\ txt[i] = it THEN MatchFrom(pat, p + 1, txt, i + 1, f) ELSE fail

PatShort   == << IY, DASH, IM, DASH, ID >>
PatRfc     == << IW, COMMA, SP, Id, SP, IB, SP, IY, SP, Ih, COLON, Im, COLON, Is, SP, Iz >>
PatIso     == << IY, DASH, IM, DASH, ID, SP, Ih, COLON, Im, COLON, Is, SP, Iz >>
PatStrict  == << IY, DASH, IM, DASH, ID, TEE, Ih, COLON, Im, COLON, Is, IZ >>
PatGitox   == << IW, SP, IB, SP, ID, SP, IY, SP, Ih, COLON, Im, COLON, Is, SP, Iz >>
PatDefault == << IW, SP, IB, SP, Id, SP, Ih, COLON, Im, COLON, Is, SP, IY, SP, Iz >>
\* in the order gix_date::parse tries them
Patterns == << PatShort, PatRfc, PatIso, PatStrict, PatGitox, PatDefault >>
PatNames == << "SHORT", "RFC2822", "ISO8601", "ISO8601_STRICT", "GITOXIDE", "DEFAULT" >>

Fields(txt) ==
  LET S == {k \in 1..Len(Patterns) : MatchFrom(Patterns[k], 1, txt, 1, NoFields).ok} IN
  IF S = {} THEN [form |-> "none", f |-> NoFields]
  ELSE LET k == CHOOSE k \in S : \A j \in S : k <= j IN
       [form |-> PatNames[k], f |-> MatchFrom(Patterns[k], 1, txt, 1, NoFields).f]

\* <seconds> or <seconds> [+-]HHMM (one blank)
RawParts(txt) ==
  LET sp == FindByte(txt, SP) IN
  IF sp = 0 THEN [form |-> "UNIX", secs |-> txt, tz |-> <<>>]
  ELSE [form |-> "RAW", secs |-> SubSeq(txt, 1, sp - 1), tz |-> Drop(txt, sp)]

\* the instant of civil fields at an offset (all arithmetic on days / seconds of day)
InstantOf(y, mo, d, secOfDay, off) ==
  LET s == secOfDay - off * 60 IN
  [D |-> DaysFromCivil(y, mo, d) + s \div 86400, S |-> s % 86400]

(* ParseText(txt) = [form, valid, t]                                                                   *)
(*   form  : the grammar txt belongs to ("none": outside the judged grammars)                           *)
(*   valid : the fields name a real calendar date and time (second <= 59): a text FormatText could    *)
(*           have produced; gix_date::parse must accept it with exactly t                               *)
(*   t     : the time git's arithmetic assigns to the fields (tm_to_time_t: no day-of-month check,      *)
(*           second 60 and hour 24 simply add up)                                                       *)
ParseText(txt) ==
  LET fm == Fields(txt) IN
  IF fm.form # "none"
  THEN LET f == fm.f
           short == fm.form = "SHORT"
           sod == IF short THEN 0 ELSE f.h * 3600 + f.mi * 60 + f.s
           calOk == f.y >= 1 /\ f.mo \in 1..12 /\ f.d >= 1 /\ f.d <= DaysInMonth(f.y, f.mo)
           timeOk == short \/ (f.h <= 23 /\ f.mi <= 59 /\ f.s <= 59)
           gitOk == f.mo \in 1..12 /\ f.d \in 1..31 /\ (short \/ (f.h <= 24 /\ f.mi <= 59 /\ f.s <= 60))
           i == InstantOf(f.y, IF f.mo \in 1..12 THEN f.mo ELSE 1, f.d, sod, f.off) IN
       [form |-> fm.form, valid |-> calOk /\ timeOk, gitok |-> gitOk,
        t |-> Time(i.D, i.S, f.off, FALSE)]
  ELSE LET rp == RawParts(txt)
           sd == SecsOfDec(rp.secs)
           tzf == MatchFrom(<<Iz>>, 1, rp.tz, 1, NoFields) IN
       IF ~sd.ok \/ (rp.form = "RAW" /\ ~tzf.ok) THEN [form |-> "none", valid |-> FALSE, gitok |-> FALSE, t |-> Time(0, 0, 0, FALSE)]
       ELSE [form |-> rp.form, valid |-> TRUE, gitok |-> TRUE,
             t |-> IF rp.form = "RAW" THEN Time(sd.D, sd.S, tzf.f.off, tzf.f.negz) ELSE Time(sd.D, sd.S, 0, FALSE)]

\* gix_date::parse must accept the text and return exactly ParseText(txt).t
MustAccept(txt) == LET p == ParseText(txt) IN p.form # "none" /\ p.valid /\ Representable(p.t)

(* The texts on which git's strict parser (parse_date, as used for GIT_AUTHOR_DATE) computes an       *)
(* instant that can be compared: a time of day is present (a bare date is completed by git with the   *)
(* current time), tm_to_time_t covers the years 1970..2099, a bare number is a timestamp only from    *)
(* 100000000 on, timestamps are unsigned, offsets are at most 14 hours.                                *)
GitComparable(txt) ==
  LET p == ParseText(txt) IN
  /\ p.form \notin {"none", "SHORT"}
  /\ p.gitok
  /\ Abs(p.t.off) <= 14 * 60
  /\ p.t.off # -1                         \* git's date.c uses offset -1 as its "no zone seen" marker
  /\ IF p.form \in {"UNIX", "RAW"}
     THEN p.t.D >= 1158 /\ p.t.D < DaysFromCivil(2100, 1, 1) - 1 /\ txt[1] # DASH     \* 100000000 s = day 1157.4
     ELSE LET f == Fields(txt).f IN f.y >= 1971 /\ f.y <= 2098

\* shape label: a time of day written with second 60 (git adds the 60 seconds; never decides a case)
LeapSecond(txt) == LET fm == Fields(txt) IN fm.form \notin {"none", "SHORT"} /\ fm.f.s = 60

\* design-level statement of the first sentence of C52
RoundTrip(f, t) == LET p == ParseText(FormatText(f, t)) IN
  /\ p.valid
  /\ p.t = Project(f, t)
  /\ p.form = (IF f = "GIT_RFC2822" THEN "RFC2822" ELSE f)
=============================================================================
