----------------------------- MODULE CQuote_Trace -----------------------------
(* Binding B for C57: TLC is the reference interpreter for what the real      *)
(* gix_quote::ansi_c::undo returned.  One event:                              *)
(*   [text : bytes, ok : BOOLEAN, out : bytes, consumed : Nat]                *)
(* Judged domain: texts the specification's Undo accepts (a complete quoted   *)
(* form followed by anything, or text that does not start with '"').  What    *)
(* the implementation does with malformed quoting is not part of C57.         *)
EXTENDS CQuote, TraceIO

VARIABLE l
Init == l = 1
Next == l <= NRec /\ l' = l + 1
Spec == Init /\ [][Next]_l

InDomain(t) == Undo(t).ok

Judge(r) ==
  InDomain(r.text) =>
    /\ r.ok
    /\ r.out = Undo(r.text).bytes
    /\ r.consumed = Undo(r.text).consumed

EventOk == l <= NRec => (Judge(Rec[l]) \/ PrintT(<<"REJECT", l>>))
=============================================================================
