------------------------------- MODULE Mailmap -------------------------------
(* C53.  git's mailmap (mailmap.c): read_mailmap_line / parse_name_and_email / *)
(* add_mapping build the map, map_user resolves an identity.                   *)
(*                                                                            *)
(* Byte strings are sequences over 0..255.  An optional string (C: NULL or a   *)
(* pointer) is <<>> (NULL) or <<s>>.                                           *)
EXTENDS Bytes

LT == 60  GT == 62  HASH == 35  LF == 10
Null == <<>>
Some(v) == <<v>>
IsSome(o) == o # <<>>
Val(o) == o[1]

\* git's sane_ctype isspace(): space, TAB, LF, CR
IsSpace(b) == b \in {9, 10, 13, 32}

RECURSIVE SkipSpaces(_, _, _)
\* while (isspace(*nstart) && nstart < left) ++nstart;
SkipSpaces(buf, i, left) == IF i < left /\ IsSpace(buf[i]) THEN SkipSpaces(buf, i + 1, left) ELSE i
RECURSIVE BackSpaces(_, _, _)
\* while (nend > nstart && isspace(*nend)) --nend;
BackSpaces(buf, j, nstart) == IF j > nstart /\ IsSpace(buf[j]) THEN BackSpaces(buf, j - 1, nstart) ELSE j

NoPair == [name |-> Null, email |-> Null, rest |-> Null]

\* parse_name_and_email(buffer, &name, &email, allow_empty_email); rest = the returned pointer
ParsePair(buf, allowEmpty) ==
  LET left  == FindByte(buf, LT)
      right == IF left = 0 THEN 0 ELSE FindByteFrom(buf, GT, left + 1) IN
  IF left = 0 \/ right = 0 \/ (~allowEmpty /\ right = left + 1) THEN NoPair
  ELSE LET nstart == SkipSpaces(buf, 1, left)
           nend   == BackSpaces(buf, left - 1, nstart) IN
       [name  |-> IF nstart <= nend THEN Some(SubSeq(buf, nstart, nend)) ELSE Null,
        email |-> Some(SubSeq(buf, left + 1, right - 1)),          \* not trimmed
        rest  |-> IF right = Len(buf) THEN Null ELSE Some(Drop(buf, right))]

\* read_mailmap_line + the argument shuffle of add_mapping.
\* Result [has, nn, ne, on, oe]: new name / new email / old name (optional), old email (the key).
NoEntry == [has |-> FALSE, nn |-> Null, ne |-> Null, on |-> Null, oe |-> <<>>]
ReadLine(line) ==
  IF line # <<>> /\ line[1] = HASH THEN NoEntry
  ELSE LET p1 == ParsePair(line, FALSE)
           p2 == IF IsSome(p1.rest) THEN ParsePair(Val(p1.rest), TRUE) ELSE NoPair IN
       IF ~IsSome(p1.email) THEN NoEntry
       ELSE IF IsSome(p2.email)
            THEN [has |-> TRUE, nn |-> p1.name, ne |-> p1.email, on |-> p2.name, oe |-> Val(p2.email)]
            ELSE [has |-> TRUE, nn |-> p1.name, ne |-> Null, on |-> Null, oe |-> Val(p1.email)]

RECURSIVE EntriesOf(_)
EntriesOf(lines) ==
  IF lines = <<>> THEN <<>>
  ELSE LET e == ReadLine(Head(lines)) IN (IF e.has THEN <<e>> ELSE <<>>) \o EntriesOf(Tail(lines))

\* the file as git reads it: one line per LF (a final line needs no LF)
Entries(mm) == EntriesOf(Split(mm, LF))

\* strcasecmp / strncasecmp in the C locale
SameNoCase(x, y) == LowerSeq(x) = LowerSeq(y)

\* indices of the entries keyed by this e-mail (string_list with cmp = strcasecmp)
ForEmail(es, email) == {i \in 1..Len(es) : SameNoCase(es[i].oe, email)}
MaxOf(S) == CHOOSE i \in S : \A j \in S : j <= i
MinOf(S) == CHOOSE i \in S : \A j \in S : i <= j

\* add_mapping, simple entry: a later line replaces only the fields it gives
SimpleName(es, E) == LET S == {i \in E : ~IsSome(es[i].on) /\ IsSome(es[i].nn)} IN
                     IF S = {} THEN Null ELSE es[MaxOf(S)].nn
SimpleEmail(es, E) == LET S == {i \in E : ~IsSome(es[i].on) /\ IsSome(es[i].ne)} IN
                      IF S = {} THEN Null ELSE es[MaxOf(S)].ne
\* add_mapping, entry with an old name: the later line replaces the whole info
Named(es, E, name) == {i \in E : IsSome(es[i].on) /\ SameNoCase(Val(es[i].on), name)}

\* the mailmap_info map_user ends up with: [found, name, email]
Info(es, name, email) ==
  LET E == ForEmail(es, email) IN
  IF E = {} THEN [found |-> FALSE, name |-> Null, email |-> Null]
  ELSE LET N == Named(es, E, name) IN
       IF N # {} THEN [found |-> TRUE, name |-> es[MaxOf(N)].nn, email |-> es[MaxOf(N)].ne]
       ELSE [found |-> TRUE, name |-> SimpleName(es, E), email |-> SimpleEmail(es, E)]

\* map_user: what `git check-mailmap "name <email>"` prints (es = Entries(file))
ResolveE(es, name, email) ==
  LET mi == Info(es, name, email) IN
  [name  |-> IF IsSome(mi.name) THEN Val(mi.name) ELSE name,
   email |-> IF IsSome(mi.email) THEN Val(mi.email) ELSE email]
Resolve(mm, name, email) == ResolveE(Entries(mm), name, email)

(* Documented deviation of gix-mailmap (Snapshot::try_resolve_ref): "Note that opposed to what git  *)
(* seems to do, we also normalize the case of email addresses to match the one given in the         *)
(* mailmap."  When an entry for the e-mail exists and no new e-mail applies, the result carries the *)
(* spelling of the first mailmap line for that e-mail.  Lines that map nothing (a lone "<email>")   *)
(* are no entries.  With equal spelling this is Resolve.                                            *)
ResolveNormalisingCaseE(es, name, email) ==
  LET mi == Info(es, name, email)
      E  == {i \in ForEmail(es, email) : IsSome(es[i].nn) \/ IsSome(es[i].ne)} IN
  [name  |-> IF IsSome(mi.name) THEN Val(mi.name) ELSE name,
   email |-> IF IsSome(mi.email) THEN Val(mi.email)
             ELSE IF E # {} THEN es[MinOf(E)].oe ELSE email]
ResolveNormalisingCase(mm, name, email) == ResolveNormalisingCaseE(Entries(mm), name, email)

---------------------------------------------------------------------------
\* Judged domain: no NUL (C strings), well-formed UTF-8 of one or two bytes per character
\* (gix-mailmap documents byte-exact comparison for strings that are not UTF-8).
RECURSIVE Utf8From(_, _)
Utf8From(s, i) ==
  IF i > Len(s) THEN TRUE
  ELSE IF s[i] >= 1 /\ s[i] < 128 THEN Utf8From(s, i + 1)
  ELSE IF s[i] >= 194 /\ s[i] <= 223 /\ i < Len(s) /\ s[i+1] >= 128 /\ s[i+1] <= 191 THEN Utf8From(s, i + 2)
  ELSE FALSE
TextOk(s) == Utf8From(s, 1)

---------------------------------------------------------------------------
(* Shapes of mailmaps, used to label cases (never to decide them).           *)
\* bytes after the last "<..>" pair of a line that git ignores
JunkLine(line) ==
  LET p1 == ParsePair(line, FALSE)
      p2 == IF IsSome(p1.rest) THEN ParsePair(Val(p1.rest), TRUE) ELSE NoPair
      tail == IF IsSome(p2.email) THEN p2.rest ELSE p1.rest IN
  ReadLine(line).has /\ IsSome(tail) /\ \E i \in 1..Len(Val(tail)) : ~IsSpace(Val(tail)[i])
JunkShape(mm) == \E k \in 1..Len(Split(mm, LF)) : JunkLine(Split(mm, LF)[k])
\* two simple lines for one e-mail of which the later leaves out a field the earlier gave
AccumulateShape(es) ==
  \E i \in 1..Len(es), j \in 1..Len(es) :
     /\ i < j /\ SameNoCase(es[i].oe, es[j].oe) /\ ~IsSome(es[i].on) /\ ~IsSome(es[j].on)
     /\ \/ IsSome(es[i].nn) /\ ~IsSome(es[j].nn)
        \/ IsSome(es[i].ne) /\ ~IsSome(es[j].ne)
\* an e-mail written with blanks inside the brackets, or an empty old e-mail
OddEmailShape(es) ==
  LET odd(e) == e = <<>> \/ IsSpace(e[1]) \/ IsSpace(e[Len(e)]) IN
  \E i \in 1..Len(es) : odd(es[i].oe) \/ (IsSome(es[i].ne) /\ odd(Val(es[i].ne)))
\* name delimited by VT / FF, which git does not trim
OddSpaceShape(es) ==
  LET odd(o) == IsSome(o) /\ (Val(o)[1] \in {11, 12} \/ Val(o)[Len(Val(o))] \in {11, 12}) IN
  \E i \in 1..Len(es) : odd(es[i].nn) \/ odd(es[i].on)
Shapes(mm) == LET es == Entries(mm) IN
              [junk |-> JunkShape(mm), accumulate |-> AccumulateShape(es),
               oddemail |-> OddEmailShape(es), oddspace |-> OddSpaceShape(es)]
=============================================================================
