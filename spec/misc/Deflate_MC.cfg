SPECIFICATION Spec
CONSTANTS
  N = 4
  Cap = 2
  Streams = 1
  MaxEmpty = 1
  Bug_IgnoreOutProgress = FALSE
  Bug_CountFromLast = FALSE
  Bug_DropOnStreamEnd = FALSE
  defaultInitValue = defaultInitValue
INVARIANTS
  AllConsumed
  Accounted
  SinkExact
  FinalOk
  AtEnd
PROPERTY Terminates
CHECK_DEADLOCK FALSE
