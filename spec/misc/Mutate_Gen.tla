----------------------------- MODULE Mutate_Gen -----------------------------
(* Binding A for C06.  The seeds (valid encodings rendered by the format       *)
(* modules, git-made files) arrive as ndjson (environment variable SEEDS):     *)
(*   [ep, bytes, seps, lens, head, tail, strides, other (, chain)]             *)
(* Mode "enum":  TLC applies every single mutation of Mutate.tla at the        *)
(*   positions / components / length fields the seed offers and prints one     *)
(*   case per mutant (plus the seed itself).                                   *)
(* Mode "chain": TLC applies the seed's mutation chain (steps chosen by the    *)
(*   driver's seeded generator - inputs only).                                 *)
(* Every case carries the outcomes the specification allows.                   *)
EXTENDS Mutate, Json, IOUtils, TLC
CONSTANTS Mode

Seeds == ndJsonDeserialize(IOEnv.SEEDS)

M(op, a, b, out) == [op |-> op, a |-> a, b |-> b, out |-> out]

Flips(sd) ==
  LET s == sd.bytes IN
  UNION { { M("flip", i, v, Flip(s, i, v)) : v \in FlipValues(s[i]) } : i \in Positions(s, sd.head, sd.tail, sd.strides) }

\* the first few occurrences of byte b in s
RECURSIVE Occ(_, _, _, _)
Occ(s, b, i, acc) ==
  LET j == FindByteFrom(s, b, i) IN IF j = 0 \/ Len(acc) >= 4 THEN acc ELSE Occ(s, b, j + 1, Append(acc, j))

Truncs(sd) ==
  LET s == sd.bytes n == Len(s)
      cuts == ({0, 1, 2, 3, 4, n - 1, n - 2, n - 20, n \div 2}
               \cup UNION { UNION { {p - 1, p} : p \in SeqRange(Occ(s, sd.seps[q], 1, <<>>)) } : q \in 1..Len(sd.seps) })
              \cap (0..(n - 1))
  IN { M("trunc", t, 0, Truncate(s, t)) : t \in cuts }

Fits(s, pos, w) == pos >= 1 /\ pos + w - 1 <= Len(s)
LenFields(sd) ==
  LET s == sd.bytes IN
  (IF "hex4" \in SeqRange(sd.lens)
   THEN { M("hex4", p, x, Overwrite(s, p, ExtremeHex4[x])) : p \in SeqRange(PktStarts(s, 1, <<>>)), x \in 1..Len(ExtremeHex4) }
   ELSE {})
  \cup
  (IF "be32" \in SeqRange(sd.lens)
   THEN { M("be32", p, x, Overwrite(s, p, ExtremeBe32[x])) : p \in {q \in {1, 5, 9, 13, 17, 21, 25} : Fits(s, q, 4)}, x \in 1..Len(ExtremeBe32) }
   ELSE {})
  \cup
  (IF "dec" \in SeqRange(sd.lens)
   THEN LET rs == DigitRunStarts(s) IN
        { M("dec", rs[k], x, ReplaceRun(s, rs[k], ExtremeDec[x])) : k \in 1..Min2(Len(rs), 4), x \in 1..Len(ExtremeDec) }
   ELSE {})

CompMuts(sd) ==
  LET s == sd.bytes IN
  UNION { LET sep == sd.seps[q] nc == Len(Comps(s, sep)) IN
          { M("drop", k, sep, DropComponent(s, sep, k)) : k \in 1..Min2(nc, 4) }
          \cup { M("dup", k, sep, DupComponent(s, sep, k)) : k \in 1..Min2(nc, 4) }
          \cup { M("empty", k, sep, EmptyComponent(s, sep, k)) : k \in 1..Min2(nc, 4) }
          \cup { M("swap", k, sep, SwapComponents(s, sep, k)) : k \in 1..Min2(nc - 1, 3) }
        : q \in 1..Len(sd.seps) }

Splices(sd) ==
  LET s == sd.bytes o == sd.other n == Len(s) m == Len(o) IN
  IF m = 0 THEN {}
  ELSE { M("splice", n \div 2, m \div 2, Splice(s, o, n \div 2, m \div 2)),
         M("splice", n \div 3, (2 * m) \div 3, Splice(s, o, n \div 3, (2 * m) \div 3)),
         M("splice", n, 0, Splice(s, o, n, 0)) }

Mutants(sd) ==
  IF Mode = "chain" THEN { M("chain", Len(sd.chain), 0, ApplyChain(sd.bytes, sd.chain, 1, sd.other)) }
  ELSE {M("seed", 0, 0, sd.bytes)} \cup Flips(sd) \cup Truncs(sd) \cup LenFields(sd) \cup CompMuts(sd) \cup Splices(sd)

VARIABLES k, m, done
vars == <<k, m, done>>
Init == k \in 1..Len(Seeds) /\ m = M("none", 0, 0, <<>>) /\ done = FALSE
Pick == ~done /\ m' \in Mutants(Seeds[k]) /\ done' = TRUE /\ UNCHANGED k
Spec == Init /\ [][Pick]_vars

\* design-level: the operators do what their names say (checked on every mutant produced)
OperatorLaws ==
  done => LET s == Seeds[k].bytes IN
          /\ (m.op = "flip"  => Len(m.out) = Len(s) /\ m.out # s /\ \A i \in 1..Len(s) : i # m.a => m.out[i] = s[i])
          /\ (m.op = "trunc" => m.out = SubSeq(s, 1, m.a) /\ Len(m.out) < Len(s))
          /\ (m.op \in {"hex4", "be32"} => Len(m.out) >= Len(s) /\ SubSeq(m.out, 1, m.a - 1) = SubSeq(s, 1, m.a - 1))
          /\ (m.op = "drop"  => Len(Comps(m.out, m.b)) = Max2(Len(Comps(s, m.b)) - 1, 1))
          /\ (m.op = "dup"   => Len(Comps(m.out, m.b)) = Len(Comps(s, m.b)) + 1)
          /\ (m.op = "seed"  => m.out = s)

Emit == done => PrintT(<<"CASE", ToJson([ep |-> Seeds[k].ep, seed |-> k, op |-> m.op, a |-> m.a, b |-> m.b,
                                          input |-> m.out, allowed |-> Allowed])>>)
=============================================================================
