SPECIFICATION Spec
CONSTANTS
  Mode = "enum"
INVARIANTS
  OperatorLaws
  Emit
CHECK_DEADLOCK FALSE
