----------------------------- MODULE CQuote_Rand -----------------------------
(* Binding A on seeded random inputs for C57: the driver only draws the raw   *)
(* byte strings (one JSON object [input, qp, forced, tail] per line of the    *)
(* file named by the environment variable TRACE); the quoted text and the     *)
(* expected result of unquoting it are computed here, by the specification.   *)
EXTENDS CQuote, TraceIO

VARIABLE l
Init == l = 1
Next == l <= NRec /\ l' = l + 1
Spec == Init /\ [][Next]_l

Text(r) == TextOf(r.input, r.qp, r.forced, r.tail)
Quoted(r) == r.forced \/ NeedsQuoting(r.input, r.qp)
InDomain(r) == Quoted(r) \/ Text(r) = <<>> \/ Text(r)[1] # DQ

RoundTrip == l <= NRec => LawHolds(Rec[l].input, Rec[l].qp, Rec[l].forced, Rec[l].tail)

Emit == l <= NRec =>
  LET r == Rec[l]
      t == Text(r)
      u == Undo(t)
  IN
  PrintT(<<"CASE", ToJson([n        |-> l,
                           input    |-> r.input,
                           qp       |-> r.qp,
                           forced   |-> r.forced,
                           quoted   |-> Quoted(r),
                           indomain |-> Quoted(r) \/ t = <<>> \/ t[1] # DQ,
                           tail     |-> r.tail,
                           text     |-> t,
                           printed  |-> Quote(r.input, r.qp),
                           bytes    |-> u.bytes,
                           consumed |-> u.consumed])>>)
=============================================================================
