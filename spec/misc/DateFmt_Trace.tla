---------------------------- MODULE DateFmt_Trace ----------------------------
(* Binding B (and the git audit) for C52.  Events:                             *)
(*  [who, op = "format", fmt, secs, offset, negz, text, ok, psecs, poffset, pneg]*)
(*     who = "gix": Time{secs, offset, sign}.format(fmt) gave `text`, and       *)
(*                  gix_date::parse(text) gave (ok, psecs, poffset, pneg);      *)
(*     who = "git": git rendered the commit date (secs, offset) as `text`       *)
(*                  with --date=<fmt> (the p-fields are unused).                *)
(*  [who, op = "parse", text, ok, psecs, poffset, pneg]                         *)
(*     who = "gix": gix_date::parse(text); who = "git": git's parse_date.       *)
(* secs / psecs are decimal texts (64-bit values), offsets are seconds.        *)
EXTENDS DateFmt, TraceIO

VARIABLE l
Init == l = 1
Next == l <= NRec /\ l' = l + 1
Spec == Init /\ [][Next]_l

TimeOf(secs, offset, negz) ==
  LET sd == SecsOfDec(secs) IN
  [ok |-> sd.ok /\ offset % 60 = 0, t |-> Time(sd.D, sd.S, offset \div 60, negz)]

SameTime(r, t) ==
  LET g == TimeOf(r.psecs, r.poffset, r.pneg /\ r.poffset = 0) IN
  g.ok /\ g.t.D = t.D /\ g.t.S = t.S /\ g.t.off = t.off
SameTimeAndSign(r, t) == SameTime(r, t) /\ (r.pneg = (t.off < 0 \/ t.negz))

JudgeFormat(r) ==
  LET a == TimeOf(r.secs, r.offset, r.negz) IN
  (a.ok /\ Representable(a.t)) =>
     /\ r.text = FormatText(r.fmt, a.t)
     /\ (r.who = "gix" => r.ok /\ SameTimeAndSign(r, Project(r.fmt, a.t)))

JudgeParse(r) ==
  LET p == ParseText(r.text) IN
  IF r.who = "gix"
  THEN /\ (MustAccept(r.text) => r.ok /\ SameTimeAndSign(r, p.t))
       /\ ((r.ok /\ GitComparable(r.text)) => SameTime(r, p.t))
  ELSE GitComparable(r.text) => r.ok /\ SameTime(r, p.t)

\* op = "probe": does the text have the named shape?  (rejected <=> it has.)  "comparable" selects the
\* texts git can be asked about, "leap" labels rejected inputs.
Judge(r) == IF r.op = "format" THEN JudgeFormat(r)
            ELSE IF r.op = "probe" THEN ~(IF r.shape = "leap" THEN LeapSecond(r.text) ELSE GitComparable(r.text))
            ELSE JudgeParse(r)

EventOk == l <= NRec => (Judge(Rec[l]) \/ PrintT(<<"REJECT", l>>))
=============================================================================
