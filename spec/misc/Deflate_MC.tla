----------------------------- MODULE Deflate_MC -----------------------------
(* C56, the `write_inner` loop of gix_features::zlib::stream::deflate::Write  *)
(* (gix-features/src/zlib/stream/deflate/mod.rs) as a PlusCal algorithm,      *)
(* running against the abstract compressor of Deflate.tla.                    *)
(*                                                                            *)
(* The caller writes each of `Streams` data blocks (N distinct byte           *)
(* identities each) in EVERY chunking (including up to MaxEmpty empty         *)
(* writes), re-offering what a write did not take (std's write_all), then     *)
(* calls flush() (Finish) and reset().  The compressor resolves every call in *)
(* every way its contract admits; Cap is the size of the writer's buffer.     *)
(*                                                                            *)
(* Checked by TLC:                                                            *)
(*   AllConsumed  a write returns the length it was given (no short / zero    *)
(*                write, so write_all cannot fail with WriteZero)             *)
(*   Accounted    the value returned = the bytes the compressor took during   *)
(*                the call                                                    *)
(*   SinkExact    the inner writer received exactly the emitted bytes, in     *)
(*                order, each once                                            *)
(*   FinalOk      after flush the stream has ended and the sink is the        *)
(*                concatenation of well-formed streams whose AbsInflate is    *)
(*                the data written, whatever the chunking                     *)
(*   Terminates   every call returns (liveness, weak fairness of the caller)  *)
(* Bug_* switches re-create slips of the loop; each violates a property       *)
(* (self-tests in the driver).                                                *)
EXTENDS Deflate, TLC

CONSTANTS N, Cap, Streams, MaxEmpty,
          Bug_IgnoreOutProgress,   \* leave the loop as soon as the input stalls, though output still flows
          Bug_CountFromLast,       \* report the bytes of the last iteration instead of the whole call
          Bug_DropOnStreamEnd      \* look at the status before handing the last output to the inner writer

Data(s) == [i \in 1..N |-> (s - 1) * N + i]

RECURSIVE Expected(_)
Expected(s) == IF s = 0 THEN <<>> ELSE Expected(s - 1) \o Stream(Data(s))

(* --algorithm DeflateWrite {
  variables comp = CInit,        \* the compressor
            obuf = <<>>,         \* self.buf[..] after the last compress call
            sink = <<>>,         \* what self.inner has received
            emitted = <<>>,      \* ghost: everything the compressor ever produced
            ret = 0;             \* value returned by write_inner

  procedure write_inner(buf, flush)
    variables start_in = 0, last_in = 0, last_out = 0, status = "", written = 0, consumed = 0;
  {
   w0: start_in := comp.tin;
   w1: last_in := comp.tin;
       last_out := comp.tout;
       with (o \in CompressOutcomes(comp, buf, flush, Cap)) {
         comp := o.c;
         obuf := o.out;
         emitted := emitted \o o.out;
         status := o.status;
       };
   w2: written := comp.tout - last_out;
       if (written > 0 /\ ~(Bug_DropOnStreamEnd /\ status = "StreamEnd")) { sink := sink \o SubSeq(obuf, 1, written) };
   w3: if (status = "StreamEnd") {
         ret := comp.tin - start_in;
         return;
       } else {
         consumed := comp.tin - last_in;
         buf := SubSeq(buf, consumed + 1, Len(buf));
         if (~Bug_IgnoreOutProgress /\ comp.tout > last_out) {
           goto w1;                      \* output buffer still makes progress
         } else if (comp.tin > last_in) {
           goto w1;                      \* input still makes progress
         } else {
   w4:     \* input also makes no progress anymore: leave with what we have
           ret := IF Bug_CountFromLast THEN comp.tin - last_in ELSE comp.tin - start_in;
           return;
         }
       }
  }

  fair process (caller = 1)
    variables s = 1, rest = <<>>, n = 0, empties = 0, tin0 = 0;
  {
   c0: while (s <= Streams) {
         rest := Data(s);
   c1:   either {
           await rest # <<>> \/ empties < MaxEmpty;
           with (k \in (IF empties < MaxEmpty THEN 0 ELSE 1)..Len(rest)) { n := k };
           empties := IF n = 0 THEN empties + 1 ELSE empties;
           tin0 := comp.tin;
           call write_inner(SubSeq(rest, 1, n), "None");
   c2:     rest := SubSeq(rest, ret + 1, Len(rest));      \* write_all re-offers the remainder
           goto c1;
         } or {
           await rest = <<>>;
           tin0 := comp.tin;
           call write_inner(<<>>, "Finish");               \* flush()
   c3:     comp := CInit;                                  \* reset()
           s := s + 1;
         }
       }
  }
} *)
\* BEGIN TRANSLATION
CONSTANT defaultInitValue
VARIABLES pc, comp, obuf, sink, emitted, ret, stack, buf, flush, start_in, 
          last_in, last_out, status, written, consumed, s, rest, n, empties, 
          tin0

vars == << pc, comp, obuf, sink, emitted, ret, stack, buf, flush, start_in, 
           last_in, last_out, status, written, consumed, s, rest, n, empties, 
           tin0 >>

ProcSet == {1}

Init == (* Global variables *)
        /\ comp = CInit
        /\ obuf = <<>>
        /\ sink = <<>>
        /\ emitted = <<>>
        /\ ret = 0
        (* Procedure write_inner *)
        /\ buf = [ self \in ProcSet |-> defaultInitValue]
        /\ flush = [ self \in ProcSet |-> defaultInitValue]
        /\ start_in = [ self \in ProcSet |-> 0]
        /\ last_in = [ self \in ProcSet |-> 0]
        /\ last_out = [ self \in ProcSet |-> 0]
        /\ status = [ self \in ProcSet |-> ""]
        /\ written = [ self \in ProcSet |-> 0]
        /\ consumed = [ self \in ProcSet |-> 0]
        (* Process caller *)
        /\ s = 1
        /\ rest = <<>>
        /\ n = 0
        /\ empties = 0
        /\ tin0 = 0
        /\ stack = [self \in ProcSet |-> << >>]
        /\ pc = [self \in ProcSet |-> "c0"]

w0(self) == /\ pc[self] = "w0"
            /\ start_in' = [start_in EXCEPT ![self] = comp.tin]
            /\ pc' = [pc EXCEPT ![self] = "w1"]
            /\ UNCHANGED << comp, obuf, sink, emitted, ret, stack, buf, flush, 
                            last_in, last_out, status, written, consumed, s, 
                            rest, n, empties, tin0 >>

w1(self) == /\ pc[self] = "w1"
            /\ last_in' = [last_in EXCEPT ![self] = comp.tin]
            /\ last_out' = [last_out EXCEPT ![self] = comp.tout]
            /\ \E o \in CompressOutcomes(comp, buf[self], flush[self], Cap):
                 /\ comp' = o.c
                 /\ obuf' = o.out
                 /\ emitted' = emitted \o o.out
                 /\ status' = [status EXCEPT ![self] = o.status]
            /\ pc' = [pc EXCEPT ![self] = "w2"]
            /\ UNCHANGED << sink, ret, stack, buf, flush, start_in, written, 
                            consumed, s, rest, n, empties, tin0 >>

w2(self) == /\ pc[self] = "w2"
            /\ written' = [written EXCEPT ![self] = comp.tout - last_out[self]]
            /\ IF written'[self] > 0 /\ ~(Bug_DropOnStreamEnd /\ status[self] = "StreamEnd")
                  THEN /\ sink' = sink \o SubSeq(obuf, 1, written'[self])
                  ELSE /\ TRUE
                       /\ sink' = sink
            /\ pc' = [pc EXCEPT ![self] = "w3"]
            /\ UNCHANGED << comp, obuf, emitted, ret, stack, buf, flush, 
                            start_in, last_in, last_out, status, consumed, s, 
                            rest, n, empties, tin0 >>

w3(self) == /\ pc[self] = "w3"
            /\ IF status[self] = "StreamEnd"
                  THEN /\ ret' = comp.tin - start_in[self]
                       /\ pc' = [pc EXCEPT ![self] = Head(stack[self]).pc]
                       /\ start_in' = [start_in EXCEPT ![self] = Head(stack[self]).start_in]
                       /\ last_in' = [last_in EXCEPT ![self] = Head(stack[self]).last_in]
                       /\ last_out' = [last_out EXCEPT ![self] = Head(stack[self]).last_out]
                       /\ status' = [status EXCEPT ![self] = Head(stack[self]).status]
                       /\ written' = [written EXCEPT ![self] = Head(stack[self]).written]
                       /\ consumed' = [consumed EXCEPT ![self] = Head(stack[self]).consumed]
                       /\ buf' = [buf EXCEPT ![self] = Head(stack[self]).buf]
                       /\ flush' = [flush EXCEPT ![self] = Head(stack[self]).flush]
                       /\ stack' = [stack EXCEPT ![self] = Tail(stack[self])]
                  ELSE /\ consumed' = [consumed EXCEPT ![self] = comp.tin - last_in[self]]
                       /\ buf' = [buf EXCEPT ![self] = SubSeq(buf[self], consumed'[self] + 1, Len(buf[self]))]
                       /\ IF ~Bug_IgnoreOutProgress /\ comp.tout > last_out[self]
                             THEN /\ pc' = [pc EXCEPT ![self] = "w1"]
                             ELSE /\ IF comp.tin > last_in[self]
                                        THEN /\ pc' = [pc EXCEPT ![self] = "w1"]
                                        ELSE /\ pc' = [pc EXCEPT ![self] = "w4"]
                       /\ UNCHANGED << ret, stack, flush, start_in, last_in, 
                                       last_out, status, written >>
            /\ UNCHANGED << comp, obuf, sink, emitted, s, rest, n, empties, 
                            tin0 >>

w4(self) == /\ pc[self] = "w4"
            /\ ret' = IF Bug_CountFromLast THEN comp.tin - last_in[self] ELSE comp.tin - start_in[self]
            /\ pc' = [pc EXCEPT ![self] = Head(stack[self]).pc]
            /\ start_in' = [start_in EXCEPT ![self] = Head(stack[self]).start_in]
            /\ last_in' = [last_in EXCEPT ![self] = Head(stack[self]).last_in]
            /\ last_out' = [last_out EXCEPT ![self] = Head(stack[self]).last_out]
            /\ status' = [status EXCEPT ![self] = Head(stack[self]).status]
            /\ written' = [written EXCEPT ![self] = Head(stack[self]).written]
            /\ consumed' = [consumed EXCEPT ![self] = Head(stack[self]).consumed]
            /\ buf' = [buf EXCEPT ![self] = Head(stack[self]).buf]
            /\ flush' = [flush EXCEPT ![self] = Head(stack[self]).flush]
            /\ stack' = [stack EXCEPT ![self] = Tail(stack[self])]
            /\ UNCHANGED << comp, obuf, sink, emitted, s, rest, n, empties, 
                            tin0 >>

write_inner(self) == w0(self) \/ w1(self) \/ w2(self) \/ w3(self)
                        \/ w4(self)

c0 == /\ pc[1] = "c0"
      /\ IF s <= Streams
            THEN /\ rest' = Data(s)
                 /\ pc' = [pc EXCEPT ![1] = "c1"]
            ELSE /\ pc' = [pc EXCEPT ![1] = "Done"]
                 /\ rest' = rest
      /\ UNCHANGED << comp, obuf, sink, emitted, ret, stack, buf, flush, 
                      start_in, last_in, last_out, status, written, consumed, 
                      s, n, empties, tin0 >>

c1 == /\ pc[1] = "c1"
      /\ \/ /\ rest # <<>> \/ empties < MaxEmpty
            /\ \E k \in (IF empties < MaxEmpty THEN 0 ELSE 1)..Len(rest):
                 n' = k
            /\ empties' = (IF n' = 0 THEN empties + 1 ELSE empties)
            /\ tin0' = comp.tin
            /\ /\ buf' = [buf EXCEPT ![1] = SubSeq(rest, 1, n')]
               /\ flush' = [flush EXCEPT ![1] = "None"]
               /\ stack' = [stack EXCEPT ![1] = << [ procedure |->  "write_inner",
                                                     pc        |->  "c2",
                                                     start_in  |->  start_in[1],
                                                     last_in   |->  last_in[1],
                                                     last_out  |->  last_out[1],
                                                     status    |->  status[1],
                                                     written   |->  written[1],
                                                     consumed  |->  consumed[1],
                                                     buf       |->  buf[1],
                                                     flush     |->  flush[1] ] >>
                                                 \o stack[1]]
            /\ start_in' = [start_in EXCEPT ![1] = 0]
            /\ last_in' = [last_in EXCEPT ![1] = 0]
            /\ last_out' = [last_out EXCEPT ![1] = 0]
            /\ status' = [status EXCEPT ![1] = ""]
            /\ written' = [written EXCEPT ![1] = 0]
            /\ consumed' = [consumed EXCEPT ![1] = 0]
            /\ pc' = [pc EXCEPT ![1] = "w0"]
         \/ /\ rest = <<>>
            /\ tin0' = comp.tin
            /\ /\ buf' = [buf EXCEPT ![1] = <<>>]
               /\ flush' = [flush EXCEPT ![1] = "Finish"]
               /\ stack' = [stack EXCEPT ![1] = << [ procedure |->  "write_inner",
                                                     pc        |->  "c3",
                                                     start_in  |->  start_in[1],
                                                     last_in   |->  last_in[1],
                                                     last_out  |->  last_out[1],
                                                     status    |->  status[1],
                                                     written   |->  written[1],
                                                     consumed  |->  consumed[1],
                                                     buf       |->  buf[1],
                                                     flush     |->  flush[1] ] >>
                                                 \o stack[1]]
            /\ start_in' = [start_in EXCEPT ![1] = 0]
            /\ last_in' = [last_in EXCEPT ![1] = 0]
            /\ last_out' = [last_out EXCEPT ![1] = 0]
            /\ status' = [status EXCEPT ![1] = ""]
            /\ written' = [written EXCEPT ![1] = 0]
            /\ consumed' = [consumed EXCEPT ![1] = 0]
            /\ pc' = [pc EXCEPT ![1] = "w0"]
            /\ UNCHANGED <<n, empties>>
      /\ UNCHANGED << comp, obuf, sink, emitted, ret, s, rest >>

c2 == /\ pc[1] = "c2"
      /\ rest' = SubSeq(rest, ret + 1, Len(rest))
      /\ pc' = [pc EXCEPT ![1] = "c1"]
      /\ UNCHANGED << comp, obuf, sink, emitted, ret, stack, buf, flush, 
                      start_in, last_in, last_out, status, written, consumed, 
                      s, n, empties, tin0 >>

c3 == /\ pc[1] = "c3"
      /\ comp' = CInit
      /\ s' = s + 1
      /\ pc' = [pc EXCEPT ![1] = "c0"]
      /\ UNCHANGED << obuf, sink, emitted, ret, stack, buf, flush, start_in, 
                      last_in, last_out, status, written, consumed, rest, n, 
                      empties, tin0 >>

caller == c0 \/ c1 \/ c2 \/ c3

(* Allow infinite stuttering to prevent deadlock on termination. *)
Terminating == /\ \A self \in ProcSet: pc[self] = "Done"
               /\ UNCHANGED vars

Next == caller
           \/ (\E self \in ProcSet: write_inner(self))
           \/ Terminating

Spec == /\ Init /\ [][Next]_vars
        /\ WF_vars(caller) /\ WF_vars(write_inner(1))

Termination == <>(\A self \in ProcSet: pc[self] = "Done")

\* END TRANSLATION

\* a write takes everything it is given (the loop only leaves when the input is exhausted)
AllConsumed == pc[1] = "c2" => ret = n
\* the returned count is what the compressor took during this call
Accounted == pc[1] \in {"c2", "c3"} => ret = comp.tin - tin0
\* no emitted byte is lost, duplicated or reordered on its way to the inner writer
SinkExact == pc[1] # "w2" => sink = emitted
\* after flush: ended, and the sink inflates to the data, for every chunking and every compressor
FinalOk == pc[1] = "c3" => comp.ended /\ sink = Expected(s)
              /\ WellFormed(SubSeq(sink, Len(sink) - N - 1, Len(sink)))
              /\ AbsInflate(SubSeq(sink, Len(sink) - N - 1, Len(sink))) = Data(s)
AtEnd == pc[1] = "Done" => sink = Expected(Streams)
Terminates == <>(pc[1] = "Done")
=============================================================================
