---------------------------- MODULE ObjFormat_Gen ----------------------------
(* Binding A for C01: TLC enumerates object values of the writable domain in  *)
(* six families and prints, per value, what the specification expects: the    *)
(* rendered bytes, the size, the loose header, the hash preimage and the       *)
(* value a decoder must give back (Canon).  The design-level laws             *)
(*   ParseObj(RenderObj(o)) = Canon(o),  SizeByParts(o) = Len(RenderObj(o))   *)
(* are invariants of the same run (with Bug_TimeSizeLadder = TRUE the second  *)
(* one fails: self-test).                                                     *)
(*  "ctime": commits, author or committer time over the boundary seconds      *)
(*           (0, +-1, +-9, +-(10^k - 1), +-10^k, +-(10^k + 1), i64 MIN/MAX)    *)
(*           x offsets;   "ttime": the same for a tag's tagger                 *)
(*  "cshape": parents 0..3 x extra-header shapes x encoding x messages x       *)
(*           identities;  "tshape": tagger y/n x target kinds x names x        *)
(*           messages x PGP block                                              *)
(*  "tree":  sorted subsets (<= 3) of seven entries, one per mode;  "blob"     *)
EXTENDS ObjFormat, Json, TLC
CONSTANTS Ks, Wide

\* ---------------------------------------------------------------- seconds
Pow10(k)   == <<49>> \o [i \in 1..k |-> 48]                          \* 10^k
Nines(k)   == [i \in 1..k |-> 57]                                    \* 10^k - 1
Pow10P1(k) == <<49>> \o [i \in 1..(k - 1) |-> 48] \o <<49>>          \* 10^k + 1
AbsPos == {<<49>>, <<57>>} \cup UNION {{Nines(k), Pow10(k), Pow10P1(k)} : k \in Ks} \cup {I64Max}
SecsSet == {<<48>>} \cup AbsPos \cup {<<MINUS>> \o a : a \in AbsPos} \cup {<<MINUS>> \o I64MinAbs}

Off(sign, hh, mm) == [sign |-> sign, hh |-> hh, mm |-> mm]
OffsQuick == {Off(PLUS, 0, 0), Off(MINUS, 0, 0), Off(PLUS, 0, 59), Off(MINUS, 12, 0), Off(PLUS, 99, 59)}
Offs == IF Wide THEN OffsQuick \cup {Off(PLUS, 5, 30), Off(MINUS, 9, 59), Off(PLUS, 10, 0)} ELSE OffsQuick
MkTime(secs, off) == [secs |-> secs, sign |-> off.sign, hh |-> off.hh, mm |-> off.mm]
T0 == MkTime(<<49,50,51,52,53,54,55,56,57,48>>, Off(PLUS, 1, 0))     \* 1234567890 +0100

\* ---------------------------------------------------------------- identities, ids
Id(n) == [i \in 1..40 |-> HexDigit((i * n + 3) % 16)]
Ident(name, email) == [name |-> name, email |-> email]
IdentsQuick == { Ident(<<65,32,85,32,84,104,111,114>>, <<97,64,120>>),          \* "A U Thor" "a@x"
                 Ident(<<>>, <<>>) }
Idents == IF Wide THEN IdentsQuick \cup { Ident(<<195,169,32,195,188>>, <<120,32,121,64,122>>),   \* "e' u:" "x y@z"
                                          Ident(<<97,46,98,45,99>>, <<>>) }                        \* "a.b-c" ""
          ELSE IdentsQuick
MkSig(id, t) == [name |-> id.name, email |-> id.email, time |-> t]
Sig0 == MkSig(Ident(<<67>>, <<99,64,120>>), T0)                                  \* "C" "c@x"

\* ---------------------------------------------------------------- extra headers, messages
H(name, value) == [name |-> name, value |-> value]
N_x == <<120>>                         \* x
N_gpgsig == <<103,112,103,115,105,103>>
N_mergetag == <<109,101,114,103,101,116,97,103>>
SigBlock == PgpBegin \o <<NL, NL>> \o <<105,81,69,61>> \o <<NL>> \o PgpEnd      \* BEGIN, empty line, "iQE=", END
ExtrasQuick == {
  <<>>,
  << H(N_x, <<118>>) >>,                                              \* one line
  << H(N_x, <<97, NL, 98>>) >>,                                       \* two lines, no final newline
  << H(N_x, <<97, NL, 98, NL>>) >>,                                   \* two lines, final newline
  << H(N_x, <<97, NL, NL, 98>>) >>,                                   \* inner empty line
  << H(N_gpgsig, SigBlock), H(N_x, <<118>>) >> }                      \* gpgsig-shaped, then one line
ExtrasWide == ExtrasQuick \cup {
  << H(N_x, <<118, NL>>) >>,                                          \* one line with final newline
  << H(N_x, <<97, NL, 32, 98>>) >>,                                   \* continuation starting with a space
  << H(N_x, <<49>>), H(N_x, <<50>>) >>,                               \* same name twice
  << H(N_gpgsig, SigBlock \o <<NL>>), H(N_gpgsig, SigBlock) >>,       \* two signature headers
  << H(N_mergetag, W_object \o <<SP>> \o Id(5) \o <<NL>> \o W_type \o <<SP>> \o W_commit \o <<NL, NL>> \o <<109, NL>>) >>,
  << H(N_x, <<97, NL, NL>>) >> }                                      \* ends with an empty line
Extras == IF Wide THEN ExtrasWide ELSE ExtrasQuick
MsgsQuick == { <<>>, <<109>>, <<109, NL>>, <<195,169,255,0,NL>> }
Msgs == IF Wide THEN MsgsQuick \cup { <<NL>>, <<115, NL, NL, 98, NL>>, <<32, 108>> } ELSE MsgsQuick
Encs == { [some |-> FALSE, v |-> <<>>], [some |-> TRUE, v |-> <<73,83,79,45,56,56,53,57,45,49>>] }   \* ISO-8859-1

MkCommit(np, author, committer, enc, extra, msg) ==
  [kind |-> "commit",
   v |-> [tree |-> Id(1), parents |-> [i \in 1..np |-> Id(i + 1)], author |-> author, committer |-> committer,
          encoding |-> enc, extra |-> extra, message |-> msg]]

\* ---------------------------------------------------------------- tags
TagNames == { <<118,49,46,48>>, <<97,47,98>>, <<195,169>> }                       \* v1.0  a/b  e'
TagMsgs == { <<>>, <<109>>, <<109, NL>>, <<109, NL, NL>>, <<195,169,255,NL>> }
Pgps == { [some |-> FALSE, v |-> <<>>], [some |-> TRUE, v |-> SigBlock \o <<NL>>] }
MkTag(kindw, name, tagger, msg, pgp) ==
  [kind |-> "tag", v |-> [target |-> Id(7), target_kind |-> kindw, name |-> name, tagger |-> tagger, message |-> msg, pgp |-> pgp]]

\* ---------------------------------------------------------------- trees, blobs
Rid(n) == [i \in 1..20 |-> (i * 7 + n) % 256]
TreePool == << [mode |-> ModeBlob,   name |-> <<97>>,      id |-> Rid(1)],          \* a
               [mode |-> ModeTree,   name |-> <<97,45>>,   id |-> Rid(2)],          \* a-  (dir)
               [mode |-> ModeTree,   name |-> <<97,98>>,   id |-> Rid(3)],          \* ab  (dir)
               [mode |-> ModeExe,    name |-> <<97,46>>,   id |-> Rid(4)],          \* a.
               [mode |-> ModeLink,   name |-> <<97,48>>,   id |-> Rid(5)],          \* a0
               [mode |-> ModeCommit, name |-> <<98,255>>,  id |-> Rid(6)],          \* b\xff
               [mode |-> ModeGroupW, name |-> <<195,169,32,1>>, id |-> Rid(7)] >>   \* "e' ^A"
Blobs == { <<>>, <<97>>, <<0,255,NL>>, [i \in 1..300 |-> (i * 13) % 256] }

\* ---------------------------------------------------------------- state machine
VARIABLES c, done
vars == <<c, done>>
Init == c = [f |-> "none"] /\ done = FALSE
Stage1 == /\ c.f = "none" /\ done' = FALSE
          /\ \/ \E s \in SecsSet : c' = [f |-> "ctime1", secs |-> s]
             \/ \E s \in SecsSet : c' = [f |-> "ttime1", secs |-> s]
             \/ \E np \in 0..3, e \in Encs : c' = [f |-> "cshape1", np |-> np, enc |-> e]
             \/ \E k \in KindWords : c' = [f |-> "tshape1", k |-> k]
             \/ c' = [f |-> "tree1"]
             \/ c' = [f |-> "blob1"]
Stage2 == /\ done' = TRUE
          /\ \/ /\ c.f = "ctime1"
                /\ \E off \in Offs, who \in {"author", "committer"} :
                     c' = [f |-> "ctime",
                           o |-> MkCommit(1, IF who = "author" THEN MkSig(Ident(<<65>>, <<97,64,120>>), MkTime(c.secs, off)) ELSE Sig0,
                                          IF who = "committer" THEN MkSig(Ident(<<65>>, <<97,64,120>>), MkTime(c.secs, off)) ELSE Sig0,
                                          [some |-> FALSE, v |-> <<>>], <<>>, <<109, NL>>)]
             \/ /\ c.f = "ttime1"
                /\ \E off \in Offs :
                     c' = [f |-> "ttime",
                           o |-> MkTag(W_commit, <<118,49>>, [some |-> TRUE, v |-> MkSig(Ident(<<65>>, <<97,64,120>>), MkTime(c.secs, off))],
                                       <<109, NL>>, [some |-> FALSE, v |-> <<>>])]
             \/ /\ c.f = "cshape1"
                /\ \E x \in Extras, m \in Msgs, id \in Idents, s \in {<<MINUS,49,48>>, T0.secs} :
                     c' = [f |-> "cshape",
                           o |-> MkCommit(c.np, MkSig(id, MkTime(s, Off(MINUS, 0, 0))), MkSig(id, T0), c.enc, x, m)]
             \/ /\ c.f = "tshape1"
                /\ \E n \in TagNames, m \in TagMsgs, p \in Pgps, tg \in BOOLEAN :
                     c' = [f |-> "tshape",
                           o |-> MkTag(c.k, n, IF tg THEN [some |-> TRUE, v |-> Sig0] ELSE [some |-> FALSE, v |-> Sig0], m, p)]
             \/ /\ c.f = "tree1"
                /\ \E S \in SUBSET (1..Len(TreePool)) :
                     /\ Cardinality(S) <= 3
                     /\ c' = [f |-> "tree",
                              o |-> [kind |-> "tree",
                                     v |-> [entries |-> SortEntries(SelectSeq(TreePool, LAMBDA e : \E i \in S : TreePool[i] = e))]]]
             \/ /\ c.f = "blob1"
                /\ \E d \in Blobs : c' = [f |-> "blob", o |-> [kind |-> "blob", v |-> [data |-> d]]]
Next == ~done /\ (Stage1 \/ Stage2)
Spec == Init /\ [][Next]_vars

InvDomain == done => ObjOk(c.o)
InvRoundTrip == done => LawRoundTrip(c.o)
InvCanon == done => LawCanonRendersSame(c.o)
InvSize == done => LawSize(c.o)

Emit == done => PrintT(<<"CASE", ToJson([family |-> c.f, o |-> c.o, canon |-> Canon(c.o), bytes |-> RenderObj(c.o),
                                          size |-> Len(RenderObj(c.o)), header |-> ObjHeader(c.o),
                                          preimage |-> ObjPreimage(c.o)])>>)
=============================================================================
