---------------------------- MODULE TreeOrder_Gen ----------------------------
(* Binding A for C03: every set of <= MaxEntries entries over the name         *)
(* universe (names that are prefixes of each other, continued by bytes below   *)
(* and above '/') with every assignment of modes from ModeSet.  Printed per    *)
(* set: the entries in enumeration order, the specification's sorted order,    *)
(* the tree bytes, the hash preimage, and the expected result of looking up    *)
(* every universe name (and some absent ones) as file and as directory.        *)
(* The laws of TreeOrder are invariants of the same run.                       *)
EXTENDS TreeOrder, Json, TLC
CONSTANTS MaxEntries, ModeClass, MoreNames

NameSeq0 == << <<97>>, <<98>>, <<97,98>>, <<97,45>>, <<97,46>>, <<97,48>>, <<97,1>>, <<97,255>> >>
\*              a       b       ab         a-         a.         a0         a^A       a\xff
NameSeq1 == << <<97,46,98>>, <<97,45,98>>, <<65>> >>          \* a.b  a-b  A
NameSeq == IF MoreNames THEN NameSeq0 \o NameSeq1 ELSE NameSeq0
ModeSeq == CASE ModeClass = 3 -> <<ModeTree, ModeBlob, ModeCommit>>
             [] ModeClass = 5 -> <<ModeTree, ModeBlob, ModeExe, ModeLink, ModeCommit>>
             [] OTHER -> <<ModeTree, ModeBlob, ModeExe, ModeLink, ModeCommit, ModeGroupW>>
Absent == << <<97,97>>, <<99>>, <<97,46,46>> >>               \* aa  c  a..
LookupNames == NameSeq \o Absent

IdOf(ni, mi) == [k \in 1..20 |-> IF k = 1 THEN ni ELSE IF k = 2 THEN mi ELSE (k * 11) % 256]

VARIABLES c, done
vars == <<c, done>>
Init == c = [stage |-> 0] /\ done = FALSE
Stage1 == /\ c.stage = 0 /\ done' = FALSE
          /\ \E S \in SUBSET (1..Len(NameSeq)) : Cardinality(S) <= MaxEntries /\ c' = [stage |-> 1, S |-> S]
Stage2 == /\ c.stage = 1 /\ done' = TRUE
          /\ \E m \in [c.S -> 1..Len(ModeSeq)] : c' = [stage |-> 2, S |-> c.S, m |-> m]
Next == ~done /\ (Stage1 \/ Stage2)
Spec == Init /\ [][Next]_vars

\* entries in enumeration order (name index ascending)
Idx == SelectSeq([i \in 1..Len(NameSeq) |-> i], LAMBDA i : i \in c.S)
Entries == [k \in 1..Len(Idx) |-> [mode |-> ModeSeq[c.m[Idx[k]]], name |-> NameSeq[Idx[k]], id |-> IdOf(Idx[k], c.m[Idx[k]])]]

Laws == done => LET es == Entries IN
  /\ InDomain(es)
  /\ LawTotalOrder(es)
  /\ LawSameAsGit(es)
  /\ LawSort(es)
  /\ LawBisect(es, {LookupNames[i] : i \in 1..Len(LookupNames)})

ExpectLookup(s, name, dir) ==
  LET i == Lookup(s, name, dir) IN
  [name |-> name, dir |-> dir, found |-> i > 0,
   mode |-> IF i > 0 THEN s[i].mode ELSE <<>>, id |-> IF i > 0 THEN s[i].id ELSE <<>>]

Emit == done =>
  LET es == Entries
      s == SortEntries(es)
  IN PrintT(<<"CASE", ToJson([entries |-> es, sorted |-> s, bytes |-> Render(s), preimage |-> Preimage(s),
                              size |-> Len(Render(s)), header |-> LooseHeader(TreeWord, Len(Render(s))),
                              special |-> SlashRuleMatters(es),
                              lookups |-> [k \in 1..(2 * Len(LookupNames)) |->
                                             ExpectLookup(s, LookupNames[(k + 1) \div 2], k % 2 = 0)]])>>)
=============================================================================
