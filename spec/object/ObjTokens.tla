------------------------------ MODULE ObjTokens ------------------------------
(* C02.  The token sequence a streaming decoder must yield for a commit or    *)
(* tag (and the entries for a tree), derived from the same reference grammar  *)
(* as ObjFormat!ParseObj, and the fields that can be read off the tokens.     *)
(*                                                                            *)
(* A token is [t, a, b, some, sig]:                                           *)
(*   commit: "tree"(a = hex) "parent"(a)* "author"(sig) "committer"(sig)      *)
(*           "encoding"(a)? "extra"(a = name, b = value)* "message"(a)        *)
(*   tag:    "target"(a) "kind"(a = word) "name"(a) "tagger"(some, sig)       *)
(*           "body"(a = message, some/b = signature)                          *)
(* A tag that ends right after its headers (no blank line) has no "body"      *)
(* token, and no "tagger" token either when there is no tagger line: a        *)
(* streaming decoder stops when the input is used up.  The fields read off    *)
(* such a sequence default to an empty message / no tagger / no signature.    *)
EXTENDS ObjFormat

Tok(t, a, b, some, sig) == [t |-> t, a |-> a, b |-> b, some |-> some, sig |-> sig]
TokA(t, a) == Tok(t, a, <<>>, FALSE, NoSig)
TokSig(t, s) == Tok(t, <<>>, <<>>, TRUE, s)

CommitTokens(c) ==
  <<TokA("tree", c.tree)>>
  \o [i \in 1..Len(c.parents) |-> TokA("parent", c.parents[i])]
  \o <<TokSig("author", c.author), TokSig("committer", c.committer)>>
  \o (IF c.encoding.some THEN <<TokA("encoding", c.encoding.v)>> ELSE <<>>)
  \o [i \in 1..Len(c.extra) |-> Tok("extra", c.extra[i].name, c.extra[i].value, FALSE, NoSig)]
  \o <<TokA("message", c.message)>>

\* does the tag end right after its header lines?
RECURSIVE CountLines(_, _, _)
CountLines(b, i, n) == LET l == LineAt(b, i) IN IF l.ok /\ l.line # <<>> THEN CountLines(b, l.next, n + 1) ELSE [n |-> n, next |-> i]
EndsAfterHeaders(b) == CountLines(b, 1, 0).next = Len(b) + 1

TagTokens(t, headersOnly) ==
  <<TokA("target", t.target), TokA("kind", t.target_kind), TokA("name", t.name)>>
  \o (IF headersOnly /\ ~t.tagger.some THEN <<>> ELSE <<Tok("tagger", <<>>, <<>>, t.tagger.some, t.tagger.v)>>)
  \o (IF headersOnly THEN <<>> ELSE <<Tok("body", t.message, t.pgp.v, t.pgp.some, NoSig)>>)

\* what the streaming decoder must yield for the bytes b of an object of the given kind
Tokens(kind, b) ==
  LET p == ParseObj(kind, b) IN
  CASE kind = "commit" -> CommitTokens(p.o.v)
    [] kind = "tag" -> TagTokens(p.o.v, EndsAfterHeaders(b))
    [] kind = "tree" -> p.o.v.entries
    [] OTHER -> <<>>

\* ---- the fields read off a token sequence
SelectT(ts, t) == SelectSeq(ts, LAMBDA k : k.t = t)
FirstOr(ts, dflt) == IF ts = <<>> THEN dflt ELSE ts[1]
CommitFields(ts) ==
  [tree |-> FirstOr(SelectT(ts, "tree"), TokA("tree", <<>>)).a,
   parents |-> [i \in 1..Len(SelectT(ts, "parent")) |-> SelectT(ts, "parent")[i].a],
   author |-> FirstOr(SelectT(ts, "author"), TokSig("author", NoSig)).sig,
   committer |-> FirstOr(SelectT(ts, "committer"), TokSig("committer", NoSig)).sig,
   encoding |-> IF SelectT(ts, "encoding") = <<>> THEN [some |-> FALSE, v |-> <<>>] ELSE [some |-> TRUE, v |-> SelectT(ts, "encoding")[1].a],
   extra |-> [i \in 1..Len(SelectT(ts, "extra")) |-> [name |-> SelectT(ts, "extra")[i].a, value |-> SelectT(ts, "extra")[i].b]],
   message |-> FirstOr(SelectT(ts, "message"), TokA("message", <<>>)).a]
TagFields(ts) ==
  LET tg == FirstOr(SelectT(ts, "tagger"), Tok("tagger", <<>>, <<>>, FALSE, NoSig))
      bd == FirstOr(SelectT(ts, "body"), Tok("body", <<>>, <<>>, FALSE, NoSig)) IN
  [target |-> FirstOr(SelectT(ts, "target"), TokA("target", <<>>)).a,
   target_kind |-> FirstOr(SelectT(ts, "kind"), TokA("kind", <<>>)).a,
   name |-> FirstOr(SelectT(ts, "name"), TokA("name", <<>>)).a,
   tagger |-> [some |-> tg.some, v |-> IF tg.some THEN tg.sig ELSE NoSig],
   message |-> bd.a,
   pgp |-> [some |-> bd.some, v |-> IF bd.some THEN bd.b ELSE <<>>]]
Fields(kind, ts) == CASE kind = "commit" -> CommitFields(ts)
                      [] kind = "tag" -> TagFields(ts)
                      [] kind = "tree" -> [entries |-> ts]
                      [] OTHER -> <<>>

\* the judged domain: bytes in the canonical git format (what git itself writes)
Canonical(kind, b) == LET p == ParseObj(kind, b) IN p.ok /\ RenderObj(p.o) = b

\* ---- laws (checked by ObjTokens_Gen on every rendered value)
LawSameFields(kind, b) == LET p == ParseObj(kind, b) IN p.ok /\ Fields(kind, Tokens(kind, b)) = p.o.v
LawReencode(kind, b) == Canonical(kind, b)
=============================================================================
