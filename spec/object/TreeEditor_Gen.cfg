SPECIFICATION Spec
CONSTANTS
  MaxOps = 3
  Level = 1
  TreeObj <- TreeObjDef
INVARIANTS
  InvWellFormed
  Emit
CHECK_DEADLOCK FALSE
