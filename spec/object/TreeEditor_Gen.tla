---------------------------- MODULE TreeEditor_Gen ----------------------------
(* Design check + binding A for C04: every edit history of <= MaxOps steps     *)
(* over a small colliding path alphabet, closed by a write.  TLC checks that   *)
(* the abstract state stays well-formed and prints each history with the flat  *)
(* tree every write must produce.                                              *)
EXTENDS TreeEditor, Json

CONSTANTS MaxOps, Level    \* Level 1: narrow alphabet, 2: all entry kinds, 3: + placeholders, links, set_root, deeper cursor

\* blob a < a- < a0 but tree a ("a/") sorts between a- and a0: type changes of `a` move it
\* `a-/b` makes `a-` a sibling *directory* whose name merely starts with `a` (pending edits of one must survive edits of the other)
P == { <<"a">>, <<"a-">>, <<"a0">>, <<"a","b">>, <<"a","c">>, <<"a","b","c">>, <<"a-","b">> }
CursorAt == IF Level = 1 THEN { <<"a">> } ELSE { <<"a">>, <<"a","b">> }
CursorRel == { <<"b">>, <<"c">>, <<"b","c">> }
KindsNarrow == { <<"blob","B1">>, <<"tree","T1">> }
KindsQuick == KindsNarrow \cup { <<"exe","B2">>, <<"commit","C1">> }
KindsWide == KindsQuick \cup { <<"link","B1">>, <<"blob","null">>, <<"blob","B2">> }
Kinds == CASE Level = 1 -> KindsNarrow [] Level = 2 -> KindsQuick [] OTHER -> KindsWide
Roots == { "EMPTY", "R1" }

Ops == { [op |-> "upsert", path |-> p, kind |-> k[1], id |-> k[2]] : p \in P, k \in Kinds }
  \cup { [op |-> "remove", path |-> p] : p \in P }
  \cup { [op |-> "write"] }
  \cup { [op |-> "setroot", id |-> r] : r \in IF Level = 1 THEN {} ELSE Roots }
  \cup { [op |-> "cupsert", at |-> q, path |-> p, kind |-> k[1], id |-> k[2]] : q \in CursorAt, p \in CursorRel, k \in Kinds }
  \cup { [op |-> "cremove", at |-> q, path |-> p] : q \in CursorAt, p \in CursorRel }
  \cup { [op |-> "cwrite", at |-> q] : q \in CursorAt }

\* the known tree objects: T1 may be inserted by id, R1 is a git-created starting root
TreeObjDef ==
  [ t \in {"T1", "R1", "EMPTY"} |->
      IF t = "T1" THEN { [path |-> <<"c">>, kind |-> "blob", id |-> "B1"], [path |-> <<"d">>, kind |-> "blob", id |-> "B2"] }
      ELSE IF t = "R1" THEN { [path |-> <<"a","b">>, kind |-> "blob", id |-> "B1"], [path |-> <<"a0">>, kind |-> "exe", id |-> "B2"],
                              [path |-> <<"a","c","d">>, kind |-> "blob", id |-> "B2"] }
      ELSE {} ]

VARIABLES F, hist, done, root
vars == <<F, hist, done, root>>

Init == /\ root \in Roots /\ F = TreeObj[root] /\ hist = <<>> /\ done = FALSE
Step == /\ ~done /\ Len(hist) < MaxOps
        /\ \E op \in Ops :
             LET r == Apply(F, op) IN
             /\ F' = r.F
             /\ hist' = Append(hist, [op |-> op, wrote |-> r.wrote, out |-> r.out])
        /\ UNCHANGED <<done, root>>
\* every history is closed by a final write of the whole tree
Finish == /\ ~done /\ hist # <<>>
          /\ done' = TRUE
          /\ hist' = Append(hist, [op |-> [op |-> "write"], wrote |-> TRUE, out |-> Result(F)])
          /\ F' = Result(F) /\ UNCHANGED root
Next == Step \/ Finish
Spec == Init /\ [][Next]_vars

InvWellFormed == WellFormed(F)
Emit == done => PrintT(<<"CASE", ToJson([root |-> root, steps |-> hist])>>)
=============================================================================
