------------------------------ MODULE TreeOrder ------------------------------
(* C03.  The order of entries in a git tree object, the tree's bytes, and     *)
(* lookup of a name as a file or as a directory.                              *)
(*                                                                            *)
(* An entry is [mode, name, id]: mode is the octal text written into the tree *)
(* ("40000", "100644", ...) as bytes, name a NUL- and slash-free byte string, *)
(* id 20 raw bytes.  git (tree.c / read-cache.c: base_name_compare) orders    *)
(* entries by their name bytes, a directory comparing as if its name ended    *)
(* in '/'.  For slash-free names that is the byte order of Key(e).            *)
(* SHA-1 is not interpreted here: Preimage(es) is the byte string whose hash  *)
(* is the tree's id.                                                          *)
EXTENDS Bytes

SLASH == 47  SP == 32  NUL == 0
ModeTree   == <<52,48,48,48,48>>             \* 40000
ModeBlob   == <<49,48,48,54,52,52>>          \* 100644
ModeExe    == <<49,48,48,55,53,53>>          \* 100755
ModeLink   == <<49,50,48,48,48,48>>          \* 120000
ModeCommit == <<49,54,48,48,48,48>>          \* 160000 (gitlink: ordered like a file)
ModeGroupW == <<49,48,48,54,54,52>>          \* 100664 (legacy blob mode, kept verbatim)
Modes == {ModeTree, ModeBlob, ModeExe, ModeLink, ModeCommit, ModeGroupW}

IsTree(mode) == mode = ModeTree
NameOk(n) == Len(n) > 0 /\ ~HasByte(n, NUL) /\ ~HasByte(n, SLASH)

Key(e) == e.name \o (IF IsTree(e.mode) THEN <<SLASH>> ELSE <<>>)
EntryCmp(a, b) == Cmp(Key(a), Key(b))
EntryLess(a, b) == EntryCmp(a, b) < 0

\* git's base_name_compare, transcribed literally: memcmp over the common length, then ONE more
\* byte of each side, where a name that ended counts as '/' for a directory and as NUL otherwise.
ByteAt(e, i) == IF i <= Len(e.name) THEN e.name[i] ELSE IF IsTree(e.mode) THEN SLASH ELSE NUL
GitBaseNameCompare(a, b) ==
  LET len == Min2(Len(a.name), Len(b.name))
      c == Cmp(SubSeq(a.name, 1, len), SubSeq(b.name, 1, len))
  IN IF c # 0 THEN c
     ELSE IF ByteAt(a, len + 1) < ByteAt(b, len + 1) THEN -1
     ELSE IF ByteAt(a, len + 1) > ByteAt(b, len + 1) THEN 1 ELSE 0

Sorted(es) == \A i \in 1..(Len(es) - 1) : EntryLess(es[i], es[i + 1])

\* insertion sort; the result is unique when the keys are distinct
RECURSIVE Insert(_, _, _)
Insert(sorted, e, i) ==                        \* insert e at the first position i.. whose entry is not less
  IF i > Len(sorted) \/ ~EntryLess(sorted[i], e)
  THEN SubSeq(sorted, 1, i - 1) \o <<e>> \o SubSeq(sorted, i, Len(sorted))
  ELSE Insert(sorted, e, i + 1)
RECURSIVE SortFrom(_, _, _)
SortFrom(es, i, acc) == IF i > Len(es) THEN acc ELSE SortFrom(es, i + 1, Insert(acc, es[i], 1))
SortEntries(es) == SortFrom(es, 1, <<>>)

\* the domain of the property: valid names, each name at most once
DistinctNames(es) == \A i, j \in 1..Len(es) : i # j => es[i].name # es[j].name
InDomain(es) == DistinctNames(es) /\ \A i \in 1..Len(es) : NameOk(es[i].name) /\ es[i].mode \in Modes /\ Len(es[i].id) = 20

\* the tree object
RenderEntry(e) == e.mode \o <<SP>> \o e.name \o <<NUL>> \o e.id
RECURSIVE RenderFrom(_, _, _)
RenderFrom(es, i, acc) == IF i > Len(es) THEN acc ELSE RenderFrom(es, i + 1, acc \o RenderEntry(es[i]))
Render(es) == RenderFrom(es, 1, <<>>)
TreeWord == <<116,114,101,101>>                                     \* "tree"
LooseHeader(kindword, n) == kindword \o <<SP>> \o DecNat(n) \o <<NUL>>
Preimage(es) == LooseHeader(TreeWord, Len(Render(es))) \o Render(es)     \* id = SHA-1(Preimage)

\* lookup by linear scan: index of the entry of that name and kind, 0 if there is none
RECURSIVE LookupFrom(_, _, _, _)
LookupFrom(es, name, isDir, i) ==
  IF i > Len(es) THEN 0
  ELSE IF es[i].name = name /\ IsTree(es[i].mode) = isDir THEN i
  ELSE LookupFrom(es, name, isDir, i + 1)
Lookup(es, name, isDir) == LookupFrom(es, name, isDir, 1)

\* design statement: a binary search by the search key (name, isDir) over a sorted tree finds
\* exactly what the linear scan finds
SearchKey(name, isDir) == name \o (IF isDir THEN <<SLASH>> ELSE <<>>)
RECURSIVE Bisect(_, _, _, _)
Bisect(es, k, lo, hi) ==                                             \* search es[lo..hi]
  IF lo > hi THEN 0
  ELSE LET mid == (lo + hi) \div 2
           c == Cmp(Key(es[mid]), k)
       IN IF c = 0 THEN mid ELSE IF c < 0 THEN Bisect(es, k, mid + 1, hi) ELSE Bisect(es, k, lo, mid - 1)
BisectLookup(es, name, isDir) == Bisect(es, SearchKey(name, isDir), 1, Len(es))

\* the directory rule decides the relative order of some pair (coverage classification)
SlashRuleMatters(es) == \E i, j \in 1..Len(es) : EntryLess(es[i], es[j]) # Less(es[i].name, es[j].name)

\* ---- laws, checked by TreeOrder_Gen on every enumerated entry set
LawTotalOrder(es) ==
  /\ \A i, j \in 1..Len(es) : i # j => (EntryLess(es[i], es[j]) <=> ~EntryLess(es[j], es[i]))
  /\ \A i, j, k \in 1..Len(es) : (EntryLess(es[i], es[j]) /\ EntryLess(es[j], es[k])) => EntryLess(es[i], es[k])
LawSameAsGit(es) == \A i, j \in 1..Len(es) : EntryCmp(es[i], es[j]) = GitBaseNameCompare(es[i], es[j])
LawSort(es) == LET s == SortEntries(es) IN
  /\ Sorted(s) /\ Len(s) = Len(es)
  /\ \A i \in 1..Len(es) : \E j \in 1..Len(s) : s[j] = es[i]
LawBisect(es, names) == LET s == SortEntries(es) IN
  \A n \in names, d \in BOOLEAN : BisectLookup(s, n, d) = Lookup(s, n, d)
=============================================================================
