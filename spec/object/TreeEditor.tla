------------------------------ MODULE TreeEditor ------------------------------
(* C04.  What a tree editor must compute: the abstract meaning of a history   *)
(* of upserts, removals, cursor edits, set_root and intermediate writes.      *)
(*                                                                            *)
(* A tree is represented *flat*: a set of leaf entries [path, kind, id] with  *)
(* pairwise unrelated paths (no path is a prefix of another) - exactly the    *)
(* "set of paths" from which `git mktree`/`git write-tree` build the nested   *)
(* trees.  Directories exist only through the leaves below them, so "a        *)
(* directory that becomes empty disappears" and "type changes are honoured"   *)
(* are built into the representation.  Ids are opaque (SHA-1 is not           *)
(* modelled): "null" is the placeholder id, TreeObj gives the flat content of *)
(* the tree objects that may be inserted by id.                               *)
EXTENDS Integers, Sequences, FiniteSets, TLC

CONSTANT TreeObj        \* [tree id -> flat set of entries]: known tree objects

IsPrefix(a, b) == Len(a) <= Len(b) /\ SubSeq(b, 1, Len(a)) = a
Related(a, b) == IsPrefix(a, b) \/ IsPrefix(b, a)
DropN(s, n) == SubSeq(s, n + 1, Len(s))

WellFormed(F) == \A e, f \in F : e # f => ~Related(e.path, f.path)

Expand(p, kind, id) ==
  IF kind = "tree"
  THEN { [path |-> p \o e.path, kind |-> e.kind, id |-> e.id] : e \in TreeObj[id] }
  ELSE { [path |-> p, kind |-> kind, id |-> id] }

\* upsert: the new entry shadows a file at any prefix of p and everything at or below p
Upsert(F, p, kind, id) == { e \in F : ~Related(e.path, p) } \cup Expand(p, kind, id)

\* remove: everything at or below p goes; a file at a prefix of p means p does not exist
Remove(F, p) == { e \in F : ~IsPrefix(p, e.path) }

\* cursor_at(q): q becomes a (possibly empty) directory - a file at q or at a prefix of q goes
AssureTree(F, q) == { e \in F : ~IsPrefix(e.path, q) }

\* what a write produces: placeholders (null ids) are not written
Result(F) == { e \in F : e.id # "null" }
SubResult(F, q) == { [path |-> DropN(e.path, Len(q)), kind |-> e.kind, id |-> e.id] :
                       e \in { f \in Result(F) : IsPrefix(q, f.path) } }
\* state after a cursor write at q: placeholders below q are gone
AfterCursorWrite(F, q) == { e \in F : IsPrefix(q, e.path) => e.id # "null" }

\* One step of the editor.  op is a record; `out` is what a write returns (flat), else {}.
Apply(F, op) ==
  CASE op.op = "upsert"  -> [F |-> Upsert(F, op.path, op.kind, op.id), wrote |-> FALSE, out |-> {}]
    [] op.op = "remove"  -> [F |-> Remove(F, op.path), wrote |-> FALSE, out |-> {}]
    [] op.op = "write"   -> [F |-> Result(F), wrote |-> TRUE, out |-> Result(F)]
    [] op.op = "setroot" -> [F |-> TreeObj[op.id], wrote |-> FALSE, out |-> {}]
    [] op.op = "cupsert" -> [F |-> Upsert(AssureTree(F, op.at), op.at \o op.path, op.kind, op.id), wrote |-> FALSE, out |-> {}]
    [] op.op = "cremove" -> [F |-> Remove(AssureTree(F, op.at), op.at \o op.path), wrote |-> FALSE, out |-> {}]
    [] op.op = "cwrite"  -> [F |-> AfterCursorWrite(AssureTree(F, op.at), op.at), wrote |-> TRUE,
                             out |-> SubResult(AssureTree(F, op.at), op.at)]
    [] OTHER -> Assert(FALSE, <<"unknown op", op>>)

\* -------- canonical order of the entries of one tree (git's base_name_compare) --------
\* names are byte sequences here; a tree entry compares as if its name ended in '/'
RECURSIVE CmpFrom(_, _, _)
CmpFrom(a, b, i) ==
  IF i > Len(a) /\ i > Len(b) THEN 0
  ELSE IF i > Len(a) THEN -1
  ELSE IF i > Len(b) THEN 1
  ELSE IF a[i] < b[i] THEN -1
  ELSE IF a[i] > b[i] THEN 1
  ELSE CmpFrom(a, b, i + 1)
Key(e) == IF e.tree THEN e.name \o <<47>> ELSE e.name
EntryLess(a, b) == CmpFrom(Key(a), Key(b), 1) < 0
SortedTree(es) == \A i \in 1..(Len(es) - 1) : EntryLess(es[i], es[i + 1])
=============================================================================
