SPECIFICATION Spec
CONSTANTS
  Wide = FALSE
  Bug_TimeSizeLadder = FALSE
INVARIANTS
  InvDomain
  InvParse
  InvSameFields
  InvReencode
  Emit
CHECK_DEADLOCK FALSE
