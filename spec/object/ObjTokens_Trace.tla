--------------------------- MODULE ObjTokens_Trace ---------------------------
(* Binding B for C02: TLC is the reference decoder for objects git made.      *)
(* One event per object (see harness/crates/vh-c02):                          *)
(*   kind, bytes        what `git cat-file` returned                          *)
(*   gid                the object's name in git's database (20 raw bytes)    *)
(*   full   [ok, v, offsets]   CommitRef/TagRef/TreeRef::from_bytes           *)
(*   iter   [ok, tokens]       CommitRefIter/TagRefIter/TreeRefIter           *)
(*   helpers                   the iterators' convenience accessors           *)
(*   reenc_ref, reenc [ok, bytes, size(, id)]   re-encoded borrowed / owned   *)
(*   id_in              compute_hash(kind, bytes)                             *)
(* DomainOnly = TRUE only asks whether the specification's grammar covers the *)
(* bytes (a git-made object it does not cover is a gap of this tool).         *)
EXTENDS ObjTokens, TraceIO
CONSTANT DomainOnly

VARIABLE l
Init == l = 1
Next == l <= NRec /\ l' = l + 1
Spec == Init /\ [][Next]_l

HeadersOnlyTag(r) == r.kind = "tag" /\ EndsAfterHeaders(r.bytes)
InSpec(r) == LET p == ParseObj(r.kind, r.bytes) IN
  /\ p.ok
  /\ \/ RenderObj(p.o) = r.bytes
     \/ HeadersOnlyTag(r) /\ RenderObj(p.o) = r.bytes \o <<NL>>

TimesOf(o) == CASE o.kind = "commit" -> <<o.v.author.time, o.v.committer.time>>
                [] o.kind = "tag" -> IF o.v.tagger.some THEN <<o.v.tagger.v.time>> ELSE <<>>
                [] OTHER -> <<>>
OffsetOk(obs, t) == obs.sign = t.sign /\ obs.offset = (IF t.sign = MINUS THEN -1 ELSE 1) * (t.hh * 3600 + t.mm * 60)

HelpersOk(r, v) ==
  CASE r.kind = "commit" ->
         /\ r.helpers.tree_id = v.tree
         /\ r.helpers.parent_ids = v.parents
         /\ r.helpers.author = [some |-> TRUE, v |-> v.author]
         /\ r.helpers.committer = [some |-> TRUE, v |-> v.committer]
         /\ r.helpers.message = v.message
    [] r.kind = "tag" ->
         /\ r.helpers.target_id = v.target
         /\ r.helpers.tagger = v.tagger
    [] OTHER -> TRUE

Conforms(r) ==
  LET p == ParseObj(r.kind, r.bytes)
      ts == TimesOf(p.o) IN
  /\ r.full.ok /\ r.full.v = p.o.v                                   \* the full decoder reports the fields
  /\ Len(r.full.offsets) = Len(ts) /\ \A k \in 1..Len(ts) : OffsetOk(r.full.offsets[k], ts[k])
  /\ r.iter.ok /\ r.iter.tokens = Tokens(r.kind, r.bytes)            \* the streaming decoder yields the tokens
  /\ Fields(r.kind, r.iter.tokens) = r.full.v                        \* both report the same fields
  /\ HelpersOk(r, p.o.v)
  /\ r.reenc_ref.ok /\ r.reenc_ref.bytes = r.bytes /\ r.reenc_ref.size = Len(r.bytes)   \* re-encodes verbatim
  /\ r.reenc.ok /\ r.reenc.bytes = r.bytes /\ r.reenc.size = Len(r.bytes)
  /\ r.reenc.id = r.gid /\ r.id_in = r.gid                           \* and to the same id

Judge(r) == InSpec(r) /\ (DomainOnly \/ Conforms(r))

EventOk == l <= NRec => (Judge(Rec[l]) \/ PrintT(<<"REJECT", l>>))
=============================================================================
