SPECIFICATION Spec
CONSTANTS
  TreeObj <- TreeObjDef
INVARIANT InvWellFormed
POSTCONDITION TraceAccepted
CHECK_DEADLOCK FALSE
