--------------------------- MODULE TreeEditor_Trace ---------------------------
(* Binding B for C04: histories executed by the real editor, accepted only if  *)
(* every write produced exactly the flat tree the specification computes and   *)
(* every tree handed to the `out` callback is canonically sorted.              *)
(* Events:  [ev |-> "reset", root]                                             *)
(*          [ev |-> "op", op, wrote, flat]     (flat = observed result if wrote)*)
(*          [ev |-> "tree", entries]           (entries = <<[name, tree]>>)     *)
EXTENDS TreeEditor, TraceIO

TreeObjDef ==
  [ t \in {"T1", "R1", "EMPTY"} |->
      IF t = "T1" THEN { [path |-> <<"c">>, kind |-> "blob", id |-> "B1"], [path |-> <<"d">>, kind |-> "blob", id |-> "B2"] }
      ELSE IF t = "R1" THEN { [path |-> <<"a","b">>, kind |-> "blob", id |-> "B1"], [path |-> <<"a0">>, kind |-> "exe", id |-> "B2"],
                              [path |-> <<"a","c","d">>, kind |-> "blob", id |-> "B2"] }
      ELSE {} ]

VARIABLES l, F
vars == <<l, F>>
ToSet(s) == { s[i] : i \in 1..Len(s) }

Init == l = 1 /\ F = {}
Reset == Rec[l].ev = "reset" /\ F' = TreeObj[Rec[l].root]
Op == /\ Rec[l].ev = "op"
      /\ LET r == Apply(F, Rec[l].op) IN
           /\ F' = r.F
           /\ Rec[l].wrote = r.wrote
           /\ (r.wrote => ToSet(Rec[l].flat) = r.out /\ Len(Rec[l].flat) = Cardinality(r.out))
TreeEv == Rec[l].ev = "tree" /\ SortedTree(Rec[l].entries) /\ UNCHANGED F
Next == l <= NRec /\ l' = l + 1 /\ (Reset \/ Op \/ TreeEv)
Spec == Init /\ [][Next]_vars
InvWellFormed == WellFormed(F)
=============================================================================
