--------------------------- MODULE ObjFormat_Trace ---------------------------
(* Binding B for C01: what the real encoder/decoder did with a value, judged  *)
(* by the specification.  One event (see harness/crates/vh-c01):              *)
(*   o            the value handed to gitoxide                                *)
(*   write_ok, bytes, size, header, id     WriteTo::write_to / size /         *)
(*                loose_header, compute_hash(bytes)                           *)
(*   sha1         evaluator: SHA-1(header \o bytes) of the OBSERVED bytes     *)
(*   times        per time in o: [secs, size, written] (Time::size/write_to)  *)
(*   decode_ok, decoded, offsets           ObjectRef::from_bytes(bytes)       *)
(*   ref_ok, ref_size, ref_bytes           the decoded *Ref re-encoded        *)
(*   has_loose, loose_ok, loose, loose_id, sha1_loose                         *)
(*                loose::Store::write: inflated file content, returned id,    *)
(*                evaluator's SHA-1 of that content                           *)
(* DomainOnly = TRUE judges only whether the value is in the writable domain  *)
(* (used by the driver to tell a generator slip from a violation).            *)
EXTENDS ObjFormat, TraceIO
CONSTANT DomainOnly

VARIABLE l
Init == l = 1
Next == l <= NRec /\ l' = l + 1
Spec == Init /\ [][Next]_l

TimesOf(o) == CASE o.kind = "commit" -> <<o.v.author.time, o.v.committer.time>>
                [] o.kind = "tag" -> IF o.v.tagger.some THEN <<o.v.tagger.v.time>> ELSE <<>>
                [] OTHER -> <<>>

JudgeTime(obs, t) ==
  /\ obs.written = RenderTime(t)
  /\ obs.size = Len(RenderTime(t))
JudgeOffset(obs, t) ==
  /\ obs.sign = t.sign /\ obs.hh = t.hh /\ obs.mm = t.mm
  /\ obs.offset = (IF t.sign = MINUS THEN -1 ELSE 1) * (t.hh * 3600 + t.mm * 60)

Conforms(r) ==
  LET b == RenderObj(r.o)
      ts == TimesOf(r.o) IN
  /\ r.write_ok
  /\ r.bytes = b
  /\ r.size = Len(b)                                   \* the declared size is the number of bytes written
  /\ r.header = ObjHeader(r.o)
  /\ r.id = r.sha1                                     \* the id is git's: SHA-1 over header and bytes
  /\ Len(r.times) = Len(ts) /\ \A k \in 1..Len(ts) : JudgeTime(r.times[k], ts[k])
  /\ r.decode_ok /\ r.decoded = Canon(r.o)             \* decodes back to an equal value
  /\ Len(r.offsets) = Len(ts) /\ \A k \in 1..Len(ts) : JudgeOffset(r.offsets[k], ts[k])
  /\ r.ref_ok /\ r.ref_bytes = b /\ r.ref_size = Len(b)
  /\ r.has_loose => /\ r.loose_ok
                    /\ r.loose = ObjPreimage(r.o)      \* what lands in the object database
                    /\ r.loose_id = r.sha1_loose /\ r.loose_id = r.id

Judge(r) == ObjOk(r.o) /\ (DomainOnly \/ Conforms(r))

EventOk == l <= NRec => (Judge(Rec[l]) \/ PrintT(<<"REJECT", l>>))
=============================================================================
