--------------------------- MODULE HexPrefix_Trace ---------------------------
(* Binding B for C05: TLC is the reference evaluator for observations made on *)
(* the real gix-hash types with seeded random ids, lengths, candidates and    *)
(* texts.  One event:                                                         *)
(*   id, cands : nibble sequences; n : Nat; texts : byte sequences            *)
(*   hex, hex_display, hex_with_len : bytes printed for id                    *)
(*   new      : observation of Prefix::new(id, n)                             *)
(*   fromtext : per text, p = observation of Prefix::from_hex(text),          *)
(*              id = [ok, nibs] of ObjectId::from_hex(text), eq_new, utf8     *)
(* An observation of a prefix is [ok, err, hex_len, display, as_oid, cmps].   *)
EXTENDS HexPrefix, TraceIO

VARIABLE l
Init == l = 1
Next == l <= NRec /\ l' = l + 1
Spec == Init /\ [][Next]_l

JudgeP(o, ok, errs, p, cands) ==
  /\ o.ok = ok
  /\ ok => /\ o.hex_len = Len(p)
           /\ o.display = Display(p)
           /\ o.as_oid = AsOid(p)
           /\ Len(o.cmps) = Len(cands)
           /\ \A k \in 1..Len(cands) : o.cmps[k] = CmpOid(p, cands[k])
  /\ ~ok => o.err \in errs

JudgeText(r, o, t) ==
  /\ o.id.ok = IdFromHexOk(t)
  /\ o.id.ok => o.id.nibs = IdFromHex(t)
  /\ o.utf8 => /\ JudgeP(o.p, PrefixFromHexOk(t), FromHexErrs(t), PrefixFromHex(t), r.cands)
               \* cut from the id or parsed from text: equal exactly when the digits are the same
               /\ (o.p.ok /\ r.new.ok) => (o.eq_new <=> (PrefixFromHex(t) = PrefixNew(r.id, r.n)))

Judge(r) ==
  /\ r.hex = ToHex(r.id)
  /\ r.hex_display = ToHex(r.id)
  /\ r.hex_with_len = SubSeq(ToHex(r.id), 1, Min2(r.n, IdLen))
  /\ JudgeP(r.new, PrefixNewOk(r.n), NewErrs(r.n), PrefixNew(r.id, r.n), r.cands)
  /\ Len(r.fromtext) = Len(r.texts)
  /\ \A k \in 1..Len(r.texts) : JudgeText(r, r.fromtext[k], r.texts[k])

EventOk == l <= NRec => (Judge(Rec[l]) \/ PrintT(<<"REJECT", l>>))
=============================================================================
