SPECIFICATION Spec
CONSTANTS
  MaxEntries = 4
  ModeClass = 3
  MoreNames = FALSE
INVARIANTS
  Laws
  Emit
CHECK_DEADLOCK FALSE
